package main

// C15 component `limiter`: timed arrival histories on the real limiter.NewClientLimiter
// (the time is a parameter of AllowN, so virtual time works).
//
// case : lim=<int> burst=<int> v4=<int> v6=<int> ev=<step>,...
//        <step> = <addr>/<t_ns>/<n> (an arrival) | gc/<t_ns> (one gc pass)
//        <addr> = 4<8 hex> | 6<32 hex>[%zone]
// out  : d=<0|1>* len=<number of buckets after each gc pass, '.'-separated, or ->
//
// gc() reads the wall clock.  A case may therefore contain gc passes at ONE virtual instant G
// only: the virtual time axis is laid over the real one so that G is "now" when the pass runs
// (arrivals simply carry time stamps in the past or in the future).  The generator keeps every
// gc-relevant boundary (lastSeen+1min, the instant a bucket is full again) and every later
// arrival at least 2 s away from G; the run is repeated if it took longer than 1.5 s.

import (
	"encoding/hex"
	"fmt"
	"math/big"
	"math/rand"
	"net/netip"
	"sort"
	"strconv"
	"strings"
	"time"

	"github.com/IrineSistiana/mosproxy/internal/limiter"
)

// every virtual instant is base+t; far (> 292 years) from the zero time.Time like any real clock reading
var c15base = time.Unix(1_700_000_000, 0)

type c15ev struct {
	addr netip.Addr
	t    int64
	n    int
	gc   bool // a gc pass at t
}

func c15addrStr(a netip.Addr) string {
	if a.Is4() {
		b := a.As4()
		return "4" + hex.EncodeToString(b[:])
	}
	b := a.As16()
	s := "6" + hex.EncodeToString(b[:])
	if z := a.Zone(); z != "" {
		s += "%" + z
	}
	return s
}

func c15parseAddr(s string) (netip.Addr, bool) {
	if len(s) == 9 && s[0] == '4' {
		b, err := hex.DecodeString(s[1:])
		if err != nil {
			return netip.Addr{}, false
		}
		return netip.AddrFrom4([4]byte(b)), true
	}
	if len(s) >= 33 && s[0] == '6' {
		body, zone, _ := strings.Cut(s[1:], "%")
		b, err := hex.DecodeString(body)
		if err != nil || len(b) != 16 {
			return netip.Addr{}, false
		}
		a := netip.AddrFrom16([16]byte(b))
		if zone != "" {
			a = a.WithZone(zone)
		}
		return a, true
	}
	return netip.Addr{}, false
}

func c15parseEvs(s string) ([]c15ev, bool) {
	if s == "-" || s == "" {
		return nil, true
	}
	var evs []c15ev
	for _, p := range strings.Split(s, ",") {
		f := strings.Split(p, "/")
		if len(f) == 2 && f[0] == "gc" {
			t, err := strconv.ParseInt(f[1], 10, 64)
			if err != nil {
				return nil, false
			}
			evs = append(evs, c15ev{t: t, gc: true})
			continue
		}
		if len(f) != 3 {
			return nil, false
		}
		a, ok := c15parseAddr(f[0])
		if !ok {
			return nil, false
		}
		t, err1 := strconv.ParseInt(f[1], 10, 64)
		n, err2 := strconv.Atoi(f[2])
		if err1 != nil || err2 != nil {
			return nil, false
		}
		evs = append(evs, c15ev{addr: a, t: t, n: n})
	}
	return evs, true
}

func c15run(cs string) string {
	m := kv(cs)
	evs, ok := c15parseEvs(m["ev"])
	if !ok {
		return "bad-case"
	}
	gcAt := int64(-1)
	for _, e := range evs {
		if e.gc {
			if gcAt >= 0 && gcAt != e.t {
				return "bad-case" // one gc instant per case
			}
			gcAt = e.t
		}
	}
	res := ""
	for try := 0; try < 6; try++ {
		start := time.Now()
		base := c15base
		if gcAt >= 0 {
			base = start.Add(-time.Duration(gcAt))
		}
		cl := limiter.NewClientLimiter(limiter.ClientLimiterOpts{
			Limit:  float64(atoi(m["lim"])),
			Burst:  atoi(m["burst"]),
			V4Mask: atoi(m["v4"]),
			V6Mask: atoi(m["v6"]),
		})
		var b strings.Builder
		var lens []string
		b.WriteString("d=")
		for _, e := range evs {
			if e.gc {
				cl.VerifGC()
				lens = append(lens, strconv.Itoa(cl.VerifLen()))
				continue
			}
			if cl.AllowN(e.addr, base.Add(time.Duration(e.t)), e.n) {
				b.WriteByte('1')
			} else {
				b.WriteByte('0')
			}
		}
		cl.Close()
		if len(lens) == 0 {
			b.WriteString(" len=-")
		} else {
			b.WriteString(" len=" + strings.Join(lens, "."))
		}
		res = b.String()
		if gcAt < 0 || time.Since(start) < 1500*time.Millisecond {
			break
		}
	}
	return res
}

// ---------------------------------------------------------------- generator

type c15cfg struct{ lim, burst, v4, v6 int }

func (c c15cfg) eff() (lim, burst, v4, v6 int) { // the documented meaning of the options
	lim, burst, v4, v6 = c.lim, c.burst, c.v4, c.v6
	if lim <= 0 {
		lim = 20
	}
	if burst <= 0 {
		burst = lim
	}
	if v4 < 1 || v4 > 32 {
		v4 = 24
	}
	if v6 < 1 || v6 > 128 {
		v6 = 48
	}
	return
}

func c15pick(r *rand.Rand, xs ...int) int { return xs[r.Intn(len(xs))] }

func c15genCfg(r *rand.Rand) (c15cfg, string) {
	var c c15cfg
	cat := ""
	switch r.Intn(4) {
	case 0:
		c.lim = c15pick(r, 0, 0, -1) // omitted
		cat += "limdef"
	default:
		c.lim = c15pick(r, 1, 1, 2, 3, 5, 7, 20, 50, 100, 1000, 4096)
		cat += "lim"
	}
	switch r.Intn(3) {
	case 0:
		c.burst = c15pick(r, 0, 0, -5)
		cat += "-burstdef"
	default:
		c.burst = c15pick(r, 1, 2, 3, 5, 10, 15, 16, 40, 200, 1000, 10000)
		cat += "-burst"
	}
	switch r.Intn(5) {
	case 0, 1:
		c.v4, c.v6 = 0, 0
		cat += "-maskdef"
	case 2:
		c.v4 = c15pick(r, 0, -1, -24, 33, 48, 64, 129, 1000)
		c.v6 = c15pick(r, 0, -1, -48, 129, 200, 256)
		cat += "-maskoor"
	case 3:
		c.v4 = c15pick(r, 32, 31, 1, 32)
		c.v6 = c15pick(r, 128, 127, 1, 128)
		cat += "-maskedge"
	default:
		c.v4 = c15pick(r, 8, 12, 16, 20, 23, 24, 25, 28, 30)
		c.v6 = c15pick(r, 16, 32, 40, 47, 48, 49, 56, 64, 96, 112)
		cat += "-mask"
	}
	return c, cat
}

func c15flip4(a netip.Addr, bit int) netip.Addr { // bit 1 = most significant
	b := a.As4()
	b[(bit-1)/8] ^= 0x80 >> uint((bit-1)%8)
	return netip.AddrFrom4(b)
}

func c15flip6(a netip.Addr, bit int) netip.Addr {
	z := a.Zone()
	b := a.As16()
	b[(bit-1)/8] ^= 0x80 >> uint((bit-1)%8)
	o := netip.AddrFrom16(b)
	if z != "" {
		o = o.WithZone(z)
	}
	return o
}

func c15mapped(a netip.Addr) netip.Addr { return netip.AddrFrom16(a.As16()) }

// a pool of client addresses that stresses the subnet relation of the configuration
func c15genAddrs(r *rand.Rand, c c15cfg, want int) []netip.Addr {
	_, _, m4, m6 := c.eff()
	var pool []netip.Addr
	rnd4 := func() netip.Addr {
		var b [4]byte
		r.Read(b[:])
		if b[0] == 0 {
			b[0] = 10
		}
		return netip.AddrFrom4(b)
	}
	rnd6 := func() netip.Addr {
		var b [16]byte
		r.Read(b[:])
		b[0] = 0x20 | b[0]&0x0f
		return netip.AddrFrom16(b)
	}
	for len(pool) < want {
		switch r.Intn(12) {
		case 0, 1:
			pool = append(pool, rnd4())
		case 2:
			pool = append(pool, rnd6())
		case 3: // same subnet as an existing v4: flip a bit below the mask
			a := rnd4()
			pool = append(pool, a)
			if m4 < 32 {
				pool = append(pool, c15flip4(a, m4+1+r.Intn(32-m4)))
			}
		case 4: // neighbouring subnet: flip the last bit of the mask, or one above
			a := rnd4()
			pool = append(pool, a, c15flip4(a, 1+r.Intn(m4)), c15flip4(a, m4))
		case 5: // the v4-mapped spelling of a v4 client
			a := rnd4()
			pool = append(pool, a, c15mapped(a))
			if m4 < 32 {
				pool = append(pool, c15mapped(c15flip4(a, 32)))
			}
		case 6: // same /24 and different /24 regardless of the configured mask
			a := rnd4()
			pool = append(pool, a, c15flip4(a, 32), c15flip4(a, 25), c15flip4(a, 24), c15flip4(a, 17))
		case 7: // v6 same subnet / neighbouring subnet
			a := rnd6()
			pool = append(pool, a, c15flip6(a, m6), c15flip6(a, 1+r.Intn(m6)))
			if m6 < 128 {
				pool = append(pool, c15flip6(a, m6+1+r.Intn(128-m6)))
			}
		case 8: // same /48 and different /48 regardless of the configured mask
			a := rnd6()
			pool = append(pool, a, c15flip6(a, 128), c15flip6(a, 49), c15flip6(a, 48), c15flip6(a, 33))
		case 9: // zoned link-local addresses: one address in two zones, and a neighbour
			var b [16]byte
			r.Read(b[8:])
			b[0], b[1] = 0xfe, 0x80
			a := netip.AddrFrom16(b)
			pool = append(pool, a.WithZone("eth0"), a.WithZone("eth1"), a, c15flip6(a.WithZone("eth0"), 128))
		case 10: // v4 and v6 addresses that share their leading bits; ::ffff:0:0/96 neighbours
			a := rnd4()
			b := a.As4()
			var w [16]byte
			copy(w[:], b[:])
			pool = append(pool, a, netip.AddrFrom16(w))
			m := c15mapped(a).As16()
			m[10] = 0xfe // ::fffe:a.b.c.d is not v4-mapped
			pool = append(pool, netip.AddrFrom16(m))
		case 11:
			pool = append(pool, netip.AddrFrom4([4]byte{127, 0, 0, 1}), netip.IPv6Loopback(),
				netip.AddrFrom4([4]byte{255, 255, 255, 255}), netip.AddrFrom4([4]byte{0, 0, 0, 0}), netip.IPv6Unspecified())
		}
	}
	return pool
}

// exact reference bucket (nano-tokens, big integers) per reference subnet: used only to
// label cases whose decisions come within 1e-6 token of the admission boundary and to place
// gc instants away from every boundary that gc looks at.
type c15ref struct {
	tokens   *big.Int
	last     int64
	lastSeen int64
	fresh    bool
}

type c15refTable struct {
	c    c15cfg
	bk   map[netip.Addr]*c15ref
	near bool
}

func c15newRef(c c15cfg) *c15refTable { return &c15refTable{c: c, bk: map[netip.Addr]*c15ref{}} }

var c15nano = big.NewInt(1_000_000_000)

func (rt *c15refTable) step(e c15ev) {
	lim, burst, m4, m6 := rt.c.eff()
	capT := new(big.Int).Mul(big.NewInt(int64(burst)), c15nano)
	a := e.addr.Unmap()
	bits := m6
	if a.Is4() {
		bits = m4
	}
	p, err := a.WithZone("").Prefix(bits)
	if err != nil {
		return
	}
	b := rt.bk[p.Addr()]
	if b == nil {
		b = &c15ref{tokens: new(big.Int), fresh: true}
		rt.bk[p.Addr()] = b
	}
	b.lastSeen = e.t
	tok := new(big.Int)
	if b.fresh {
		tok.Set(capT)
	} else {
		el := e.t - b.last
		if el < 0 {
			el = 0
		}
		tok.Mul(big.NewInt(int64(lim)), big.NewInt(el))
		tok.Add(tok, b.tokens)
		if tok.Cmp(capT) > 0 {
			tok.Set(capT)
		}
	}
	tok.Sub(tok, new(big.Int).Mul(big.NewInt(int64(e.n)), c15nano))
	margin := new(big.Int).Add(tok, big.NewInt(int64(lim)))
	if e.n <= burst && margin.CmpAbs(big.NewInt(1000)) < 0 {
		rt.near = true
	}
	if e.n <= burst && margin.Sign() > 0 {
		b.tokens, b.last, b.fresh = tok, e.t, false
	}
}

// gcClear reports whether a gc pass at g is at least `margin` ns away from every instant at
// which its verdict about some bucket changes; it also applies the pass to the reference.
func (rt *c15refTable) gcClear(g, margin int64) bool {
	lim, burst, _, _ := rt.c.eff()
	capT := new(big.Int).Mul(big.NewInt(int64(burst)), c15nano)
	abs := func(x int64) int64 {
		if x < 0 {
			return -x
		}
		return x
	}
	for _, b := range rt.bk {
		if abs(g-(b.lastSeen+60_000_000_000)) <= margin {
			return false
		}
		if b.fresh {
			continue
		}
		// the bucket is full again at last + ceil((cap - tokens) / lim)
		need := new(big.Int).Sub(capT, b.tokens)
		if need.Sign() > 0 {
			need.Add(need, big.NewInt(int64(lim-1)))
			need.Div(need, big.NewInt(int64(lim)))
			if !need.IsInt64() || need.Int64() > 1<<60 {
				continue
			}
			if abs(g-(b.last+need.Int64())) <= margin {
				return false
			}
		}
	}
	return true
}

func (rt *c15refTable) gc(g int64) {
	lim, burst, _, _ := rt.c.eff()
	capT := new(big.Int).Mul(big.NewInt(int64(burst)), c15nano)
	for k, b := range rt.bk {
		if !(b.lastSeen+60_000_000_000 < g) {
			continue
		}
		full := b.fresh
		if !full {
			tok := new(big.Int).Mul(big.NewInt(int64(lim)), big.NewInt(g-b.last))
			tok.Add(tok, b.tokens)
			full = tok.Cmp(capT) >= 0
		}
		if full {
			delete(rt.bk, k)
		}
	}
}

func c15genCase(r *rand.Rand, thorough bool) (string, string) {
	c, cat := c15genCfg(r)
	lim, burst, _, _ := c.eff()
	nAddr := 1 + r.Intn(6)
	if r.Intn(4) == 0 {
		nAddr = 10 + r.Intn(40)
	}
	pool := c15genAddrs(r, c, nAddr)
	nEv := 20 + r.Intn(120)
	if thorough && r.Intn(4) == 0 {
		nEv = 150 + r.Intn(250)
	}
	mode := []int{0, 0, 0, 1, 1, 1, 2, 2, 2, 3, 3, 3, 4, 5, 5, 5, 6}[r.Intn(17)]
	modeName := []string{"sec", "dyadic", "frac", "refillunit", "unsorted", "delayed", "delayed-dyadic"}[mode]
	// modes 5, 6: callers that are delayed between time.Now() and the bucket lock: a few streams, each
	// late by its own delay (0 .. 2 s), interleaved; the time stamps reach the limiter out of order
	var delays []int64
	if mode >= 5 {
		for i := 0; i < 2+r.Intn(3); i++ {
			d := []int64{0, 1_000_000, 5_000_000, 50_000_000, 100_000_000, 500_000_000, 1_000_000_000, 2_000_000_000}[r.Intn(8)]
			if mode == 6 {
				d = int64(r.Intn(2048)) * 1953125
			} else if r.Intn(2) == 0 {
				d = r.Int63n(2_000_000_000)
			}
			delays = append(delays, d)
		}
		delays[r.Intn(len(delays))] = 0
	}
	// gc passes (at one instant) in every third ordered case
	gcIdx := -1
	if mode < 4 && r.Intn(3) == 0 {
		gcIdx = 1 + r.Intn(nEv)
	}
	// a few hot clients so that buckets actually run dry
	hot := 1 + r.Intn(3)
	if hot > len(pool) {
		hot = len(pool)
	}
	ref := c15newRef(c)
	var evs []c15ev
	flush := 0 // evs[:flush] are final (already fed to the reference)
	feed := func() {
		if mode == 3 || mode == 2 {
			// keep them sorted (mode 3 may step back by a nanosecond or two)
			seg := evs[flush:]
			sort.SliceStable(seg, func(i, j int) bool { return seg[i].t < seg[j].t })
		}
		for _, e := range evs[flush:] {
			ref.step(e)
		}
		flush = len(evs)
	}
	t := int64(r.Intn(5)) * 1_000_000_000
	gcDone := false
	for i := 0; i < nEv; i++ {
		if i == gcIdx {
			feed()
			// look for an instant that is clear of every boundary gc looks at
			unit := int64(1_000_000_000)
			if mode == 1 {
				unit = 1953125 * 512
			}
			for try := 0; try < 30 && !gcDone; try++ {
				var gap int64
				switch r.Intn(4) {
				case 0:
					gap = 3 + r.Int63n(20)
				case 1:
					gap = 50 + r.Int63n(25) // around entryTtl
				case 2:
					gap = 61 + r.Int63n(int64(burst/lim)+200) // long idle: some buckets full, some not
				default:
					gap = 3 + r.Int63n(200)
				}
				g := (t/unit+gap)*unit + unit/2
				if ref.gcClear(g, 2_000_000_000) {
					n := 1 + r.Intn(2)
					for j := 0; j < n; j++ {
						evs = append(evs, c15ev{t: g, gc: true})
					}
					ref.gc(g)
					flush = len(evs)
					t = (g/unit + 3) * unit // the next arrival is >= 2.5 s later
					gcDone = true
				}
			}
		}
		var a netip.Addr
		if r.Intn(10) < 7 {
			a = pool[r.Intn(hot)]
		} else {
			a = pool[r.Intn(len(pool))]
		}
		// costs: the cost table, sometimes the whole burst, sometimes more than the burst, sometimes 0
		var n int
		switch r.Intn(12) {
		case 0:
			n = burst
		case 1:
			n = burst + 1 + r.Intn(3)
		case 2:
			n = 0
		case 3:
			n = 1 + r.Intn(burst)
		default:
			n = c15pick(r, 1, 1, 1, 2, 2, 3, 15)
		}
		// gaps
		tmin := t
		if r.Intn(3) != 0 { // two thirds of the arrivals are back to back
			switch mode {
			case 0:
				t += int64(r.Intn(3)) * 1_000_000_000
			case 1:
				t += int64(r.Intn(1024)) * 1953125
			case 6:
				t += int64(r.Intn(64)) * 1953125
			case 2, 4, 5:
				t += r.Int63n(2_000_000_000/int64(lim) + 2)
				if r.Intn(20) == 0 {
					t += r.Int63n(3_000_000_000)
				}
			case 3: // multiples of the time one token takes, and just around them
				unit := int64(1_000_000_000 / lim)
				t += unit*int64(r.Intn(4)) + int64(r.Intn(5)-2)
				if t < tmin {
					t = tmin
				}
			}
		}
		if r.Intn(60) == 0 { // a long pause refills everything
			t += int64(burst/lim+2) * 1_000_000_000
		}
		if gcIdx >= 0 && r.Intn(25) == 0 { // idle periods around entryTtl
			t += (55 + r.Int63n(15)) * 1_000_000_000
			if mode == 1 {
				t = t / 1953125 * 1953125
			}
		}
		tt := t
		if mode == 4 && r.Intn(8) == 0 && tt > 0 {
			tt -= r.Int63n(tt%1_000_000_000 + 1) // out of order time stamp
		}
		if mode >= 5 {
			tt -= delays[r.Intn(len(delays))]
			if tt < 0 {
				tt = 0
			}
			if r.Intn(3) != 0 {
				a = pool[0] // mostly one client: its bucket is the one under stress
			}
		}
		evs = append(evs, c15ev{addr: a, t: tt, n: n})
	}
	feed()
	parts := make([]string, len(evs))
	for i, e := range evs {
		if e.gc {
			parts[i] = fmt.Sprintf("gc/%d", e.t)
		} else {
			parts[i] = fmt.Sprintf("%s/%d/%d", c15addrStr(e.addr), e.t, e.n)
		}
	}
	cat += "-" + modeName
	if gcDone {
		cat += "-gc"
	}
	if (mode == 2 || mode == 3) && ref.near {
		cat += "-nearboundary"
	}
	return fmt.Sprintf("lim=%d burst=%d v4=%d v6=%d ev=%s", c.lim, c.burst, c.v4, c.v6, strings.Join(parts, ",")), cat
}

func c15gen(r *rand.Rand, thorough bool, emit func(c, cat string)) {
	n := 700
	if thorough {
		n = 6000
	}
	for i := 0; i < n; i++ {
		cs, cat := c15genCase(r, thorough)
		emit(cs, cat)
	}
}

func init() {
	register("limiter", &component{gen: c15gen, run: c15run})
}
