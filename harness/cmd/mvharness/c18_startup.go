package main

// C18 component `startup`: the real router.VerifRun (= `run`) on a generated configuration in which
// any one item may fail to initialise (metrics endpoint, upstream, domain set, rule, cache, listener
// of every kind; port in use, bad certificate path, missing certificate, unknown protocol, bad
// address, ...). When `run` succeeds the router is closed (twice). Observed: error / success / panic,
// whether every configured listening address can be bound again afterwards, and whether the number of
// sockets of this process is back to what it was before (/proc/self/fd, with retries).
//
// case : it=<k><+|-><0|1>,...  srv=<listener kind per s item> ups=<upstream kind per u item> how=<n>
//        k: m metrics, u upstream, d domain set, r rule, c cache, s listener (in run's order);
//        +/- initialises or fails; 0/1 owns a socket once initialised; how selects the failure mode.
// out  : res=<ok|err|panic|hang|closehang> busy=<ids of items whose address is still bound|-> leak=<n>

import (
	"fmt"
	"math/rand"
	"net"
	"os"
	"strconv"
	"strings"

	"github.com/IrineSistiana/mosproxy/app/router"
)

func init() {
	register("startup", &component{gen: c18StartupGen, run: c18StartupRun, setup: c18Setup})
}

var c18SrvKinds = []string{"udp", "udp2", "tcp", "tls", "http", "fasthttp", "https", "quic", "gnet"}
var c18UpKinds = []string{"udp", "tcp", "tls", "tcp+pipeline", "tls+pipeline", "https", "http", "h3", "quic"}

func c18SrvUDP(k string) bool { return k == "udp" || k == "udp2" || k == "quic" }
func c18SrvTLS(k string) bool { return k == "tls" || k == "https" || k == "quic" }
func c18UpSock(k string) bool { return k == "h3" || k == "quic" }

type c18item struct {
	kind byte
	ok   bool
}

func c18ParseItems(s string) []c18item {
	var res []c18item
	for _, t := range c18List(s) {
		if len(t) != 3 {
			return nil
		}
		res = append(res, c18item{kind: t[0], ok: t[1] == '+'})
	}
	return res
}

type c18blocker struct {
	l net.Listener
	c net.PacketConn
}

func (b *c18blocker) Close() {
	if b.l != nil {
		b.l.Close()
	}
	if b.c != nil {
		b.c.Close()
	}
}

func c18Block(udp bool, port int) *c18blocker {
	addr := "127.0.0.1:" + strconv.Itoa(port)
	b := &c18blocker{}
	var err error
	if udp {
		b.c, err = net.ListenPacket("udp", addr)
	} else {
		b.l, err = net.Listen("tcp", addr)
	}
	if err != nil {
		panic("c18: cannot block " + addr + ": " + err.Error())
	}
	return b
}

type c18built struct {
	cfg      *router.Config
	ports    map[int]int  // item id -> port
	udp      map[int]bool // item id -> udp
	blockers []*c18blocker
	tmp      []string
}

func (b *c18built) cleanup() {
	for _, x := range b.blockers {
		x.Close()
	}
	b.blockers = nil
	for _, f := range b.tmp {
		os.Remove(f)
	}
}

const c18BadPort = "127.0.0.1:99999"

// c18Build turns the case into a router configuration. upAddr (may be nil) overrides the address of
// an upstream item (used by the shutdown component).
func c18Build(items []c18item, srvKinds, upKinds []string, how int, upAddr func(i int, kind string) string) *c18built {
	b := &c18built{cfg: &router.Config{}, ports: map[int]int{}, udp: map[int]bool{}}
	cfg := b.cfg
	si, ui := 0, 0
	var upTags []string
	var dsTags []string
	for id, it := range items {
		switch it.kind {
		case 'm':
			p := c18FreePort(false)
			b.ports[id], b.udp[id] = p, false
			cfg.Metrics.Addr = "127.0.0.1:" + strconv.Itoa(p)
			if !it.ok {
				if how%2 == 0 {
					b.blockers = append(b.blockers, c18Block(false, p))
				} else {
					cfg.Metrics.Addr = c18BadPort
				}
			}
		case 'u':
			kind := "udp"
			if ui < len(upKinds) {
				kind = upKinds[ui]
			}
			tag := "u" + strconv.Itoa(ui)
			addr := kind + "://127.0.0.1:" + strconv.Itoa(20000+ui)
			if upAddr != nil {
				addr = upAddr(ui, kind)
			}
			uc := router.UpstreamConfig{Tag: tag, Addr: addr, Tls: router.TlsConfig{InsecureSkipVerify: true}}
			if !it.ok {
				switch how % 4 {
				case 0:
					uc.Addr = "foo://127.0.0.1:53"
				case 1:
					uc.Addr = ""
				case 2:
					if len(upTags) > 0 {
						uc.Tag = upTags[0]
					} else {
						uc.Tag = ""
					}
				case 3:
					uc.Tls.CA = "/nonexistent/c18/ca.pem"
				}
			} else {
				upTags = append(upTags, tag)
			}
			cfg.Upstreams = append(cfg.Upstreams, uc)
			ui++
		case 'd':
			tag := "d" + strconv.Itoa(len(cfg.DomainSets))
			dc := router.DomainSetConfig{Tag: tag}
			if it.ok {
				f, err := os.CreateTemp("", "c18ds")
				if err == nil {
					f.WriteString("example.org\nfull:a.example.net\n")
					f.Close()
					dc.Files = []string{f.Name()}
					b.tmp = append(b.tmp, f.Name())
				}
				dsTags = append(dsTags, tag)
			} else if how%2 == 0 {
				dc.Files = []string{"/nonexistent/c18/domains.txt"}
			} else {
				dc.Tag = ""
			}
			cfg.DomainSets = append(cfg.DomainSets, dc)
		case 'r':
			rc := router.RuleConfig{}
			if it.ok {
				if len(dsTags) > 0 && how%3 == 0 {
					rc.Domain = dsTags[0]
				}
				if len(upTags) > 0 {
					rc.Forward = upTags[(how+len(cfg.Rules))%len(upTags)]
				} else {
					rc.Reject = 5
				}
			} else if how%2 == 0 {
				rc.Forward = "nosuchupstream"
			} else {
				rc.Domain = "nosuchset"
			}
			cfg.Rules = append(cfg.Rules, rc)
		case 'c':
			if it.ok {
				cfg.Cache.MemSize = 1 << 20
			} else {
				cfg.Cache.MemSize = (how % 2) << 20
				cfg.Cache.IpMarker = "/nonexistent/c18/ipmarker.txt"
			}
		case 's':
			kind := "udp"
			if si < len(srvKinds) {
				kind = srvKinds[si]
			}
			si++
			udp := c18SrvUDP(kind)
			p := c18FreePort(udp)
			b.ports[id], b.udp[id] = p, udp
			sc := router.ServerConfig{Tag: "s" + strconv.Itoa(id), Protocol: kind, Listen: "127.0.0.1:" + strconv.Itoa(p)}
			if kind == "udp2" {
				sc.Protocol = "udp"
				sc.Udp.Threads = 2
			}
			if c18SrvTLS(kind) {
				sc.Tls.DebugUseTempCert = true
			}
			if !it.ok {
				modes := []string{"inuse", "unknown", "badaddr"}
				if c18SrvTLS(kind) {
					modes = append(modes, "badcert", "nocert")
				}
				switch modes[how%len(modes)] {
				case "inuse":
					b.blockers = append(b.blockers, c18Block(udp, p))
				case "unknown":
					sc.Protocol = "nosuch"
				case "badaddr":
					sc.Listen = c18BadPort
				case "badcert":
					sc.Tls.DebugUseTempCert = false
					sc.Tls.Cert, sc.Tls.Key = "/nonexistent/c18/cert.pem", "/nonexistent/c18/key.pem"
				case "nocert":
					sc.Tls.DebugUseTempCert = false
				}
			}
			cfg.Servers = append(cfg.Servers, sc)
		}
	}
	return b
}

func c18StartupRun(c string) string {
	m := kv(c)
	items := c18ParseItems(m["it"])
	if items == nil && m["it"] != "-" {
		return "bad-case"
	}
	for _, k := range c18List(m["ups"]) {
		if c18UpstreamCrashes(k) {
			return "panic"
		}
	}
	base := c18Baseline()
	b := c18Build(items, c18List(m["srv"]), c18List(m["ups"]), atoi(m["how"]), nil)
	defer b.cleanup()

	var r *router.VerifRouter
	var err error
	res := c18Call(c18CallMax, func() { r, err = router.VerifRun(b.cfg) })
	detail := ""
	if res == "ok" {
		if err != nil {
			res = "err"
			detail = err.Error()
		} else {
			for i := 0; i < 2; i++ {
				if s := c18Call(c18CallMax, func() { r.Close() }); s != "ok" {
					if s == "hang" {
						s = "closehang"
					}
					res = s
					break
				}
			}
		}
	}
	b.cleanup()
	var busy []int
	for id, p := range b.ports {
		if !c18CanBind(b.udp[id], p) {
			busy = append(busy, id)
		}
	}
	leak := c18Leak(base)
	out := fmt.Sprintf("res=%s busy=%s leak=%d", res, c18Ids(busy), leak)
	if detail != "" {
		out += " ## " + strings.Map(func(r rune) rune {
			if r == '\t' || r == '\n' {
				return ' '
			}
			return r
		}, detail)
	}
	return out
}

func c18StartupGen(r *rand.Rand, thorough bool, emit func(c, cat string)) {
	n := 36
	if thorough {
		n = 400
	}
	srvKinds := c18SrvKinds
	for i := 0; i < n; i++ {
		var items []string
		var srv, ups []string
		if r.Intn(2) == 0 {
			items = append(items, "m+1")
		}
		for k := r.Intn(4); k > 0; k-- {
			kind := c18UpKinds[r.Intn(len(c18UpKinds))]
			ups = append(ups, kind)
			items = append(items, "u+"+b2s(c18UpSock(kind)))
		}
		for k := r.Intn(2); k > 0; k-- {
			items = append(items, "d+0")
		}
		for k := r.Intn(3); k > 0; k-- {
			items = append(items, "r+0")
		}
		if r.Intn(2) == 0 {
			items = append(items, "c+0")
		}
		for k := 1 + r.Intn(4); k > 0; k-- {
			kinds := srvKinds
			if !thorough || r.Intn(3) > 0 {
				kinds = srvKinds[:len(srvKinds)-1] // gnet's engine takes 0.5 s to stop
			}
			srv = append(srv, kinds[r.Intn(len(kinds))])
			items = append(items, "s+1")
		}
		cat := "all-start"
		if i%5 != 0 {
			// a failing item at a uniformly chosen position (biased to listeners), sometimes a second one behind it
			pos := r.Intn(len(items))
			if r.Intn(2) == 0 {
				pos = len(items) - 1 - r.Intn(len(srv))
			}
			items[pos] = items[pos][:1] + "-" + items[pos][2:]
			cat = "fail-" + items[pos][:1]
			if r.Intn(4) == 0 {
				p2 := r.Intn(len(items))
				items[p2] = items[p2][:1] + "-" + items[p2][2:]
				if p2 < pos {
					cat = "fail-" + items[p2][:1]
				}
			}
		}
		c := "it=" + strings.Join(items, ",") + " srv=" + strings.Join(srv, ",")
		if len(ups) > 0 {
			c += " ups=" + strings.Join(ups, ",")
		}
		c += " how=" + strconv.Itoa(r.Intn(60))
		emit(c, cat)
	}
}
