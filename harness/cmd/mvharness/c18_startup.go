package main

// C18 component `startup`: the real router.VerifRun (= `run`) on a generated configuration in which
// any one item may fail to initialise (metrics endpoint, upstream, domain set, rule, cache, listener
// of every kind; port in use, bad certificate path, missing certificate, unknown protocol, bad
// address, ...). When `run` succeeds the router is closed (twice). Observed: error / success / panic,
// whether every configured listening address can be bound again afterwards, and whether the number of
// sockets of this process is back to what it was before (/proc/self/fd, with retries).
//
// case : it=<k><+|-><0|1>,...  srv=<listener kind per s item> ups=<upstream kind per u item> how=<n>
//        k: m metrics, u upstream, d domain set, r rule, c cache, s listener (in run's order);
//        +/- initialises or fails; 0/1 owns a socket once initialised; how selects the failure mode.
//        bin=1: the configuration is written to a file and run by the real command (`router -c file`) in a
//        child process: exit status 1 = err, a panic trace / other status = panic; a router that came up gets
//        SIGTERM and must exit with status 0.
// out  : res=<ok|err|panic|hang|closehang> busy=<ids of items whose address is still bound|-> leak=<n>

import (
	"bytes"
	"errors"
	"fmt"
	"math/rand"
	"net"
	"os"
	"os/exec"
	"runtime"
	"strconv"
	"strings"
	"syscall"
	"time"

	"github.com/IrineSistiana/mosproxy/app"
	"github.com/IrineSistiana/mosproxy/app/router"
	"gopkg.in/yaml.v3"
)

func init() {
	// With C18_REAL_MAIN=<config file> this binary behaves like the real mosproxy binary
	// (`mosproxy router -c <file>`): same root command, same Run function, same exit paths.
	if f := os.Getenv("C18_REAL_MAIN"); f != "" {
		cmd := app.RootCmd()
		cmd.SetArgs([]string{"router", "-c", f, "--log-lvl", "error"})
		if err := cmd.Execute(); err != nil {
			os.Exit(3)
		}
		os.Exit(0)
	}
	register("startup", &component{gen: c18StartupGen, run: c18StartupRun, setup: c18Setup})
}

// c18RunBinary runs the configuration through the real command in a child process: a start-up error must
// end the process with status 1 (logger.Fatal), not with a panic (status 2 and a goroutine trace); a router
// that came up must exit with status 0 after SIGTERM (signal -> r.close -> os.Exit(0)).
func c18RunBinary(b *c18built) (res, detail string) {
	// a SIGTERM that arrives between the return of `run` and signal.Notify kills the child by the default
	// action: that is a race of this observation, not of the router — retried with a longer grace
	for _, grace := range []time.Duration{100 * time.Millisecond, 600 * time.Millisecond, 2 * time.Second} {
		res, detail = c18RunBinaryOnce(b, grace)
		if res != "sigdeath" {
			break
		}
	}
	return res, detail
}

func c18RunBinaryOnce(b *c18built, grace time.Duration) (res, detail string) {
	raw, err := yaml.Marshal(b.cfg)
	if err != nil {
		return "bad-case", err.Error()
	}
	f, err := os.CreateTemp("", "c18cfg*.yaml")
	if err != nil {
		return "bad-case", err.Error()
	}
	f.Write(raw)
	f.Close()
	defer os.Remove(f.Name())
	cmd := exec.Command(os.Args[0])
	cmd.Env = append(os.Environ(), "C18_REAL_MAIN="+f.Name())
	var stderr bytes.Buffer
	cmd.Stderr = &stderr
	if err := cmd.Start(); err != nil {
		return "bad-case", err.Error()
	}
	exited := make(chan error, 1)
	go func() { exited <- cmd.Wait() }()
	classify := func(err error) string {
		if bytes.Contains(stderr.Bytes(), []byte("panic:")) || bytes.Contains(stderr.Bytes(), []byte("fatal error:")) {
			return "panic"
		}
		if err == nil {
			return "ok"
		}
		var ee *exec.ExitError
		if errors.As(err, &ee) {
			if ee.ExitCode() == 1 {
				return "err"
			}
			if ws, ok := ee.Sys().(syscall.WaitStatus); ok && ws.Signaled() && ws.Signal() == syscall.SIGTERM {
				return "sigdeath"
			}
		}
		return "panic"
	}
	up := func() bool {
		for id, p := range b.ports {
			addr := "127.0.0.1:" + strconv.Itoa(p)
			if b.udp[id] {
				c, err := net.ListenPacket("udp", addr)
				if err == nil {
					c.Close()
					return false
				}
			} else {
				l, err := net.Listen("tcp", addr)
				if err == nil {
					l.Close()
					return false
				}
			}
		}
		return true
	}
	deadline := time.Now().Add(c18CallMax)
	for {
		select {
		case err := <-exited:
			r := classify(err)
			if r == "ok" {
				r = "exit0" // nobody asked it to stop
			}
			return r, strings.TrimSpace(strings.ReplaceAll(lastLine(stderr.String()), "\t", " "))
		default:
		}
		if len(b.blockers) == 0 && up() {
			break
		}
		if time.Now().After(deadline) {
			cmd.Process.Kill()
			<-exited
			return "hang", ""
		}
		time.Sleep(10 * time.Millisecond)
	}
	// `run` has returned in the child; give it a moment to install its signal handler
	time.Sleep(grace)
	cmd.Process.Signal(syscall.SIGTERM)
	select {
	case err := <-exited:
		r := classify(err)
		d := ""
		if r != "ok" {
			d = fmt.Sprintf("after SIGTERM: %v; %s", err, lastLine(stderr.String()))
		}
		return r, d
	case <-time.After(c18CallMax):
		cmd.Process.Kill()
		<-exited
		return "closehang", ""
	}
}

func lastLine(s string) string {
	s = strings.TrimSpace(s)
	if i := strings.LastIndexByte(s, '\n'); i >= 0 {
		return s[i+1:]
	}
	return s
}

var c18SrvKinds = []string{"udp", "udp2", "tcp", "tls", "http", "fasthttp", "https", "quic", "gnet"}
var c18UpKinds = []string{"udp", "tcp", "tls", "tcp+pipeline", "tls+pipeline", "https", "http", "h3", "quic"}

func c18SrvUDP(k string) bool { return k == "udp" || k == "udp2" || k == "quic" }
func c18SrvTLS(k string) bool { return k == "tls" || k == "https" || k == "quic" }
func c18UpSock(k string) bool { return k == "h3" || k == "quic" }

type c18item struct {
	kind byte
	ok   bool
}

func c18ParseItems(s string) []c18item {
	var res []c18item
	for _, t := range c18List(s) {
		if len(t) != 3 {
			return nil
		}
		res = append(res, c18item{kind: t[0], ok: t[1] == '+'})
	}
	return res
}

type c18blocker struct {
	l net.Listener
	c net.PacketConn
}

func (b *c18blocker) Close() {
	if b.l != nil {
		b.l.Close()
	}
	if b.c != nil {
		b.c.Close()
	}
}

func c18Block(udp bool, port int) *c18blocker {
	addr := "127.0.0.1:" + strconv.Itoa(port)
	b := &c18blocker{}
	var err error
	if udp {
		b.c, err = net.ListenPacket("udp", addr)
	} else {
		b.l, err = net.Listen("tcp", addr)
	}
	if err != nil {
		panic("c18: cannot block " + addr + ": " + err.Error())
	}
	return b
}

type c18built struct {
	cfg      *router.Config
	ports    map[int]int  // item id -> port
	udp      map[int]bool // item id -> udp
	blockers []*c18blocker
	tmp      []string
}

func (b *c18built) cleanup() {
	for _, x := range b.blockers {
		x.Close()
	}
	b.blockers = nil
	for _, f := range b.tmp {
		os.Remove(f)
	}
}

const c18BadPort = "127.0.0.1:99999"

// c18Build turns the case into a router configuration. upAddr (may be nil) overrides the address of
// an upstream item (used by the shutdown component).
func c18Build(items []c18item, srvKinds, upKinds []string, how int, upAddr func(i int, kind string) string) *c18built {
	b := &c18built{cfg: &router.Config{}, ports: map[int]int{}, udp: map[int]bool{}}
	cfg := b.cfg
	si, ui := 0, 0
	var upTags []string
	var dsTags []string
	for id, it := range items {
		switch it.kind {
		case 'm':
			p := c18FreePort(false)
			b.ports[id], b.udp[id] = p, false
			cfg.Metrics.Addr = "127.0.0.1:" + strconv.Itoa(p)
			if !it.ok {
				if how%2 == 0 {
					b.blockers = append(b.blockers, c18Block(false, p))
				} else {
					cfg.Metrics.Addr = c18BadPort
				}
			}
		case 'u':
			kind := "udp"
			if ui < len(upKinds) {
				kind = upKinds[ui]
			}
			tag := "u" + strconv.Itoa(ui)
			addr := kind + "://127.0.0.1:" + strconv.Itoa(20000+ui)
			if upAddr != nil {
				addr = upAddr(ui, kind)
			}
			uc := router.UpstreamConfig{Tag: tag, Addr: addr, Tls: router.TlsConfig{InsecureSkipVerify: true}}
			if !it.ok {
				switch how % 5 {
				case 4: // the upstream itself is created (quic / h3: with its socket); registering its metrics fails (D64)
					uc.Tag = "u\xff" + strconv.Itoa(ui)
				case 0:
					uc.Addr = "foo://127.0.0.1:53"
				case 1:
					uc.Addr = ""
				case 2:
					if len(upTags) > 0 {
						uc.Tag = upTags[0]
					} else {
						uc.Tag = ""
					}
				case 3:
					uc.Tls.CA = "/nonexistent/c18/ca.pem"
				}
			} else {
				upTags = append(upTags, tag)
			}
			cfg.Upstreams = append(cfg.Upstreams, uc)
			ui++
		case 'd':
			tag := "d" + strconv.Itoa(len(cfg.DomainSets))
			dc := router.DomainSetConfig{Tag: tag}
			if it.ok {
				f, err := os.CreateTemp("", "c18ds")
				if err == nil {
					f.WriteString("example.org\nfull:a.example.net\n")
					f.Close()
					dc.Files = []string{f.Name()}
					b.tmp = append(b.tmp, f.Name())
				}
				dsTags = append(dsTags, tag)
			} else if how%2 == 0 {
				dc.Files = []string{"/nonexistent/c18/domains.txt"}
			} else {
				dc.Tag = ""
			}
			cfg.DomainSets = append(cfg.DomainSets, dc)
		case 'r':
			rc := router.RuleConfig{}
			if it.ok {
				if len(dsTags) > 0 && how%3 == 0 {
					rc.Domain = dsTags[0]
				}
				if len(upTags) > 0 {
					rc.Forward = upTags[(how+len(cfg.Rules))%len(upTags)]
				} else {
					rc.Reject = 5
				}
			} else if how%2 == 0 {
				rc.Forward = "nosuchupstream"
			} else {
				rc.Domain = "nosuchset"
			}
			cfg.Rules = append(cfg.Rules, rc)
		case 'M': // memory cache (otter: owns goroutines)
			cfg.Cache.MemSize = 1 << 20
		case 'R': // redis backend; there is no redis here: it can only fail (an address that refuses)
			cfg.Cache.Redis = "redis://127.0.0.1:" + strconv.Itoa(c18FreePort(false))
		case 'I': // ip marker file
			if it.ok {
				f, err := os.CreateTemp("", "c18ipm")
				if err == nil {
					f.WriteString("10.0.0.0,10.255.255.255,a\n192.0.2.0,192.0.2.255,b\n")
					f.Close()
					cfg.Cache.IpMarker = f.Name()
					b.tmp = append(b.tmp, f.Name())
				}
			} else {
				cfg.Cache.IpMarker = "/nonexistent/c18/ipmarker.txt"
			}
		case 'c': // `r.cache = cache`: nothing to configure
		case 's':
			kind := "udp"
			if si < len(srvKinds) {
				kind = srvKinds[si]
			}
			si++
			udp := c18SrvUDP(kind)
			p := c18FreePort(udp)
			b.ports[id], b.udp[id] = p, udp
			sc := router.ServerConfig{Tag: "s" + strconv.Itoa(id), Protocol: kind, Listen: "127.0.0.1:" + strconv.Itoa(p)}
			if kind == "udp2" {
				sc.Protocol = "udp"
				sc.Udp.Threads = 2
			}
			if c18SrvTLS(kind) {
				sc.Tls.DebugUseTempCert = true
			}
			if !it.ok {
				modes := []string{"inuse", "unknown", "badaddr"}
				if c18SrvTLS(kind) {
					modes = append(modes, "badcert", "nocert")
				}
				switch modes[how%len(modes)] {
				case "inuse":
					b.blockers = append(b.blockers, c18Block(udp, p))
				case "unknown":
					sc.Protocol = "nosuch"
				case "badaddr":
					sc.Listen = c18BadPort
				case "badcert":
					sc.Tls.DebugUseTempCert = false
					sc.Tls.Cert, sc.Tls.Key = "/nonexistent/c18/cert.pem", "/nonexistent/c18/key.pem"
				case "nocert":
					sc.Tls.DebugUseTempCert = false
				}
			}
			cfg.Servers = append(cfg.Servers, sc)
		}
	}
	return b
}

func c18StartupRun(c string) string {
	m := kv(c)
	items := c18ParseItems(m["it"])
	if items == nil && m["it"] != "-" {
		return "bad-case"
	}
	for _, k := range c18List(m["ups"]) {
		if c18UpstreamCrashes(k) {
			return "panic"
		}
	}
	// Another process of this machine may grab a port between its selection and its use; that is noise of
	// the environment (the case itself blocks ports only through b.blockers): such a run is repeated.
	return c18Retry(func() string {
		var out string
		for try := 0; try < 4; try++ {
			var noise bool
			c18NoGC(func() string { out, noise = c18StartupOnce(m, items); return "" })
			if !noise {
				break
			}
		}
		return out
	})
}

// c18OtterGoroutines: the `process` goroutines of otter caches (one per memory cache; it ends as soon as the
// cache is closed — its `cleanup` sibling only notices at its next one-second tick, so it is not counted).
var c18stackBuf = make([]byte, 1<<22)

func c18OtterGoroutines() int {
	n := runtime.Stack(c18stackBuf, true)
	return 2 * bytes.Count(c18stackBuf[:n], []byte("otter/internal/core.(*Cache[...]).process("))
}

func c18StartupOnce(m map[string]string, items []c18item) (string, bool) {
	base := c18Baseline()
	gbase := c18OtterGoroutines()
	b := c18Build(items, c18List(m["srv"]), c18List(m["ups"]), atoi(m["how"]), nil)
	defer b.cleanup()
	blocked := len(b.blockers) > 0

	var r *router.VerifRouter
	var err error
	var res, detail string
	if m["bin"] == "1" {
		res, detail = c18RunBinary(b)
	} else if res = c18Call(c18CallMax, func() { r, err = router.VerifRun(b.cfg) }); res == "ok" {
		if err != nil {
			res = "err"
			detail = err.Error()
		} else {
			for i := 0; i < 2; i++ {
				if s := c18Call(c18CallMax, func() { r.Close() }); s != "ok" {
					if s == "hang" {
						s = "closehang"
					}
					res = s
					break
				}
			}
		}
	}
	b.cleanup()
	var busy []int
	for id, p := range b.ports {
		if !c18CanBind(b.udp[id], p) {
			busy = append(busy, id)
		}
	}
	leak := c18Leak(base)
	// the memory cache owns goroutines instead of a socket
	g := 0
	c18Wait(func() bool { g = c18OtterGoroutines() - gbase; return g <= 0 })
	if g > 0 {
		leak += (g + 1) / 2
	}
	out := fmt.Sprintf("res=%s busy=%s leak=%d", res, c18Ids(busy), leak)
	if detail != "" {
		out += " ## " + strings.Map(func(r rune) rune {
			if r == '\t' || r == '\n' {
				return ' '
			}
			return r
		}, detail)
	}
	noise := res == "err" && !blocked && strings.Contains(detail, "address already in use")
	return out, noise
}

func c18StartupGen(r *rand.Rand, thorough bool, emit func(c, cat string)) {
	n := 36
	if thorough {
		n = 400
	}
	srvKinds := c18SrvKinds
	// an upstream that owns a socket as soon as it is created and then fails at the metrics registration
	for _, kind := range []string{"quic", "h3"} {
		emit("it=u+1,u-1 srv=- ups=udp,"+kind+" how=4", "upstream-metrics-error")
	}
	for i := 0; i < n; i++ {
		var items []string
		var srv, ups []string
		if r.Intn(2) == 0 {
			items = append(items, "m+1")
		}
		for k := r.Intn(4); k > 0; k-- {
			kind := c18UpKinds[r.Intn(len(c18UpKinds))]
			ups = append(ups, kind)
			items = append(items, "u+"+b2s(c18UpSock(kind)))
		}
		for k := r.Intn(2); k > 0; k-- {
			items = append(items, "d+0")
		}
		for k := r.Intn(3); k > 0; k-- {
			items = append(items, "r+0")
		}
		// initCache: memory cache, redis backend (can only fail here), ip marker; then `r.cache = cache`
		if r.Intn(2) == 0 {
			items = append(items, "M+1")
		}
		if r.Intn(4) == 0 {
			items = append(items, "R-1")
		}
		if r.Intn(3) == 0 {
			items = append(items, "I+0")
		}
		items = append(items, "c+0")
		for k := 1 + r.Intn(4); k > 0; k-- {
			kinds := srvKinds
			if !thorough || r.Intn(3) > 0 {
				kinds = srvKinds[:len(srvKinds)-1] // gnet's engine takes 0.5 s to stop
			}
			srv = append(srv, kinds[r.Intn(len(kinds))])
			items = append(items, "s+1")
		}
		cat := "all-start"
		flip := func(p int) bool { // the memory cache and the assignment of r.cache cannot fail
			if items[p][0] == 'M' || items[p][0] == 'c' {
				return false
			}
			items[p] = items[p][:1] + "-" + items[p][2:]
			return true
		}
		if i%5 != 0 {
			// a failing item at a uniformly chosen position (biased to listeners), sometimes a second one behind it
			pos := r.Intn(len(items))
			if r.Intn(2) == 0 || !flip(pos) {
				pos = len(items) - 1 - r.Intn(len(srv))
				flip(pos)
			}
			if r.Intn(4) == 0 {
				flip(r.Intn(len(items)))
			}
		}
		for _, it := range items {
			if it[1] == '-' {
				cat = "fail-" + it[:1]
				break
			}
		}
		c := "it=" + strings.Join(items, ",") + " srv=" + strings.Join(srv, ",")
		if len(ups) > 0 {
			c += " ups=" + strings.Join(ups, ",")
		}
		c += " how=" + strconv.Itoa(r.Intn(60))
		if i%6 == 1 {
			c += " bin=1"
			cat += "/real-binary"
		}
		emit(c, cat)
	}
}
