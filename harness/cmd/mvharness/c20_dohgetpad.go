package main

// Component `dohgetpad` (C20, C01): a DoH GET whose `dns` parameter is padded with CR/LF. base64 decoding skips
// them, so the decoded message is shorter than the buffer that was sized from the encoded length; what lies behind
// it in the pooled buffer is the previous owner's data and must not be parsed (defect D60, repaired by ea85fcb:
// the fasthttp listener parsed the whole buffer and echoed another client's question).
//
// case : kind=<http|https|fasthttp> seed=<s> rounds=<n>
//   each round: a victim query (GET, a long private name) is answered; then the attacker sends a GET whose `dns`
//   value is the base64 of a bare 12-octet header with QDCOUNT=1 followed by %0A padding up to the encoded length
//   of the victim's query. The 12 octets alone are not a decodable message: the listener must reject (HTTP 400) —
//   and whatever it answers must not contain the victim's name.
// out  : leaked=<responses that contain a victim name> accepted=<attacker requests answered 200> victims=<answered victim queries> of=<rounds>

import (
	"bytes"
	"encoding/base64"
	"fmt"
	"io"
	"math/rand"
	"net/http"
	"strings"
)

func runDohGetPad(cs string) string {
	m := kv(cs)
	kind, rounds := m["kind"], atoi(m["rounds"])
	r := rand.New(rand.NewSource(int64(atoi(m["seed"]))))
	scheme, cl := "http", lfix.h1
	if kind == "https" {
		scheme, cl = "https", lfix.h2
	}
	url := fmt.Sprintf("%s://127.0.0.1:%d/dns-query", scheme, lfix.ports[kind])
	get := func(param string) (int, []byte) {
		req, _ := http.NewRequest("GET", url+"?dns="+param, nil)
		req.Header.Set("Accept", "application/dns-message")
		resp, err := cl.Do(req)
		if err != nil {
			return -1, nil
		}
		defer resp.Body.Close()
		b, _ := io.ReadAll(io.LimitReader(resp.Body, 70000))
		return resp.StatusCode, b
	}
	leaked, accepted, victims := 0, 0, 0
	for i := 0; i < rounds; i++ {
		secret := fmt.Sprintf("victim%dprivate%d", r.Intn(1<<30), i)
		name := wireLabels([]byte("ok"+secret), []byte(strings.Repeat("x", 1+r.Intn(40))), []byte("dohgetpad"))
		vq := buildQuery(uint16(r.Intn(65536)), name, 1, false, 0)
		venc := base64.RawURLEncoding.EncodeToString(vq)
		if st, _ := get(venc); st == 200 {
			victims++
		}
		hdr := []byte{0x12, 0x34, 0x01, 0x00, 0, 1, 0, 0, 0, 0, 0, 0}
		aenc := base64.RawURLEncoding.EncodeToString(hdr)
		pad := len(venc) - len(aenc)
		if pad < 1 {
			pad = 1
		}
		st, body := get(aenc + strings.Repeat("%0A", pad))
		if st == 200 {
			accepted++
		}
		if bytes.Contains(bytes.ToLower(body), []byte(secret)) {
			leaked++
		}
	}
	return fmt.Sprintf("leaked=%d accepted=%d victims=%d of=%d", leaked, accepted, victims, rounds)
}

func genDohGetPad(r *rand.Rand, thorough bool, emit func(c, cat string)) {
	rounds := 6
	if thorough {
		rounds = 200
	}
	for _, kind := range []string{"fasthttp", "http", "https"} {
		emit(fmt.Sprintf("kind=%s seed=%d rounds=%d", kind, r.Intn(1<<30), rounds), kind)
	}
}

func init() {
	register("dohgetpad", &component{gen: genDohGetPad, run: runDohGetPad, setup: listenersSetup, teardown: listenersTeardown})
}
