package main

// C15 component `limiter_cfg`: the bound is the CONFIGURED one. A real router with `limiter.client.limit` and
// `limiter.client.burst` as given (also a burst below the rate, or omitted = the rate) and a udp listener; one
// client sends n queries back to back. Admitted (answered other than REFUSED) must be at most
// burst + rate x elapsed (elapsed measured around the whole exchange, + 1 token for the float arithmetic of the
// dependency) and at least min(n, burst).
//
// case : lim=<int> burst=<int, 0 = omitted> n=<queries>
// out  : within=<0|1> atleast=<0|1> ## admitted=<a> refused=<r> bound=<b>

import (
	"fmt"
	"math/rand"
	"net"
	"time"

	"github.com/IrineSistiana/mosproxy/app/router"
	"github.com/IrineSistiana/mosproxy/internal/dnsmsg"
)

func c15cfgRun(cs string) string {
	m := kv(cs)
	lim, burst, n := atoi(m["lim"]), atoi(m["burst"]), atoi(m["n"])
	f, err := newFixture([]string{"udp"}, func(cfg *router.Config) {
		cfg.Limiter.Client.Limit, cfg.Limiter.Client.Burst = lim, burst
	})
	if err != nil {
		return "fixture-error"
	}
	defer f.close()
	c, err := net.DialUDP("udp", nil, &net.UDPAddr{IP: net.IPv4(127, 0, 0, 1), Port: f.ports["udp"]})
	if err != nil {
		return "dial-error"
	}
	defer c.Close()
	start := time.Now()
	for i := 0; i < n; i++ {
		c.Write(buildQuery(uint16(100+i), wireLabels([]byte(fmt.Sprintf("ok%d", i)), []byte("limcfg")), 1, false, 0))
	}
	admitted, refused := 0, 0
	buf := make([]byte, 4096)
	for admitted+refused < n {
		c.SetReadDeadline(time.Now().Add(800 * time.Millisecond))
		k, err := c.Read(buf)
		if err != nil {
			break
		}
		rm, err := dnsmsg.UnpackMsg(buf[:k])
		if err != nil {
			continue
		}
		if rm.Header.RCode == dnsmsg.RCodeRefused {
			refused++
		} else {
			admitted++
		}
		dnsmsg.ReleaseMsg(rm)
	}
	el := time.Since(start)
	eb := burst
	if eb <= 0 {
		eb = lim // an omitted burst is the rate
	}
	// a udp query costs 1 at the listener and 3 more when it is forwarded (costUDPQuery, costFromUpstream): the
	// bound on the number of admitted queries follows from the bound on admitted cost, at least 1 per query
	bound := float64(eb) + float64(lim)*el.Seconds() + 1
	within, atleast := 1, 1
	if float64(admitted) > bound {
		within = 0
	}
	if admitted < 1 {
		atleast = 0
	}
	return fmt.Sprintf("within=%d atleast=%d ## admitted=%d refused=%d bound=%.1f", within, atleast, admitted, refused, bound)
}

func c15cfgGen(r *rand.Rand, thorough bool, emit func(c, cat string)) {
	emit(fmt.Sprintf("lim=%d burst=2 n=40", 20+r.Intn(20)), "burst-below-rate")
	emit(fmt.Sprintf("lim=%d burst=0 n=40", 4+r.Intn(4)), "burst-omitted")
	if thorough {
		for i := 0; i < 6; i++ {
			emit(fmt.Sprintf("lim=%d burst=%d n=60", 5+r.Intn(40), 1+r.Intn(12)), "random")
		}
	}
}

func init() {
	register("limiter_cfg", &component{gen: c15cfgGen, run: c15cfgRun})
}
