package main

// C20 scenario `redisstall`: the redis cache backend against a scripted RESP server that stops reading for a
// while. Lookups whose context ends while their command is still queued return (the caller releases the pooled
// key); the queued command is written later. Whatever the client writes then must still be the key that was
// asked for, not the content of a released buffer.

import (
	"bufio"
	"bytes"
	"context"
	"fmt"
	"io"
	"net"
	"net/netip"
	"strconv"
	"strings"
	"sync"
	"sync/atomic"
	"time"

	"github.com/IrineSistiana/mosproxy/app/router"
	"github.com/IrineSistiana/mosproxy/internal/dnsmsg"
)

type c20redis struct {
	l     net.Listener
	stall atomic.Bool
	mu    sync.Mutex
	gets  [][]byte
}

func c20readCmd(br *bufio.Reader) ([][]byte, error) {
	line, err := br.ReadString('\n')
	if err != nil {
		return nil, err
	}
	if len(line) < 3 || line[0] != '*' {
		return nil, fmt.Errorf("bad line %q", line)
	}
	n, _ := strconv.Atoi(strings.TrimSpace(line[1:]))
	out := make([][]byte, n)
	for i := 0; i < n; i++ {
		l2, err := br.ReadString('\n')
		if err != nil {
			return nil, err
		}
		sz, _ := strconv.Atoi(strings.TrimSpace(l2[1:]))
		b := make([]byte, sz+2)
		if _, err := io.ReadFull(br, b); err != nil {
			return nil, err
		}
		out[i] = b[:sz]
	}
	return out, nil
}

func (f *c20redis) serve(c net.Conn) {
	defer c.Close()
	br := bufio.NewReaderSize(c, 65536)
	for {
		for f.stall.Load() {
			time.Sleep(5 * time.Millisecond)
		}
		cmd, err := c20readCmd(br)
		if err != nil || len(cmd) == 0 {
			return
		}
		var reply string
		switch strings.ToUpper(string(cmd[0])) {
		case "HELLO":
			reply = "%7\r\n$6\r\nserver\r\n$5\r\nredis\r\n$7\r\nversion\r\n$5\r\n7.2.0\r\n$5\r\nproto\r\n:3\r\n$2\r\nid\r\n:1\r\n$4\r\nmode\r\n$10\r\nstandalone\r\n$4\r\nrole\r\n$6\r\nmaster\r\n$7\r\nmodules\r\n*0\r\n"
		case "CLUSTER":
			reply = "-ERR This instance has cluster support disabled\r\n"
		case "PING":
			reply = "+PONG\r\n"
		case "GET":
			if len(cmd) > 1 {
				f.mu.Lock()
				f.gets = append(f.gets, cmd[1])
				f.mu.Unlock()
			}
			reply = "_\r\n"
		default:
			reply = "+OK\r\n"
		}
		if _, err := c.Write([]byte(reply)); err != nil {
			return
		}
	}
}

func ownRedisStall(seed int64, n int) int {
	l, err := net.Listen("tcp", "127.0.0.1:0")
	if err != nil {
		return -1
	}
	defer l.Close()
	f := &c20redis{l: l}
	go func() {
		for {
			c, err := l.Accept()
			if err != nil {
				return
			}
			c.(*net.TCPConn).SetReadBuffer(8192) // a few KB fill the path
			go f.serve(c)
		}
	}()
	cfg := &router.Config{}
	cfg.Cache.Redis = "redis://" + l.Addr().String()
	v, err := router.VerifRun(cfg)
	if err != nil {
		return -1
	}
	defer v.Close()
	suffix := []byte("\x07example\x03org\x00")
	mkQ := func(i int) *dnsmsg.Question {
		q := dnsmsg.NewQuestion()
		q.Name = nameBuf(wireLabels([]byte(fmt.Sprintf("name-%08d", i)), []byte("some-long-label-to-make-the-key-bigger"), []byte("example"), []byte("org")))
		q.Class, q.Type = 1, 1
		return q
	}
	remote := netip.MustParseAddrPort("192.0.2.1:53")
	// wait until the backend is connected (its ping loop ticks once per second)
	connected := false
	for i := 0; i < 60 && !connected; i++ {
		q := mkQ(0)
		v.CacheGetCtx(context.Background(), q, remote)
		dnsmsg.ReleaseQuestion(q)
		f.mu.Lock()
		connected = len(f.gets) > 0
		f.mu.Unlock()
		if !connected {
			time.Sleep(100 * time.Millisecond)
		}
	}
	if !connected {
		return -1
	}
	bad := 0
	for round := 0; round < 4 && bad == 0; round++ { // how much is still queued at the deadline varies from run to run
		bad += c20stallRound(f, v, mkQ, remote, suffix, n)
	}
	_ = seed
	return bad
}

func c20stallRound(f *c20redis, v *router.VerifRouter, mkQ func(int) *dnsmsg.Question, remote netip.AddrPort, suffix []byte, n int) int {
	f.mu.Lock()
	f.gets = nil
	f.mu.Unlock()
	f.stall.Store(true)
	var wg sync.WaitGroup
	for g := 0; g < n; g++ {
		if g%8 == 0 {
			time.Sleep(50 * time.Microsecond)
		}
		wg.Add(1)
		go func() {
			defer wg.Done()
			q := mkQ(g + 1)
			ctx, cancel := context.WithTimeout(context.Background(), 150*time.Millisecond) // the request deadline, scaled down
			v.CacheGetCtx(ctx, q, remote)
			cancel()
			dnsmsg.ReleaseQuestion(q)
		}()
	}
	time.Sleep(300 * time.Millisecond) // every context is done; the queued calls have returned
	f.stall.Store(false)
	wg.Wait()
	time.Sleep(400 * time.Millisecond)
	f.mu.Lock()
	defer f.mu.Unlock()
	bad := 0
	for _, k := range f.gets {
		// every key that was asked for is "<13>name-NNNNNNNN<38>some-long…<7>example<3>org<0>" + class/type (+ mark)
		if len(k) < 6 || string(k[1:6]) != "name-" || !bytes.Contains(k, suffix) {
			bad++
		}
	}
	return bad
}
