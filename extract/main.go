// Command extract reads /repo's working tree with go/parser and regenerates
// the Lean file of facts (constants and pinned source fragments) that the
// models and theorems are written against.
//
//	extract -repo /repo -anchors anchors.json -lean Facts.lean -json facts.json
//
// A missing anchor never aborts: the fact is emitted as the sentinel value
// (Nat: 4242424242, String: "missing:<name>") so that the theorem depending on
// it fails by name and the check can report which tie broke.
package main

import (
	"bytes"
	"encoding/json"
	"flag"
	"fmt"
	"go/ast"
	"go/parser"
	"go/printer"
	"go/token"
	"os"
	"path/filepath"
	"regexp"
	"sort"
	"strconv"
	"strings"
)

type anchor struct {
	Name     string `json:"name"`
	File     string `json:"file"`
	Kind     string `json:"kind"` // const | stmt | cond | arg | count | body
	Ident    string `json:"ident,omitempty"`
	Func     string `json:"func,omitempty"`
	Contains string `json:"contains,omitempty"`
	Callee   string `json:"callee,omitempty"`
	Arg      int    `json:"arg,omitempty"`
	Nth      int    `json:"nth,omitempty"`
	Re       string `json:"re,omitempty"` // with kind stmt/cond/arg: emit the number captured by group 1 (Nat fact)
	Props    []string `json:"props,omitempty"`
}

type fact struct {
	Name    string `json:"name"`
	Type    string `json:"type"` // Nat | String
	Nat     uint64 `json:"nat,omitempty"`
	Str     string `json:"str,omitempty"`
	Missing bool   `json:"missing"`
	Where   string `json:"where"`
}

const missingNat = 4242424242

var fset = token.NewFileSet()
var files = map[string]*ast.File{}

func parse(repo, rel string) *ast.File {
	if f, ok := files[rel]; ok {
		return f
	}
	f, err := parser.ParseFile(fset, filepath.Join(repo, rel), nil, parser.ParseComments)
	if err != nil {
		files[rel] = nil
		return nil
	}
	files[rel] = f
	return f
}

func text(n ast.Node) string {
	var b bytes.Buffer
	cfg := printer.Config{Mode: printer.RawFormat, Tabwidth: 1}
	cfg.Fprint(&b, fset, n)
	// normalise whitespace
	return strings.Join(strings.Fields(b.String()), " ")
}

func findFunc(f *ast.File, name string) *ast.FuncDecl {
	recv, fn := "", name
	if i := strings.IndexByte(name, '.'); i >= 0 {
		recv, fn = name[:i], name[i+1:]
	}
	for _, d := range f.Decls {
		fd, ok := d.(*ast.FuncDecl)
		if !ok || fd.Name.Name != fn {
			continue
		}
		r := ""
		if fd.Recv != nil && len(fd.Recv.List) > 0 {
			t := fd.Recv.List[0].Type
			if s, ok := t.(*ast.StarExpr); ok {
				t = s.X
			}
			if ix, ok := t.(*ast.IndexExpr); ok {
				t = ix.X
			}
			if id, ok := t.(*ast.Ident); ok {
				r = id.Name
			}
		}
		if r == recv {
			return fd
		}
	}
	return nil
}

// constant evaluation over a small expression language
type env struct {
	f      *ast.File
	locals map[string]ast.Expr
}

func (e *env) lookup(name string) (ast.Expr, bool) {
	if x, ok := e.locals[name]; ok {
		return x, true
	}
	for _, d := range e.f.Decls {
		gd, ok := d.(*ast.GenDecl)
		if !ok || gd.Tok != token.CONST {
			continue
		}
		for _, s := range gd.Specs {
			vs := s.(*ast.ValueSpec)
			for i, id := range vs.Names {
				if id.Name == name && i < len(vs.Values) {
					return vs.Values[i], true
				}
			}
		}
	}
	return nil, false
}

func (e *env) eval(x ast.Expr) (uint64, bool) {
	switch v := x.(type) {
	case *ast.BasicLit:
		if v.Kind == token.INT {
			n, err := strconv.ParseUint(v.Value, 0, 64)
			return n, err == nil
		}
		if v.Kind == token.CHAR {
			r, _, _, err := strconv.UnquoteChar(v.Value[1:len(v.Value)-1], '\'')
			return uint64(r), err == nil
		}
	case *ast.ParenExpr:
		return e.eval(v.X)
	case *ast.Ident:
		if y, ok := e.lookup(v.Name); ok {
			return e.eval(y)
		}
	case *ast.SelectorExpr:
		if id, ok := v.X.(*ast.Ident); ok && id.Name == "time" {
			switch v.Sel.Name {
			case "Nanosecond":
				return 1, true
			case "Microsecond":
				return 1e3, true
			case "Millisecond":
				return 1e6, true
			case "Second":
				return 1e9, true
			case "Minute":
				return 60e9, true
			case "Hour":
				return 3600e9, true
			}
		}
	case *ast.CallExpr: // conversions like RCode(3), uint16(5)
		if len(v.Args) == 1 {
			return e.eval(v.Args[0])
		}
	case *ast.UnaryExpr:
		if v.Op == token.XOR { // ^uint16(0)
			if c, ok := v.X.(*ast.CallExpr); ok {
				if id, ok := c.Fun.(*ast.Ident); ok {
					switch id.Name {
					case "uint16":
						return 0xFFFF, true
					case "uint8":
						return 0xFF, true
					case "uint32":
						return 0xFFFFFFFF, true
					}
				}
			}
		}
	case *ast.BinaryExpr:
		a, ok1 := e.eval(v.X)
		b, ok2 := e.eval(v.Y)
		if !ok1 || !ok2 {
			return 0, false
		}
		switch v.Op {
		case token.ADD:
			return a + b, true
		case token.SUB:
			return a - b, true
		case token.MUL:
			return a * b, true
		case token.QUO:
			if b == 0 {
				return 0, false
			}
			return a / b, true
		case token.SHL:
			return a << b, true
		case token.SHR:
			return a >> b, true
		case token.OR:
			return a | b, true
		case token.AND:
			return a & b, true
		}
	}
	return 0, false
}

func localConsts(fd *ast.FuncDecl) map[string]ast.Expr {
	m := map[string]ast.Expr{}
	if fd == nil || fd.Body == nil {
		return m
	}
	ast.Inspect(fd.Body, func(n ast.Node) bool {
		if gd, ok := n.(*ast.GenDecl); ok && gd.Tok == token.CONST {
			for _, s := range gd.Specs {
				vs := s.(*ast.ValueSpec)
				for i, id := range vs.Names {
					if i < len(vs.Values) {
						m[id.Name] = vs.Values[i]
					}
				}
			}
		}
		return true
	})
	return m
}

func resolve(repo string, a anchor) fact {
	out := fact{Name: a.Name, Where: a.File + ":" + a.Func + a.Ident}
	f := parse(repo, a.File)
	miss := func(t string) fact {
		out.Type = t
		out.Missing = true
		if t == "Nat" {
			out.Nat = missingNat
		} else {
			out.Str = "missing:" + a.Name
		}
		return out
	}
	if f == nil {
		if a.Kind == "const" || a.Kind == "count" {
			return miss("Nat")
		}
		return miss("String")
	}
	var fd *ast.FuncDecl
	if a.Func != "" {
		fd = findFunc(f, a.Func)
		if fd == nil || fd.Body == nil {
			if a.Kind == "const" || a.Kind == "count" {
				return miss("Nat")
			}
			return miss("String")
		}
	}
	switch a.Kind {
	case "const":
		e := &env{f: f, locals: localConsts(fd)}
		x, ok := e.lookup(a.Ident)
		if !ok {
			return miss("Nat")
		}
		v, ok := e.eval(x)
		if !ok {
			return miss("Nat")
		}
		out.Type, out.Nat = "Nat", v
		return out
	case "body":
		out.Type, out.Str = "String", text(fd.Body)
		return out
	case "count":
		n := uint64(0)
		ast.Inspect(fd.Body, func(nd ast.Node) bool {
			if s, ok := nd.(ast.Stmt); ok {
				switch s.(type) {
				case *ast.BlockStmt:
					return true
				}
				t := text(s)
				// count only innermost statements
				if strings.Contains(t, a.Contains) && !hasChildStmtContaining(s, a.Contains) {
					n++
				}
			}
			return true
		})
		out.Type, out.Nat = "Nat", n
		return out
	case "stmt", "cond":
		var cands []ast.Node
		ast.Inspect(fd.Body, func(nd ast.Node) bool {
			if nd == nil {
				return true
			}
			if a.Kind == "cond" {
				var c ast.Expr
				switch s := nd.(type) {
				case *ast.IfStmt:
					c = s.Cond
				case *ast.ForStmt:
					c = s.Cond
				}
				if c != nil && strings.Contains(text(c), a.Contains) {
					cands = append(cands, c)
				}
				return true
			}
			if s, ok := nd.(ast.Stmt); ok {
				if _, isBlock := s.(*ast.BlockStmt); isBlock {
					return true
				}
				if strings.Contains(text(s), a.Contains) && !hasChildStmtContaining(s, a.Contains) {
					cands = append(cands, s)
				}
			}
			return true
		})
		if a.Nth >= len(cands) {
			return miss("String")
		}
		out.Type, out.Str = "String", text(cands[a.Nth])
		return out
	case "arg":
		var cands []ast.Expr
		ast.Inspect(fd.Body, func(nd ast.Node) bool {
			if c, ok := nd.(*ast.CallExpr); ok && text(c.Fun) == a.Callee && a.Arg < len(c.Args) {
				cands = append(cands, c.Args[a.Arg])
			}
			return true
		})
		if a.Nth >= len(cands) {
			return miss("String")
		}
		out.Type, out.Str = "String", text(cands[a.Nth])
		return out
	}
	return miss("String")
}

func hasChildStmtContaining(s ast.Stmt, sub string) bool {
	found := false
	ast.Inspect(s, func(nd ast.Node) bool {
		if nd == nil || nd == ast.Node(s) || found {
			return !found
		}
		if c, ok := nd.(ast.Stmt); ok {
			if _, isBlock := c.(*ast.BlockStmt); isBlock {
				return true
			}
			if strings.Contains(text(c), sub) {
				found = true
				return false
			}
		}
		return true
	})
	return found
}

func leanStr(s string) string {
	var b strings.Builder
	b.WriteByte('"')
	for _, r := range s {
		switch r {
		case '"':
			b.WriteString("\\\"")
		case '\\':
			b.WriteString("\\\\")
		case '\n':
			b.WriteString("\\n")
		case '\t':
			b.WriteString("\\t")
		default:
			b.WriteRune(r)
		}
	}
	b.WriteByte('"')
	return b.String()
}

func main() {
	repo := flag.String("repo", "/repo", "")
	anchorsPath := flag.String("anchors", "anchors", "")
	leanOut := flag.String("lean", "", "")
	jsonOut := flag.String("json", "", "")
	flag.Parse()

	// anchorsPath is a directory of *.json files (one per property) or one file
	var as []anchor
	paths := []string{*anchorsPath}
	if st, err := os.Stat(*anchorsPath); err == nil && st.IsDir() {
		paths, _ = filepath.Glob(filepath.Join(*anchorsPath, "*.json"))
		sort.Strings(paths)
	}
	seen := map[string]bool{}
	for _, p := range paths {
		raw, err := os.ReadFile(p)
		if err != nil {
			fmt.Fprintln(os.Stderr, err)
			os.Exit(2)
		}
		var part []anchor
		if err := json.Unmarshal(raw, &part); err != nil {
			fmt.Fprintln(os.Stderr, "anchors:", p, err)
			os.Exit(2)
		}
		for _, a := range part {
			if seen[a.Name] {
				fmt.Fprintln(os.Stderr, "duplicate anchor name", a.Name, "in", p)
				os.Exit(2)
			}
			seen[a.Name] = true
			as = append(as, a)
		}
	}
	var facts []fact
	for _, a := range as {
		f := resolve(*repo, a)
		if a.Re != "" && f.Type == "String" {
			// numeric fact captured from the located source fragment
			f.Type = "Nat"
			if f.Missing {
				f.Nat, f.Str = missingNat, ""
			} else if m := regexp.MustCompile(a.Re).FindStringSubmatch(f.Str); m != nil && len(m) > 1 {
				n, err := strconv.ParseUint(m[1], 0, 64)
				if err != nil {
					f.Missing, f.Nat = true, missingNat
				} else {
					f.Nat = n
				}
				f.Str = ""
			} else {
				f.Missing, f.Nat, f.Str = true, missingNat, ""
			}
		}
		facts = append(facts, f)
	}
	sort.SliceStable(facts, func(i, j int) bool { return facts[i].Name < facts[j].Name })

	var b strings.Builder
	b.WriteString("/- GENERATED by /verif/extract from /repo's working tree. Do not edit. -/\nnamespace MosVerif.Facts\n\n")
	for _, f := range facts {
		fmt.Fprintf(&b, "/-- %s%s -/\n", f.Where, map[bool]string{true: " (MISSING ANCHOR)", false: ""}[f.Missing])
		if f.Type == "Nat" {
			fmt.Fprintf(&b, "def %s : Nat := %d\n\n", f.Name, f.Nat)
		} else {
			fmt.Fprintf(&b, "def %s : String := %s\n\n", f.Name, leanStr(f.Str))
		}
	}
	b.WriteString("end MosVerif.Facts\n")
	if *leanOut != "" {
		old, _ := os.ReadFile(*leanOut)
		if string(old) != b.String() {
			if err := os.WriteFile(*leanOut, []byte(b.String()), 0o644); err != nil {
				fmt.Fprintln(os.Stderr, err)
				os.Exit(2)
			}
		}
	}
	if *jsonOut != "" {
		j, _ := json.MarshalIndent(facts, "", " ")
		os.WriteFile(*jsonOut, j, 0o644)
	}
}
