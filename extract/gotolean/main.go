// Command gotolean translates small, pure fragments of mosproxy's Go source (integer / boolean logic:
// assignments, if/else, switch, return, arithmetic, comparisons, shifts, bit operations, min/max, integer
// conversions) into Lean 4 definitions (`Id.run do` blocks with `let mut` variables), so that the hand-written
// models can be proved EQUAL to a mechanical translation of what the source says now.
//
//	gotolean -repo /repo -spec translate.json -lean Translated.lean
//
// A fragment that uses anything outside the supported subset is emitted as an opaque constant together with a
// `translation_failed_<name>` marker, which makes the equivalence theorem fail by name (a broken tie).
package main

import (
	"bytes"
	"encoding/json"
	"flag"
	"fmt"
	"go/ast"
	"go/parser"
	"go/printer"
	"go/token"
	"os"
	"path/filepath"
	"sort"
	"strconv"
	"strings"
)

type param struct {
	Lean string `json:"lean"`
	Go   string `json:"go"`   // source text of the Go expression this parameter stands for
	Type string `json:"type"` // "" (numeric) | "Bool"
}

type spec struct {
	Name       string            `json:"name"`
	File       string            `json:"file"`
	Func       string            `json:"func"`
	Num        string            `json:"num"` // Nat | Int
	From       string            `json:"from,omitempty"`
	To         string            `json:"to,omitempty"`
	Params     []param           `json:"params"`
	Result     string            `json:"result,omitempty"` // variable returned at the end of a range / by a bare return
	ResultType string            `json:"result_type,omitempty"`
	ConstFiles map[string]string `json:"const_files,omitempty"` // package alias -> file with its constants
	// Time: read the methods of time.Time / time.Duration arithmetically, instants and durations being integer
	// nanoseconds on one time line (use "num": "Int"): `a.Add(d)` = a + d, `a.Sub(b)` = a - b, `a.Before(b)` = a < b,
	// `a.After(b)` = a > b, `time.Until(a)` = a - now, `time.Since(a)` = now - a, `d.Milliseconds()` = d / 10^6
	// truncated toward zero; `now` is the parameter whose Go text is `time.Now()` (required for Until/Since). The
	// arithmetic is that of ℤ: Go's Sub/Until/Since saturate at ±2^63 ns (≈ 292 years) and Add wraps there — an
	// equivalence theorem that must cover such distances has to say so.
	Time bool `json:"time,omitempty"`
	// Cond mode: translate the condition of the Nth (default 1st) `if` / `for` statement of the function (at any
	// depth) whose condition's source text contains Cond. The result is a Bool.
	Cond string `json:"cond,omitempty"`
	Nth  int    `json:"nth,omitempty"`
	// Deep (statement-range mode): look for From … To in every statement list of the function (blocks, loop and
	// if bodies, case clauses, at any depth) instead of only its top-level list; the innermost (last found in
	// source order) list that contains the range is taken. For fragments inside a loop body.
	Deep bool `json:"deep,omitempty"`
	// Call mode: translate argument number Arg (0-based) of the first call of the function (at any depth) whose
	// callee's source text is Call and whose own source text contains Cond (optional; Nth as in cond mode).
	// The result is a number.
	Call string `json:"call,omitempty"`
	Arg  int    `json:"arg,omitempty"`
	// Byte-slice mode (bytes.go): "mode": "bytes"; Outs are the extra results (receiver fields, slices written
	// through, locals given as "name:type") returned in front of the Go results. Output goes to -codec.
	Mode string   `json:"mode,omitempty"`
	Outs []string `json:"outs,omitempty"`
	// Boxed (byte-slice mode, bytes_boxed.go): Go struct / interface types whose values are carried as values of a
	// named Lean type, with one Lean term template per concrete struct type ("{Field}" = current value of the field).
	Boxed map[string]boxDef `json:"boxed,omitempty"`
}

var fset = token.NewFileSet()

func text(n ast.Node) string {
	var b bytes.Buffer
	(&printer.Config{Mode: printer.RawFormat, Tabwidth: 1}).Fprint(&b, fset, n)
	return strings.Join(strings.Fields(b.String()), " ")
}

type tr struct {
	sp      spec
	repo    string
	file    *ast.File
	pkgs    map[string]*ast.File
	locals  map[string]bool
	consts  map[string]bool
	err     error
	out     strings.Builder
	retType string
	rename  map[string]string // Go identifier -> Lean identifier (variables declared in an `if` init are scoped)
	fresh   int
}

func (t *tr) fail(format string, a ...any) {
	if t.err == nil {
		t.err = fmt.Errorf(format, a...)
	}
}

func findFunc(f *ast.File, name string) *ast.FuncDecl {
	recv, fn := "", name
	if i := strings.IndexByte(name, '.'); i >= 0 {
		recv, fn = name[:i], name[i+1:]
	}
	for _, d := range f.Decls {
		fd, ok := d.(*ast.FuncDecl)
		if !ok || fd.Name.Name != fn {
			continue
		}
		r := ""
		if fd.Recv != nil && len(fd.Recv.List) > 0 {
			ty := fd.Recv.List[0].Type
			if s, ok := ty.(*ast.StarExpr); ok {
				ty = s.X
			}
			// generic receiver: `func (r *ipRange[V]) contains(…)`
			switch ix := ty.(type) {
			case *ast.IndexExpr:
				ty = ix.X
			case *ast.IndexListExpr:
				ty = ix.X
			}
			if id, ok := ty.(*ast.Ident); ok {
				r = id.Name
			}
		}
		if r == recv {
			return fd
		}
	}
	return nil
}

func lookupConst(f *ast.File, name string) ast.Expr {
	for _, d := range f.Decls {
		gd, ok := d.(*ast.GenDecl)
		if !ok || gd.Tok != token.CONST {
			continue
		}
		for _, s := range gd.Specs {
			vs := s.(*ast.ValueSpec)
			for i, id := range vs.Names {
				if id.Name == name && i < len(vs.Values) {
					return vs.Values[i]
				}
			}
		}
	}
	return nil
}

var timeConsts = map[string]string{"Nanosecond": "1", "Microsecond": "1000", "Millisecond": "1000000", "Second": "1000000000", "Minute": "60000000000", "Hour": "3600000000000"}

// integer limits of package math
var mathConsts = map[string]string{"MaxInt8": "127", "MaxUint8": "255", "MaxInt16": "32767", "MaxUint16": "65535", "MaxInt32": "2147483647", "MaxUint32": "4294967295", "MaxInt64": "9223372036854775807", "MaxUint64": "18446744073709551615"}

var castMod = map[string]string{"uint8": "256", "byte": "256", "uint16": "65536", "uint32": "4294967296"}

func (t *tr) expr(e ast.Expr) string {
	src := text(e)
	for _, p := range t.sp.Params {
		if p.Go == src {
			return p.Lean
		}
	}
	switch v := e.(type) {
	case *ast.ParenExpr:
		return "(" + t.expr(v.X) + ")"
	case *ast.BasicLit:
		switch v.Kind {
		case token.INT:
			n, err := strconv.ParseUint(v.Value, 0, 64)
			if err != nil {
				t.fail("literal %s", v.Value)
			}
			return fmt.Sprint(n)
		case token.CHAR:
			r, _, _, err := strconv.UnquoteChar(v.Value[1:len(v.Value)-1], '\'')
			if err != nil {
				t.fail("char %s", v.Value)
			}
			return fmt.Sprint(int(r))
		}
	case *ast.Ident:
		if v.Name == "true" || v.Name == "false" {
			return v.Name
		}
		if r, ok := t.rename[v.Name]; ok {
			return r
		}
		if t.locals[v.Name] || t.consts[v.Name] {
			return v.Name
		}
		if c := lookupConst(t.file, v.Name); c != nil {
			return "(" + t.expr(c) + ")"
		}
	case *ast.SelectorExpr:
		if id, ok := v.X.(*ast.Ident); ok {
			if id.Name == "time" {
				if c, ok := timeConsts[v.Sel.Name]; ok {
					return c
				}
			}
			if id.Name == "math" {
				if c, ok := mathConsts[v.Sel.Name]; ok {
					return c
				}
			}
			if f := t.pkgFile(id.Name); f != nil {
				if c := lookupConst(f, v.Sel.Name); c != nil {
					save := t.file
					t.file = f
					s := "(" + t.expr(c) + ")"
					t.file = save
					return s
				}
			}
		}
	case *ast.UnaryExpr:
		switch v.Op {
		case token.NOT:
			return "(!" + t.expr(v.X) + ")"
		case token.SUB:
			if t.sp.Num == "Int" {
				return "(-" + t.expr(v.X) + ")"
			}
		case token.XOR:
			// bitwise complement of a fixed-width unsigned conversion: ^uint16(x) = 65535 - x mod 65536
			if c, ok := v.X.(*ast.CallExpr); ok && len(c.Args) == 1 {
				if id, ok := c.Fun.(*ast.Ident); ok {
					if m, ok := castMod[id.Name]; ok {
						return fmt.Sprintf("(%s - 1 - (%s %% %s))", m, t.expr(c.Args[0]), m)
					}
				}
			}
		}
	case *ast.CallExpr:
		if id, ok := v.Fun.(*ast.Ident); ok && len(v.Args) >= 1 {
			switch id.Name {
			case "min", "max":
				if len(v.Args) == 2 {
					return fmt.Sprintf("(%s %s %s)", id.Name, t.expr(v.Args[0]), t.expr(v.Args[1]))
				}
			case "int", "int64", "uint", "uint64":
				return t.expr(v.Args[0])
			}
			if m, ok := castMod[id.Name]; ok {
				return fmt.Sprintf("(%s %% %s)", t.expr(v.Args[0]), m)
			}
			// conversion to a named integer type of this package (e.g. OpCode(0)): the value itself
			if len(v.Args) == 1 && ast.IsExported(id.Name) {
				return t.expr(v.Args[0])
			}
		}
		if sel, ok := v.Fun.(*ast.SelectorExpr); ok && t.sp.Time {
			// methods of time.Time / time.Duration read arithmetically (see spec.Time)
			if s := t.timeCall(sel, v.Args); s != "" {
				return s
			}
		}
		if sel, ok := v.Fun.(*ast.SelectorExpr); ok && len(v.Args) == 1 {
			// conversion to a named type of another package: time.Duration(x), dnsmsg.RCode(x)
			if _, ok := sel.X.(*ast.Ident); ok && ast.IsExported(sel.Sel.Name) {
				return t.expr(v.Args[0])
			}
		}
	case *ast.BinaryExpr:
		a, b := t.expr(v.X), t.expr(v.Y)
		op := ""
		switch v.Op {
		case token.ADD:
			op = "+"
		case token.SUB:
			op = "-"
		case token.MUL:
			op = "*"
		case token.QUO:
			op = "/"
		case token.REM:
			op = "%"
		case token.SHL:
			op = "<<<"
		case token.SHR:
			op = ">>>"
		case token.OR:
			op = "|||"
		case token.AND:
			op = "&&&"
		case token.XOR:
			op = "^^^"
		case token.LAND:
			op = "&&"
		case token.LOR:
			op = "||"
		case token.EQL:
			return fmt.Sprintf("(decide (%s = %s))", a, b)
		case token.NEQ:
			return fmt.Sprintf("(decide (%s ≠ %s))", a, b)
		case token.LSS:
			return fmt.Sprintf("(decide (%s < %s))", a, b)
		case token.LEQ:
			return fmt.Sprintf("(decide (%s ≤ %s))", a, b)
		case token.GTR:
			return fmt.Sprintf("(decide (%s > %s))", a, b)
		case token.GEQ:
			return fmt.Sprintf("(decide (%s ≥ %s))", a, b)
		}
		if op != "" {
			return fmt.Sprintf("(%s %s %s)", a, op, b)
		}
	}
	t.fail("unsupported expression %q", src)
	return "0"
}

// timeCall translates a call of a time.Time / time.Duration method or of time.Until / time.Since ("" = not one).
func (t *tr) timeCall(sel *ast.SelectorExpr, args []ast.Expr) string {
	if id, ok := sel.X.(*ast.Ident); ok && id.Name == "time" && len(args) == 1 {
		now := ""
		for _, p := range t.sp.Params {
			if p.Go == "time.Now()" {
				now = p.Lean
			}
		}
		if now == "" {
			return ""
		}
		switch sel.Sel.Name {
		case "Until":
			return fmt.Sprintf("(%s - %s)", t.expr(args[0]), now)
		case "Since":
			return fmt.Sprintf("(%s - %s)", now, t.expr(args[0]))
		}
		return ""
	}
	switch {
	case sel.Sel.Name == "Add" && len(args) == 1:
		return fmt.Sprintf("(%s + %s)", t.expr(sel.X), t.expr(args[0]))
	case sel.Sel.Name == "Sub" && len(args) == 1:
		return fmt.Sprintf("(%s - %s)", t.expr(sel.X), t.expr(args[0]))
	case sel.Sel.Name == "Before" && len(args) == 1:
		return fmt.Sprintf("(decide (%s < %s))", t.expr(sel.X), t.expr(args[0]))
	case sel.Sel.Name == "After" && len(args) == 1:
		return fmt.Sprintf("(decide (%s > %s))", t.expr(sel.X), t.expr(args[0]))
	case sel.Sel.Name == "Milliseconds" && len(args) == 0 && t.sp.Num == "Int":
		return fmt.Sprintf("(Int.tdiv %s 1000000)", t.expr(sel.X))
	}
	return ""
}

func (t *tr) pkgFile(alias string) *ast.File {
	rel, ok := t.sp.ConstFiles[alias]
	if !ok {
		return nil
	}
	if f, ok := t.pkgs[alias]; ok {
		return f
	}
	f, err := parser.ParseFile(fset, filepath.Join(t.repo, rel), nil, 0)
	if err != nil {
		return nil
	}
	t.pkgs[alias] = f
	return f
}

func (t *tr) line(ind int, s string) {
	t.out.WriteString(strings.Repeat("  ", ind) + s + "\n")
}

func isBoolExpr(e ast.Expr) bool { return true }

func (t *tr) lhsName(e ast.Expr) string {
	src := text(e)
	for _, p := range t.sp.Params {
		if p.Go == src {
			return p.Lean
		}
	}
	if id, ok := e.(*ast.Ident); ok {
		return id.Name
	}
	t.fail("unsupported assignment target %q", src)
	return "_"
}

func (t *tr) stmts(ind int, list []ast.Stmt) {
	for _, s := range list {
		t.stmt(ind, s)
	}
}

func (t *tr) stmt(ind int, s ast.Stmt) {
	switch v := s.(type) {
	case *ast.BlockStmt:
		t.stmts(ind, v.List)
	case *ast.DeclStmt:
		gd, ok := v.Decl.(*ast.GenDecl)
		if !ok {
			t.fail("decl")
			return
		}
		for _, sp := range gd.Specs {
			vs, ok := sp.(*ast.ValueSpec)
			if !ok {
				t.fail("decl spec")
				return
			}
			for i, id := range vs.Names {
				val := "0"
				if i < len(vs.Values) {
					val = t.expr(vs.Values[i])
				}
				if gd.Tok == token.CONST {
					t.consts[id.Name] = true
					t.line(ind, fmt.Sprintf("let %s : %s := %s", id.Name, t.sp.Num, val))
				} else {
					t.locals[id.Name] = true
					t.line(ind, fmt.Sprintf("let mut %s : %s := %s", id.Name, t.sp.Num, val))
				}
			}
		}
	case *ast.AssignStmt:
		if len(v.Lhs) != 1 || len(v.Rhs) != 1 {
			t.fail("multi-assignment %q", text(v))
			return
		}
		name := t.lhsName(v.Lhs[0])
		rhs := t.expr(v.Rhs[0])
		switch v.Tok {
		case token.DEFINE:
			t.locals[name] = true
			t.line(ind, fmt.Sprintf("let mut %s := %s", name, rhs))
		case token.ASSIGN:
			t.line(ind, fmt.Sprintf("%s := %s", name, rhs))
		case token.OR_ASSIGN:
			t.line(ind, fmt.Sprintf("%s := (%s ||| %s)", name, name, rhs))
		case token.ADD_ASSIGN:
			t.line(ind, fmt.Sprintf("%s := (%s + %s)", name, name, rhs))
		case token.SUB_ASSIGN:
			t.line(ind, fmt.Sprintf("%s := (%s - %s)", name, name, rhs))
		default:
			t.fail("assignment operator in %q", text(v))
		}
	case *ast.IncDecStmt:
		name := t.lhsName(v.X)
		if v.Tok == token.INC {
			t.line(ind, fmt.Sprintf("%s := (%s + 1)", name, name))
		} else {
			t.line(ind, fmt.Sprintf("%s := (%s - 1)", name, name))
		}
	case *ast.IfStmt:
		var restore func()
		if v.Init != nil {
			// `if m := x; cond {…}`: m is scoped to the if statement — give it a fresh Lean name
			as, ok := v.Init.(*ast.AssignStmt)
			if !ok || as.Tok != token.DEFINE || len(as.Lhs) != 1 || len(as.Rhs) != 1 {
				t.fail("unsupported if-init %q", text(v.Init))
				return
			}
			id, ok := as.Lhs[0].(*ast.Ident)
			if !ok {
				t.fail("unsupported if-init %q", text(v.Init))
				return
			}
			rhs := t.expr(as.Rhs[0])
			t.fresh++
			name := fmt.Sprintf("%s_%d", id.Name, t.fresh)
			old, had := t.rename[id.Name]
			t.rename[id.Name] = name
			restore = func() {
				if had {
					t.rename[id.Name] = old
				} else {
					delete(t.rename, id.Name)
				}
			}
			t.line(ind, fmt.Sprintf("let %s := %s", name, rhs))
		}
		defer func() {
			if restore != nil {
				restore()
			}
		}()
		t.line(ind, "if "+t.expr(v.Cond)+" then")
		t.stmts(ind+1, v.Body.List)
		if len(v.Body.List) == 0 {
			t.line(ind+1, "pure ()")
		}
		if v.Else != nil {
			t.line(ind, "else")
			switch e := v.Else.(type) {
			case *ast.BlockStmt:
				t.stmts(ind+1, e.List)
				if len(e.List) == 0 {
					t.line(ind+1, "pure ()")
				}
			default:
				t.stmt(ind+1, e)
			}
		}
	case *ast.SwitchStmt:
		if v.Init != nil {
			t.fail("switch init")
			return
		}
		tag := ""
		if v.Tag != nil {
			tag = t.expr(v.Tag)
		}
		var def *ast.CaseClause
		first := true
		for _, c := range v.Body.List {
			cc := c.(*ast.CaseClause)
			if cc.List == nil {
				def = cc
				continue
			}
			var conds []string
			for _, e := range cc.List {
				if tag != "" {
					conds = append(conds, fmt.Sprintf("(decide (%s = %s))", tag, t.expr(e)))
				} else {
					conds = append(conds, t.expr(e))
				}
			}
			kw := "else if "
			if first {
				kw = "if "
			}
			first = false
			t.line(ind, kw+strings.Join(conds, " || ")+" then")
			t.stmts(ind+1, cc.Body)
			if len(cc.Body) == 0 {
				t.line(ind+1, "pure ()")
			}
		}
		if def != nil {
			if first {
				t.stmts(ind, def.Body)
			} else {
				t.line(ind, "else")
				t.stmts(ind+1, def.Body)
				if len(def.Body) == 0 {
					t.line(ind+1, "pure ()")
				}
			}
		}
	case *ast.BranchStmt:
		// a fragment taken from a loop body (deep mode) is ONE iteration as a function of the variables before it:
		// `continue` ends the iteration with the current value of the result variable
		if v.Tok == token.CONTINUE && v.Label == nil && t.sp.Deep && t.sp.Result != "" {
			t.line(ind, "return "+t.sp.Result)
		} else {
			t.fail("unsupported statement %q", text(s))
		}
	case *ast.ReturnStmt:
		switch len(v.Results) {
		case 0:
			if t.sp.Result == "" {
				t.fail("bare return without result variable")
			}
			t.line(ind, "return "+t.sp.Result)
		case 1:
			t.line(ind, "return "+t.expr(v.Results[0]))
		default:
			t.fail("multi-value return")
		}
	default:
		t.fail("unsupported statement %q", text(s))
	}
}

func translate(repo string, sp spec) (string, error) {
	f, err := parser.ParseFile(fset, filepath.Join(repo, sp.File), nil, 0)
	if err != nil {
		return "", err
	}
	fd := findFunc(f, sp.Func)
	if fd == nil || fd.Body == nil {
		return "", fmt.Errorf("function %s not found", sp.Func)
	}
	t := &tr{sp: sp, repo: repo, file: f, pkgs: map[string]*ast.File{}, locals: map[string]bool{}, consts: map[string]bool{}, rename: map[string]string{}}
	if sp.Call != "" {
		var found ast.Expr
		k := 0
		ast.Inspect(fd.Body, func(n ast.Node) bool {
			c, ok := n.(*ast.CallExpr)
			if ok && found == nil && text(c.Fun) == sp.Call && strings.Contains(text(c), sp.Cond) && sp.Arg < len(c.Args) {
				k++
				if k >= max(sp.Nth, 1) {
					found = c.Args[sp.Arg]
				}
			}
			return true
		})
		if found == nil {
			return "", fmt.Errorf("call of %s containing %q not found in %s", sp.Call, sp.Cond, sp.Func)
		}
		body := t.expr(found)
		if t.err != nil {
			return "", t.err
		}
		var sig strings.Builder
		for _, p := range sp.Params {
			ty := p.Type
			if ty == "" {
				ty = sp.Num
			}
			fmt.Fprintf(&sig, " (%s : %s)", p.Lean, ty)
		}
		return fmt.Sprintf("/-- translated from %s `%s`: argument %d of a call of `%s`, `%s` -/\ndef %s%s : %s :=\n  %s\n", sp.File, sp.Func,
			sp.Arg, sp.Call, strings.ReplaceAll(text(found), "-/", "- /"), sp.Name, sig.String(), sp.Num, body), nil
	}
	if sp.Cond != "" {
		var found ast.Expr
		k := 0
		ast.Inspect(fd.Body, func(n ast.Node) bool {
			var c ast.Expr
			switch v := n.(type) {
			case *ast.IfStmt:
				c = v.Cond
			case *ast.ForStmt:
				c = v.Cond
			}
			if c != nil && found == nil && strings.Contains(text(c), sp.Cond) {
				k++
				if k >= max(sp.Nth, 1) {
					found = c
				}
			}
			return true
		})
		if found == nil {
			return "", fmt.Errorf("condition containing %q not found in %s", sp.Cond, sp.Func)
		}
		body := t.expr(found)
		if t.err != nil {
			return "", t.err
		}
		var sig strings.Builder
		for _, p := range sp.Params {
			ty := p.Type
			if ty == "" {
				ty = sp.Num
			}
			fmt.Fprintf(&sig, " (%s : %s)", p.Lean, ty)
		}
		return fmt.Sprintf("/-- translated from %s `%s`: the condition `%s` -/\ndef %s%s : Bool :=\n  %s\n", sp.File, sp.Func,
			strings.ReplaceAll(text(found), "-/", "- /"), sp.Name, sig.String(), body), nil
	}
	list := fd.Body.List
	if sp.From != "" || sp.To != "" {
		findRange := func(list []ast.Stmt) []ast.Stmt {
			from, to := -1, -1
			for i, s := range list {
				tx := text(s)
				if from < 0 && sp.From != "" && strings.Contains(tx, sp.From) {
					from = i
				}
				if sp.To != "" && strings.Contains(tx, sp.To) {
					to = i
				}
			}
			if sp.From == "" {
				from = 0
			}
			if from < 0 || to < from {
				return nil
			}
			return list[from : to+1]
		}
		var r []ast.Stmt
		if sp.Deep {
			ast.Inspect(fd.Body, func(n ast.Node) bool {
				var l []ast.Stmt
				switch v := n.(type) {
				case *ast.BlockStmt:
					l = v.List
				case *ast.CaseClause:
					l = v.Body
				case *ast.CommClause:
					l = v.Body
				}
				if x := findRange(l); x != nil {
					r = x
				}
				return true
			})
		} else {
			r = findRange(list)
		}
		if r == nil {
			return "", fmt.Errorf("statement range not found in %s", sp.Func)
		}
		list = r
	}
	// named results are mutable variables
	if fd.Type.Results != nil && sp.From == "" {
		for _, r := range fd.Type.Results.List {
			for _, n := range r.Names {
				isParam := false
				for _, p := range sp.Params {
					if p.Lean == n.Name {
						isParam = true
					}
				}
				if !isParam {
					t.locals[n.Name] = true
					t.line(1, fmt.Sprintf("let mut %s : %s := 0", n.Name, sp.Num))
				}
			}
		}
	}
	// parameters that are assigned to must be mutable copies
	assigned := map[string]bool{}
	ast.Inspect(&ast.BlockStmt{List: list}, func(n ast.Node) bool {
		switch v := n.(type) {
		case *ast.AssignStmt:
			if v.Tok != token.DEFINE {
				for _, l := range v.Lhs {
					assigned[text(l)] = true
				}
			}
		case *ast.IncDecStmt:
			assigned[text(v.X)] = true
		}
		return true
	})
	for _, p := range sp.Params {
		if assigned[p.Go] {
			t.line(1, fmt.Sprintf("let mut %s := %s", p.Lean, p.Lean))
		}
	}
	t.stmts(1, list)
	if sp.Result != "" {
		if _, isRet := list[len(list)-1].(*ast.ReturnStmt); !isRet {
			t.line(1, "return "+sp.Result)
		}
	}
	if t.err != nil {
		return "", t.err
	}
	var sig strings.Builder
	for _, p := range sp.Params {
		ty := p.Type
		if ty == "" {
			ty = sp.Num
		}
		fmt.Fprintf(&sig, " (%s : %s)", p.Lean, ty)
	}
	rt := sp.ResultType
	if rt == "" {
		rt = sp.Num
	}
	return fmt.Sprintf("/-- translated from %s `%s`%s -/\ndef %s%s : %s := Id.run do\n%s", sp.File, sp.Func,
		map[bool]string{true: " (statements `" + sp.From + "` … `" + sp.To + "`)", false: ""}[sp.From != "" || sp.To != ""],
		sp.Name, sig.String(), rt, t.out.String()), nil
}

func main() {
	repo := flag.String("repo", "/repo", "")
	specPath := flag.String("spec", "translate.json", "")
	leanOut := flag.String("lean", "", "")
	codecOut := flag.String("codec", "", "output of the byte-slice mode (fragments with \"mode\": \"bytes\")")
	flag.Parse()
	raw, err := os.ReadFile(*specPath)
	if err != nil {
		fmt.Fprintln(os.Stderr, err)
		os.Exit(2)
	}
	var specs []spec
	if err := json.Unmarshal(raw, &specs); err != nil {
		fmt.Fprintln(os.Stderr, "spec:", err)
		os.Exit(2)
	}
	// further fragment lists, one file per property: <spec without .json>.d/*.json (sorted by name)
	more, _ := filepath.Glob(filepath.Join(strings.TrimSuffix(*specPath, ".json")+".d", "*.json"))
	sort.Strings(more)
	for _, f := range more {
		raw, err := os.ReadFile(f)
		if err != nil {
			fmt.Fprintln(os.Stderr, err)
			os.Exit(2)
		}
		var extra []spec
		if err := json.Unmarshal(raw, &extra); err != nil {
			fmt.Fprintln(os.Stderr, "spec", f+":", err)
			os.Exit(2)
		}
		specs = append(specs, extra...)
	}
	// fragments of the byte-slice mode are translated by bytes.go into their own file
	var byteSpecs []spec
	n := 0
	for _, sp := range specs {
		if sp.Mode == "bytes" {
			byteSpecs = append(byteSpecs, sp)
		} else {
			specs[n] = sp
			n++
		}
	}
	specs = specs[:n]
	if *codecOut != "" {
		writeIfChanged(*codecOut, generateCodec(*repo, byteSpecs))
	}
	var b strings.Builder
	b.WriteString("/- GENERATED by /verif/extract/gotolean from /repo's working tree. Do not edit. -/\nnamespace MosVerif.Translated\n\n")
	for _, sp := range specs {
		def, err := translate(*repo, sp)
		if err != nil {
			// keep the name defined so that only the equivalence theorem of THIS fragment breaks
			var sig strings.Builder
			for _, p := range sp.Params {
				ty := p.Type
				if ty == "" {
					ty = sp.Num
				}
				fmt.Fprintf(&sig, " (%s : %s)", p.Lean, ty)
			}
			rt := sp.ResultType
			if rt == "" {
				rt = sp.Num
			}
			if sp.Cond != "" && sp.Call == "" {
				rt = "Bool"
			}
			fmt.Fprintf(&b, "/-- TRANSLATION FAILED: %s -/\nopaque %s%s : %s\n\n", strings.ReplaceAll(err.Error(), "-/", "- /"), sp.Name, sig.String(), rt)
			continue
		}
		b.WriteString(def)
		b.WriteString("\n")
	}
	b.WriteString("end MosVerif.Translated\n")
	if *leanOut == "" {
		fmt.Print(b.String())
		return
	}
	writeIfChanged(*leanOut, b.String())
}

func writeIfChanged(path, content string) {
	old, _ := os.ReadFile(path)
	if string(old) != content {
		if err := os.WriteFile(path, []byte(content), 0o644); err != nil {
			fmt.Fprintln(os.Stderr, err)
			os.Exit(2)
		}
	}
}
