// Extensions of the byte-slice mode (bytes.go) for functions that build RECORDS out of the decoded octets
// (`unpackResource`, `Msg.Unpack`).  All opt-in: a fragment list that uses none of them is translated exactly as
// before.
//
//  1. Boxed values ("boxed" in a spec).  A Go struct or interface type can be declared *boxed*: its values are
//     carried as values of a named Lean type that the translator does not look into,
//
//     "boxed": {"Resource": {"lean": "Wire.Resource", "mk": {"A": "⟨{ResourceHdr.Name}, …, .a {A}⟩", …}}}
//
//     - a slice of a boxed type (`[]*Question`, `[]Resource`) is a Lean `List`; `append(xs, x)` is `xs ++ [x]`;
//     - a variable of a boxed INTERFACE type holds a boxed value once it was assigned from a call; while it holds a
//     struct made by `r = NewT()` it has the concrete type T in that branch of the tail form (so `r.unpack(…)` is
//     resolved statically to `T.unpack`);
//     - where a boxed value is needed (the appended element, an interface result of a `return`) and the expression
//     is a struct variable of concrete type T, the value is the template `mk[T]` with every `{field}` replaced by
//     the CURRENT value of that field of the variable — a field that has no value there is a translation failure.
//     The declarations of all specs are merged (they must agree).  The templates are part of the trusted spec.
//
//  2. Struct results at a call site: `q, off, err = f(…)` / `m.Header = h.header()` where f returns a struct binds
//     the fields of the target (`q.Name`, …) to the flattened components of f's result.
//
//  3. A fresh pooled struct `r = NewT()`: no field has a value, except fixed-size byte arrays `[N]byte`, which hold
//     N octets (zeros here; a pooled object may hold stale octets — the translation is right for callees that
//     overwrite the array before reading it, which is what `copy`-style decoders do).
//
//  4. Struct-copy summary of a method: when the body of a translated method starts (before any statement that can
//     return) with `recv.F = p` for a by-value struct parameter `p`, and neither `recv.F…` nor `p` is written, has
//     its address taken or is the receiver of a call anywhere else in the body, then after a call `x.m(…, a, …)`
//     the caller's `x.F.*` are bound to the fields of `a` (`r.ResourceHdr = hdr` of the RDATA decoders).
//
//  5. Several top-level loops in one function (`Msg.Unpack`): every loop k becomes
//     `<name>_loop<k>_step free (s : σ) : Res (σ ⊕ σ)` over the variables σ assigned in the loop (`free`: the
//     other variables the loop reads — parameters of the fragment first, then locals in order of occurrence), `Sum.inl` = next iteration, `Sum.inr` = the loop is
//     left by its condition or a `break` with that state; the function itself is ONE definition in which the loop
//     is the bind `let σ ← GoSem.loop (<name>_loop<k>_step …) σ`.  Inside such a loop a `return` may only return a
//     non-nil error.  Variables declared by the `for` init go out of scope after the loop.
package main

import (
	"fmt"
	"go/ast"
	"go/parser"
	"go/token"
	"regexp"
	"sort"
	"strings"
)

type boxDef struct {
	Lean string            `json:"lean"`
	Mk   map[string]string `json:"mk"`
}

var boxReg = map[string]boxDef{}

func registerBoxes(specs []spec) error {
	boxReg = map[string]boxDef{}
	for _, sp := range specs {
		var names []string
		for n := range sp.Boxed {
			names = append(names, n)
		}
		sort.Strings(names)
		for _, n := range names {
			d := sp.Boxed[n]
			if old, ok := boxReg[n]; ok {
				if old.Lean != d.Lean {
					return fmt.Errorf("boxed type %s declared as %s and as %s", n, old.Lean, d.Lean)
				}
				for k, v := range d.Mk {
					if ov, ok := old.Mk[k]; ok && ov != v {
						return fmt.Errorf("boxed type %s: two templates for %s", n, k)
					}
					old.Mk[k] = v
				}
				continue
			}
			m := map[string]string{}
			for k, v := range d.Mk {
				m[k] = v
			}
			boxReg[n] = boxDef{Lean: d.Lean, Mk: m}
		}
	}
	return nil
}

// boxLeanTy: Lean type of "iface:T" / "list:T" for a boxed T ("" otherwise).
func boxLeanTy(ty string) string {
	switch {
	case strings.HasPrefix(ty, "iface:"):
		if d, ok := boxReg[ty[6:]]; ok {
			return d.Lean
		}
	case strings.HasPrefix(ty, "list:"):
		if d, ok := boxReg[ty[5:]]; ok {
			return "List " + d.Lean
		}
	}
	return ""
}

// boxSliceTy: "list:T" for `[]T` / `[]*T` with T boxed.
func boxSliceTy(v *ast.ArrayType) string {
	if v.Len != nil {
		return ""
	}
	e := v.Elt
	if s, ok := e.(*ast.StarExpr); ok {
		e = s.X
	}
	if id, ok := e.(*ast.Ident); ok {
		if _, ok := boxReg[id.Name]; ok {
			return "list:" + id.Name
		}
	}
	return ""
}

var tmplField = regexp.MustCompile(`\{([A-Za-z0-9_.]+)\}`)

// boxValue: the Lean term of boxed type `box` denoted by the Go expression e (see 1. above).
func (t *btr) boxValue(e ast.Expr, box string) string {
	if u, ok := e.(*ast.UnaryExpr); ok && u.Op == token.AND {
		e = u.X
	}
	bp, bty := t.path(e)
	if bp == "" {
		t.fail("boxed value %q is not a variable", text(e))
	}
	if bty == "iface:"+box {
		return t.read(bp, bty, text(e))
	}
	if !strings.HasPrefix(bty, "struct:") {
		t.fail("%q of type %s used as a boxed %s", text(e), bty, box)
	}
	tmpl, ok := boxReg[box].Mk[bty[7:]]
	if !ok {
		t.fail("no template makes a boxed %s from a %s", box, bty[7:])
	}
	return "(" + tmplField.ReplaceAllStringFunc(tmpl, func(m string) string {
		fe, err := parser.ParseExpr(bp + "." + m[1:len(m)-1])
		if err != nil {
			t.fail("template field %s", m)
		}
		fp, fty := t.path(fe)
		if fp == "" || leanTy(fty) == "" {
			t.fail("template field %s of %s", m, bty[7:])
		}
		return t.read(fp, fty, text(e)+"."+m[1:len(m)-1])
	}) + ")"
}

// boxedAppend: `append(xs, x)` on a list of boxed values.
func (t *btr) boxedAppend(c *ast.CallExpr) (string, string, bool) {
	if len(c.Args) != 2 || c.Ellipsis.IsValid() {
		return "", "", false
	}
	lp, lty := t.path(c.Args[0])
	if lp == "" || !strings.HasPrefix(lty, "list:") {
		return "", "", false
	}
	a := t.read(lp, lty, text(c.Args[0]))
	b := t.boxValue(c.Args[1], lty[5:])
	return fmt.Sprintf("(%s ++ [%s])", a, b), lty, true
}

// structResult: the pattern variables / assigned paths for a struct-typed result bound to the target l.
func (t *btr) structResult(l ast.Expr, define bool, rty string, src string) ([]string, [][2]string) {
	if id, ok := l.(*ast.Ident); ok && define {
		if _, exists := t.ty[id.Name]; !exists {
			t.ty[id.Name] = rty
		}
	}
	lp, lty := t.path(l)
	if lp == "" || lty != rty {
		t.fail("struct result assigned to %q in %q", text(l), src)
	}
	var pat []string
	var assigns [][2]string
	for _, fl := range t.pkg.structFields(rty[7:]) {
		if leanTy(fl.ty) == "" {
			t.fail("field %s of the struct result in %q", fl.name, src)
		}
		p := lp + "." + fl.name
		pat = append(pat, t.leanName(p))
		assigns = append(assigns, [2]string{p, fl.ty})
	}
	return pat, assigns
}

// freshStruct: `x = NewT()` (see 3. above); x takes the concrete type T here.
func (t *btr) freshStruct(ind int, name, sname string) {
	t.ty[name] = "struct:" + sname
	for p := range t.def {
		if p == name || strings.HasPrefix(p, name+".") {
			delete(t.def, p)
		}
	}
	st, ok := t.pkg.typeDecl(sname).(*ast.StructType)
	if !ok {
		t.fail("%s is not a struct", sname)
	}
	for _, f := range st.Fields.List {
		at, ok := f.Type.(*ast.ArrayType)
		if !ok || at.Len == nil || t.pkg.tyOf(at.Elt) != "u8" {
			continue
		}
		n, _ := t.exprTy(at.Len)
		for _, id := range f.Names {
			t.assign(ind, name+"."+id.Name, "bytes", fmt.Sprintf("(List.replicate %s (0 : UInt8))", n))
		}
	}
}

// ---- 4. struct-copy summary ----

type structCopy struct {
	dst string // path below the receiver, e.g. ".ResourceHdr"
	arg int    // index of the formal parameter that is copied
}

func hasReturn(s ast.Stmt) bool {
	found := false
	ast.Inspect(s, func(n ast.Node) bool {
		if _, ok := n.(*ast.ReturnStmt); ok {
			found = true
		}
		return !found
	})
	return found
}

func (f *bfunc) structCopies() []structCopy {
	if f.copiesDone {
		return f.copies
	}
	f.copiesDone = true
	if f.recv == "" || f.fd == nil {
		return nil
	}
	t := &btr{f: f, pkg: f.pkg, ty: map[string]string{}}
	t.ty[f.recv] = f.recvTy
	for i, n := range f.formals {
		t.ty[n] = f.formTy[i]
	}
	under := func(p, base string) bool { return p == base || strings.HasPrefix(p, base+".") }
	for _, s := range f.fd.Body.List {
		if hasReturn(s) {
			break
		}
		as, ok := s.(*ast.AssignStmt)
		if !ok || as.Tok != token.ASSIGN || len(as.Lhs) != 1 || len(as.Rhs) != 1 {
			continue
		}
		lp, lty := t.path(as.Lhs[0])
		id, ok := as.Rhs[0].(*ast.Ident)
		if !ok || lp == "" || !strings.HasPrefix(lp, f.recv+".") || !strings.HasPrefix(lty, "struct:") {
			continue
		}
		arg := -1
		for i, n := range f.formals {
			if n == id.Name && f.formTy[i] == lty {
				arg = i
			}
		}
		if arg < 0 {
			continue
		}
		// the formal must be a by-value struct (a pointer could be written through by somebody else)
		k := 0
		byValue := false
		for _, p := range f.fd.Type.Params.List {
			for range p.Names {
				if k == arg {
					_, star := p.Type.(*ast.StarExpr)
					byValue = !star
				}
				k++
			}
		}
		if !byValue {
			continue
		}
		sound := true
		touch := func(e ast.Expr) {
			if p, _ := t.path(e); p != "" && (under(p, lp) || under(p, id.Name)) {
				sound = false
			}
		}
		ast.Inspect(f.fd.Body, func(n ast.Node) bool {
			switch v := n.(type) {
			case *ast.AssignStmt:
				if v == as {
					return false
				}
				for _, l := range v.Lhs {
					touch(l)
				}
			case *ast.IncDecStmt:
				touch(v.X)
			case *ast.UnaryExpr:
				if v.Op == token.AND {
					touch(v.X)
				}
			case *ast.CallExpr:
				if sel, ok := v.Fun.(*ast.SelectorExpr); ok {
					touch(sel.X)
				}
			}
			return true
		})
		if sound {
			f.copies = append(f.copies, structCopy{dst: lp[len(f.recv):], arg: arg})
		}
	}
	return f.copies
}

// applyCopies: after the bind of a call `x.m(…)` of a translated method (see 4. above).
func (t *btr) applyCopies(ind int, callee *bfunc, c *ast.CallExpr) {
	sel, ok := c.Fun.(*ast.SelectorExpr)
	if !ok || callee.recv == "" {
		return
	}
	rp, _ := t.path(sel.X)
	if rp == "" {
		return
	}
	for _, sc := range callee.structCopies() {
		sp, sty := t.path(c.Args[sc.arg])
		if sp == "" || !strings.HasPrefix(sty, "struct:") {
			continue
		}
		lp := rp + sc.dst
		var keys []string
		for p := range t.def {
			if strings.HasPrefix(p, sp+".") && t.def[p] {
				keys = append(keys, p)
			}
		}
		sort.Strings(keys)
		for p := range t.def {
			if strings.HasPrefix(p, lp+".") {
				delete(t.def, p)
			}
		}
		for _, p := range keys {
			np := lp + p[len(sp):]
			t.ty[np] = t.ty[p]
			t.assign(ind, np, t.ty[p], t.leanName(p))
		}
	}
}

// ---- 5. several top-level loops ----

func countTopLoops(body []ast.Stmt) int {
	n := 0
	for _, s := range body {
		if l, ok := s.(*ast.LabeledStmt); ok {
			s = l.Stmt
		}
		if _, ok := s.(*ast.ForStmt); ok {
			n++
		}
	}
	return n
}

func (t *btr) translateSeqLoops(doc, rt string, body []ast.Stmt) string {
	t.multi = true
	t.aux = &strings.Builder{}
	t.doc = doc
	t.block(1, body, nil)
	return fmt.Sprintf("%s/-- %s -/\ndef %s%s : Res (%s) := do\n%s", t.aux.String(), doc, t.f.sp.Name, t.sig(), rt, t.out.String())
}

func (t *btr) seqLoop(ind int, label string, fs *ast.ForStmt, next func(int)) {
	if t.inLoop || t.depth != 0 {
		t.fail("a loop inside a loop or a branch")
	}
	before := cp(t.ty)
	run := func(ind int) {
		if len(t.pre) != 0 {
			t.fail("panicking expression in the for init")
		}
		var initNames []string
		for p := range t.ty {
			if _, ok := before[p]; !ok {
				initNames = append(initNames, p)
			}
		}
		t.loopNo++
		name := fmt.Sprintf("%s_loop%d_step", t.f.sp.Name, t.loopNo)
		loopStmts := append([]ast.Stmt{}, fs.Body.List...)
		if fs.Post != nil {
			loopStmts = append(loopStmts, fs.Post)
		}
		var state []string
		inState := map[string]bool{}
		for _, p := range t.assignedIn(loopStmts) {
			if t.def[p] {
				state = append(state, p)
				inState[p] = true
			}
		}
		if len(state) == 0 {
			t.fail("loop without state")
		}
		isParam := map[string]bool{}
		for _, p := range t.f.sp.Params {
			isParam[p.Go] = true
		}
		// the other variables the loop reads (parameters of the fragment first, in the order of the spec)
		var free []string
		seen := map[string]bool{}
		scan := func(n ast.Node) {
			if n == nil {
				return
			}
			ast.Inspect(n, func(x ast.Node) bool {
				e, ok := x.(ast.Expr)
				if !ok {
					return true
				}
				switch e.(type) {
				case *ast.Ident, *ast.SelectorExpr:
				default:
					return true
				}
				p, ty := t.path(e)
				if p == "" {
					return true
				}
				if t.def[p] && leanTy(ty) != "" && !inState[p] && !seen[p] {
					seen[p] = true
					if !isParam[p] {
						free = append(free, p)
					}
				}
				return false
			})
		}
		if fs.Cond != nil {
			scan(fs.Cond)
		}
		scan(fs.Body)
		if fs.Post != nil {
			scan(fs.Post)
		}
		var stTys, stNames []string
		for _, p := range state {
			stTys = append(stTys, t.ty[p])
			stNames = append(stNames, t.leanName(p))
		}
		stTy := tupleTy(stTys)
		sig := ""
		var args []string
		for _, p := range t.f.sp.Params {
			if seen[p.Go] {
				sig += fmt.Sprintf(" (%s : %s)", p.Lean, leanTy(t.ty[p.Go]))
				args = append(args, p.Lean)
			}
		}
		for _, p := range free {
			sig += fmt.Sprintf(" (%s : %s)", t.leanName(p), leanTy(t.ty[p]))
			args = append(args, t.leanName(p))
		}
		// one iteration
		sv := t.save()
		savedOut, savedLoop, savedSw := t.out, t.loop, t.swK
		var stepOut strings.Builder
		t.out, t.swK, t.inLoop = &stepOut, nil, true
		vals := func() string {
			var v []string
			for _, p := range state {
				v = append(v, t.read(p, "", p))
			}
			return tupleVal(v)
		}
		cont := func(ind int) { t.line(ind, "pure (Sum.inl "+vals()+")") }
		exit := func(ind int) { t.line(ind, "pure (Sum.inr "+vals()+")") }
		withPost := func(ind int) {
			if fs.Post != nil {
				t.block(ind, []ast.Stmt{fs.Post}, cont)
			} else {
				cont(ind)
			}
		}
		t.loop = &loopCtx{label: label, cont: withPost, brk: exit}
		stepBody := fs.Body.List
		if fs.Cond != nil {
			stepBody = []ast.Stmt{&ast.IfStmt{Cond: &ast.UnaryExpr{Op: token.NOT, X: &ast.ParenExpr{X: fs.Cond}}, Body: &ast.BlockStmt{List: []ast.Stmt{&ast.BranchStmt{Tok: token.BREAK}}}}}
			stepBody = append(stepBody, fs.Body.List...)
		}
		t.block(1, stepBody, withPost)
		t.out, t.loop, t.swK, t.inLoop = savedOut, savedLoop, savedSw, false
		t.restore(sv)
		fmt.Fprintf(t.aux, "/-- %s: ONE iteration of loop %d from state (%s): `Sum.inl` the next state, `Sum.inr` the state the loop is left with -/\ndef %s%s (s : %s) : Res ((%s) ⊕ (%s)) := do\n  let %s := s\n%s\n",
			t.doc, t.loopNo, strings.Join(state, ", "), name, sig, stTy, stTy, stTy, tupleVal(stNames), stepOut.String())
		pat := tupleVal(stNames)
		t.line(ind, fmt.Sprintf("let %s ← GoSem.loop (%s %s) %s", pat, name, strings.Join(args, " "), pat))
		for _, p := range initNames {
			delete(t.ty, p)
			delete(t.def, p)
		}
		next(ind)
	}
	if fs.Init != nil {
		t.block(ind, []ast.Stmt{fs.Init}, run)
	} else {
		run(ind)
	}
}
