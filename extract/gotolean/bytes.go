// Byte-slice mode of gotolean ("mode": "bytes" in a fragment list).
//
// Translates Go functions over byte slices into Lean 4 definitions in the `Res` monad of
// lean/MosVerif/Model/GoSem.lean (the hand-written prelude of Go semantics: explicit panics of slice / index
// expressions, `.err` for ANY non-nil error, big-endian readers, `append`, `copy`, loops).  Output:
// lean/MosVerif/Generated/TranslatedCodec.lean (flag -codec).
//
// Subset
//   - parameters / results: []byte (and named byte slices, pool.Buffer, byte arrays), int, uint8/16/32 (and named
//     types over them), bool, error; struct receivers / parameters / results are flattened into their fields
//     (`h.Name` becomes the Lean variable `h_Name`; promoted fields of embedded structs are resolved).
//   - a spec lists the Lean parameters (`params`: Go path -> Lean name) and the extra results (`outs`: receiver
//     fields, slice parameters written through, or locals) that are returned IN FRONT OF the Go results.
//   - statements: var, :=, =, op=, ++/--, if/else (with init), switch (tagged or not), return, labelled
//     break/continue, `copy(dst, src)`, calls of other translated functions.  Everything is emitted in tail form:
//     the statements that follow an `if`/`switch` are duplicated into every branch that falls through, variables
//     are re-bound by shadowing `let`s — the output contains no `mut`, no `return`, only `let`, `←`, `if`, `pure`.
//   - `x, off, err := f(…)` / `… = f(…)` must be followed by `if err != nil { return …, <non-nil error> }`
//     (only pool releases may precede the return); the pair becomes a monadic bind.  A later test of an error
//     variable that is known to be nil is resolved statically.
//   - integer expressions: Go `int` is ℕ (see the prelude for the justification); `a - b` on ints is an `Int`
//     that can only be compared; unsigned fixed-width arithmetic gets its `% 2^w` explicitly.
//   - one top-level `for` loop per function: `<name>_init` (state before the loop), `<name>_step` (one iteration:
//     `Sum.inl state'` or `Sum.inr result`, the statements after the loop being part of the iterations that leave
//     it) and `<name> := GoSem.loop step init`.
//
//   - writes through a byte slice (the ENCODER): `b[i] = v`, `copy(b[lo:], v)`, `n := copy(b, v)`,
//     `binary.BigEndian.PutUint16/32(b[lo:], v)`, a reslice passed to a callee that writes through it
//     (`putUint16(msg[0:2], v)`), a local window `w := msg[lo:hi]` of a slice the function writes through (reads of w
//     see the current contents of msg, writes through w go to msg): window := slice, operation, `GoSem.splice` back.
//     The written slice is one of the function's `outs`.  `pool.GetBuf(n)` needs a parameter with the Go text
//     "<pool>" (the previous contents of the recycled array).  Strings are their octets; structs of other packages of
//     the module are resolved (`q *dnsmsg.Question`); `[N]byte{a, b}` is a byte list.
//   - `map[string]uint16` (`GoSem.Map`): `m != nil`, `v, ok := m[k]`, `m[k] = v`; a map the function inserts into is an out.
//   - int differences are ℤ (`Int`) values: stored in variables of their own, compared, added, converted
//     (`uint16(x)`), used as index / slice bound via `GoSem.natOfInt`.
//   - struct-valued results (`scanner := NewNameScanner(n)`, missing fields of a composite literal get their zero
//     value), error VALUES kept in struct fields (`s.err = errX`, `return s.err`: a Bool, true = non-nil), named
//     results that the body never mentions, functions without results (the outs are the result).
//   - loops: the condition may be a call of a translated function with outs (`for scanner.Scan()`); calls before
//     the loop make `<name>_init` a `Res` value; a second loop behind the top-level loop or nested in an `if`
//     (no return inside) becomes `<name>_loop<k>_step` over the variables it assigns (`Sum.inl` next state,
//     `Sum.inr` final state), with the variables it reads as parameters.
//
// A function that leaves the subset becomes an `opaque` constant (only its own theorems break).
package main

import (
	"fmt"
	"go/ast"
	"go/parser"
	"go/token"
	"os"
	"path/filepath"
	"sort"
	"strconv"
	"strings"
)

type bfail struct{ msg string }

type pkgInfo struct {
	files []*ast.File
	dir   string
}

// imported resolves a package alias used in this package to a package of the same module ("" module root = the
// directory with go.mod above p.dir); nil when the import is not part of the module.
func (p *pkgInfo) imported(alias string) *pkgInfo {
	root := p.dir
	for {
		if _, err := os.Stat(filepath.Join(root, "go.mod")); err == nil {
			break
		}
		up := filepath.Dir(root)
		if up == root {
			return nil
		}
		root = up
	}
	mod := ""
	if raw, err := os.ReadFile(filepath.Join(root, "go.mod")); err == nil {
		for _, l := range strings.Split(string(raw), "\n") {
			if strings.HasPrefix(l, "module ") {
				mod = strings.TrimSpace(strings.TrimPrefix(l, "module "))
			}
		}
	}
	if mod == "" {
		return nil
	}
	for _, f := range p.files {
		for _, im := range f.Imports {
			path, _ := strconv.Unquote(im.Path.Value)
			name := filepath.Base(path)
			if im.Name != nil {
				name = im.Name.Name
			}
			if name == alias && strings.HasPrefix(path, mod+"/") {
				return loadPkg(filepath.Join(root, strings.TrimPrefix(path, mod+"/")))
			}
		}
	}
	return nil
}

var pkgCache = map[string]*pkgInfo{}

func loadPkg(dir string) *pkgInfo {
	if p, ok := pkgCache[dir]; ok {
		return p
	}
	p := &pkgInfo{dir: dir}
	names, _ := filepath.Glob(filepath.Join(dir, "*.go"))
	sort.Strings(names)
	for _, n := range names {
		if strings.HasSuffix(n, "_test.go") {
			continue
		}
		f, err := parser.ParseFile(fset, n, nil, 0)
		if err == nil {
			p.files = append(p.files, f)
		}
	}
	pkgCache[dir] = p
	return p
}

func (p *pkgInfo) typeDecl(name string) ast.Expr {
	for _, f := range p.files {
		for _, d := range f.Decls {
			gd, ok := d.(*ast.GenDecl)
			if !ok || gd.Tok != token.TYPE {
				continue
			}
			for _, s := range gd.Specs {
				ts := s.(*ast.TypeSpec)
				if ts.Name.Name == name {
					return ts.Type
				}
			}
		}
	}
	return nil
}

func (p *pkgInfo) constDecl(name string) (ast.Expr, ast.Expr) {
	for _, f := range p.files {
		for _, d := range f.Decls {
			gd, ok := d.(*ast.GenDecl)
			if !ok || gd.Tok != token.CONST {
				continue
			}
			for _, s := range gd.Specs {
				vs := s.(*ast.ValueSpec)
				for i, id := range vs.Names {
					if id.Name == name && i < len(vs.Values) {
						return vs.Values[i], vs.Type
					}
				}
			}
		}
	}
	return nil, nil
}

func (p *pkgInfo) funcDecl(name string) *ast.FuncDecl {
	for _, f := range p.files {
		if fd := findFunc(f, name); fd != nil {
			return fd
		}
	}
	return nil
}

func (p *pkgInfo) isVar(name string) bool {
	for _, f := range p.files {
		for _, d := range f.Decls {
			gd, ok := d.(*ast.GenDecl)
			if !ok || gd.Tok != token.VAR {
				continue
			}
			for _, s := range gd.Specs {
				for _, id := range s.(*ast.ValueSpec).Names {
					if id.Name == name {
						return true
					}
				}
			}
		}
	}
	return false
}

// ---- types: "int" "u8" "u16" "u32" "bool" "bytes" "error" "Int" "untyped" "struct:T" ----

var widths = map[string]int{"u8": 8, "u16": 16, "u32": 32}

func modOf(ty string) string { return fmt.Sprint(uint64(1) << widths[ty]) }

func (p *pkgInfo) tyOf(e ast.Expr) string {
	switch v := e.(type) {
	case *ast.Ident:
		switch v.Name {
		case "int", "int64", "uint", "uint64":
			return "int"
		case "uint8", "byte":
			return "u8"
		case "uint16":
			return "u16"
		case "uint32":
			return "u32"
		case "bool":
			return "bool"
		case "error":
			return "error"
		case "string":
			return "bytes" // a string is its octets
		}
		if d := p.typeDecl(v.Name); d != nil {
			if _, ok := d.(*ast.StructType); ok {
				return "struct:" + v.Name
			}
			if _, ok := d.(*ast.InterfaceType); ok {
				return "iface:" + v.Name
			}
			return p.tyOf(d)
		}
	case *ast.StarExpr:
		return p.tyOf(v.X)
	case *ast.ArrayType:
		if p.tyOf(v.Elt) == "u8" {
			return "bytes"
		}
		if s := boxSliceTy(v); s != "" { // bytes_boxed.go
			return s
		}
	case *ast.MapType:
		if p.tyOf(v.Key) == "bytes" && p.tyOf(v.Value) == "u16" {
			return "map" // map[string]uint16
		}
	case *ast.SelectorExpr:
		if id, ok := v.X.(*ast.Ident); ok && id.Name == "pool" && v.Sel.Name == "Buffer" {
			return "bytes"
		}
		// a type of another package of the module: dnsmsg.Question
		if id, ok := v.X.(*ast.Ident); ok {
			if q := p.imported(id.Name); q != nil {
				ty := q.tyOf(v.Sel)
				if strings.HasPrefix(ty, "struct:") {
					return "struct:" + id.Name + "." + v.Sel.Name
				}
				return ty
			}
		}
	}
	return "?"
}

func leanTy(ty string) string {
	switch ty {
	case "bytes":
		return "Bytes"
	case "bool":
		return "Bool"
	case "int", "u8", "u16", "u32":
		return "Nat"
	case "Int": // an int that holds a difference
		return "Int"
	case "map":
		return "GoSem.Map"
	case "error": // an error VALUE kept in a struct field: true = non-nil
		return "Bool"
	}
	return boxLeanTy(ty) // bytes_boxed.go ("" unless a boxed type)
}

// structFields returns the (name, type, embedded) fields of a struct type of the package in declaration order.
type sfield struct {
	name, ty string
	embedded bool
}

func (p *pkgInfo) structFields(name string) []sfield {
	if i := strings.IndexByte(name, '.'); i >= 0 { // struct of another package of the module
		if q := p.imported(name[:i]); q != nil {
			return q.structFields(name[i+1:])
		}
		return nil
	}
	st, ok := p.typeDecl(name).(*ast.StructType)
	if !ok {
		return nil
	}
	var res []sfield
	for _, f := range st.Fields.List {
		ty := p.tyOf(f.Type)
		if len(f.Names) == 0 {
			n := ""
			t := f.Type
			if s, ok := t.(*ast.StarExpr); ok {
				t = s.X
			}
			if id, ok := t.(*ast.Ident); ok {
				n = id.Name
			}
			res = append(res, sfield{n, ty, true})
			continue
		}
		for _, id := range f.Names {
			res = append(res, sfield{id.Name, ty, false})
		}
	}
	return res
}

// ---- function registry ----

type bfunc struct {
	sp      spec
	fd      *ast.FuncDecl
	pkg     *pkgInfo
	recv    string   // receiver variable name ("" for plain functions)
	recvTy  string   // struct:T
	formals []string // parameter names
	formTy  []string
	results []string // types of the results (incl. "error")
	hasErr  bool
	outTy   []string // types of sp.Outs
	failed  bool
	auxTy   [][2]string // name and Lean type of the auxiliary definitions (inner loops)
	sigTy   string // Lean type of the definition (known as soon as the parameters are resolved)
	stepTy  string // Lean type of <name>_step (loops)
	// bytes_boxed.go
	copies     []structCopy
	copiesDone bool
}

func (f *bfunc) key() string { return f.sp.Func }

// components of the Lean result tuple: outs, then the non-error results (struct results flattened)
func (f *bfunc) resultComponents() ([]string, error) {
	var tys []string
	tys = append(tys, f.outTy...)
	for _, r := range f.results {
		if r == "error" {
			continue
		}
		if strings.HasPrefix(r, "struct:") {
			for _, fl := range f.pkg.structFields(r[7:]) {
				if leanTy(fl.ty) == "" {
					return nil, fmt.Errorf("result struct field %s has unsupported type", fl.name)
				}
				tys = append(tys, fl.ty)
			}
			continue
		}
		if leanTy(r) == "" {
			return nil, fmt.Errorf("unsupported result type %s", r)
		}
		tys = append(tys, r)
	}
	return tys, nil
}

func tupleTy(tys []string) string {
	if len(tys) == 0 {
		return "Unit"
	}
	var l []string
	for _, t := range tys {
		l = append(l, leanTy(t))
	}
	return strings.Join(l, " × ")
}

func tupleVal(vals []string) string {
	if len(vals) == 0 {
		return "()"
	}
	if len(vals) == 1 {
		return vals[0]
	}
	return "(" + strings.Join(vals, ", ") + ")"
}

// ---- translator ----

type btr struct {
	f      *bfunc
	reg    map[string]*bfunc
	pkg    *pkgInfo
	ty     map[string]string // Go path -> type (declared variables / fields)
	def    map[string]bool   // path currently has a value
	lean   map[string]string // path -> Lean identifier
	errSt  map[string]string // error variable -> "nil" | "nonnil"
	out    *strings.Builder
	pre    []string // hoisted binds of the statement being translated
	tmp    int
	depth  int
	loop   *loopCtx
	swK    []func(int) // continuations of the enclosing switch statements (for an unlabelled break)
	inLoop bool
	alias  map[string]sliceAlias // local name -> window of a slice variable
	// inner loops (innerLoop): loops nested in an `if` / behind the function's top-level loop
	nCond     int
	nLoop     int
	noRet     bool
	auxIn     strings.Builder // auxiliary definitions (inner loops), emitted in front of the function's own
	loopNames map[*ast.ForStmt]string
	// bytes_boxed.go: several top-level loops
	multi  bool
	aux    *strings.Builder
	doc    string
	loopNo int
}

type loopCtx struct {
	label string
	cont  func(ind int)
	brk   func(ind int)
}

func (t *btr) fail(format string, a ...any) {
	panic(bfail{fmt.Sprintf(format, a...)})
}

func sanitize(path string) string {
	return strings.NewReplacer(".", "_").Replace(path)
}

func (t *btr) leanName(path string) string {
	if n, ok := t.lean[path]; ok {
		return n
	}
	return sanitize(path)
}

func (t *btr) line(ind int, s string) {
	t.out.WriteString(strings.Repeat("  ", ind) + s + "\n")
}

func (t *btr) flush(ind int) {
	for _, l := range t.pre {
		t.line(ind, l)
	}
	t.pre = nil
}

func (t *btr) hoist(rhs string) string {
	t.tmp++
	n := fmt.Sprintf("t%d", t.tmp)
	t.pre = append(t.pre, fmt.Sprintf("let %s ← %s", n, rhs))
	return n
}

type snap struct {
	ty, lean, errSt map[string]string
	def             map[string]bool
	alias           map[string]sliceAlias
}

func cp[V any](m map[string]V) map[string]V {
	r := make(map[string]V, len(m))
	for k, v := range m {
		r[k] = v
	}
	return r
}

func (t *btr) save() snap { return snap{cp(t.ty), cp(t.lean), cp(t.errSt), cp(t.def), cp(t.alias)} }
func (t *btr) restore(s snap) {
	t.ty, t.lean, t.errSt, t.def, t.alias = cp(s.ty), cp(s.lean), cp(s.errSt), cp(s.def), cp(s.alias)
}

// path returns the normalised Go path of an identifier / field selector ("" when e is not a path), resolving
// promoted fields of embedded structs, and its type.
func (t *btr) path(e ast.Expr) (string, string) {
	switch v := e.(type) {
	case *ast.ParenExpr:
		return t.path(v.X)
	case *ast.Ident:
		if ty, ok := t.ty[v.Name]; ok {
			return v.Name, ty
		}
	case *ast.SelectorExpr:
		bp, bty := t.path(v.X)
		if bp == "" || !strings.HasPrefix(bty, "struct:") {
			return "", ""
		}
		return t.field(bp, bty[7:], v.Sel.Name)
	}
	return "", ""
}

func (t *btr) field(base, sname, fname string) (string, string) {
	fields := t.pkg.structFields(sname)
	for _, f := range fields {
		if f.name == fname {
			return base + "." + fname, f.ty
		}
	}
	for _, f := range fields {
		if f.embedded && strings.HasPrefix(f.ty, "struct:") {
			if p, ty := t.field(base+"."+f.name, f.ty[7:], fname); p != "" {
				return p, ty
			}
		}
	}
	return "", ""
}

func (t *btr) read(path, ty string, src string) string {
	if !t.def[path] {
		t.fail("read of %q (%s) which has no value here", src, path)
	}
	return t.leanName(path)
}

func joinTy(a, b string) string {
	if a == "untyped" {
		return b
	}
	return a
}

func (t *btr) exprTy(e ast.Expr) (string, string) {
	src := text(e)
	switch v := e.(type) {
	case *ast.ParenExpr:
		s, ty := t.exprTy(v.X)
		return s, ty
	case *ast.BasicLit:
		switch v.Kind {
		case token.INT:
			n, err := strconv.ParseUint(v.Value, 0, 64)
			if err != nil {
				t.fail("literal %s", v.Value)
			}
			return fmt.Sprint(n), "untyped"
		case token.CHAR:
			r, _, _, err := strconv.UnquoteChar(v.Value[1:len(v.Value)-1], '\'')
			if err != nil {
				t.fail("char %s", v.Value)
			}
			return fmt.Sprint(int(r)), "untyped"
		}
	case *ast.Ident:
		if v.Name == "true" || v.Name == "false" {
			return v.Name, "bool"
		}
		if a, ok := t.alias[v.Name]; ok { // a window of a slice that is written through: read its CURRENT contents
			return t.hoist(fmt.Sprintf("GoSem.slice %s %s %s", t.read(a.base, "bytes", src), a.lo, a.hi)), "bytes"
		}
		if p, ty := t.path(v); p != "" {
			if leanTy(ty) == "" {
				t.fail("variable %q of type %s used as a value", src, ty)
			}
			return t.read(p, ty, src), ty
		}
		if c, cty := t.pkg.constDecl(v.Name); c != nil {
			s, ty := t.exprTy(c)
			if cty != nil {
				ty = t.pkg.tyOf(cty)
			}
			return "(" + s + ")", ty
		}
	case *ast.SelectorExpr:
		if p, ty := t.path(v); p != "" {
			if leanTy(ty) == "" {
				t.fail("field %q of type %s used as a value", src, ty)
			}
			return t.read(p, ty, src), ty
		}
	case *ast.UnaryExpr:
		if v.Op == token.NOT {
			s, _ := t.exprTy(v.X)
			return "(!" + s + ")", "bool"
		}
		if v.Op == token.XOR { // ^x on a fixed-width unsigned value
			s, ty := t.exprTy(v.X)
			if w, ok := widths[ty]; ok {
				return fmt.Sprintf("(%d - %s)", uint64(1)<<w-1, s), ty
			}
		}
	case *ast.CompositeLit:
		// [N]byte{a, b, …}
		if at, ok := v.Type.(*ast.ArrayType); ok && t.pkg.tyOf(at) == "bytes" {
			var els []string
			for _, el := range v.Elts {
				if _, kv := el.(*ast.KeyValueExpr); kv {
					t.fail("keyed array literal %q", src)
				}
				s, ty := t.exprTy(el)
				if leanTy(ty) != "Nat" && ty != "untyped" {
					t.fail("element of %q", src)
				}
				els = append(els, "UInt8.ofNat "+s)
			}
			return "([" + strings.Join(els, ", ") + "] : Bytes)", "bytes"
		}
	case *ast.IndexExpr:
		b, bty := t.exprTy(v.X)
		i := t.indexExpr(v.Index)
		if bty != "bytes" {
			t.fail("index of a non-byte-slice %q", src)
		}
		return t.hoist(fmt.Sprintf("GoSem.index %s %s", b, i)), "u8"
	case *ast.SliceExpr:
		if v.Slice3 {
			break
		}
		// x[:0] is the empty slice whatever x holds (never panics)
		if v.Low == nil && v.High != nil && text(v.High) == "0" {
			if p, pty := t.path(v.X); p != "" && pty == "bytes" {
				return "([] : Bytes)", "bytes"
			}
		}
		b, bty := t.exprTy(v.X)
		if bty != "bytes" {
			t.fail("slice of a non-byte-slice %q", src)
		}
		switch {
		case v.Low == nil && v.High == nil:
			return b, "bytes"
		case v.High == nil:
			lo := t.indexExpr(v.Low)
			return t.hoist(fmt.Sprintf("GoSem.sliceFrom %s %s", b, lo)), "bytes"
		case v.Low == nil:
			hi := t.indexExpr(v.High)
			return t.hoist(fmt.Sprintf("GoSem.sliceTo %s %s", b, hi)), "bytes"
		default:
			lo := t.indexExpr(v.Low)
			hi := t.indexExpr(v.High)
			return t.hoist(fmt.Sprintf("GoSem.slice %s %s %s", b, lo, hi)), "bytes"
		}
	case *ast.CallExpr:
		return t.callExpr(v)
	case *ast.BinaryExpr:
		switch v.Op {
		case token.LAND, token.LOR:
			a, _ := t.exprTy(v.X)
			n := len(t.pre)
			b, _ := t.exprTy(v.Y)
			if len(t.pre) != n {
				t.fail("panicking sub-expression on the right of a short-circuit operator in %q", src)
			}
			return fmt.Sprintf("(%s %s %s)", a, map[token.Token]string{token.LAND: "&&", token.LOR: "||"}[v.Op], b), "bool"
		}
		// m != nil / m == nil for a map
		if (v.Op == token.NEQ || v.Op == token.EQL) && text(v.Y) == "nil" {
			if p, ty := t.path(v.X); p != "" && ty == "map" {
				s := fmt.Sprintf("(GoSem.Map.isNil %s)", t.read(p, ty, src))
				if v.Op == token.NEQ {
					s = "(!" + s + ")"
				}
				return s, "bool"
			}
		}
		a, aty := t.exprTy(v.X)
		b, bty := t.exprTy(v.Y)
		if (aty == "Int" || bty == "Int") && (v.Op == token.ADD || v.Op == token.SUB) && (aty == "Int" || leanTy(aty) == "Nat" || aty == "untyped") && (bty == "Int" || leanTy(bty) == "Nat" || bty == "untyped") {
			if aty != "Int" {
				a = fmt.Sprintf("((%s : Nat) : Int)", a)
			}
			if bty != "Int" {
				b = fmt.Sprintf("((%s : Nat) : Int)", b)
			}
			return fmt.Sprintf("(%s %s %s)", a, map[token.Token]string{token.ADD: "+", token.SUB: "-"}[v.Op], b), "Int"
		}
		cmp := map[token.Token]string{token.EQL: "=", token.NEQ: "≠", token.LSS: "<", token.LEQ: "≤", token.GTR: ">", token.GEQ: "≥"}
		if op, ok := cmp[v.Op]; ok {
			if aty == "Int" || bty == "Int" {
				if aty != "Int" {
					a = fmt.Sprintf("((%s : Nat) : Int)", a)
				}
				if bty != "Int" {
					b = fmt.Sprintf("((%s : Nat) : Int)", b)
				}
			}
			if aty == "bool" || bty == "bool" {
				if v.Op == token.EQL {
					return fmt.Sprintf("(%s == %s)", a, b), "bool"
				}
				return fmt.Sprintf("(%s != %s)", a, b), "bool"
			}
			return fmt.Sprintf("(decide (%s %s %s))", a, op, b), "bool"
		}
		if aty == "Int" || bty == "Int" || aty == "bytes" || bty == "bytes" || aty == "bool" || bty == "bool" {
			t.fail("unsupported operands in %q", src)
		}
		ty := joinTy(aty, bty)
		if v.Op == token.SHL || v.Op == token.SHR {
			ty = aty
			if aty == "untyped" {
				ty = "int"
			}
		}
		_, fixed := widths[ty]
		switch v.Op {
		case token.ADD, token.MUL, token.SHL:
			op := map[token.Token]string{token.ADD: "+", token.MUL: "*", token.SHL: "<<<"}[v.Op]
			if fixed {
				return fmt.Sprintf("((%s %s %s) %% %s)", a, op, b, modOf(ty)), ty
			}
			return fmt.Sprintf("(%s %s %s)", a, op, b), ty
		case token.SUB:
			if fixed {
				return fmt.Sprintf("((%s + %s - %s) %% %s)", a, modOf(ty), b, modOf(ty)), ty
			}
			return fmt.Sprintf("(((%s : Nat) : Int) - ((%s : Nat) : Int))", a, b), "Int"
		case token.QUO:
			return fmt.Sprintf("(%s / %s)", a, b), ty
		case token.REM:
			return fmt.Sprintf("(%s %% %s)", a, b), ty
		case token.SHR:
			return fmt.Sprintf("(%s >>> %s)", a, b), ty
		case token.AND:
			return fmt.Sprintf("(%s &&& %s)", a, b), ty
		case token.OR:
			return fmt.Sprintf("(%s ||| %s)", a, b), ty
		case token.XOR:
			return fmt.Sprintf("(%s ^^^ %s)", a, b), ty
		}
	}
	t.fail("unsupported expression %q", src)
	return "", ""
}

func (t *btr) convert(s, from, to string) string {
	wf, okf := widths[from]
	wt, okt := widths[to]
	switch {
	case from == "Int" && okt:
		return fmt.Sprintf("(Int.toNat (%s %% %s))", s, modOf(to)) // two's complement truncation
	case from == "Int":
		t.fail("conversion of an int difference to int")
	case okt && okf && wf <= wt:
		return s
	case okt:
		return fmt.Sprintf("(%s %% %s)", s, modOf(to))
	}
	return s
}

func (t *btr) callExpr(c *ast.CallExpr) (string, string) {
	src := text(c)
	if id, ok := c.Fun.(*ast.Ident); ok {
		switch id.Name {
		case "len":
			if len(c.Args) == 1 {
				s, ty := t.exprTy(c.Args[0])
				if ty == "bytes" {
					return fmt.Sprintf("(GoSem.len %s)", s), "int"
				}
			}
			t.fail("len of %q", src)
		case "append":
			if s, ty, ok := t.boxedAppend(c); ok { // bytes_boxed.go
				return s, ty
			}
			if len(c.Args) == 2 {
				a, aty := t.exprTy(c.Args[0])
				b, bty := t.exprTy(c.Args[1])
				if aty == "bytes" && c.Ellipsis.IsValid() && bty == "bytes" {
					return fmt.Sprintf("(GoSem.appendBytes %s %s)", a, b), "bytes"
				}
				if aty == "bytes" && !c.Ellipsis.IsValid() && (bty == "u8" || bty == "untyped") {
					return fmt.Sprintf("(GoSem.appendByte %s %s)", a, b), "bytes"
				}
			}
			t.fail("unsupported append %q", src)
		case "copyBuf", "bytes2StrUnsafe", "string":
			if len(c.Args) == 1 {
				s, ty := t.exprTy(c.Args[0])
				if ty == "bytes" {
					return s, "bytes"
				}
			}
		case "min", "max":
			if len(c.Args) == 2 {
				a, aty := t.exprTy(c.Args[0])
				b, bty := t.exprTy(c.Args[1])
				return fmt.Sprintf("(%s %s %s)", id.Name, a, b), joinTy(aty, bty)
			}
		}
		// conversion to a basic or named type
		if to := t.pkg.tyOf(id); to != "?" && len(c.Args) == 1 && leanTy(to) != "" {
			if _, isFunc := t.reg[id.Name]; !isFunc && t.pkg.funcDecl(id.Name) == nil {
				s, from := t.exprTy(c.Args[0])
				if to == "bytes" || to == "bool" {
					if from != to {
						t.fail("conversion %q", src)
					}
					return s, to
				}
				if from == "bytes" || from == "bool" {
					t.fail("conversion %q", src)
				}
				if from == "Int" && to == "int" {
					return s, "Int"
				}
				return t.convert(s, from, to), to
			}
		}
	}
	// []byte(s): the octets of a string / a byte slice
	if at, ok := c.Fun.(*ast.ArrayType); ok && at.Len == nil && len(c.Args) == 1 && t.pkg.tyOf(at) == "bytes" {
		if s, ty := t.exprTy(c.Args[0]); ty == "bytes" {
			return s, "bytes"
		}
	}
	if sel, ok := c.Fun.(*ast.SelectorExpr); ok {
		full := text(sel)
		switch full {
		case "binary.BigEndian.Uint16", "binary.BigEndian.Uint32":
			if len(c.Args) == 1 {
				s, ty := t.exprTy(c.Args[0])
				if ty == "bytes" {
					if strings.HasSuffix(full, "16") {
						return t.hoist("GoSem.beUint16 " + s), "u16"
					}
					return t.hoist("GoSem.beUint32 " + s), "u32"
				}
			}
		case "pool.Buffer":
			if len(c.Args) == 1 {
				s, ty := t.exprTy(c.Args[0])
				if ty == "bytes" {
					return s, "bytes"
				}
			}
		case "pool.GetBuf":
			// a recycled buffer: its previous contents are the fragment's parameter whose Go text is "<pool>"
			if len(c.Args) == 1 {
				for _, p := range t.f.sp.Params {
					if p.Go == "<pool>" {
						n, _ := t.exprTy(c.Args[0])
						return fmt.Sprintf("(GoSem.getBuf %s %s)", p.Lean, n), "bytes"
					}
				}
				t.fail("pool.GetBuf without a \"<pool>\" parameter (the previous contents of the recycled buffer)")
			}
		}
		// NameBuilder.ToName() on a builder filled by a translated NameBuilder.unpack (prelude primitive)
		if sel.Sel.Name == "ToName" && len(c.Args) == 0 {
			if bp, bty := t.path(sel.X); bp != "" && bty == "struct:NameBuilder" {
				return t.hoist(fmt.Sprintf("GoSem.builderToName %s %s", t.read(bp+".name", "bytes", src), t.read(bp+".l", "u8", src))), "bytes"
			}
		}
	}
	// call of a translated function with exactly one component and no error
	if callee, args, outs := t.resolveCall(c); callee != nil {
		comps, _ := callee.resultComponents()
		if !callee.hasErr && len(outs) == 0 && len(comps) == 1 {
			return t.hoist(fmt.Sprintf("%s %s", callee.sp.Name, strings.Join(args, " "))), comps[0]
		}
	}
	t.fail("unsupported call %q", src)
	return "", ""
}

// resolveCall: a call of a registered (translated) function. Returns the callee, the Lean arguments and the caller
// paths that receive the callee's outs.
func (t *btr) resolveCall(c *ast.CallExpr) (*bfunc, []string, []string) {
	callee, args, outs, wins := t.resolveCallW(c)
	for _, w := range wins {
		if w != nil {
			t.fail("a reslice is written through by %q in a position where that is not supported", text(c))
		}
	}
	return callee, args, outs
}

// resolveCallW: as resolveCall; an out whose actual argument is a reslice `x[lo:hi]` (or a local alias of one) has
// the path "" and a commit function that stores the window's new contents back into x.
func (t *btr) resolveCallW(c *ast.CallExpr) (*bfunc, []string, []string, []func(int, string)) {
	var callee *bfunc
	var recvExpr ast.Expr
	switch fn := c.Fun.(type) {
	case *ast.Ident:
		callee = t.reg[fn.Name]
	case *ast.SelectorExpr:
		if bp, bty := t.path(fn.X); bp != "" && strings.HasPrefix(bty, "struct:") {
			callee = t.reg[bty[7:]+"."+fn.Sel.Name]
			recvExpr = fn.X
		} else if bp != "" && leanTy(bty) != "" {
			// a method of a named non-struct type (Name.pack): the registered method of that name whose receiver has
			// this underlying type
			var keys []string
			for k := range t.reg {
				keys = append(keys, k)
			}
			sort.Strings(keys)
			for _, k := range keys {
				if strings.HasSuffix(k, "."+fn.Sel.Name) && t.reg[k].recvTy == bty {
					callee = t.reg[k]
					recvExpr = fn.X
					break
				}
			}
		}
	}
	if callee == nil {
		return nil, nil, nil, nil
	}
	if len(c.Args) != len(callee.formals) {
		t.fail("arity of call %q", text(c))
	}
	// substitute a callee path by the caller's expression / path
	actual := func(cp string) (ast.Expr, string) {
		head, rest := cp, ""
		if i := strings.IndexByte(cp, '.'); i >= 0 {
			head, rest = cp[:i], cp[i:]
		}
		if callee.recv != "" && head == callee.recv {
			return recvExpr, rest
		}
		for i, f := range callee.formals {
			if f == head {
				return c.Args[i], rest
			}
		}
		// a local of the callee returned as an out: lives under the receiver in the caller
		if recvExpr != nil {
			return recvExpr, "." + cp
		}
		return nil, ""
	}
	// windows (reslices / aliases) that the callee writes through: sliced once, used as argument and written back
	type win struct {
		view   string
		commit func(int, string)
	}
	winOf := map[ast.Expr]*win{}
	for _, o := range callee.sp.Outs {
		if e, rest := actual(o); e != nil && rest == "" {
			if _, isAlias := t.alias[text(e)]; isAlias || isReslice(e) {
				if winOf[e] == nil {
					v, cm := t.writeTarget(e)
					winOf[e] = &win{v, cm}
				}
			}
		}
	}
	var args []string
	for _, p := range callee.sp.Params {
		e, rest := actual(p.Go)
		if e == nil {
			t.fail("cannot bind parameter %s of %s", p.Go, callee.key())
		}
		if w := winOf[e]; w != nil && rest == "" {
			args = append(args, w.view)
			continue
		}
		if rest == "" {
			s, _ := t.exprTy(e)
			args = append(args, s)
			continue
		}
		bp, _ := t.path(e)
		if bp == "" {
			t.fail("argument %q of %s is not a variable", text(e), callee.key())
		}
		args = append(args, t.read(bp+rest, "", text(e)+rest))
	}
	var outs []string
	var wins []func(int, string)
	for _, o := range callee.sp.Outs {
		e, rest := actual(o)
		if e == nil {
			t.fail("cannot bind out %s of %s", o, callee.key())
		}
		if se, ok := e.(*ast.SliceExpr); ok && se.Low == nil && se.High == nil {
			e = se.X // x[:] written through: x itself
		}
		if w := winOf[e]; w != nil && rest == "" {
			outs = append(outs, "")
			wins = append(wins, w.commit)
			continue
		}
		bp, _ := t.path(e)
		if bp == "" {
			t.fail("out argument %q of %s is not a variable", text(e), callee.key())
		}
		outs = append(outs, bp+rest)
		wins = append(wins, nil)
	}
	return callee, args, outs, wins
}

func isReslice(e ast.Expr) bool {
	se, ok := e.(*ast.SliceExpr)
	return ok && (se.Low != nil || se.High != nil)
}

// sliceAlias: a local `x := base[lo:hi]` that is written through later (`putUint16(x, …)`): a window of base.
type sliceAlias struct {
	base   string // path of the underlying slice variable
	lo, hi string // Lean values of the bounds, fixed when the alias was made
}

// indexExpr: an int expression used as an index / slice bound; a difference (ℤ) panics when negative.
func (t *btr) indexExpr(e ast.Expr) string {
	s, ty := t.exprTy(e)
	if ty == "Int" {
		return t.hoist("GoSem.natOfInt " + s)
	}
	return s
}

// writeTarget: a byte slice that is written through — a variable `p` / `p[:]`, a reslice `p[lo:]`, `p[lo:hi]`,
// `p[:hi]` of a variable, or a local alias of a reslice.  Returns the current contents of the window and a function
// that stores the window's new contents (same length: `GoSem.splice`) back into the variable.
func (t *btr) writeTarget(e ast.Expr) (string, func(int, string)) {
	if pe, ok := e.(*ast.ParenExpr); ok {
		return t.writeTarget(pe.X)
	}
	if a, ok := t.alias[text(e)]; ok {
		base := t.read(a.base, "bytes", text(e))
		view := t.hoist(fmt.Sprintf("GoSem.slice %s %s %s", base, a.lo, a.hi))
		return view, func(ind int, val string) {
			t.assign(ind, a.base, "bytes", fmt.Sprintf("GoSem.splice %s %s (%s)", base, a.lo, val))
		}
	}
	if se, ok := e.(*ast.SliceExpr); ok && !se.Slice3 {
		p, ty := t.path(se.X)
		if p == "" || ty != "bytes" {
			t.fail("unsupported write target %q", text(e))
		}
		base := t.read(p, ty, text(se.X))
		if se.Low == nil && se.High == nil {
			return base, func(ind int, val string) { t.assign(ind, p, ty, val) }
		}
		lo, view := "0", ""
		switch {
		case se.High == nil:
			lo = t.indexExpr(se.Low)
			view = t.hoist(fmt.Sprintf("GoSem.sliceFrom %s %s", base, lo))
		case se.Low == nil:
			view = t.hoist(fmt.Sprintf("GoSem.sliceTo %s %s", base, t.indexExpr(se.High)))
		default:
			lo = t.indexExpr(se.Low)
			view = t.hoist(fmt.Sprintf("GoSem.slice %s %s %s", base, lo, t.indexExpr(se.High)))
		}
		return view, func(ind int, val string) {
			t.assign(ind, p, ty, fmt.Sprintf("GoSem.splice %s %s (%s)", base, lo, val))
		}
	}
	p, ty := t.path(e)
	if p == "" || ty != "bytes" {
		t.fail("unsupported write target %q", text(e))
	}
	cur := t.read(p, ty, text(e))
	return cur, func(ind int, val string) { t.assign(ind, p, ty, val) }
}

// ---- statements ----

func (t *btr) errExprState(e ast.Expr) string {
	switch v := e.(type) {
	case *ast.Ident:
		if v.Name == "nil" {
			return "nil"
		}
		if s, ok := t.errSt[v.Name]; ok {
			return s
		}
		if t.pkg.isVar(v.Name) && (strings.HasPrefix(v.Name, "err") || strings.HasPrefix(v.Name, "Err")) {
			return "nonnil" // package-level error values
		}
	case *ast.CallExpr:
		if id, ok := v.Fun.(*ast.Ident); ok && id.Name == "newSectionErr" {
			return "nonnil"
		}
	}
	return ""
}

var noopCalls = map[string]bool{"ReleaseResource": true, "ReleaseName": true, "ReleaseQuestion": true, "pool.ReleaseBuf": true}

func isNoop(s ast.Stmt) bool {
	es, ok := s.(*ast.ExprStmt)
	if !ok {
		return false
	}
	c, ok := es.X.(*ast.CallExpr)
	return ok && noopCalls[text(c.Fun)]
}

// isErrGuard: `if <err> != nil { [pool releases] return …, <non-nil error> }`
func (t *btr) isErrGuard(s ast.Stmt, errName string) bool {
	is, ok := s.(*ast.IfStmt)
	if !ok || is.Init != nil || is.Else != nil {
		return false
	}
	if text(is.Cond) != errName+" != nil" {
		return false
	}
	n := len(is.Body.List)
	if n == 0 {
		return false
	}
	for _, b := range is.Body.List[:n-1] {
		if !isNoop(b) {
			return false
		}
	}
	rs, ok := is.Body.List[n-1].(*ast.ReturnStmt)
	if !ok || len(rs.Results) == 0 || !t.f.hasErr {
		return false
	}
	last := rs.Results[len(rs.Results)-1]
	if id, ok := last.(*ast.Ident); ok && id.Name == errName {
		return true
	}
	return t.errExprState(last) == "nonnil"
}

func (t *btr) assign(ind int, path, ty, val string) {
	if _, ok := t.ty[path]; !ok {
		t.ty[path] = ty
	}
	t.def[path] = true
	t.line(ind, fmt.Sprintf("let %s := %s", t.leanName(path), val))
}

// lhsPath: an assignable target; declares it when `define` and new.
func (t *btr) lhsPath(e ast.Expr, define bool, ty string) string {
	if id, ok := e.(*ast.Ident); ok {
		if id.Name == "_" {
			return "_"
		}
		if _, exists := t.ty[id.Name]; !exists {
			if !define {
				t.fail("assignment to undeclared %q", id.Name)
			}
			t.ty[id.Name] = ty
			return id.Name
		} else if define && t.depth > 0 && !t.declaredHere(id.Name) {
			t.fail("declaration %q shadows an outer variable", id.Name)
		}
		return id.Name
	}
	p, _ := t.path(e)
	if p == "" {
		t.fail("unsupported assignment target %q", text(e))
	}
	return p
}

func (t *btr) declaredHere(name string) bool { return false }

func (t *btr) isOut(path string) bool {
	for _, o := range t.f.sp.Outs {
		if o == path {
			return true
		}
	}
	return false
}

func (t *btr) block(ind int, list []ast.Stmt, k func(int)) {
	if len(list) == 0 {
		if k == nil {
			t.fail("control reaches the end of the function")
		}
		k(ind)
		return
	}
	s, rest := list[0], list[1:]
	next := func(ind int) { t.block(ind, rest, k) }
	switch v := s.(type) {
	case *ast.EmptyStmt:
		next(ind)
	case *ast.BlockStmt:
		t.block(ind, append(append([]ast.Stmt{}, v.List...), rest...), k)
	case *ast.LabeledStmt:
		if fs, ok := v.Stmt.(*ast.ForStmt); ok && t.multi { // bytes_boxed.go
			t.seqLoop(ind, v.Label.Name, fs, next)
			return
		}
		t.fail("labelled statement %q is not the function's loop", v.Label.Name)
	case *ast.ForStmt:
		if !t.multi {
			t.innerLoop(ind, v, next) // a loop nested in an `if` / behind the function's single top-level loop
			return
		}
		t.seqLoop(ind, "", v, next) // bytes_boxed.go
	case *ast.DeclStmt:
		gd := v.Decl.(*ast.GenDecl)
		if gd.Tok != token.VAR {
			t.fail("declaration %q", text(s))
		}
		for _, sp := range gd.Specs {
			vs := sp.(*ast.ValueSpec)
			for i, id := range vs.Names {
				ty := "?"
				if vs.Type != nil {
					ty = t.pkg.tyOf(vs.Type)
				}
				if i < len(vs.Values) {
					val, vty := t.exprTy(vs.Values[i])
					if ty == "?" {
						ty = vty
					}
					t.flush(ind)
					t.ty[id.Name] = ty
					t.assign(ind, id.Name, ty, val)
					continue
				}
				t.ty[id.Name] = ty
				switch {
				case ty == "error":
					t.errSt[id.Name] = "nil"
				case ty == "int" || widths[ty] != 0:
					t.assign(ind, id.Name, ty, "0")
				case ty == "bool":
					t.assign(ind, id.Name, ty, "false")
				case ty == "bytes":
					t.assign(ind, id.Name, ty, "([] : Bytes)")
				case strings.HasPrefix(ty, "struct:"), strings.HasPrefix(ty, "iface:"):
					// fields get values when they are assigned
				default:
					t.fail("declaration %q", text(s))
				}
			}
		}
		next(ind)
	case *ast.IncDecStmt:
		p, ty := t.path(v.X)
		if p == "" || ty != "int" {
			t.fail("unsupported %q", text(s))
		}
		if v.Tok == token.INC {
			t.assign(ind, p, ty, fmt.Sprintf("(%s + 1)", t.read(p, ty, text(v.X))))
		} else {
			t.fail("decrement %q (ints are ℕ)", text(s))
		}
		next(ind)
	case *ast.ExprStmt:
		if isNoop(s) {
			next(ind)
			return
		}
		if c, ok := v.X.(*ast.CallExpr); ok && text(c.Fun) == "copy" && len(c.Args) == 2 {
			src, sty := t.exprTy(c.Args[1])
			if sty != "bytes" {
				t.fail("unsupported %q", text(s))
			}
			cur, commit := t.writeTarget(c.Args[0])
			t.flush(ind)
			commit(ind, fmt.Sprintf("GoSem.copy %s %s", cur, src))
			next(ind)
			return
		}
		// binary.BigEndian.PutUint16(dst, v) / PutUint32: a write through dst
		if c, ok := v.X.(*ast.CallExpr); ok && len(c.Args) == 2 && (text(c.Fun) == "binary.BigEndian.PutUint16" || text(c.Fun) == "binary.BigEndian.PutUint32") {
			w := "u" + strings.TrimPrefix(text(c.Fun), "binary.BigEndian.PutUint")
			val, vty := t.exprTy(c.Args[1])
			if vty != w && vty != "untyped" {
				val = t.convertTo(val, vty, w, text(c.Args[1]))
			}
			cur, commit := t.writeTarget(c.Args[0])
			nv := t.hoist(fmt.Sprintf("GoSem.putUint%s %s %s", w[1:], cur, val))
			t.flush(ind)
			commit(ind, nv)
			next(ind)
			return
		}
		// f(…) as a statement: a translated function without error result whose outs are written back
		// (its other results are dropped)
		if c, ok := v.X.(*ast.CallExpr); ok {
			if callee, args, outs, commits := t.resolveCallW(c); callee != nil && !callee.hasErr {
				comps, _ := callee.resultComponents()
				var pat []string
				for i := range outs {
					pat = append(pat, fmt.Sprintf("w%d", i+1))
				}
				for i := len(outs); i < len(comps); i++ {
					pat = append(pat, "_")
				}
				t.flush(ind)
				t.line(ind, fmt.Sprintf("let %s ← %s %s", tupleVal(pat), callee.sp.Name, strings.Join(args, " ")))
				for i := range outs {
					commits[i](ind, pat[i])
				}
				next(ind)
				return
			}
		}
		t.fail("unsupported statement %q", text(s))
	case *ast.AssignStmt:
		t.assignStmt(ind, v, rest, k)
	case *ast.IfStmt:
		if v.Init != nil {
			// the init statement runs first; a variable it declares would be scoped to the if — refuse shadowing
			t.depth++
			defer func() { t.depth-- }()
			c := *v
			c.Init = nil
			t.block(ind, append([]ast.Stmt{v.Init, &c}, rest...), k)
			return
		}
		// static resolution of a test of an error variable whose state is known
		if be, ok := v.Cond.(*ast.BinaryExpr); ok && (be.Op == token.NEQ || be.Op == token.EQL) && text(be.Y) == "nil" {
			if id, ok := be.X.(*ast.Ident); ok {
				if st, ok := t.errSt[id.Name]; ok {
					taken := (st == "nonnil") == (be.Op == token.NEQ)
					if taken {
						t.block(ind, append(append([]ast.Stmt{}, v.Body.List...), rest...), k)
					} else if v.Else != nil {
						t.block(ind, append([]ast.Stmt{v.Else}, rest...), k)
					} else {
						next(ind)
					}
					return
				}
			}
		}
		cond, _ := t.exprTy(v.Cond)
		t.flush(ind)
		t.line(ind, "if "+cond+" then")
		sv := t.save()
		t.depth++
		t.block(ind+1, v.Body.List, next)
		t.restore(sv)
		t.line(ind, "else")
		if v.Else != nil {
			t.block(ind+1, []ast.Stmt{v.Else}, next)
		} else {
			next(ind + 1)
		}
		t.depth--
		t.restore(sv)
	case *ast.SwitchStmt:
		if v.Init != nil {
			t.fail("switch init")
		}
		tag := ""
		if v.Tag != nil {
			tag, _ = t.exprTy(v.Tag)
			t.flush(ind)
		}
		var def *ast.CaseClause
		var cases []*ast.CaseClause
		for _, c := range v.Body.List {
			cc := c.(*ast.CaseClause)
			if cc.List == nil {
				def = cc
			} else {
				cases = append(cases, cc)
			}
			for _, b := range cc.Body {
				if br, ok := b.(*ast.BranchStmt); ok && br.Tok == token.FALLTHROUGH {
					t.fail("fallthrough")
				}
			}
		}
		t.swK = append(t.swK, next)
		t.depth++
		sv := t.save()
		for _, cc := range cases {
			var conds []string
			for _, e := range cc.List {
				s, _ := t.exprTy(e)
				if len(t.pre) > 0 {
					t.fail("panicking case expression")
				}
				if tag != "" {
					conds = append(conds, fmt.Sprintf("(decide (%s = %s))", tag, s))
				} else {
					conds = append(conds, s)
				}
			}
			c := strings.Join(conds, " || ")
			if len(conds) > 1 {
				c = "(" + c + ")"
			}
			t.line(ind, "if "+c+" then")
			t.block(ind+1, cc.Body, next)
			t.restore(sv)
			t.line(ind, "else")
			ind++
		}
		if def != nil {
			t.block(ind, def.Body, next)
		} else {
			next(ind)
		}
		t.restore(sv)
		t.depth--
		t.swK = t.swK[:len(t.swK)-1]
	case *ast.BranchStmt:
		switch {
		case v.Tok == token.BREAK && v.Label != nil && t.loop != nil && v.Label.Name == t.loop.label:
			t.loop.brk(ind)
		case v.Tok == token.BREAK && v.Label == nil && len(t.swK) > 0:
			t.swK[len(t.swK)-1](ind)
		case v.Tok == token.BREAK && v.Label == nil && t.loop != nil:
			t.loop.brk(ind)
		case v.Tok == token.CONTINUE && t.loop != nil && (v.Label == nil || v.Label.Name == t.loop.label):
			t.loop.cont(ind)
		default:
			t.fail("unsupported %q", text(s))
		}
	case *ast.ReturnStmt:
		if t.noRet {
			t.fail("return inside an inner loop")
		}
		t.ret(ind, v)
	default:
		t.fail("unsupported statement %q", text(s))
	}
}

func (t *btr) assignStmt(ind int, v *ast.AssignStmt, rest []ast.Stmt, k func(int)) {
	next := func(ind int) { t.block(ind, rest, k) }
	define := v.Tok == token.DEFINE
	// call of a translated function with an error / several results
	if len(v.Rhs) == 1 {
		if c, ok := v.Rhs[0].(*ast.CallExpr); ok {
			nPre, nTmp := len(t.pre), t.tmp
			callee, args, outs, wins := t.resolveCallW(c)
			structRes := callee != nil && len(callee.results) == 1 && strings.HasPrefix(callee.results[0], "struct:") && (v.Tok == token.ASSIGN || v.Tok == token.DEFINE)
			if callee != nil && !(callee.hasErr || len(v.Lhs) > 1 || len(outs) > 0 || structRes) {
				// a single-valued call that cannot fail is an expression (translated below): undo the argument binds
				t.pre, t.tmp, callee = t.pre[:nPre], nTmp, nil
			}
			if callee != nil {
				if len(v.Lhs) != len(callee.results) || (v.Tok != token.DEFINE && v.Tok != token.ASSIGN) {
					t.fail("unsupported %q", text(v))
				}
				var pat []string
				var assigns [][2]string
				for i, o := range outs {
					if o == "" {
						pat = append(pat, fmt.Sprintf("w%d", i+1))
						continue
					}
					pat = append(pat, sanitize(o))
				}
				for i, o := range outs {
					if o != "" {
						assigns = append(assigns, [2]string{o, callee.outTy[i]})
					}
				}
				errName := ""
				for i, l := range v.Lhs {
					rty := callee.results[i]
					if rty == "error" {
						id, ok := l.(*ast.Ident)
						if !ok {
							t.fail("error result of %q", text(v))
						}
						errName = id.Name
						if _, exists := t.ty[errName]; !exists {
							t.ty[errName] = "error"
						}
						continue
					}
					if strings.HasPrefix(rty, "struct:") { // bytes_boxed.go
						sp, sa := t.structResult(l, define, rty, text(v))
						pat = append(pat, sp...)
						assigns = append(assigns, sa...)
						continue
					}
					if leanTy(rty) == "" {
						t.fail("result type %s in %q", rty, text(v))
					}
					p := t.lhsPath(l, define, rty)
					if p == "_" {
						pat = append(pat, "_")
						continue
					}
					pat = append(pat, t.leanName(p))
					assigns = append(assigns, [2]string{p, rty})
				}
				if callee.hasErr {
					if errName == "_" || errName == "" {
						t.fail("error of %q is dropped", text(v))
					}
					if len(rest) == 0 || !t.isErrGuard(rest[0], errName) {
						t.fail("call %q is not followed by `if %s != nil { return …, err }`", text(v), errName)
					}
					rest = rest[1:]
					next = func(ind int) { t.block(ind, rest, k) }
				}
				t.flush(ind)
				t.line(ind, fmt.Sprintf("let %s ← %s %s", tupleVal(pat), callee.sp.Name, strings.Join(args, " ")))
				for _, a := range assigns {
					if _, ok := t.ty[a[0]]; !ok {
						t.ty[a[0]] = a[1]
					}
					t.def[a[0]] = true
				}
				for i, w := range wins {
					if w != nil {
						w(ind, fmt.Sprintf("w%d", i+1))
					}
				}
				if errName != "" {
					t.errSt[errName] = "nil"
				}
				t.applyCopies(ind, callee, c) // bytes_boxed.go
				next(ind)
				return
			}
			// x = NewT() for a declared struct / interface variable x (bytes_boxed.go)
			if id, ok := c.Fun.(*ast.Ident); ok && v.Tok == token.ASSIGN && len(v.Lhs) == 1 && len(c.Args) == 0 && strings.HasPrefix(id.Name, "New") {
				if l, ok := v.Lhs[0].(*ast.Ident); ok && (strings.HasPrefix(t.ty[l.Name], "iface:") || strings.HasPrefix(t.ty[l.Name], "struct:")) {
					if fd := t.pkg.funcDecl(id.Name); fd != nil && fd.Type.Results != nil && len(fd.Type.Results.List) == 1 {
						if ty := t.pkg.tyOf(fd.Type.Results.List[0].Type); strings.HasPrefix(ty, "struct:") {
							t.freshStruct(ind, l.Name, ty[7:])
							next(ind)
							return
						}
					}
				}
			}
			// x := NewT(): a fresh struct from a pool; its fields have no value until assigned
			if id, ok := c.Fun.(*ast.Ident); ok && define && len(v.Lhs) == 1 && len(c.Args) == 0 && strings.HasPrefix(id.Name, "New") {
				if fd := t.pkg.funcDecl(id.Name); fd != nil && fd.Type.Results != nil && len(fd.Type.Results.List) == 1 {
					if ty := t.pkg.tyOf(fd.Type.Results.List[0].Type); strings.HasPrefix(ty, "struct:") {
						if l, ok := v.Lhs[0].(*ast.Ident); ok {
							t.ty[l.Name] = ty
							next(ind)
							return
						}
					}
				}
			}
		}
	}
	// v, ok := m[key]
	if len(v.Lhs) == 2 && len(v.Rhs) == 1 && define {
		if ix, ok := v.Rhs[0].(*ast.IndexExpr); ok {
			if mp, mty := t.path(ix.X); mp != "" && mty == "map" {
				key, kty := t.exprTy(ix.Index)
				if kty != "bytes" {
					t.fail("map key in %q", text(v))
				}
				p1 := t.lhsPath(v.Lhs[0], true, "u16")
				p2 := t.lhsPath(v.Lhs[1], true, "bool")
				t.flush(ind)
				n1, n2 := "_", "_"
				if p1 != "_" {
					n1 = t.leanName(p1)
					t.def[p1] = true
				}
				if p2 != "_" {
					n2 = t.leanName(p2)
					t.def[p2] = true
				}
				t.line(ind, fmt.Sprintf("let (%s, %s) := GoSem.Map.lookup %s %s", n1, n2, t.read(mp, mty, text(ix.X)), key))
				next(ind)
				return
			}
		}
	}
	if len(v.Lhs) != 1 || len(v.Rhs) != 1 {
		t.fail("unsupported multi-assignment %q", text(v))
	}
	// m[key] = v
	if ix, ok := v.Lhs[0].(*ast.IndexExpr); ok && v.Tok == token.ASSIGN {
		if mp, mty := t.path(ix.X); mp != "" && mty == "map" {
			key, kty := t.exprTy(ix.Index)
			val, vty := t.exprTy(v.Rhs[0])
			if kty != "bytes" || (vty != "u16" && vty != "untyped") {
				t.fail("unsupported %q", text(v))
			}
			nv := t.hoist(fmt.Sprintf("GoSem.Map.insert %s %s %s", t.read(mp, mty, text(ix.X)), key, val))
			t.flush(ind)
			t.assign(ind, mp, mty, nv)
			next(ind)
			return
		}
	}
	// s.err = errX / nil (an error kept in a field), x = nil (a byte slice)
	if lp, lty := t.path(v.Lhs[0]); lp != "" && v.Tok == token.ASSIGN {
		if lty == "error" && strings.Contains(lp, ".") {
			switch t.errExprState(v.Rhs[0]) {
			case "nonnil":
				t.assign(ind, lp, lty, "true")
			case "nil":
				t.assign(ind, lp, lty, "false")
			default:
				t.fail("cannot tell whether the error of %q is nil", text(v))
			}
			next(ind)
			return
		}
		if lty == "bytes" && text(v.Rhs[0]) == "nil" {
			t.assign(ind, lp, lty, "([] : Bytes)")
			next(ind)
			return
		}
	}
	// b[i] = v: a write through the byte slice b
	if ix, ok := v.Lhs[0].(*ast.IndexExpr); ok && v.Tok == token.ASSIGN {
		if p, ty := t.path(ix.X); p != "" && ty == "bytes" {
			i := t.indexExpr(ix.Index)
			val, vty := t.exprTy(v.Rhs[0])
			if leanTy(vty) != "Nat" && vty != "untyped" {
				t.fail("unsupported %q", text(v))
			}
			nv := t.hoist(fmt.Sprintf("GoSem.setIndex %s %s %s", t.read(p, ty, text(ix.X)), i, val))
			t.flush(ind)
			t.assign(ind, p, ty, nv)
			next(ind)
			return
		}
	}
	// n := copy(dst, src)
	if c, ok := v.Rhs[0].(*ast.CallExpr); ok && text(c.Fun) == "copy" && len(c.Args) == 2 {
		src, sty := t.exprTy(c.Args[1])
		if sty != "bytes" {
			t.fail("unsupported %q", text(v))
		}
		cur, commit := t.writeTarget(c.Args[0])
		np := t.lhsPath(v.Lhs[0], define, "int")
		t.flush(ind)
		if np != "_" {
			t.assign(ind, np, "int", fmt.Sprintf("(min (GoSem.len %s) (GoSem.len %s))", cur, src))
		}
		commit(ind, fmt.Sprintf("GoSem.copy %s %s", cur, src))
		next(ind)
		return
	}
	// x := base[lo:hi] where the function writes through base (base is one of its outs): x is a WINDOW of base, not
	// a copy — reads of x see the current contents of base, writes through x go to base
	if se, ok := v.Rhs[0].(*ast.SliceExpr); ok && define && !se.Slice3 && se.Low != nil && se.High != nil {
		if id, ok := v.Lhs[0].(*ast.Ident); ok {
			if bp, bty := t.path(se.X); bp != "" && bty == "bytes" && t.isOut(bp) {
				if _, exists := t.ty[id.Name]; exists {
					t.fail("alias %q redeclared", id.Name)
				}
				lo, hi := t.indexExpr(se.Low), t.indexExpr(se.High)
				t.flush(ind)
				t.line(ind, fmt.Sprintf("let %s_lo := %s", id.Name, lo))
				t.line(ind, fmt.Sprintf("let %s_hi := %s", id.Name, hi))
				t.line(ind, fmt.Sprintf("let _ ← GoSem.slice %s %s_lo %s_hi", t.read(bp, bty, text(se.X)), id.Name, id.Name))
				t.ty[id.Name] = "bytes"
				t.alias[id.Name] = sliceAlias{bp, id.Name + "_lo", id.Name + "_hi"}
				next(ind)
				return
			}
		}
	}
	// struct copy `r.ResourceHdr = hdr`: every field of hdr that has a value
	if v.Tok == token.ASSIGN {
		lp, lty := t.path(v.Lhs[0])
		rp, rty := t.path(v.Rhs[0])
		if lp != "" && rp != "" && strings.HasPrefix(lty, "struct:") && lty == rty {
			var keys []string
			for p := range t.def {
				if strings.HasPrefix(p, rp+".") && t.def[p] {
					keys = append(keys, p)
				}
			}
			sort.Strings(keys)
			for p := range t.def {
				if strings.HasPrefix(p, lp+".") {
					delete(t.def, p)
				}
			}
			for _, p := range keys {
				np := lp + p[len(rp):]
				t.ty[np] = t.ty[p]
				t.assign(ind, np, t.ty[p], t.leanName(p))
			}
			next(ind)
			return
		}
	}
	val, vty := t.exprTy(v.Rhs[0])
	if vty == "Int" {
		// a difference of ints is kept as an integer (ℤ) variable; it cannot be stored into a variable that is ℕ
		if id, ok := v.Lhs[0].(*ast.Ident); !ok || (t.ty[id.Name] != "" && t.ty[id.Name] != "Int") || (v.Tok != token.DEFINE && v.Tok != token.ASSIGN) {
			t.fail("an int difference is stored in %q", text(v))
		}
	}
	if vty == "untyped" {
		vty = "int"
	}
	p := t.lhsPath(v.Lhs[0], define, vty)
	if p == "_" {
		t.flush(ind)
		next(ind)
		return
	}
	ty := t.ty[p]
	if ty == "?" || ty == "" {
		ty = vty
		t.ty[p] = ty
	}
	switch v.Tok {
	case token.DEFINE, token.ASSIGN:
	case token.ADD_ASSIGN, token.OR_ASSIGN, token.AND_ASSIGN:
		op := map[token.Token]string{token.ADD_ASSIGN: "+", token.OR_ASSIGN: "|||", token.AND_ASSIGN: "&&&"}[v.Tok]
		cur := t.read(p, ty, text(v.Lhs[0]))
		val = fmt.Sprintf("(%s %s %s)", cur, op, val)
		if _, fixed := widths[ty]; fixed && v.Tok == token.ADD_ASSIGN {
			val = fmt.Sprintf("(%s %% %s)", val, modOf(ty))
		}
	default:
		t.fail("assignment operator in %q", text(v))
	}
	t.flush(ind)
	t.assign(ind, p, ty, val)
	next(ind)
}

// ret emits the function's result for a return statement.
func (t *btr) ret(ind int, v *ast.ReturnStmt) {
	f := t.f
	wrap := func(s string) string {
		if t.inLoop && t.multi { // bytes_boxed.go
			t.fail("a loop of a function with several loops returns a value: %q", text(v))
		}
		if t.inLoop {
			return "pure (Sum.inr " + s + ")"
		}
		return "pure " + s
	}
	// return f(...) of a translated function
	if len(v.Results) == 1 && len(f.results) > 1 {
		c, ok := v.Results[0].(*ast.CallExpr)
		if !ok {
			t.fail("unsupported %q", text(v))
		}
		callee, args, outs := t.resolveCall(c)
		if callee == nil || len(callee.results) != len(f.results) {
			t.fail("unsupported %q", text(v))
		}
		for i := range callee.results {
			if callee.results[i] != f.results[i] {
				t.fail("result types of %q", text(v))
			}
		}
		var pat []string
		for i, o := range outs {
			pat = append(pat, sanitize(o))
			t.def[o] = true
			if _, ok := t.ty[o]; !ok {
				t.ty[o] = callee.outTy[i]
			}
		}
		comps, _ := callee.resultComponents()
		var rs []string
		for i := len(outs); i < len(comps); i++ {
			rs = append(rs, fmt.Sprintf("r%d", i-len(outs)+1))
		}
		pat = append(pat, rs...)
		t.flush(ind)
		t.line(ind, fmt.Sprintf("let %s ← %s %s", tupleVal(pat), callee.sp.Name, strings.Join(args, " ")))
		vals := t.outVals(text(v))
		vals = append(vals, rs...)
		t.line(ind, wrap(tupleVal(vals)))
		return
	}
	if len(v.Results) != len(f.results) {
		t.fail("unsupported %q", text(v))
	}
	dynErr := ""
	if f.hasErr {
		last := v.Results[len(v.Results)-1]
		switch t.errExprState(last) {
		case "nonnil":
			t.line(ind, "Res.err")
			return
		case "nil":
		default:
			// an error VALUE read from a struct field (`return s.err`)
			if p, ty := t.path(last); p != "" && ty == "error" && t.def[p] {
				dynErr = t.leanName(p)
			} else {
				t.fail("cannot tell whether the error of %q is nil", text(v))
			}
		}
	}
	var vals []string
	for i, r := range v.Results {
		rty := f.results[i]
		if rty == "error" {
			continue
		}
		if strings.HasPrefix(rty, "iface:") { // bytes_boxed.go
			vals = append(vals, t.boxValue(r, rty[6:]))
			continue
		}
		if strings.HasPrefix(rty, "struct:") {
			fields := t.pkg.structFields(rty[7:])
			e := r
			if u, ok := e.(*ast.UnaryExpr); ok && u.Op == token.AND {
				e = u.X
			}
			if cl, ok := e.(*ast.CompositeLit); ok {
				m := map[string]ast.Expr{}
				for _, el := range cl.Elts {
					kv, ok := el.(*ast.KeyValueExpr)
					if !ok {
						t.fail("positional composite literal")
					}
					m[text(kv.Key)] = kv.Value
				}
				for _, fl := range fields {
					fe, ok := m[fl.name]
					if !ok {
						// zero value
						z := map[string]string{"int": "0", "u8": "0", "u16": "0", "u32": "0", "bool": "false", "bytes": "([] : Bytes)", "error": "false"}[fl.ty]
						if z == "" {
							t.fail("field %s is not set in %q", fl.name, text(cl.Type))
						}
						vals = append(vals, z)
						continue
					}
					s, sty := t.exprTy(fe)
					if sty != fl.ty && sty != "untyped" {
						s = t.convertTo(s, sty, fl.ty, text(fe))
					}
					vals = append(vals, s)
					delete(m, fl.name)
				}
				if len(m) != 0 {
					t.fail("unknown fields in %q", text(r))
				}
				continue
			}
			bp, bty := t.path(e)
			if bp == "" || bty != rty {
				t.fail("unsupported struct result %q", text(r))
			}
			for _, fl := range fields {
				vals = append(vals, t.read(bp+"."+fl.name, fl.ty, text(r)+"."+fl.name))
			}
			continue
		}
		s, sty := t.exprTy(r)
		if sty == "Int" {
			t.fail("an int difference is returned")
		}
		vals = append(vals, s)
	}
	t.flush(ind)
	if dynErr != "" {
		t.line(ind, "if "+dynErr+" then Res.err else "+wrap(tupleVal(append(t.outVals(text(v)), vals...))))
		return
	}
	t.line(ind, wrap(tupleVal(append(t.outVals(text(v)), vals...))))
}

func (t *btr) convertTo(s, from, to, src string) string {
	if leanTy(from) != "Nat" || leanTy(to) != "Nat" {
		t.fail("type of %q", src)
	}
	return t.convert(s, from, to)
}

func (t *btr) outVals(src string) []string {
	var vals []string
	for _, o := range t.f.sp.Outs {
		vals = append(vals, t.read(o, "", "out "+o+" at "+src))
	}
	return vals
}

// assignedIn: paths assigned anywhere in the statements (normalised with the current environment)
func (t *btr) assignedIn(list []ast.Stmt) []string {
	seen := map[string]bool{}
	var res []string
	add := func(e ast.Expr) {
		if p, _ := t.path(e); p != "" && !seen[p] {
			seen[p] = true
			res = append(res, p)
		}
	}
	ast.Inspect(&ast.BlockStmt{List: list}, func(n ast.Node) bool {
		switch v := n.(type) {
		case *ast.AssignStmt:
			for _, l := range v.Lhs {
				if ix, ok := l.(*ast.IndexExpr); ok { // b[i] = v, m[k] = v
					add(ix.X)
					continue
				}
				add(l)
			}
		case *ast.IncDecStmt:
			add(v.X)
		case *ast.CallExpr:
			switch text(v.Fun) {
			case "copy", "binary.BigEndian.PutUint16", "binary.BigEndian.PutUint32":
				if len(v.Args) > 0 {
					e := v.Args[0]
					if se, ok := e.(*ast.SliceExpr); ok {
						e = se.X
					}
					if a, ok := t.alias[text(e)]; ok {
						if !seen[a.base] {
							seen[a.base] = true
							res = append(res, a.base)
						}
					} else {
						add(e)
					}
				}
			}
			for _, o := range t.outPaths(v) {
				if !seen[o] {
					seen[o] = true
					res = append(res, o)
				}
			}
		}
		return true
	})
	return res
}

// outPaths: the caller's paths written by a call of a translated function (no code is emitted).
func (t *btr) outPaths(c *ast.CallExpr) (res []string) {
	defer func() {
		if r := recover(); r != nil {
			if _, ok := r.(bfail); !ok {
				panic(r)
			}
			res = nil
		}
	}()
	savedPre, savedTmp := t.pre, t.tmp
	defer func() { t.pre, t.tmp = savedPre, savedTmp }()
	var callee *bfunc
	var recvExpr ast.Expr
	switch fn := c.Fun.(type) {
	case *ast.Ident:
		callee = t.reg[fn.Name]
	case *ast.SelectorExpr:
		bp, bty := t.path(fn.X)
		if bp != "" && strings.HasPrefix(bty, "struct:") {
			callee = t.reg[bty[7:]+"."+fn.Sel.Name]
			recvExpr = fn.X
		} else if bp != "" && leanTy(bty) != "" {
			for k, f := range t.reg {
				if strings.HasSuffix(k, "."+fn.Sel.Name) && f.recvTy == bty {
					callee, recvExpr = f, fn.X
				}
			}
		}
	}
	if callee == nil || len(c.Args) != len(callee.formals) {
		return nil
	}
	for _, o := range callee.sp.Outs {
		head, rest := o, ""
		if i := strings.IndexByte(o, '.'); i >= 0 {
			head, rest = o[:i], o[i:]
		}
		var e ast.Expr
		if callee.recv != "" && head == callee.recv {
			e = recvExpr
		} else {
			for i, f := range callee.formals {
				if f == head {
					e = c.Args[i]
				}
			}
			if e == nil && recvExpr != nil {
				e, rest = recvExpr, "."+o
			}
		}
		if e == nil {
			continue
		}
		if se, ok := e.(*ast.SliceExpr); ok {
			e = se.X
		}
		if a, ok := t.alias[text(e)]; ok {
			res = append(res, a.base)
			continue
		}
		if bp, _ := t.path(e); bp != "" {
			res = append(res, bp+rest)
		}
	}
	return res
}

func (t *btr) sig() string {
	var b strings.Builder
	for _, p := range t.f.sp.Params {
		fmt.Fprintf(&b, " (%s : %s)", p.Lean, leanTy(t.ty[p.Go]))
	}
	return b.String()
}

func (t *btr) arrow() string {
	var b strings.Builder
	for _, p := range t.f.sp.Params {
		b.WriteString(leanTy(t.ty[p.Go]) + " → ")
	}
	return b.String()
}

// loopBody: the statements of one iteration, the loop condition first (`if !(cond) { break }`); a condition that is
// a call of a translated function with outs (`for scanner.Scan()`) is bound to a fresh variable first.
func (t *btr) loopBody(fs *ast.ForStmt) []ast.Stmt {
	if fs.Cond == nil {
		return fs.Body.List
	}
	var body []ast.Stmt
	cond := fs.Cond
	if c, ok := cond.(*ast.CallExpr); ok && len(t.outPaths(c)) > 0 {
		t.nCond++
		id := &ast.Ident{Name: fmt.Sprintf("forCond%d", t.nCond)}
		body = append(body, &ast.AssignStmt{Lhs: []ast.Expr{id}, Tok: token.DEFINE, Rhs: []ast.Expr{c}})
		cond = id
	}
	body = append(body, &ast.IfStmt{Cond: &ast.UnaryExpr{Op: token.NOT, X: &ast.ParenExpr{X: cond}}, Body: &ast.BlockStmt{List: []ast.Stmt{&ast.BranchStmt{Tok: token.BREAK}}}})
	return append(body, fs.Body.List...)
}

// innerLoop: a `for` loop that is not the function's top-level loop (it follows it, or is nested in an `if`). Its
// body may not return from the function. It becomes an auxiliary definition `<name>_loop<k>_step` over the variables
// it assigns (`Sum.inl`: next iteration, `Sum.inr`: the state with which the loop is left); the variables it only
// reads are parameters of that definition. At the place of the loop: `let state ← GoSem.loop (step env…) state`.
func (t *btr) innerLoop(ind int, fs *ast.ForStmt, next func(int)) {
	hasRet := false
	ast.Inspect(fs.Body, func(n ast.Node) bool {
		switch v := n.(type) {
		case *ast.ReturnStmt:
			hasRet = true
		case *ast.BranchStmt:
			if v.Label != nil {
				hasRet = true
			}
		case *ast.ForStmt, *ast.RangeStmt:
			hasRet = true
		}
		return true
	})
	if hasRet {
		t.fail("a loop other than the function's top-level loop returns, branches to a label or nests a loop")
	}
	if fs.Init != nil {
		t.fail("init statement of an inner loop")
	}
	loopStmts := append([]ast.Stmt{}, fs.Body.List...)
	if fs.Post != nil {
		loopStmts = append(loopStmts, fs.Post)
	}
	if c, ok := fs.Cond.(*ast.CallExpr); ok {
		loopStmts = append([]ast.Stmt{&ast.ExprStmt{X: c}}, loopStmts...)
	}
	var state []string
	inState := map[string]bool{}
	for _, p := range t.assignedIn(loopStmts) {
		if t.def[p] {
			state = append(state, p)
			inState[p] = true
		}
	}
	if len(state) == 0 {
		t.fail("loop without state")
	}
	// environment: the defined variables mentioned in the loop that are not part of its state
	mentioned := map[string]bool{}
	note := func(n ast.Node) bool {
		if id, ok := n.(*ast.Ident); ok {
			mentioned[id.Name] = true
		}
		return true
	}
	ast.Inspect(&ast.BlockStmt{List: loopStmts}, note)
	if fs.Cond != nil {
		ast.Inspect(fs.Cond, note)
	}
	var env []string
	for p, d := range t.def {
		head := p
		if i := strings.IndexByte(p, '.'); i >= 0 {
			head = p[:i]
		}
		if d && !inState[p] && mentioned[head] && leanTy(t.ty[p]) != "" {
			env = append(env, p)
		}
	}
	sort.Strings(env)
	var stTys, stNames, envSig, envArgs, envTys []string
	for _, p := range state {
		stTys = append(stTys, t.ty[p])
		stNames = append(stNames, t.leanName(p))
	}
	for _, p := range env {
		envSig = append(envSig, fmt.Sprintf("(%s : %s)", t.leanName(p), leanTy(t.ty[p])))
		envArgs = append(envArgs, t.leanName(p))
		envTys = append(envTys, leanTy(t.ty[p]))
	}
	stTy := tupleTy(stTys)
	name, known := t.loopNames[fs] // the statements after the top-level loop are emitted once per exit of that loop
	if !known {
		t.nLoop++
		name = fmt.Sprintf("%s_loop%d", t.f.sp.Name, t.nLoop+1)
	}
	// body, in its own output buffer and control context
	sv := t.save()
	savedOut, savedLoop, savedSwK, savedIn, savedNoRet := t.out, t.loop, t.swK, t.inLoop, t.noRet
	var body strings.Builder
	t.out, t.swK, t.noRet = &body, nil, true
	fin := func(tag string) func(int) {
		return func(ind int) {
			var vals []string
			for _, p := range state {
				vals = append(vals, t.read(p, "", p))
			}
			t.line(ind, "pure ("+tag+" "+tupleVal(vals)+")")
		}
	}
	cont := fin("Sum.inl")
	withPost := cont
	if fs.Post != nil {
		withPost = func(ind int) { t.block(ind, []ast.Stmt{fs.Post}, cont) }
	}
	t.loop = &loopCtx{label: "", cont: withPost, brk: fin("Sum.inr")}
	t.block(1, t.loopBody(fs), withPost)
	t.out, t.loop, t.swK, t.inLoop, t.noRet = savedOut, savedLoop, savedSwK, savedIn, savedNoRet
	t.restore(sv)
	if !known {
		t.loopNames[fs] = name
		fmt.Fprintf(&t.auxIn, "/-- translated from %s `%s`: ONE iteration of an inner loop over the state (%s): `Sum.inl` the next state, `Sum.inr` the state with which the loop is left -/\ndef %s_step %s (s : %s) : Res ((%s) ⊕ (%s)) := do\n  let %s := s\n%s\n",
			t.f.sp.File, t.f.sp.Func, strings.Join(state, ", "), name, strings.Join(envSig, " "), stTy, stTy, stTy, tupleVal(stNames), body.String())
		t.f.auxTy = append(t.f.auxTy, [2]string{name + "_step", strings.Join(append(envTys, "("+stTy+")"), " → ") + " → Res ((" + stTy + ") ⊕ (" + stTy + "))"})
	}
	t.flush(ind)
	t.line(ind, fmt.Sprintf("let %s ← GoSem.loop (%s_step %s) %s", tupleVal(stNames), name, strings.Join(envArgs, " "), tupleVal(stNames)))
	next(ind)
}

func translateBytes(f *bfunc, reg map[string]*bfunc) (res string, err error) {
	defer func() {
		if r := recover(); r != nil {
			if bf, ok := r.(bfail); ok {
				err = fmt.Errorf("%s", bf.msg)
				return
			}
			panic(r)
		}
	}()
	t := &btr{f: f, reg: reg, pkg: f.pkg, ty: map[string]string{}, def: map[string]bool{}, lean: map[string]string{}, errSt: map[string]string{}, out: &strings.Builder{}, alias: map[string]sliceAlias{}, loopNames: map[*ast.ForStmt]string{}}
	if f.recv != "" {
		t.ty[f.recv] = f.recvTy
	}
	for i, n := range f.formals {
		t.ty[n] = f.formTy[i]
	}
	for _, p := range f.sp.Params {
		if p.Go == "<pool>" { // previous contents of the recycled buffer handed out by pool.GetBuf
			t.ty[p.Go], t.def[p.Go], t.lean[p.Go] = "bytes", true, p.Lean
			continue
		}
		e, perr := parser.ParseExpr(p.Go)
		if perr != nil {
			t.fail("parameter %q", p.Go)
		}
		path, ty := t.path(e)
		if path != p.Go {
			// a local of the function used as a parameter of a fragment is not supported in this mode
			t.fail("parameter %q is not a (normalised) path of a formal parameter or receiver field", p.Go)
		}
		if p.Type != "" {
			ty = map[string]string{"Bytes": "bytes", "Bool": "bool", "Nat": "int"}[p.Type]
		}
		if leanTy(ty) == "" {
			t.fail("parameter %q has unsupported type %s", p.Go, ty)
		}
		t.ty[path] = ty
		t.def[path] = true
		t.lean[path] = p.Lean
	}
	for i, n := range f.formals {
		if !t.def[n] && leanTy(f.formTy[i]) != "" {
			used := false
			ast.Inspect(f.fd.Body, func(x ast.Node) bool {
				if id, ok := x.(*ast.Ident); ok && id.Name == n {
					used = true
				}
				return true
			})
			if used {
				t.fail("formal parameter %q is used but is not a parameter of the fragment", n)
			}
		}
	}
	comps, cerr := f.resultComponents()
	if cerr != nil {
		return "", cerr
	}
	rt := tupleTy(comps)
	f.sigTy = t.arrow() + "Res (" + rt + ")"
	doc := fmt.Sprintf("translated from %s `%s`", f.sp.File, f.sp.Func)
	body := f.fd.Body.List
	if countTopLoops(body) > 1 { // bytes_boxed.go
		return t.translateSeqLoops(doc, rt, body), nil
	}
	// locate the (single, top-level) loop
	loopAt := -1
	for i, s := range body {
		x := s
		if l, ok := x.(*ast.LabeledStmt); ok {
			x = l.Stmt
		}
		if _, ok := x.(*ast.ForStmt); ok {
			if loopAt >= 0 {
				t.fail("more than one top-level loop")
			}
			loopAt = i
		}
		if _, ok := x.(*ast.RangeStmt); ok {
			t.fail("range loop")
		}
	}
	// a function without results may end without a return statement: its outs are the result
	var fallOff func(int)
	if len(f.results) == 0 {
		fallOff = func(ind int) { t.line(ind, "pure "+tupleVal(t.outVals("the end of the function"))) }
	}
	if loopAt < 0 {
		t.block(1, body, fallOff)
		return t.auxIn.String() + fmt.Sprintf("/-- %s -/\ndef %s%s : Res (%s) := do\n%s", doc, f.sp.Name, t.sig(), rt, t.out.String()), nil
	}
	// ---- loop ----
	label := ""
	ls := body[loopAt]
	if l, ok := ls.(*ast.LabeledStmt); ok {
		label = l.Label.Name
		ls = l.Stmt
	}
	fs := ls.(*ast.ForStmt)
	pre := append([]ast.Stmt{}, body[:loopAt]...)
	if fs.Init != nil {
		pre = append(pre, fs.Init)
	}
	post := body[loopAt+1:]
	// pre-loop statements: emitted once into _init and again (they are pure lets) at the head of _step
	var preOut strings.Builder
	t.out = &preOut
	var state []string
	t.block(1, pre, func(ind int) {
		if len(t.pre) != 0 {
			t.fail("panicking expression before the loop")
		}
	})
	if strings.Contains(preOut.String(), "if ") {
		t.fail("the statements before the loop are not plain assignments")
	}
	// calls before the loop (`scanner := NewNameScanner(n)`): the initial state is a `Res` value
	monadicInit := strings.Contains(preOut.String(), "←")
	loopStmts := append([]ast.Stmt{}, fs.Body.List...)
	if fs.Post != nil {
		loopStmts = append(loopStmts, fs.Post)
	}
	if c, ok := fs.Cond.(*ast.CallExpr); ok { // `for scanner.Scan()`: the condition writes, too
		loopStmts = append([]ast.Stmt{&ast.ExprStmt{X: c}}, loopStmts...)
	}
	for _, p := range t.assignedIn(loopStmts) {
		if t.def[p] { // declared before the loop: part of the state
			state = append(state, p)
		}
	}
	if len(state) == 0 {
		t.fail("loop without state")
	}
	var stTys, stNames []string
	for _, p := range state {
		stTys = append(stTys, t.ty[p])
		stNames = append(stNames, t.leanName(p))
	}
	stTy := tupleTy(stTys)
	f.stepTy = t.arrow() + "(" + stTy + ") → Res ((" + stTy + ") ⊕ (" + rt + "))"
	var b strings.Builder
	if monadicInit {
		fmt.Fprintf(&b, "/-- %s: the loop state (%s) before the first iteration -/\ndef %s_init%s : Res (%s) := do\n%s  pure %s\n\n", doc,
			strings.Join(state, ", "), f.sp.Name, t.sig(), stTy, preOut.String(), tupleVal(stNames))
	} else {
		fmt.Fprintf(&b, "/-- %s: the loop state (%s) before the first iteration -/\ndef %s_init%s : %s :=\n%s  %s\n\n", doc,
			strings.Join(state, ", "), f.sp.Name, t.sig(), stTy, preOut.String(), tupleVal(stNames))
	}
	var stepOut strings.Builder
	t.out = &stepOut
	t.inLoop = true
	cont := func(ind int) {
		var vals []string
		for _, p := range state {
			vals = append(vals, t.read(p, "", p))
		}
		t.line(ind, "pure (Sum.inl "+tupleVal(vals)+")")
	}
	withPost := func(ind int) {
		if fs.Post != nil {
			t.block(ind, []ast.Stmt{fs.Post}, cont)
		} else {
			cont(ind)
		}
	}
	brk := func(ind int) {
		saved := t.loop
		t.loop = nil
		t.block(ind, post, nil)
		t.loop = saved
	}
	t.loop = &loopCtx{label: label, cont: withPost, brk: brk}
	stepBody := t.loopBody(fs)
	t.block(1, stepBody, withPost)
	fmt.Fprintf(&b, "/-- %s: ONE iteration of the loop from state (%s): `Sum.inl` the next state, `Sum.inr` the function's result -/\ndef %s_step%s (s : %s) : Res ((%s) ⊕ (%s)) := do\n%s  let %s := s\n%s\n", doc,
		strings.Join(state, ", "), f.sp.Name, t.sig(), stTy, stTy, rt, preOut.String(), tupleVal(stNames), stepOut.String())
	var args []string
	for _, p := range f.sp.Params {
		args = append(args, p.Lean)
	}
	a := strings.Join(args, " ")
	if monadicInit {
		fmt.Fprintf(&b, "/-- %s -/\ndef %s%s : Res (%s) := do\n  let s ← %s_init %s\n  GoSem.loop (%s_step %s) s\n", doc, f.sp.Name, t.sig(), rt, f.sp.Name, a, f.sp.Name, a)
	} else {
		fmt.Fprintf(&b, "/-- %s -/\ndef %s%s : Res (%s) :=\n  GoSem.loop (%s_step %s) (%s_init %s)\n", doc, f.sp.Name, t.sig(), rt, f.sp.Name, a, f.sp.Name, a)
	}
	return t.auxIn.String() + b.String(), nil
}

// newBfunc resolves the Go declaration of a bytes-mode spec.
func newBfunc(repo string, sp spec) (*bfunc, error) {
	pkg := loadPkg(filepath.Dir(filepath.Join(repo, sp.File)))
	f, err := parser.ParseFile(fset, filepath.Join(repo, sp.File), nil, 0)
	if err != nil {
		return nil, err
	}
	fd := findFunc(f, sp.Func)
	if fd == nil || fd.Body == nil {
		return nil, fmt.Errorf("function %s not found", sp.Func)
	}
	bf := &bfunc{sp: sp, fd: fd, pkg: pkg}
	if fd.Recv != nil && len(fd.Recv.List) > 0 {
		if len(fd.Recv.List[0].Names) > 0 {
			bf.recv = fd.Recv.List[0].Names[0].Name
		}
		bf.recvTy = pkg.tyOf(fd.Recv.List[0].Type)
	}
	for _, p := range fd.Type.Params.List {
		for _, n := range p.Names {
			bf.formals = append(bf.formals, n.Name)
			bf.formTy = append(bf.formTy, pkg.tyOf(p.Type))
		}
	}
	if fd.Type.Results != nil {
		for _, r := range fd.Type.Results.List {
			n := len(r.Names)
			if n == 0 {
				n = 1
			} else {
				// named results that the body never mentions (and no bare return) are plain results
				used := false
				ast.Inspect(fd.Body, func(x ast.Node) bool {
					switch v := x.(type) {
					case *ast.Ident:
						for _, nm := range r.Names {
							if v.Name == nm.Name {
								used = true
							}
						}
					case *ast.ReturnStmt:
						if len(v.Results) == 0 {
							used = true
						}
					}
					return true
				})
				if used {
					return nil, fmt.Errorf("named results")
				}
			}
			for i := 0; i < n; i++ {
				ty := pkg.tyOf(r.Type)
				bf.results = append(bf.results, ty)
				if ty == "error" {
					bf.hasErr = true
				}
			}
		}
	}
	return bf, nil
}

// outTypes: the type of every out path (a field of the receiver / a parameter, or a local given as "name:type")
func (bf *bfunc) resolveOuts() error {
	t := &btr{f: bf, pkg: bf.pkg, ty: map[string]string{}}
	if bf.recv != "" {
		t.ty[bf.recv] = bf.recvTy
	}
	for i, n := range bf.formals {
		t.ty[n] = bf.formTy[i]
	}
	for i, o := range bf.sp.Outs {
		if j := strings.IndexByte(o, ':'); j >= 0 { // local variable with its type, e.g. "name:bytes"
			bf.sp.Outs[i] = o[:j]
			bf.outTy = append(bf.outTy, o[j+1:])
			continue
		}
		e, err := parser.ParseExpr(o)
		if err != nil {
			return err
		}
		p, ty := t.path(e)
		if p != o || leanTy(ty) == "" {
			return fmt.Errorf("out %q is not a path of a supported type", o)
		}
		bf.outTy = append(bf.outTy, ty)
	}
	return nil
}

func generateCodec(repo string, specs []spec) string {
	var b strings.Builder
	b.WriteString("/- GENERATED by /verif/extract/gotolean (byte-slice mode, bytes.go) from /repo's working tree. Do not edit.\n   Semantics of the `GoSem.*` operations: MosVerif/Model/GoSem.lean. -/\nimport MosVerif.Model.GoSem\nset_option linter.unusedVariables false\nnamespace MosVerif.Translated\nopen MosVerif.Wire (Bytes Res)\nnoncomputable section -- `GoSem.loop` is not executable; these definitions are only reasoned about\n\n")
	reg := map[string]*bfunc{}
	var order []*bfunc
	errs := map[string]error{}
	if err := registerBoxes(specs); err != nil { // bytes_boxed.go
		fmt.Fprintln(os.Stderr, "gotolean:", err)
		os.Exit(2)
	}
	for _, sp := range specs {
		bf, err := newBfunc(repo, sp)
		if err == nil {
			err = bf.resolveOuts()
		}
		if err != nil {
			errs[sp.Name] = err
			bf = &bfunc{sp: sp, failed: true}
		} else {
			reg[sp.Func] = bf
		}
		order = append(order, bf)
	}
	for _, bf := range order {
		var def string
		err := errs[bf.sp.Name]
		if err == nil {
			def, err = translateBytes(bf, reg)
		}
		if err != nil {
			// keep the names defined (with the types given in the spec) so that only this fragment's theorems break
			msg := strings.ReplaceAll(err.Error(), "-/", "- /")
			sig := bf.sigTy
			if sig == "" {
				sig = "Unit"
			}
			fmt.Fprintf(&b, "/-- TRANSLATION FAILED: %s -/\nopaque %s : %s\n", msg, bf.sp.Name, sig)
			if bf.stepTy != "" {
				fmt.Fprintf(&b, "/-- TRANSLATION FAILED: %s -/\nopaque %s_step : %s\n", msg, bf.sp.Name, bf.stepTy)
			}
			for _, a := range bf.auxTy {
				fmt.Fprintf(&b, "/-- TRANSLATION FAILED: %s -/\nopaque %s : %s\n", msg, a[0], a[1])
			}
			b.WriteString("\n")
			fmt.Fprintf(os.Stderr, "gotolean: %s: %v\n", bf.sp.Name, err)
			continue
		}
		b.WriteString(def)
		b.WriteString("\n")
	}
	b.WriteString("end\nend MosVerif.Translated\n")
	return b.String()
}
