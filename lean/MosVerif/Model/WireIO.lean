/-
  Line protocol for the wire codec components (text form of messages, `unpack` / `pack` drivers
  and the executable specifications used as oracles for C01 / C02 / C09).

  message text: space separated tokens
    h=<id>,<qr>,<opcode>,<aa>,<tc>,<rd>,<ra>,<ad>,<cd>,<rcode>,<z>      (the 11th field may be omitted = 0)
    q=<name>,<type>,<class>                                  (repeated, in order)
    an=<rr> | ns=<rr> | ar=<rr>                               (repeated, in order)
    rr := <name>,<type>,<class>,<ttl>,<kind>,<fields>
          kind a,<hex> | aaaa,<hex> | name,<name> | mx,<pref>,<name>
             | soa,<ns>,<mbox>,<serial>,<refresh>,<retry>,<expire>,<minttl>
             | srv,<prio>,<weight>,<port>,<target> | raw,<hex>
  names and byte strings are hex ("-" = empty).
-/
import MosVerif.Model.Pack
-- @component unpack MosVerif.WireIO.runUnpack
-- @component pack MosVerif.WireIO.runPack
-- @component reencode MosVerif.WireIO.runReencode
namespace MosVerif.WireIO
open MosVerif MosVerif.Wire

def strOfHeader (h : Header) : String :=
  s!"h={h.id},{strOfBool h.response},{h.opcode},{strOfBool h.authoritative},{strOfBool h.truncated},{strOfBool h.rd},{strOfBool h.ra},{strOfBool h.ad},{strOfBool h.cd},{h.rcode},{strOfBool h.z}"

def strOfRData : RData → String
  | .a b => s!"a,{hexOfBytes b}"
  | .aaaa b => s!"aaaa,{hexOfBytes b}"
  | .name n => s!"name,{hexOfBytes n}"
  | .mx p n => s!"mx,{p},{hexOfBytes n}"
  | .soa ns mb a b c d e => s!"soa,{hexOfBytes ns},{hexOfBytes mb},{a},{b},{c},{d},{e}"
  | .srv p w port t => s!"srv,{p},{w},{port},{hexOfBytes t}"
  | .raw d => s!"raw,{hexOfBytes d}"

def strOfResource (sec : String) (r : Resource) : String :=
  s!"{sec}={hexOfBytes r.name},{r.rtype},{r.rclass},{r.ttl},{strOfRData r.rdata}"

def strOfMsg (m : Msg) : String :=
  let toks := [strOfHeader m.hdr]
    ++ m.questions.map (fun q => s!"q={hexOfBytes q.name},{q.qtype},{q.qclass}")
    ++ m.answers.map (strOfResource "an")
    ++ m.authorities.map (strOfResource "ns")
    ++ m.additionals.map (strOfResource "ar")
  " ".intercalate toks

def headerOfStr (s : String) : Option Header :=
  match (s.splitOn ",").map natOfStr with
  | [some id, some qr, some op, some aa, some tc, some rd, some ra, some ad, some cd, some rc] =>
    some ⟨id, qr == 1, op, aa == 1, tc == 1, rd == 1, ra == 1, ad == 1, cd == 1, rc, false⟩
  | [some id, some qr, some op, some aa, some tc, some rd, some ra, some ad, some cd, some rc, some z] =>
    some ⟨id, qr == 1, op, aa == 1, tc == 1, rd == 1, ra == 1, ad == 1, cd == 1, rc, z == 1⟩
  | _ => none

def rdataOfFields : List String → Option RData
  | ["a", h] => (bytesOfHex h).map .a
  | ["aaaa", h] => (bytesOfHex h).map .aaaa
  | ["name", n] => (bytesOfHex n).map .name
  | ["mx", p, n] => do pure (.mx (← natOfStr p) (← bytesOfHex n))
  | ["soa", ns, mb, a, b, c, d, e] => do
    pure (.soa (← bytesOfHex ns) (← bytesOfHex mb) (← natOfStr a) (← natOfStr b) (← natOfStr c) (← natOfStr d) (← natOfStr e))
  | ["srv", p, w, port, t] => do pure (.srv (← natOfStr p) (← natOfStr w) (← natOfStr port) (← bytesOfHex t))
  | ["raw", h] => (bytesOfHex h).map .raw
  | _ => none

def resourceOfStr (s : String) : Option Resource :=
  match s.splitOn "," with
  | n :: t :: c :: ttl :: rest => do
    pure ⟨← bytesOfHex n, ← natOfStr t, ← natOfStr c, ← natOfStr ttl, ← rdataOfFields rest⟩
  | _ => none

def questionOfStr (s : String) : Option Question :=
  match s.splitOn "," with
  | [n, t, c] => do pure ⟨← bytesOfHex n, ← natOfStr t, ← natOfStr c⟩
  | _ => none

def emptyHeader : Header := ⟨0, false, 0, false, false, false, false, false, false, 0, false⟩

/-- Parse the message tokens among `toks` (other `k=v` tokens are ignored). -/
def msgOfToks (toks : List String) : Option Msg :=
  toks.foldl (fun acc t =>
    match acc with
    | none => none
    | some m =>
      match t.splitOn "=" with
      | ["h", v] => (headerOfStr v).map (fun h => { m with hdr := h })
      | ["q", v] => (questionOfStr v).map (fun q => { m with questions := m.questions ++ [q] })
      | ["an", v] => (resourceOfStr v).map (fun r => { m with answers := m.answers ++ [r] })
      | ["ns", v] => (resourceOfStr v).map (fun r => { m with authorities := m.authorities ++ [r] })
      | ["ar", v] => (resourceOfStr v).map (fun r => { m with additionals := m.additionals ++ [r] })
      | _ => some m)
    (some ⟨emptyHeader, [], [], [], []⟩)

/-! ### component `unpack` (C01, C02 decode side)
    case: `<hex bytes>`; output: `err` | `panic` | message text -/

def strOfUnpack (r : Res Msg) : String :=
  match r with
  | .ok m => strOfMsg m
  | .err => "err"
  | .panic => "panic"

def runUnpack (case impl : String) : String × String :=
  match bytesOfHex case.trimAscii.toString with
  | none => ("bad-case", "na")
  | some bs =>
    let out := strOfUnpack (unpackMsg bs)
    -- C01's statement: never a panic (hangs show up as harness time-outs);
    -- an accepted message must be the one the model decodes (tie)
    let v := if impl == "panic" then "viol:panic" else "ok"
    (out, v)

/-! ### component `reencode` (C02: what is accepted is re-encoded to the same content)
    case: `<hex bytes>`; impl output: `err` | `packerr` | `re=<hex of decode-then-encode, no compression, no limit>` -/

def runReencode (case impl : String) : String × String :=
  match bytesOfHex case.trimAscii.toString with
  | none => ("bad-case", "na")
  | some bs =>
    match unpackMsg bs with
    | .ok m =>
      let out := match packMsg m false 0 (msgLen m) with
        | .ok re => s!"re={hexOfBytes re}"
        | _ => "packerr"
      -- specification, from the property text: an accepted message is re-encoded to wire data with the same
      -- header (id and ALL 16 bits of the flag word — "any header bits") that decodes to the same message
      let v :=
        if impl == "panic" then "viol:panic"
        else match (kvGet (words impl) "re").bind bytesOfHex with
          | some re =>
            if re.take 4 ≠ bs.take 4 then "viol:header-bits"
            else match unpackMsg re with
              | .ok m' => if m' = m then "ok" else "viol:roundtrip"
              | _ => "viol:undecodable"
          | none => if impl == "err" then "ok" else "viol:err"   -- (impl rejecting what the model accepts is a tie matter)
      (out, v)
    | _ => ("err", if impl == "panic" then "viol:panic" else "ok")

/-! ### component `pack` (C02, C09)
    case: `c=<0|1> size=<n> cap=<n|len> <message tokens>`
    impl output: `err` | `panic` | `len=<Msg.Len> out=<hex> [mk=<0|1> xn=<0|1>]`
    (`mk`/`xn`: an independent decoder — miekg/dns, x/net dnsmessage — decoded `out` to the same
     content; present when the harness ran them) -/

structure PackOut where
  len : Nat
  out : Bytes
  miekg : Option Bool
  xnet : Option Bool

def packOutOfStr (s : String) : Option PackOut := do
  let toks := words s
  let len ← kvNat toks "len"
  let out ← (kvGet toks "out").bind bytesOfHex
  let mk := (kvGet toks "mk").bind boolOfStr
  let xn := (kvGet toks "xn").bind boolOfStr
  pure ⟨len, out, mk, xn⟩

/-- sub-list (order preserving) test -/
def isSublist {α} [BEq α] : List α → List α → Bool
  | [], _ => true
  | _ :: _, [] => false
  | a :: as, b :: bs => if a == b then isSublist as bs else isSublist (a :: as) bs

instance : BEq Resource := ⟨fun a b => decide (a = b)⟩
instance : BEq Question := ⟨fun a b => decide (a = b)⟩

def isOpt (r : Resource) : Bool := r.rtype == typeOPT

/-- The specification of C02 (size = 0) and C09 (size > 0) as a predicate on what the
    implementation returned for `Pack(m, compression, size)` into a buffer of `Msg.Len()` bytes.
    Written from the property text; it uses the (proved total, proved correct) decoder of the
    model only to read the implementation's bytes back. -/
def packSpec (m : Msg) (size : Nat) (o : PackOut) : String :=
  if o.miekg == some false then "viol:miekg-disagrees"
  else if o.xnet == some false then "viol:xnet-disagrees"
  else if size = 0 then
    -- C02: decodes to the same message; uncompressed length is exactly Msg.Len
    if o.len ≠ msgLen m then "viol:len"
    else match unpackMsg o.out with
      | .ok m' => if m' = m then "ok" else "viol:roundtrip"
      | _ => "viol:undecodable"
  else
    let limit := max 512 size
    -- uncompressed size of the OPT record the response carries (the last one), 0 when there is none
    let optLen := match (m.additionals.filter isOpt).getLast? with
      | some opt => resourcePackLen opt
      | none => 0
    -- (when the OPT alone does not leave room for the header the code cannot honour the limit: documented corner)
    if optLen + 12 ≤ limit ∧ o.out.length > limit then "viol:size"
    else match unpackMsgEnd o.out with
      | .ok (m', e) =>
        if e ≠ o.out.length then "viol:trailing"
        else
          let dropped := m'.questions.length < m.questions.length ∨ m'.answers.length < m.answers.length
            ∨ m'.authorities.length < m.authorities.length ∨ m'.additionals.length < m.additionals.length
          let hdrSame := { m'.hdr with truncated := m.hdr.truncated } = m.hdr
          if ¬ hdrSame then "viol:header"
          else if dropped ∧ ¬ m'.hdr.truncated then "viol:tc-missing"
          else if ¬ dropped ∧ m'.hdr.truncated ≠ m.hdr.truncated then "viol:tc-added"
          else if ¬ isSublist m'.questions m.questions then "viol:questions"
          else if ¬ isSublist m'.answers m.answers then "viol:answers"
          else if ¬ isSublist m'.authorities m.authorities then "viol:authorities"
          -- a question (≤ 259 octets) and the header always fit beside an OPT of at most 241 octets
          else if m.questions.length ≤ 1 ∧ optLen ≤ 241 ∧ m'.questions ≠ m.questions then "viol:question-dropped"
          else if (m.additionals.filter isOpt).length = 1 ∧ (m'.additionals.filter isOpt) ≠ (m.additionals.filter isOpt) then "viol:opt-dropped"
          else if msgLen m ≤ limit ∧ (dropped ∨ m'.hdr.truncated ≠ m.hdr.truncated) then "viol:dropped-though-fits"
          else "ok"
      | _ => "viol:undecodable"

def runPack (case impl : String) : String × String :=
  let toks := words case
  match msgOfToks toks, (kvGet toks "c").bind boolOfStr, kvNat toks "size", kvGet toks "cap" with
  | some m, some c, some size, some capS =>
    let cap := if capS == "len" then some (msgLen m) else natOfStr capS
    match cap with
    | none => ("bad-case", "na")
    | some cap =>
      let out := match packMsg m c size cap with
        | .ok bs => s!"len={msgLen m} out={hexOfBytes bs}"
        | .err => "err"
        | .panic => "panic"
      let v :=
        if impl == "panic" then "viol:panic"
        else if impl == "err" then (if capS == "len" ∧ msgWF m then "viol:err" else "ok")
        else match packOutOfStr impl with
          | some o => if capS == "len" ∧ msgWF m then packSpec m size o else "ok"
          | none => "unparsed"
      -- (the independent decoders' flags follow " ## " in the impl output and are not part of the tie comparison)
      (out, v)
  | _, _, _, _ => ("bad-case", "na")

end MosVerif.WireIO
