/-
  C17 — model of the address logic of an upstream
  (internal/upstream/utils.go, internal/upstream/upstream.go `NewUpstream`).

  Go strings are byte strings; here a string is a `List Char` in which every
  `Char` stands for one byte (the line protocol maps byte `b` to `Char.ofNat b`).
  All functions below only compare bytes with ASCII delimiters and cut at the
  positions found, so the correspondence is exact.

  Modelled from the Go standard library (differentially checked against the real
  stdlib by the `dialaddr` harness component): `net.SplitHostPort`,
  `net.JoinHostPort`, `strings.HasPrefix(s,"@")`, `strings.Contains(s,"://")`.
  `url.Parse` is modelled only for addresses of the shape
  `scheme://authority[/path]` (no userinfo, query, fragment or %-escapes).
-/
import MosVerif.Util
-- @component dialaddr MosVerif.Addr.runPure
-- @component dial MosVerif.Addr.runDial
namespace MosVerif.Addr

abbrev Str := List Char

/-! ### byte-string primitives -/

/-- `strings.IndexByte` -/
def indexOf (c : Char) : Str → Option Nat
  | [] => none
  | x :: xs => if x = c then some 0 else (indexOf c xs).map (· + 1)

/-- `strings.LastIndexByte` -/
def lastIndexOf (c : Char) : Str → Option Nat
  | [] => none
  | x :: xs =>
    match lastIndexOf c xs with
    | some i => some (i + 1)
    | none => if x = c then some 0 else none

/-- Go `s[lo:hi]`; `none` is the run-time panic "slice bounds out of range". -/
def slice? (s : Str) (lo hi : Nat) : Option Str :=
  if lo ≤ hi ∧ hi ≤ s.length then some ((s.take hi).drop lo) else none

/-! ### net.SplitHostPort / net.JoinHostPort -/

inductive SplitErr where
  | missingPort | tooManyColons | missingBracket | unexpectedOpen | unexpectedClose
  deriving DecidableEq, Repr

/-- `net.SplitHostPort` (go1.23 net/ipsock.go), branch for branch. -/
def splitHostPort (s : Str) : Except SplitErr (Str × Str) :=
  match lastIndexOf ':' s with
  | none => .error .missingPort
  | some i =>
    if s.head? = some '[' then
      match indexOf ']' s with
      | none => .error .missingBracket
      | some e =>
        if e + 1 = s.length then .error .missingPort
        else if e + 1 = i then
          -- host = s[1:e]; j, k = 1, e+1
          if '[' ∈ s.drop 1 then .error .unexpectedOpen
          else if ']' ∈ s.drop (e + 1) then .error .unexpectedClose
          else .ok ((s.take e).drop 1, s.drop (i + 1))
        else if s[e + 1]? = some ':' then .error .tooManyColons
        else .error .missingPort
    else
      let host := s.take i
      if ':' ∈ host then .error .tooManyColons
      else if '[' ∈ s then .error .unexpectedOpen
      else if ']' ∈ s then .error .unexpectedClose
      else .ok (host, s.drop (i + 1))

/-- `net.JoinHostPort` -/
def joinHostPort (host port : Str) : Str :=
  if ':' ∈ host then '[' :: host ++ ']' :: ':' :: port else host ++ ':' :: port

/-! ### internal/upstream/utils.go -/

/-- `len(s) < 2` (tied to the source by translation, `Lemmas/TranslatedC17.lean`) -/
@[simp] def trimTooShort (len : Nat) : Bool := decide (len < 2)

/-- `s[0] == '[' && s[len(s)-1] == ']'` (tied to the source by translation for every `s` the guard lets through) -/
@[simp] def bracketed (s : Str) : Bool := decide (s.head? = some '[' ∧ s.getLast? = some ']')

/-- `len(dialAddr) > 0` -/
@[simp] def lenPositive (len : Nat) : Bool := decide (len > 0)

/-- `len(port) == 0` -/
@[simp] def lenZero (len : Nat) : Bool := decide (len = 0)

/-- `tryTrimIpv6Brackets`; `none` = panic (slice bounds). The slice bounds `1`
    and `len(s)-1` are pinned (`Facts.addr_trimSlice`). -/
def tryTrimIpv6Brackets? (s : Str) : Option Str :=
  if trimTooShort s.length then some s
  else if bracketed s then slice? s 1 (s.length - 1)
  else some s

/-- the tests spelled out (the form the lemmas work with) -/
theorem tryTrimIpv6Brackets?_eq (s : Str) : tryTrimIpv6Brackets? s =
    if s.length < 2 then some s
    else if s.head? = some '[' ∧ s.getLast? = some ']' then slice? s 1 (s.length - 1)
    else some s := by
  simp only [tryTrimIpv6Brackets?, trimTooShort, bracketed, decide_eq_true_eq]

/-- the value `tryTrimIpv6Brackets` returns; it never panics (`trim_never_panics`), the `none`
    branch is dead -/
def tryTrimIpv6Brackets (s : Str) : Str :=
  match tryTrimIpv6Brackets? s with
  | some r => r
  | none => s

/-- `trySplitHostPort` -/
def trySplitHostPort (s : Str) : Str × Str :=
  match splitHostPort s with
  | .ok (h, p) => (h, p)
  | .error _ => (s, [])

/-- `tryRemovePort` -/
def tryRemovePort (s : Str) : Str :=
  match splitHostPort s with
  | .ok (h, _) => h
  | .error _ => s

/-- `strings.HasPrefix(s, "@")` -/
def hasAtPrefix (s : Str) : Bool := s.head? = some '@'

/-- `getDialAddr` -/
def getDialAddr (urlAddr dialAddr defaultPort : Str) : Str :=
  if lenPositive dialAddr.length then
    if hasAtPrefix dialAddr then dialAddr
    else
      let (host, port) := trySplitHostPort dialAddr
      -- "host may be an ipv6 address in brackets. JoinHostPort adds them."
      if lenZero port.length then joinHostPort (tryTrimIpv6Brackets host) defaultPort else dialAddr
  else
    let (host, port) := trySplitHostPort urlAddr
    if lenZero port.length then joinHostPort host defaultPort else urlAddr

/-- the tests spelled out (the form the lemmas work with) -/
theorem getDialAddr_eq (urlAddr dialAddr defaultPort : Str) : getDialAddr urlAddr dialAddr defaultPort =
    if dialAddr.length > 0 then
      if hasAtPrefix dialAddr then dialAddr
      else
        let (host, port) := trySplitHostPort dialAddr
        if port.length = 0 then joinHostPort (tryTrimIpv6Brackets host) defaultPort else dialAddr
    else
      let (host, port) := trySplitHostPort urlAddr
      if port.length = 0 then joinHostPort host defaultPort else urlAddr := by
  simp only [getDialAddr, lenPositive, lenZero, decide_eq_true_eq]

def sUnix : Str := ['u', 'n', 'i', 'x']
def sTcp : Str := ['t', 'c', 'p']
def sUdp : Str := ['u', 'd', 'p']
def sTls : Str := ['t', 'l', 's']
def sHttps : Str := ['h', 't', 't', 'p', 's']
def sHttp : Str := ['h', 't', 't', 'p']
def sH3 : Str := ['h', '3']
def sQuic : Str := ['q', 'u', 'i', 'c']
def sDoq : Str := ['d', 'o', 'q']
def sTcpPipeline : Str := ['t', 'c', 'p', '+', 'p', 'i', 'p', 'e', 'l', 'i', 'n', 'e']
def sTlsPipeline : Str := ['t', 'l', 's', '+', 'p', 'i', 'p', 'e', 'l', 'i', 'n', 'e']
def sSep : Str := [':', '/', '/']
def p53 : Str := ['5', '3']
def p853 : Str := ['8', '5', '3']
def p443 : Str := ['4', '4', '3']
def p80 : Str := ['8', '0']

/-- `dialNetworkTcpOrUnix` -/
def dialNetworkTcpOrUnix (dialAddr : Str) : Str :=
  if hasAtPrefix dialAddr then sUnix else sTcp


/-! ### the supported address forms (explicit, decidable) -/

/-- bytes that may occur in a host written without brackets, and in a port -/
def plainChar (c : Char) : Bool := c != ':' && c != '[' && c != ']' && c != '/' && c != '@'

/-- bytes that may occur inside the brackets of an IPv6 literal -/
def v6Char (c : Char) : Bool := c != '[' && c != ']' && c != '/' && c != '@'

/-- A host written without brackets: non-empty, no colon, bracket, slash or '@'.
    Every IPv4 literal and every domain name is one (`isIPv4`, `isDomain` below). -/
def isPlainHost (h : Str) : Bool := !h.isEmpty && h.all plainChar

/-- The text between the brackets of an IPv6 literal, in any textual shape:
    at least two colons, no bracket, slash or '@'. (`isIPv6Text` below is included.) -/
def isV6Body (x : Str) : Bool := x.all v6Char && decide (2 ≤ x.count ':')

/-- A port: non-empty, no colon, bracket, slash or '@' (decimal numbers, service names). -/
def isPort (p : Str) : Bool := !p.isEmpty && p.all plainChar

def isDigit (c : Char) : Bool := '0' ≤ c && c ≤ '9'
def isHex (c : Char) : Bool := isDigit c || ('a' ≤ c && c ≤ 'f') || ('A' ≤ c && c ≤ 'F')
def isAlpha (c : Char) : Bool := ('a' ≤ c && c ≤ 'z') || ('A' ≤ c && c ≤ 'Z')

/-- split at every `sep` -/
def splitOnChar (sep : Char) : Str → List Str
  | [] => [[]]
  | c :: t =>
    match splitOnChar sep t with
    | [] => [[]]      -- unreachable
    | g :: gs => if c = sep then [] :: g :: gs else (c :: g) :: gs

/-- dotted quad: four groups of one to three decimal digits -/
def isIPv4 (h : Str) : Bool :=
  h.all (fun c => isDigit c || c == '.') &&
  (let gs := splitOnChar '.' h
   gs.length == 4 && gs.all (fun g => 1 ≤ g.length && g.length ≤ 3 &&
     g.foldl (fun n c => 10 * n + (c.toNat - 48)) 0 ≤ 255))

/-- domain name: letters, digits, '-', '_' and '.', non-empty labels (one trailing dot allowed) -/
def isDomain (h : Str) : Bool :=
  !h.isEmpty && h.all (fun c => isAlpha c || isDigit c || c == '-' || c == '_' || c == '.') &&
  h.head? != some '.'

/-- IPv6 text of any shape: hex digits, ':' and '.' (embedded IPv4), two to seven colons,
    optionally followed by a zone `%name`. -/
def isIPv6Text (x : Str) : Bool :=
  let a := x.takeWhile (· ≠ '%')
  let z := x.dropWhile (· ≠ '%')
  a.all (fun c => isHex c || c == ':' || c == '.') && decide (2 ≤ a.count ':') && decide (a.count ':' ≤ 7) &&
  z.all (fun c => c == '%' || isAlpha c || isDigit c)

/-! ### NewUpstream: scheme defaulting, helper schemes, default ports, SNI -/

/-- `strings.Contains(addr, "://")` -/
def containsSep : Str → Bool
  | [] => false
  | c :: t =>
    (match c, t with
     | ':', '/' :: '/' :: _ => true
     | _, _ => false) || containsSep t

/-- `url.getScheme` restricted to the inputs that reach it here (they contain
    "://"): the text before the first ':' and the text after it. -/
def splitScheme : Str → Option (Str × Str)
  | [] => none
  | c :: t =>
    if c = ':' then some ([], t)
    else match splitScheme t with
      | some (a, b) => some (c :: a, b)
      | none => none

structure Url where
  scheme : Str
  /-- `URL.Host`: the authority, i.e. `host` or `host:port`, brackets kept -/
  host : Str
  /-- path and whatever follows -/
  rest : Str
  deriving DecidableEq, Repr

/-- `url.Parse` for `scheme://authority[/path]`; `none` = parse error or outside the
    modelled subset. -/
def urlParse (s : Str) : Option Url :=
  match splitScheme s with
  | none => none
  | some (sch, rest) =>
    if sch = [] then none
    else match rest with
      | '/' :: '/' :: r => some ⟨sch, r.takeWhile (· ≠ '/'), r.dropWhile (· ≠ '/')⟩
      | _ => none

/-- `URL.Hostname()` (`stripPort`, brackets removed). -/
def urlHostname (hostport : Str) : Str :=
  match indexOf ':' hostport with
  | none => hostport
  | some colon =>
    match indexOf ']' hostport with
    | some i =>
      let h := hostport.take i
      if h.head? = some '[' then h.drop 1 else h
    | none => hostport.take colon

inductive Proto where
  | udp | tcp | tls | https | http | quic
  deriving DecidableEq, Repr

/-- What `NewUpstream` decides about reaching the peer. -/
structure Plan where
  proto : Proto
  pipeline : Bool
  h3 : Bool
  /-- network handed to the dialer: "udp", "tcp" or "unix" -/
  network : Str
  /-- address handed to the dialer -/
  dialAddr : Str
  /-- `tls.Config.ServerName` used for the handshake when the configured
      `TLSConfig.ServerName` is empty (it always is when built by `makeTlsConfig`);
      `[]` for udp/tcp/http. -/
  serverName : Str
  /-- authority of the DoH end-point URL (HTTP `Host` / `:authority`); `[]` otherwise -/
  httpHost : Str
  /-- address of the TCP retry leg of a udp upstream (`udpWithFallback.t`), dialled on network "tcp"
      after a truncated UDP reply; `none` for every other protocol -/
  tcpFallback : Option Str
  deriving DecidableEq, Repr

inductive Res where
  | ok (p : Plan)
  | badUrl
  | unsupported
  | panic
  deriving DecidableEq, Repr

/-- ServerName chosen by net/http's Transport for an https URL (`dialConn`: the host of
    `net.SplitHostPort(canonicalAddr(url))`): the URL's host name without port and brackets. -/
def httpsServerName (authority : Str) : Str := urlHostname authority

/-- ServerName chosen by quic-go's http3 client (`net.SplitHostPort(authorityAddr(host))`). -/
def h3ServerName (authority : Str) : Str := urlHostname authority

/-- `NewUpstream(addr, Opt{DialAddr: dialAddr})` up to the construction of the dial closure. -/
def newUpstream (addr dialAddr : Str) : Res :=
  -- parse protocol and server addr
  let addr := if !containsSep addr then sUdp ++ sSep ++ addr else addr
  match urlParse addr with
  | none => .badUrl
  | some u =>
    -- apply helper protocol
    let (scheme, pipeline, h3) :=
      if u.scheme = sTcpPipeline ∨ u.scheme = sTlsPipeline then (u.scheme.take 3, true, false)
      else if u.scheme = sH3 then (sHttps, false, true)
      else (u.scheme, false, false)
    match tryTrimIpv6Brackets? u.host with
    | none => .panic
    | some urlAddrHost =>
      if scheme = [] ∨ scheme = sUdp then
        -- dialUdp and dialTcp close over the same `dialAddr`
        let da := getDialAddr urlAddrHost dialAddr p53
        .ok ⟨.udp, pipeline, h3, sUdp, da, [], [], some da⟩
      else if scheme = sTcp then
        let da := getDialAddr urlAddrHost dialAddr p53
        .ok ⟨.tcp, pipeline, h3, dialNetworkTcpOrUnix da, da, [], [], none⟩
      else if scheme = sTls then
        let da := getDialAddr urlAddrHost dialAddr p853
        .ok ⟨.tls, pipeline, h3, dialNetworkTcpOrUnix da, da, tryRemovePort urlAddrHost, [], none⟩
      else if scheme = sHttps ∨ scheme = sHttp then
        let defaultPort := if scheme = sHttp then p80 else p443
        let da := getDialAddr urlAddrHost dialAddr defaultPort
        if h3 then
          .ok ⟨.https, pipeline, h3, sUdp, da, h3ServerName u.host, u.host, none⟩
        else if scheme = sHttp then
          .ok ⟨.http, pipeline, h3, dialNetworkTcpOrUnix da, da, [], u.host, none⟩
        else
          .ok ⟨.https, pipeline, h3, dialNetworkTcpOrUnix da, da, httpsServerName u.host, u.host, none⟩
      else if scheme = sQuic ∨ scheme = sDoq then
        .ok ⟨.quic, pipeline, h3, sUdp, getDialAddr urlAddrHost dialAddr p853,
              tryRemovePort urlAddrHost, [], none⟩
      else .unsupported

/-! ### structured cases: the supported address forms of the property text -/

inductive Scheme where
  | none | udp | tcp | tls | https | http | h3 | quic | doq | tcpPipeline | tlsPipeline
  deriving DecidableEq, Repr

def Scheme.text : Scheme → Str
  | .none => []
  | .udp => sUdp | .tcp => sTcp | .tls => sTls | .https => sHttps | .http => sHttp
  | .h3 => sH3 | .quic => sQuic | .doq => sDoq
  | .tcpPipeline => sTcpPipeline | .tlsPipeline => sTlsPipeline

/-- A host: written without brackets (IPv4 literal, domain name) or an IPv6 literal
    (written `[x]` in a URL). -/
inductive Host where
  | plain (h : Str)
  | v6 (x : Str)
  deriving DecidableEq, Repr

def Host.bare : Host → Str
  | .plain h => h
  | .v6 x => x

/-- the host as written in a URL -/
def Host.url : Host → Str
  | .plain h => h
  | .v6 x => '[' :: x ++ [']']

def Host.wf : Host → Bool
  | .plain h => isPlainHost h
  | .v6 x => isV6Body x

def portSuffix : Option Str → Str
  | none => []
  | some p => ':' :: p

def portWf : Option Str → Bool
  | none => true
  | some p => isPort p

/-- the `dial_addr` option -/
inductive Dial where
  | none
  /-- IP or domain, optional port; an IPv6 address is written bare without a port
      and bracketed with one -/
  | host (h : Host) (p : Option Str)
  /-- an IPv6 address in brackets without a port: `[x]` -/
  | bracketed (x : Str)
  /-- `@name`: abstract unix socket -/
  | unix (name : Str)
  /-- anything else: the property makes no claim -/
  | raw (s : Str)
  deriving DecidableEq, Repr

structure Case where
  scheme : Scheme
  host : Host
  port : Option Str
  /-- `[]` or `/...` -/
  path : Str
  dial : Dial
  /-- the name service of the environment: host text ↦ canonical IP text -/
  ns : List (Str × Str)
  deriving Repr

def Dial.wf : Dial → Bool
  | .none => true
  | .host h p => h.wf && portWf p
  | .bracketed x => isV6Body x
  | .unix _ => true
  | .raw _ => true

def Case.wf (c : Case) : Bool :=
  c.host.wf && portWf c.port && c.dial.wf &&
  (c.path.isEmpty || (c.path.head? == some '/' && c.scheme != .none))

/-- the address string given to `NewUpstream` -/
def Case.addr (c : Case) : Str :=
  (if c.scheme = .none then [] else c.scheme.text ++ sSep) ++ c.host.url ++ portSuffix c.port ++ c.path

/-- the `dial_addr` string -/
def Dial.render : Dial → Str
  | .none => []
  | .host (.plain h) p => h ++ portSuffix p
  | .host (.v6 x) Option.none => x
  | .host (.v6 x) (Option.some p) => '[' :: x ++ ']' :: ':' :: p
  | .bracketed x => '[' :: x ++ [']']
  | .unix n => '@' :: n
  | .raw s => s

/-! ### what the harness observes (model side) -/

def sPORT : Str := ['P', 'O', 'R', 'T']
def sUNIX : Str := ['@', 'U', 'N', 'I', 'X']
def sNone : Str := ['n', 'o', 'n', 'e']

def nsLookup : List (Str × Str) → Str → Str
  | [], h => h
  | (k, v) :: t, h => if k = h then v else nsLookup t h

/-- the `(network, address)` the socket `Control` callback sees for a dial of
    `(network, dialAddr)`: the dialer splits the address, resolves the host (`ns`) and
    appends the address family to the network. `none`: no socket is ever created. -/
def ctlOf (ns : List (Str × Str)) (network dialAddr : Str) : Str :=
  if network = sUnix then network ++ '|' :: dialAddr
  else match splitHostPort dialAddr with
    | .error _ => sNone
    | .ok (h, p) =>
      let ip := nsLookup ns h
      network ++ (if ':' ∈ ip then '6' else '4') :: '|' :: joinHostPort ip p

/-- the harness' TLS/HTTP servers are reached iff the dial goes to the `PORT`/`@UNIX` tokens -/
def isLive (network dialAddr : Str) : Bool :=
  if network = sUnix then dialAddr == sUNIX
  else match splitHostPort dialAddr with
    | .error _ => false
    | .ok (_, p) => p == sPORT

def trimDots (s : Str) : Str := (s.reverse.dropWhile (· = '.')).reverse

/-- `none` = not observed (no handshake / no request reached the harness' servers) -/
structure Obs where
  res : Str
  ctl : Str
  /-- `tls.Config.ServerName` the client handshake used -/
  sname : Option Str
  /-- SNI extension seen by the server (`some []`: a ClientHello without SNI) -/
  sni : Option Str
  /-- HTTP `Host` seen by the server -/
  host : Option Str
  deriving DecidableEq, Repr

def sOk : Str := ['o', 'k']
def sNewErr : Str := ['n', 'e', 'w', 'e', 'r', 'r']
def sPanic : Str := ['p', 'a', 'n', 'i', 'c']

/-- is the URL host an IP literal (then crypto/tls sends no SNI) -/
def Host.isIP : Host → Bool
  | .plain h => isIPv4 h
  | .v6 _ => true

def observe (c : Case) : Res → Obs
  | .badUrl => ⟨sNewErr, sNone, none, none, none⟩
  | .unsupported => ⟨sNewErr, sNone, none, none, none⟩
  | .panic => ⟨sPanic, sNone, none, none, none⟩
  | .ok p =>
    let ctl0 := ctlOf c.ns p.network p.dialAddr
    let live := isLive p.network p.dialAddr
    -- a udp upstream whose datagrams reach the harness' UDP server (which answers TC=1) goes on to
    -- dial its TCP leg; both dials are seen by `Control` (reported sorted: tcp before udp)
    let ctl := match p.tcpFallback with
      | some fa => if live ∧ ctl0 ≠ sNone then ctlOf c.ns sTcp fa ++ ';' :: ctl0 else ctl0
      | none => ctl0
    let quicLike := p.proto = .quic ∨ p.h3 = true
    let tlsLike := p.proto = .tls ∨ p.proto = .https ∨ p.proto = .quic
    let sname :=
      if tlsLike ∧ ((quicLike ∧ ctl0 ≠ sNone) ∨ (¬ quicLike ∧ live)) then some p.serverName else none
    let sni :=
      if (p.proto = .tls ∨ p.proto = .https) ∧ ¬ quicLike ∧ live then
        some (if c.host.isIP then [] else trimDots c.host.bare)
      else none
    let host :=
      if (p.proto = .http ∨ p.proto = .https) ∧ ¬ quicLike ∧ live then some p.httpHost else none
    ⟨sOk, ctl, sname, sni, host⟩

def modelDial (c : Case) : Obs := observe c (newUpstream c.addr c.dial.render)

/-! ### the property as a decidable predicate on an observation (written from the
    property text, not from the code) -/

/-- "the scheme's default 53, 853, 443 or 80" -/
def Scheme.defaultPort : Scheme → Str
  | .none | .udp | .tcp | .tcpPipeline => p53
  | .tls | .tlsPipeline | .quic | .doq => p853
  | .https | .h3 => p443
  | .http => p80

/-- stream based (tcp/tls/http/https): `@name` means an abstract unix socket -/
def Scheme.stream : Scheme → Bool
  | .tcp | .tcpPipeline | .tls | .tlsPipeline | .https | .http => true
  | _ => false

/-- the transport's socket type -/
def Scheme.sock : Scheme → Str
  | .none | .udp | .quic | .doq | .h3 => sUdp
  | _ => sTcp

/-- TLS based (DoT, DoH, DoQ) -/
def Scheme.tlsBased : Scheme → Bool
  | .tls | .tlsPipeline | .https | .h3 | .quic | .doq => true
  | _ => false

def Scheme.quicBased : Scheme → Bool
  | .h3 | .quic | .doq => true
  | _ => false

inductive Target where
  | inet (sock host port : Str)
  | unix (addr : Str)
  | noClaim
  deriving DecidableEq, Repr

/-- where the property says the connection goes -/
def Case.target (c : Case) : Target :=
  match c.dial with
  | .none => .inet c.scheme.sock c.host.bare (c.port.getD c.scheme.defaultPort)
  | .host h p => .inet c.scheme.sock h.bare (p.getD c.scheme.defaultPort)
  | .bracketed x => .inet c.scheme.sock x c.scheme.defaultPort
  | .unix n => if c.scheme.stream then .unix ('@' :: n) else .noClaim
  | .raw _ => .noClaim

def Target.ctl (ns : List (Str × Str)) : Target → Str
  | .inet sock h p =>
    let ip := nsLookup ns h
    if ':' ∈ ip then sock ++ '6' :: '|' :: '[' :: ip ++ ']' :: ':' :: p
    else sock ++ '4' :: '|' :: ip ++ ':' :: p
  | .unix a => sUnix ++ '|' :: a
  | .noClaim => []

def Target.live : Target → Bool
  | .inet _ _ p => p == sPORT
  | .unix a => a == sUNIX
  | .noClaim => false

/-- udp upstreams retry truncated replies over TCP: a second connection, to the same host and port -/
def Scheme.tcpRetry : Scheme → Bool
  | .none | .udp => true
  | _ => false

/-- every connection the harness can provoke: the dial itself and, for a udp upstream that reaches
    the harness' truncating UDP server, the TCP retry — to exactly the same host and port -/
def expectedCtl (c : Case) (t : Target) : Str :=
  match t with
  | .inet _ h p =>
    if c.scheme.tcpRetry && t.live then (Target.inet sTcp h p).ctl c.ns ++ ';' :: t.ctl c.ns
    else t.ctl c.ns
  | _ => t.ctl c.ns

def specDial (c : Case) (o : Obs) : Bool :=
  if !c.wf then true else
  match c.target with
  | .noClaim => true
  | t =>
    o.res == sOk && o.ctl == expectedCtl c t &&
    -- the TLS server name is the URL host
    (o.sname == none || (c.scheme.tlsBased && o.sname == some c.host.bare)) &&
    -- ... and a handshake is attempted whenever the harness can see one
    (!(c.scheme.tlsBased && (c.scheme.quicBased || t.live)) || o.sname != none) &&
    -- the SNI extension carries the URL host (none for IP literals, trailing dots dropped: crypto/tls)
    (o.sni == none || o.sni == some (if c.host.isIP then [] else trimDots c.host.bare)) &&
    -- the HTTP Host is the URL's host[:port]
    (o.host == none || o.host == some (c.host.url ++ portSuffix c.port))

/-! ### the pure helper functions on one structured form (`dialaddr` component, op `form`) -/

structure FormCase where
  host : Host
  port : Option Str
  dial : Dial
  dflt : Str
  deriving Repr

/-- `none` in `trim` = panic -/
structure FormOut where
  trim : Option Str
  da : Str
  sn : Str
  net : Str
  deriving DecidableEq, Repr

def modelForm (c : FormCase) : FormOut :=
  match tryTrimIpv6Brackets? (c.host.url ++ portSuffix c.port) with
  | none => ⟨none, [], [], []⟩
  | some u =>
    let da := getDialAddr u c.dial.render c.dflt
    ⟨some u, da, tryRemovePort u, dialNetworkTcpOrUnix da⟩

def FormCase.wf (c : FormCase) : Bool := c.host.wf && portWf c.port && c.dial.wf && isPort c.dflt

/-- brackets are removed from a bare `[x]` only -/
def expTrim : Host → Option Str → Str
  | .v6 x, Option.none => x
  | h, p => h.url ++ portSuffix p

/-- from the property text: brackets are removed from a bare `[x]` only; the dial address is
    host:port of the URL, or of `dial_addr`, with the default port when none is given; `@name`
    is kept and means "unix"; the server name is the URL host. -/
def specForm (c : FormCase) (o : FormOut) : Bool :=
  if !c.wf then true else
  o.trim == some (expTrim c.host c.port) &&
  o.sn == c.host.bare &&
  (match c.dial with
   | .none => o.da == joinHostPort c.host.bare (c.port.getD c.dflt) && o.net == sTcp
   | .host h p => o.da == joinHostPort h.bare (p.getD c.dflt) && o.net == sTcp
   | .bracketed x => o.da == joinHostPort x c.dflt && o.net == sTcp
   | .unix n => o.da == '@' :: n && o.net == sUnix
   | .raw _ => true)

/-- from the comment of `tryTrimIpv6Brackets` / D10: `[x]` ↦ `x`, everything else unchanged -/
def specTrim (s : Str) (o : Option Str) : Bool :=
  match s with
  | '[' :: t =>
    (match t.getLast? with
     | some ']' => o == some t.dropLast
     | _ => o == some s)
  | _ => o == some s

/-- `@...` ↦ "unix", everything else "tcp" -/
def specNet (s : Str) (o : Str) : Bool :=
  match s with
  | '@' :: _ => o == sUnix
  | _ => o == sTcp

/-! ### line protocol -/

def strOf (s : Str) : String := String.ofList s

def hexOfStr (s : Str) : String := hexOfBytes (s.map (fun c => UInt8.ofNat c.toNat))

def strOfHex (h : String) : Option Str := (bytesOfHex h).map (·.map (fun b => Char.ofNat b.toNat))

/-- tokens `key=value` (split at the first '='), values may be empty -/
def kvs (case : String) : List (String × Str) :=
  (words case).filterMap (fun t =>
    let cs := t.toList
    if '=' ∈ cs then some (String.ofList (cs.takeWhile (· ≠ '=')), (cs.dropWhile (· ≠ '=')).drop 1) else none)

def kvLookup (m : List (String × Str)) (k : String) : Option Str :=
  match m with
  | [] => none
  | (a, b) :: t => if a == k then some b else kvLookup t k

def schemeOfStr (s : String) : Option Scheme :=
  match s with
  | "none" => some .none | "udp" => some .udp | "tcp" => some .tcp | "tls" => some .tls
  | "https" => some .https | "http" => some .http | "h3" => some .h3 | "quic" => some .quic
  | "doq" => some .doq | "tcp+pipeline" => some .tcpPipeline | "tls+pipeline" => some .tlsPipeline
  | _ => none

def hostOf (kind : Option Str) (h : Option Str) : Option Host :=
  match kind, h with
  | some ['p'], some h => some (.plain h)
  | some ['6'], some x => some (.v6 x)
  | _, _ => none

/-- `dk` ∈ p | 6 | b (bracketed IPv6, no port) | unix | raw (absent: no dial_addr) with `dh`, optional `dp` -/
def dialOf (dk dh dp : Option Str) : Option Dial :=
  match dk with
  | none => some .none
  | some k =>
    if k = ['u', 'n', 'i', 'x'] then dh.map .unix
    else if k = ['r', 'a', 'w'] then dh.map .raw
    else if k = ['b'] then dh.map .bracketed
    else (hostOf (some k) dh).map (fun h => .host h dp)

def splitOnStr (sep : Char) (s : Str) : List Str := splitOnChar sep s

def nsOf (s : Option Str) : List (Str × Str) :=
  match s with
  | none => []
  | some s => (splitOnChar ',' s).filterMap (fun e =>
      if '>' ∈ e then some (e.takeWhile (· ≠ '>'), (e.dropWhile (· ≠ '>')).drop 1) else none)

def caseOfStr (case : String) : Option Case := do
  let m := kvs case
  let sch ← (kvLookup m "sch").bind (fun s => schemeOfStr (strOf s))
  let host ← hostOf (kvLookup m "hk") (kvLookup m "h")
  let dial ← dialOf (kvLookup m "dk") (kvLookup m "dh") (kvLookup m "dp")
  pure ⟨sch, host, kvLookup m "p", (kvLookup m "path").getD [], dial, nsOf (kvLookup m "ns")⟩

def optStr : Option Str → String
  | none => "-"
  | some s => "+" ++ strOf s

def optOfStr (s : Str) : Option (Option Str) :=
  match s with
  | ['-'] => some none
  | '+' :: t => some (some t)
  | _ => none

def strOfObs (o : Obs) : String :=
  s!"res={strOf o.res} ctl={strOf o.ctl} sname={optStr o.sname} sni={optStr o.sni} host={optStr o.host}"

def obsOfStr (s : String) : Option Obs := do
  let m := kvs s
  let res ← kvLookup m "res"
  let ctl ← kvLookup m "ctl"
  let sname ← (kvLookup m "sname").bind optOfStr
  let sni ← (kvLookup m "sni").bind optOfStr
  let host ← (kvLookup m "host").bind optOfStr
  pure ⟨res, ctl, sname, sni, host⟩

/-- component `dial`. A case starting with `raw ` carries literal `addr=`/`da=` strings:
    the model's prediction is compared, the property makes no claim. -/
def runDial (case impl : String) : String × String :=
  let m := kvs case
  match kvLookup m "addr" with
  | some addr =>
    let c : Case := ⟨.none, .plain [], none, [], .none, nsOf (kvLookup m "ns")⟩
    let o := observe c (newUpstream addr ((kvLookup m "da").getD []))
    (strOfObs { o with sni := none }, "ok")
  | none =>
    match caseOfStr case with
    | none => ("bad-case", "na")
    | some c =>
      let v := match obsOfStr impl with
        | some o => if specDial c o then "ok" else "viol"
        | none => if impl == "panic" then "viol" else "unparsed"
      (strOfObs (modelDial c), v)

def hexOpt (m : List (String × Str)) (k : String) : Option (Option Str) :=
  match kvLookup m k with
  | none => some none
  | some h => (strOfHex (strOf h)).map some

def formOfStr (m : List (String × Str)) : Option FormCase := do
  let hk := kvLookup m "hk"
  let h ← (kvLookup m "h").bind (fun x => strOfHex (strOf x))
  let host ← hostOf hk (some h)
  let p ← hexOpt m "p"
  let dh ← hexOpt m "dh"
  let dp ← hexOpt m "dp"
  let dial ← dialOf (kvLookup m "dk") dh dp
  let d ← (kvLookup m "def").bind (fun x => strOfHex (strOf x))
  pure ⟨host, p, dial, d⟩

def strOfSplitErr : SplitErr → String
  | .missingPort => "mp" | .tooManyColons => "tmc" | .missingBracket => "mb"
  | .unexpectedOpen => "uo" | .unexpectedClose => "uc"

def strOfFormOut (o : FormOut) : String :=
  match o.trim with
  | none => "panic"
  | some t => s!"trim={hexOfStr t} da={hexOfStr o.da} sn={hexOfStr o.sn} net={strOf o.net}"

def formOutOfStr (s : String) : Option FormOut :=
  if s == "panic" then some ⟨none, [], [], []⟩ else do
  let m := kvs s
  let t ← (kvLookup m "trim").bind (fun x => strOfHex (strOf x))
  let da ← (kvLookup m "da").bind (fun x => strOfHex (strOf x))
  let sn ← (kvLookup m "sn").bind (fun x => strOfHex (strOf x))
  let net ← kvLookup m "net"
  pure ⟨some t, da, sn, net⟩

/-- component `dialaddr`: `op=shp|jhp|trim|rmport|gda|net|form` with hex encoded byte strings -/
def runPure (case impl : String) : String × String :=
  let m := kvs case
  let hx (k : String) : Option Str := (kvLookup m k).bind (fun x => strOfHex (strOf x))
  match (kvLookup m "op").map strOf with
  | some "shp" =>
    match hx "s" with
    | some s =>
      (match splitHostPort s with
       | .ok (h, p) => s!"ok h={hexOfStr h} p={hexOfStr p}"
       | .error e => "err:" ++ strOfSplitErr e, "ok")
    | none => ("bad-case", "na")
  | some "jhp" =>
    match hx "h", hx "p" with
    | some h, some p => (hexOfStr (joinHostPort h p), "ok")
    | _, _ => ("bad-case", "na")
  | some "trim" =>
    match hx "s" with
    | some s =>
      let mo := match tryTrimIpv6Brackets? s with | some t => hexOfStr t | none => "panic"
      let io := if impl == "panic" then some none else (strOfHex impl).map some
      let v := match io with
        | some o => if specTrim s o then "ok" else "viol"
        | none => "unparsed"
      (mo, v)
    | none => ("bad-case", "na")
  | some "rmport" =>
    match hx "s" with
    | some s => (hexOfStr (tryRemovePort s), "ok")
    | none => ("bad-case", "na")
  | some "gda" =>
    match hx "u", hx "d", hx "def" with
    | some u, some d, some df => (hexOfStr (getDialAddr u d df), "ok")
    | _, _, _ => ("bad-case", "na")
  | some "net" =>
    match hx "s" with
    | some s => (strOf (dialNetworkTcpOrUnix s), if specNet s impl.toList then "ok" else "viol")
    | none => ("bad-case", "na")
  | some "form" =>
    match formOfStr m with
    | some c =>
      let v := match formOutOfStr impl with
        | some o => if specForm c o then "ok" else "viol"
        | none => "unparsed"
      (strOfFormOut (modelForm c), v)
    | none => ("bad-case", "na")
  | _ => ("bad-case", "na")

end MosVerif.Addr
