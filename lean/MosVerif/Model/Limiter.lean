/-
  C15 — model of the client rate limiter and of the admission points.

  Go sources mirrored here (as they are now, i.e. after the repairs D8/D9, 0275661, 8757f14,
  f8b61d0 — `AllowN` clamps the caller's time stamp to the entry's `lastSeen` — and 10570ce —
  the gnet and fasthttp listeners charge queries):

    internal/limiter/client_limiter.go   ClientLimiterOpts.setDefault, NewClientLimiter,
                                         ClientLimiter.AllowN, mask, gc (with the fullness
                                         requirement of repair 0275661; the old condition is
                                         kept as `gcWith false` for the witness theorem)
    golang.org/x/time@v0.5.0/rate        NewLimiter, AllowN = reserveN(t, n, 0).ok, advance,
                                         tokensFromDuration, durationFromTokens
    net/netip                            Unmap, PrefixFrom(ip, bits).Masked().Addr()
    app/router/limiter.go                cost constants, resourceLimiter.AllowN, initResourceLimiter,
                                         listener.Accept
    app/router/router.go                 limiterAllowN, the post-charges of handleReq
    app/router/server_*.go               admission points and what is done on refusal

  Time stamps are the caller's (`time.Now()` taken before the bucket's lock): they reach a
  bucket in any order; `ClientLimiter.clock` is the clamp, `allowNAt` the locked region after it.

  Units.  Time is a `Nat` number of nanoseconds after an arbitrary base instant that is
  later than the zero `time.Time` by more than 292 years (every real clock reading is).
  Tokens are counted in *nano-tokens* (`Int`): the dependency computes with `float64`
  tokens; with an integral limit (the router passes `float64(cfg.Client.Limit)`, an `int`)
  the refill `limit · Δns` is an exact number of nano-tokens.

  `rate.Limiter.reserveN(t, n, 0)` admits iff `n ≤ burst` and
  `time.Duration(1e9 · (deficit / limit)) ≤ 0`; the conversion truncates toward zero, so a
  deficit of strictly less than `limit` nano-tokens (= one nanosecond of refill) is still
  admitted and the token count then becomes negative by that much.  This is the
  *truncation slack* `limit − 1` nano-tokens (< 10⁻⁹·limit tokens) that appears in
  `bucket_bound`.  The float computation can differ from the exact one only by rounding
  (≪ 10⁻⁶ token for the generated sizes); decisions whose exact margin to the boundary is
  below `tol` = 1000 nano-tokens are therefore "don't care" for the correspondence (see
  `follow`) unless every time stamp of the case is a multiple of 2⁻⁹ s, where every float
  operation involved is exact.
-/
import MosVerif.Util
-- @component limiter MosVerif.Limiter.run
-- @component limiter_listener MosVerif.Limiter.runListener
-- @component limiter_gcrace MosVerif.Limiter.runGcRace
-- @component limiter_clock MosVerif.Limiter.runClock
-- @component limiter_cfg MosVerif.Limiter.runCfg
namespace MosVerif.Limiter

/-! ## constants -/

def nano : Nat := 1000000000
/-- `math.MaxInt64`: `Time.Sub` saturates here; the zero `time.Time` is that far away. -/
def maxDuration : Nat := 9223372036854775807
def defaultLimit : Nat := 20
def defaultV4Mask : Nat := 24
def defaultV6Mask : Nat := 48
/-- `entryTtl = time.Minute` -/
def entryTtl : Nat := 60 * nano

/-! ## options and their defaults (`ClientLimiterOpts.setDefault`) -/

structure Opts where
  limit : Int
  burst : Int
  v4Mask : Int
  v6Mask : Int
  deriving DecidableEq, Repr

/-- field by field, in the order of the Go source -/
def Opts.setDefault (o : Opts) : Opts :=
  let o := if o.limit ≤ 0 then { o with limit := defaultLimit } else o
  let o := if o.burst ≤ 0 then { o with burst := o.limit } else o      -- int(opts.Limit)
  let o := if o.v4Mask ≤ 0 ∨ o.v4Mask > 32 then { o with v4Mask := defaultV4Mask } else o
  let o := if o.v6Mask ≤ 0 ∨ o.v6Mask > 128 then { o with v6Mask := defaultV6Mask } else o
  o

/-! ## addresses (`netip.Addr`) and masking -/

inductive Addr where
  /-- `netip.Addr{}` -/
  | zero
  | v4 (a : Nat)
  | v6 (a : Nat) (zone : String)
  deriving DecidableEq, Repr

/-- `Unmap`: `Is4In6` is `Is6 ∧ hi = 0 ∧ lo>>32 = 0xffff`; the zone is dropped with `z = z4`. -/
def Addr.unmap : Addr → Addr
  | .v6 a z => if a / 2 ^ 32 = 0xffff then .v4 (a % 2 ^ 32) else .v6 a z
  | x => x

/-- keep the top `b` of `w` bits -/
def maskBits (w b a : Nat) : Nat := a / 2 ^ (w - b) * 2 ^ (w - b)

/-- `netip.PrefixFrom(ip, bits).Masked().Addr()`: an out-of-range length makes the prefix
    invalid (`Bits() = -1`), `Masked` of it is the zero prefix, whose `Addr` is the zero `Addr`;
    `PrefixFrom` strips the zone. -/
def prefixMaskedAddr (ip : Addr) (bits : Int) : Addr :=
  match ip with
  | .zero => .zero
  | .v4 a => if 0 ≤ bits ∧ bits ≤ 32 then .v4 (maskBits 32 bits.toNat a) else .zero
  | .v6 a _ => if 0 ≤ bits ∧ bits ≤ 128 then .v6 (maskBits 128 bits.toNat a) "" else .zero

/-- `ClientLimiter.mask` -/
def mask (o : Opts) (addr : Addr) : Addr :=
  match addr.unmap with
  | .v4 a => prefixMaskedAddr (.v4 a) o.v4Mask
  | .v6 a z => prefixMaskedAddr (.v6 a z) o.v6Mask
  | .zero => .zero

/-! ## `rate.Limiter` -/

/-- `tokens` in nano-tokens; `last = none` is the zero `time.Time` of `NewLimiter`. -/
structure Bucket where
  tokens : Int
  last : Option Nat
  deriving DecidableEq, Repr

/-- `rate.NewLimiter(r, b)`: zero tokens, zero `last` (the first `advance` sees a saturated
    elapsed time and fills the bucket). -/
def Bucket.fresh : Bucket := ⟨0, none⟩

/-- `advance`: `if t.Before(last) { last = t }; elapsed := t.Sub(last)` -/
def Bucket.elapsed (b : Bucket) (t : Nat) : Nat :=
  match b.last with
  | none => maxDuration
  | some l => if t < l then 0 else min (t - l) maxDuration

/-- `advance`: the token count at time `t` -/
def Bucket.avail (limit burst : Nat) (b : Bucket) (t : Nat) : Int :=
  min ((burst * nano : Nat) : Int) (b.tokens + ((limit * b.elapsed t : Nat) : Int))

/-- `AllowN(t, n)` for `0 < limit < Inf`; state changes only when admitted. -/
def Bucket.allowN (limit burst : Nat) (b : Bucket) (t n : Nat) : Bool × Bucket :=
  let tok := b.avail limit burst t - ((n * nano : Nat) : Int)
  if n ≤ burst ∧ -tok < (limit : Int) then (true, ⟨tok, some t⟩) else (false, b)

/-! ## `ClientLimiter` -/

structure Entry where
  b : Bucket
  lastSeen : Nat
  deriving DecidableEq, Repr

/-- `xsync.MapOf[netip.Addr, *e]`; `none` = no entry -/
abbrev Table := Addr → Option Entry

def Table.set (m : Table) (k : Addr) (v : Option Entry) : Table :=
  fun k' => if k' = k then v else m k'

structure ClientLimiter where
  /-- after `setDefault` -/
  opts : Opts
  m : Table

def ClientLimiter.new (o : Opts) : ClientLimiter := ⟨o.setDefault, fun _ => none⟩

def ClientLimiter.limit (cl : ClientLimiter) : Nat := cl.opts.limit.toNat
def ClientLimiter.burst (cl : ClientLimiter) : Nat := cl.opts.burst.toNat

/-- The locked region of `AllowN` once the time stamp is settled:
    `LoadOrCompute(mask(addr), NewLimiter(limit, burst))`; `lastSeen = now`; `l.AllowN(now, n)` -/
def ClientLimiter.allowNAt (cl : ClientLimiter) (addr : Addr) (now n : Nat) : Bool × ClientLimiter :=
  let k := mask cl.opts addr
  let b := match cl.m k with
    | some e => e.b
    | none => Bucket.fresh
  let r := b.allowN cl.limit cl.burst now n
  (r.1, { cl with m := cl.m.set k (some ⟨r.2, now⟩) })

/-- `if now.Before(e.lastSeen) { now = e.lastSeen }` (repair f8b61d0): a bucket's clock never
    goes backwards; a new entry has the zero `lastSeen`, which is before everything. -/
def ClientLimiter.clock (cl : ClientLimiter) (addr : Addr) (now : Nat) : Nat :=
  match cl.m (mask cl.opts addr) with
  | some e => max e.lastSeen now
  | none => now

/-- `ClientLimiter.AllowN(addr, now, n)` for an arbitrary caller-supplied time stamp -/
def ClientLimiter.allowN (cl : ClientLimiter) (addr : Addr) (now n : Nat) : Bool × ClientLimiter :=
  cl.allowNAt addr (cl.clock addr now) n

/-- Does `gc` require the bucket to have refilled before dropping it?  `true` is the code as
    it is now (`full := value.l.TokensAt(now) >= float64(value.l.Burst())`,
    `if lastSeen.Before(ddl) && full`); `false` is the condition before repair 0275661,
    kept as a parameter for the witness theorem `gc_old_breaks_bound`. -/
def gcRequiresFull : Bool := true

/-- `gc` at wall-clock `now`: an entry is deleted iff `lastSeen.Before(now - entryTtl)` and
    (when `requiresFull`) the bucket is full at `now`.  `only = some k` restricts the pass to the
    entry of key `k` (one iteration of gc's `Range` callback, which is one locked region);
    `only = none` is a whole pass. -/
def ClientLimiter.gcWith (requiresFull : Bool) (cl : ClientLimiter) (now : Nat) (only : Option Addr) : ClientLimiter :=
  { cl with m := fun k =>
      match cl.m k with
      | some e =>
        if (only = none ∨ only = some k) ∧ e.lastSeen + entryTtl < now ∧
            (requiresFull = false ∨ ((cl.burst * nano : Nat) : Int) ≤ e.b.avail cl.limit cl.burst now)
        then none else some e
      | none => none }

def ClientLimiter.gc (cl : ClientLimiter) (now : Nat) (only : Option Addr := none) : ClientLimiter :=
  cl.gcWith gcRequiresFull now only

/-- one arrival: address, time (ns), cost -/
structure Ev where
  addr : Addr
  t : Nat
  n : Nat
  deriving DecidableEq, Repr

/-- the decision vector of a history (time stamps in any order) -/
def ClientLimiter.run (cl : ClientLimiter) : List Ev → List Bool
  | [] => []
  | e :: es =>
    let r := cl.allowN e.addr e.t e.n
    r.1 :: ClientLimiter.run r.2 es

/-- the same with the time stamps taken as the buckets' clocks (no clamping): what the code
    did before repair f8b61d0, and what it does on histories whose time stamps never go back -/
def ClientLimiter.runAt (cl : ClientLimiter) : List Ev → List Bool
  | [] => []
  | e :: es =>
    let r := cl.allowNAt e.addr e.t e.n
    r.1 :: ClientLimiter.runAt r.2 es

/-- histories with garbage collections in between -/
inductive Op where
  | allow (e : Ev)
  | gc (now : Nat) (only : Option Addr := none)
  deriving DecidableEq, Repr

def Op.time : Op → Nat
  | .allow e => e.t
  | .gc now _ => now

def ClientLimiter.runOpsWith (requiresFull : Bool) (cl : ClientLimiter) : List Op → List Bool
  | [] => []
  | .allow e :: os =>
    let r := cl.allowN e.addr e.t e.n
    r.1 :: ClientLimiter.runOpsWith requiresFull r.2 os
  | .gc now only :: os => ClientLimiter.runOpsWith requiresFull (cl.gcWith requiresFull now only) os

def ClientLimiter.runOps (cl : ClientLimiter) (os : List Op) : List Bool := cl.runOpsWith gcRequiresFull os

/-- without clamping (see `runAt`) -/
def ClientLimiter.runOpsAtWith (requiresFull : Bool) (cl : ClientLimiter) : List Op → List Bool
  | [] => []
  | .allow e :: os =>
    let r := cl.allowNAt e.addr e.t e.n
    r.1 :: ClientLimiter.runOpsAtWith requiresFull r.2 os
  | .gc now only :: os => ClientLimiter.runOpsAtWith requiresFull (cl.gcWith requiresFull now only) os

def ClientLimiter.runOpsAt (cl : ClientLimiter) (os : List Op) : List Bool := cl.runOpsAtWith gcRequiresFull os

/-- the arrivals of an op sequence -/
def Op.evs : List Op → List Ev
  | [] => []
  | .allow e :: os => e :: Op.evs os
  | .gc _ _ :: os => Op.evs os

/-! ## `resourceLimiter` (app/router/limiter.go) -/

structure LimiterConfig where
  globalLimit : Int
  client : Opts

structure ResLimiter where
  /-- `rate.NewLimiter(GlobalLimit, GlobalLimit)`; `none` = nil -/
  global : Option (Nat × Bucket)
  cl : Option ClientLimiter

/-- `cfg.GlobalLimit > 0` / `cfg.Client.Limit > 0`: the limiter is configured (tied to the source by translation,
    `Lemmas/TranslatedC15.lean`) -/
@[simp] def limitSet (limit : Int) : Bool := decide (limit > 0)

/-- `initResourceLimiter` -/
def ResLimiter.init (cfg : LimiterConfig) : ResLimiter :=
  { global := if limitSet cfg.globalLimit then some (cfg.globalLimit.toNat, Bucket.fresh) else none
    cl := if limitSet cfg.client.limit then some (ClientLimiter.new cfg.client) else none }

inductive Res where
  | ok
  | errGlobal
  | errClient
  deriving DecidableEq, Repr

/-- `resourceLimiter.AllowN`: global first, then the client's bucket. -/
def ResLimiter.allowN (l : ResLimiter) (addr : Addr) (now n : Nat) : Res × ResLimiter :=
  match l.global with
  | some (g, gb) =>
    let r := gb.allowN g g now n
    if !r.1 then (.errGlobal, { l with global := some (g, r.2) })
    else
      match l.cl with
      | some cl =>
        let c := cl.allowN addr now n
        if !c.1 then (.errClient, { global := some (g, r.2), cl := some c.2 })
        else (.ok, { global := some (g, r.2), cl := some c.2 })
      | none => (.ok, { l with global := some (g, r.2) })
  | none =>
    match l.cl with
    | some cl =>
      let c := cl.allowN addr now n
      if !c.1 then (.errClient, { l with cl := some c.2 })
      else (.ok, { l with cl := some c.2 })
    | none => (.ok, l)

/-- `router.limiterAllowN`: an invalid address is admitted without being charged. -/
def limiterAllowN (l : ResLimiter) (addr : Addr) (now n : Nat) : Res × ResLimiter :=
  if addr = .zero then (.ok, l) else l.allowN addr now n

/-! ## cost table and admission points -/

def costUDPQuery : Nat := 1
def costTCPQuery : Nat := 2
def costHTTPQuery : Nat := 2
def costQUICQuery : Nat := 2
def costTCPConn : Nat := 3
def costTLSConn : Nat := 15
def costQuicConn : Nat := 15
def costFromCache : Nat := 1
def costFromUpstream : Nat := 3

/-- the places where a listener asks the limiter -/
inductive Point where
  | udpQuery        -- server_udp.go handleMsg
  | tcpConn         -- server_tcp.go run (plain)
  | tlsConn         -- server_tcp.go run (tls)
  | tcpQuery        -- server_tcp.go handleConn
  | httpConn        -- limiter.go listener.Accept (http)
  | httpsConn       -- limiter.go listener.Accept (https)
  | httpQuery       -- server_http_gohttp.go ServeHTTP
  | quicConn        -- server_quic.go run
  | quicQuery       -- server_quic.go handleConn
  | gnetConn        -- server_tcp_gnet_linux.go OnOpen
  | gnetQuery       -- server_tcp_gnet_linux.go OnTraffic (repair 10570ce)
  | fasthttpConn    -- limiter.go listener.Accept (fasthttp, repair 10570ce)
  | fasthttpQuery   -- server_http_fasthttp.go HandleFastHTTP (repair 10570ce)
  deriving DecidableEq, Repr

def Point.cost : Point → Nat
  | .udpQuery => costUDPQuery
  | .tcpConn => costTCPConn
  | .tlsConn => costTLSConn
  | .tcpQuery => costTCPQuery
  | .httpConn => costTCPConn
  | .httpsConn => costTLSConn
  | .httpQuery => costHTTPQuery
  | .quicConn => costQuicConn
  | .quicQuery => costQUICQuery
  | .gnetConn => costTCPConn
  | .gnetQuery => costTCPQuery
  | .fasthttpConn => costTCPConn
  | .fasthttpQuery => costHTTPQuery

/-- what the listener does next -/
inductive Action where
  /-- the query goes to `handleServerReq` (and may be forwarded upstream) -/
  | handle
  /-- the connection is served -/
  | serve
  /-- a DNS response with RCODE 5 is written, the query is dropped -/
  | respRefused
  /-- HTTP status 503, the body is not even read -/
  | http503
  /-- the connection is closed -/
  | closeConn
  /-- the stream is closed (DoQ) -/
  | closeStream
  deriving DecidableEq, Repr

def Action.forwards : Action → Bool
  | .handle => true
  | _ => false

def Point.onAllowed : Point → Action
  | .udpQuery | .tcpQuery | .httpQuery | .quicQuery | .gnetQuery | .fasthttpQuery => .handle
  | _ => .serve

def Point.onRefused : Point → Action
  | .udpQuery => .respRefused
  | .tcpQuery => .respRefused
  | .gnetQuery => .respRefused
  | .httpQuery => .http503
  | .fasthttpQuery => .http503
  | .quicQuery => .closeStream
  | .tcpConn | .tlsConn | .httpConn | .httpsConn | .quicConn | .gnetConn | .fasthttpConn => .closeConn

/-- One admission.  `overConcurrent` is `cc > s.maxConcurrent` of the TCP connection loop (tcp and gnet),
    tested before the limiter (`||` short-circuits); it is `false` everywhere else. -/
def admission (l : ResLimiter) (p : Point) (overConcurrent : Bool) (addr : Addr) (now : Nat) :
    Action × ResLimiter :=
  if (p = .tcpQuery ∨ p = .gnetQuery) ∧ overConcurrent then (p.onRefused, l)
  else
    let r := limiterAllowN l addr now p.cost
    if r.1 = .ok then (p.onAllowed, r.2) else (p.onRefused, r.2)

/-- `handleReq` after admission: a cache hit charges `costFromCache`, a forward
    `costFromUpstream`; the verdict is ignored (the query is served either way). -/
def postCharge (l : ResLimiter) (cached : Bool) (addr : Addr) (now : Nat) : ResLimiter :=
  (limiterAllowN l addr now (if cached then costFromCache else costFromUpstream)).2

/-! ## the property as an executable predicate on observed decisions

  Written from the property text, not from the code: a *subnet relation* on client
  addresses (/24 for IPv4 and IPv4-mapped, /48 for IPv6 unless a mask is configured; an
  omitted or impossible mask means the default), the configured rate and burst (defaults
  20 and = rate), and two clauses over a timed history with the observed verdicts:

  * `specBound`   — for every window that starts at an arrival of a subnet and ends at a later
                    arrival of the same subnet, the admitted cost of that subnet in the window is
                    at most `burst + rate·window` (+ the stated slack);
  * `specNoSpuriousRefusal` — an arrival is refused only if admitting it would have exceeded
                    `burst + rate·window` for some window of *its own subnet* ending at it
                    (so other subnets' traffic can never be the reason).
-/

/-- slack granted to the implementation's float arithmetic, nano-tokens -/
def tol : Nat := 1000

def specLimit (c : Opts) : Nat := if c.limit > 0 then c.limit.toNat else 20
def specBurst (c : Opts) : Nat := if c.burst > 0 then c.burst.toNat else specLimit c
def specBits4 (c : Opts) : Nat := if 1 ≤ c.v4Mask ∧ c.v4Mask ≤ 32 then c.v4Mask.toNat else 24
def specBits6 (c : Opts) : Nat := if 1 ≤ c.v6Mask ∧ c.v6Mask ≤ 128 then c.v6Mask.toNat else 48

/-- `(isIPv4, bits)` of a client address; IPv4-mapped IPv6 counts as IPv4. -/
def specClient : Addr → Option (Bool × Nat)
  | .zero => none
  | .v4 a => some (true, a)
  | .v6 a _ => if a / 2 ^ 32 = 0xffff then some (true, a % 2 ^ 32) else some (false, a)

/-- the client subnet of an address: family and leading bits -/
def subnetId (c : Opts) (x : Addr) : Option (Bool × Nat) :=
  match specClient x with
  | none => none
  | some (true, a) => some (true, a / 2 ^ (32 - specBits4 c))
  | some (false, a) => some (false, a / 2 ^ (128 - specBits6 c))

/-- same client subnet -/
def specSame (c : Opts) (x y : Addr) : Bool := subnetId c x == subnetId c y

/-- an arrival as the specification sees it: client subnet, time, cost -/
structure SEv where
  id : Option (Bool × Nat)
  t : Nat
  n : Nat
  deriving Repr

def Ev.toS (c : Opts) (e : Ev) : SEv := ⟨subnetId c e.addr, e.t, e.n⟩

/-- the budget of a window of length `d` ns, in nano-tokens -/
def specBudget (c : Opts) (d : Int) : Int :=
  ((specBurst c * nano : Nat) : Int) + (specLimit c : Int) * d

/-- walk forward from the window start `e0` -/
def specWalk (c : Opts) (slack : Int) (e0 : SEv) (acc : Nat) : List SEv → List Bool → Bool
  | e :: es, d :: ds =>
    if e0.id == e.id then
      let acc' := acc + (if d then e.n else 0)
      decide (((acc' * nano : Nat) : Int) ≤ specBudget c ((e.t : Int) - e0.t) + slack)
        && specWalk c slack e0 acc' es ds
    else specWalk c slack e0 acc es ds
  | _, _ => true

def specBoundS (c : Opts) (slack : Int) : List SEv → List Bool → Bool
  | e :: es, d :: ds => specWalk c slack e 0 (e :: es) (d :: ds) && specBoundS c slack es ds
  | _, _ => true

/-- clause 1 -/
def specBound (c : Opts) (slack : Int) (evs : List Ev) (ds : List Bool) : Bool :=
  specBoundS c slack (evs.map (Ev.toS c)) ds

/-- walk backward from a refused arrival at time `t` of subnet `id`; `x` = nano-cost that
    would have been admitted in the window if the arrival had been admitted. -/
def specScan (c : Opts) (slack : Int) (id : Option (Bool × Nat)) (t : Nat) (x : Int) : List (SEv × Bool) → Bool
  | [] => false
  | (p, d) :: ps =>
    if id == p.id then
      let x' := x + (if d then ((p.n * nano : Nat) : Int) else 0)
      decide (x' + slack > specBudget c ((t : Int) - p.t)) || specScan c slack id t x' ps
    else specScan c slack id t x ps

def specExhausted (c : Opts) (slack : Int) (e : SEv) (past : List (SEv × Bool)) : Bool :=
  decide (((e.n * nano : Nat) : Int) + slack > specBudget c 0)
    || specScan c slack e.id e.t ((e.n * nano : Nat) : Int) past

/-- `past` = earlier arrivals with their verdicts, most recent first -/
def specNoSpuriousRefusalS (c : Opts) (slack : Int) (past : List (SEv × Bool)) :
    List SEv → List Bool → Bool
  | e :: es, d :: ds =>
    (d || specExhausted c slack e past) && specNoSpuriousRefusalS c slack ((e, d) :: past) es ds
  | _, _ => true

/-- clause 2 -/
def specNoSpuriousRefusal (c : Opts) (slack : Int) (evs : List Ev) (ds : List Bool) : Bool :=
  specNoSpuriousRefusalS c slack [] (evs.map (Ev.toS c)) ds

/-- clause 1 for time stamps in any order: walk forward from a window start; `lo` / `hi` are the
    oldest / newest time stamp of the subnet seen in the window so far, the budget of the window
    is `burst + rate·(hi − lo)`. -/
def segWalk (c : Opts) (slack : Int) (id : Option (Bool × Nat)) (lo hi acc : Nat) : List SEv → List Bool → Bool
  | e :: es, d :: ds =>
    if id == e.id then
      let lo' := min lo e.t
      let hi' := max hi e.t
      let acc' := acc + (if d then e.n else 0)
      decide (((acc' * nano : Nat) : Int) ≤ specBudget c ((hi' - lo' : Nat) : Int) + slack)
        && segWalk c slack id lo' hi' acc' es ds
    else segWalk c slack id lo hi acc es ds
  | _, _ => true

def segBoundS (c : Opts) (slack : Int) : List SEv → List Bool → Bool
  | e :: es, d :: ds => segWalk c slack e.id e.t e.t 0 (e :: es) (d :: ds) && segBoundS c slack es ds
  | _, _ => true

/-- every run of consecutive arrivals: the cost admitted for one subnet in it is at most
    `burst + rate × (newest − oldest time stamp of that subnet in it)` -/
def segBound (c : Opts) (slack : Int) (evs : List Ev) (ds : List Bool) : Bool :=
  segBoundS c slack (evs.map (Ev.toS c)) ds

def sortedTimes : List Ev → Bool
  | e :: e' :: es => decide (e.t ≤ e'.t) && sortedTimes (e' :: es)
  | _ => true

/-- configurations outside of which the dependency itself misbehaves (a brand-new bucket
    is not full): `burst > limit · 9.2·10⁹`.  -/
def saneBurst (c : Opts) : Bool := decide (specBurst c * nano ≤ specLimit c * maxDuration)

/-- The executable specification on arrivals.  `extra` is the extra slack granted on top of
    the dependency's truncation slack `limit − 1` (0 for the model, `tol` for the float
    implementation). -/
def specEvs (c : Opts) (extra : Nat) (evs : List Ev) (ds : List Bool) : Bool :=
  ds.length == evs.length
    && specBound c ((specLimit c : Int) - 1 + extra) evs ds
    && specNoSpuriousRefusal c (extra : Int) evs ds

def sortedOps : List Op → Bool
  | o :: o' :: os => decide (o.time ≤ o'.time) && sortedOps (o' :: os)
  | _ => true

def noGc (os : List Op) : Bool := os.all fun o =>
  match o with
  | .allow _ => true
  | .gc _ _ => false

/-- time stamps are `int64` nanoseconds -/
def timesInRange (os : List Op) : Bool := os.all fun o => decide (o.time ≤ maxDuration)

/-- The executable specification of a history with gc passes in between: the property speaks
    about the arrivals only (gc is internal), for time-ordered histories and configurations
    within the dependency's range. -/
def spec (c : Opts) (extra : Nat) (os : List Op) (ds : List Bool) : Bool :=
  if sortedOps os && timesInRange os && saneBurst c then specEvs c extra (Op.evs os) ds
  else if noGc os then
    -- time stamps in any order (a caller that was delayed between `time.Now()` and the bucket
    -- lock): every run of consecutive arrivals is within `burst + rate × (newest − oldest)`
    ds.length == (Op.evs os).length && segBound c ((specLimit c : Int) - 1 + extra) (Op.evs os) ds
  else true

/-! ## line protocol: component `limiter`

  case : `lim=<int> burst=<int> v4=<int> v6=<int> ev=<step>,…`
         `<step>` = `<addr>/<t_ns>/<n>` (an arrival) | `gc/<t_ns>` (one gc pass at that time)
         `<addr>` = `4<8 hex>` | `6<32 hex>[%zone]`
  out  : `d=<0|1>* len=<buckets after each gc, '.'-separated, or ->`
-/

def natOfHex (s : String) : Option Nat :=
  if s.isEmpty then none else
  s.toList.foldl (fun acc ch => match acc, hexVal ch with
    | some v, some d => some (v * 16 + d)
    | _, _ => none) (some 0)

def addrOfStr (s : String) : Option Addr :=
  match s.toList with
  | '4' :: rest => if rest.length == 8 then (natOfHex (String.ofList rest)).map .v4 else none
  | '6' :: rest =>
    let body := String.ofList rest
    match body.splitOn "%" with
    | [h] => if h.length == 32 then (natOfHex h).map (.v6 · "") else none
    | [h, z] => if h.length == 32 then (natOfHex h).map (.v6 · z) else none
    | _ => none
  | _ => none

def opOfStr (s : String) : Option Op :=
  match s.splitOn "/" with
  | ["gc", t] => (natOfStr t).map (.gc · none)
  | [a, t, n] => do
    let a ← addrOfStr a
    let t ← natOfStr t
    let n ← natOfStr n
    pure (.allow ⟨a, t, n⟩)
  | _ => none

def opsOfStr (s : String) : Option (List Op) :=
  if s == "-" then some [] else (s.splitOn ",").mapM opOfStr

def optsOfToks (toks : List String) : Option Opts := do
  let l ← (kvGet toks "lim").bind String.toInt?
  let b ← (kvGet toks "burst").bind String.toInt?
  let m4 ← (kvGet toks "v4").bind String.toInt?
  let m6 ← (kvGet toks "v6").bind String.toInt?
  pure ⟨l, b, m4, m6⟩

def strOfBools (ds : List Bool) : String :=
  String.ofList (ds.map fun d => if d then '1' else '0')

def strOfOut (ds : List Bool) (lens : List Nat) : String :=
  let l := if lens.isEmpty then "-" else ".".intercalate (lens.map toString)
  s!"d={strOfBools ds} len={l}"

def boolsOfStr (v : String) : Option (List Bool) :=
  v.toList.mapM fun ch => if ch == '1' then some true else if ch == '0' then some false else none

/-- every float operation of the dependency is exact on such a history -/
def exactTimes (os : List Op) : Bool := os.all fun o => o.time % 1953125 == 0

/-- number of keys among `ks` that have an entry (`xsync.MapOf.Size`) -/
def ClientLimiter.len (cl : ClientLimiter) (ks : List Addr) : Nat :=
  (ks.eraseDups.filter fun k => (cl.m k).isSome).length

/-- The model's decisions, except that at a step whose exact margin to the admission
    boundary is below `tol` (and the history is not float-exact) the observed decision is
    taken over: never compare floats.  Also yields the bucket count after every gc.
    `ks` = the keys that were ever used. -/
def follow (exact : Bool) (cl : ClientLimiter) (ks : List Addr) : List Op → List Bool → List Bool × List Nat
  | [], _ => ([], [])
  | .gc now only :: os, obs =>
    let cl' := cl.gc now only
    let r := follow exact cl' ks os obs
    (r.1, cl'.len ks :: r.2)
  | .allow e :: os, obs =>
    let k := mask cl.opts e.addr
    let b := match cl.m k with
      | some en => en.b
      | none => Bucket.fresh
    let t := cl.clock e.addr e.t
    let tok := b.avail cl.limit cl.burst t - ((e.n * nano : Nat) : Int)
    let margin := (tok + (cl.limit : Int)).natAbs
    let m := cl.allowN e.addr e.t e.n
    let (o, rest) := match obs with
      | o :: rest => (some o, rest)
      | [] => (none, [])
    let adopt := match o with
      | some o => !exact && decide (e.n ≤ cl.burst) && decide (margin < tol) && o != m.1
      | none => false
    if adopt then
      -- adopt the observed decision
      let d := !m.1
      let b' : Bucket := if d then ⟨tok, some t⟩ else b
      let r := follow exact { cl with m := cl.m.set k (some ⟨b', t⟩) } (k :: ks) os rest
      (d :: r.1, r.2)
    else
      let r := follow exact m.2 (k :: ks) os rest
      (m.1 :: r.1, r.2)

def run (case impl : String) : String × String :=
  let toks := words case
  match optsOfToks toks, (kvGet toks "ev").bind opsOfStr with
  | some o, some ops =>
    let cl := ClientLimiter.new o
    let evs := Op.evs ops
    let itoks := words impl
    match (kvGet itoks "d").bind boolsOfStr with
    | some ds =>
      let m := follow (exactTimes ops) cl [] ops ds
      let v :=
        if ds.length != evs.length then "viol:length"
        else if !(sortedOps ops && timesInRange ops && saneBurst o) then
          if !noGc ops then "na"
          else if !segBound o ((specLimit o : Int) - 1 + tol) evs ds then "viol:bound-any-order"
          else "ok"
        else if !specBound o ((specLimit o : Int) - 1 + tol) evs ds then "viol:bound"
        else if !specNoSpuriousRefusal o (tol : Int) evs ds then "viol:refused-within-budget"
        else "ok"
      (strOfOut m.1 m.2, v)
    | none =>
      let m := follow true cl [] ops []
      (strOfOut m.1 m.2, "unparsed")
  | _, _ => ("bad-case", "na")

/-! ## line protocol: component `limiter_listener`

  The real router with a UDP, a TCP and an HTTP listener, a client limit of 1 token/s
  (so that nothing refills during a case, which the harness enforces by timing) and
  sequential clients on loopback source addresses.

  case : `glob=<int> burst=<int> v4=<int> ops=<op>,…`
         op = `u:<addr>` one UDP query | `t:<addr>:<k>` one TCP connection with k queries |
              `h:<addr>:<k>` one HTTP/1.1 connection with k POSTs |
              `q:<addr>:<k>` one DoQ connection with k queries (one stream each) |
              `g:<addr>:<k>` like `t` on the gnet listener | `f:<addr>:<k>` like `h` on the fasthttp listener |
              `x:<addr>:<n>` `router.limiterAllowN(addr, n)` called directly
  out  : `r=<per-op outcome>,… fwd=<queries seen by the upstream>`
         outcome: per query `o` answered NOERROR | `r` REFUSED | `5` 503 | `x` DoQ stream closed
         without an answer ; `c` connection closed;
         x ops: `o` nil | `g` errGlobalResLimit | `k` errClientResLimit
-/

inductive LOp where
  | udp (a : Addr)
  | tcp (a : Addr) (k : Nat)
  | http (a : Addr) (k : Nat)
  | quic (a : Addr) (k : Nat)
  | gnet (a : Addr) (k : Nat)
  | fasthttp (a : Addr) (k : Nat)
  | direct (a : Addr) (n : Nat)

def lopOfStr (s : String) : Option LOp :=
  match s.splitOn ":" with
  | ["u", a] => (addrOfStr a).map .udp
  | ["t", a, k] => do pure (.tcp (← addrOfStr a) (← natOfStr k))
  | ["h", a, k] => do pure (.http (← addrOfStr a) (← natOfStr k))
  | ["q", a, k] => do pure (.quic (← addrOfStr a) (← natOfStr k))
  | ["g", a, k] => do pure (.gnet (← addrOfStr a) (← natOfStr k))
  | ["f", a, k] => do pure (.fasthttp (← addrOfStr a) (← natOfStr k))
  | ["x", a, n] => do pure (.direct (← addrOfStr a) (← natOfStr n))
  | _ => none

/-- k sequential queries at admission point `p`; returns outcomes, forwards, limiter -/
def queries (p : Point) (a : Addr) : Nat → ResLimiter → String → Nat → String × Nat × ResLimiter
  | 0, l, acc, fwd => (acc, fwd, l)
  | k + 1, l, acc, fwd =>
    let r := admission l p false a 0
    match r.1 with
    | .handle => queries p a k (postCharge r.2 false a 0) (acc ++ "o") (fwd + 1)
    | .respRefused => queries p a k r.2 (acc ++ "r") fwd
    | .http503 => queries p a k r.2 (acc ++ "5") fwd
    | .closeStream => queries p a k r.2 (acc ++ "x") fwd
    | _ => queries p a k r.2 (acc ++ "?") fwd

def listenerRun : List LOp → ResLimiter → List String → Nat → List String × Nat
  | [], _, acc, fwd => (acc.reverse, fwd)
  | .udp a :: os, l, acc, fwd =>
    let (s, fwd, l) := queries .udpQuery a 1 l "" fwd
    listenerRun os l (s :: acc) fwd
  | .tcp a k :: os, l, acc, fwd =>
    let r := admission l .tcpConn false a 0
    if r.1 = .serve then
      let (s, fwd, l) := queries .tcpQuery a k r.2 "" fwd
      listenerRun os l (s :: acc) fwd
    else listenerRun os r.2 ("c" :: acc) fwd
  | .http a k :: os, l, acc, fwd =>
    let r := admission l .httpConn false a 0
    if r.1 = .serve then
      let (s, fwd, l) := queries .httpQuery a k r.2 "" fwd
      listenerRun os l (s :: acc) fwd
    else listenerRun os r.2 ("c" :: acc) fwd
  | .quic a k :: os, l, acc, fwd =>
    let r := admission l .quicConn false a 0
    if r.1 = .serve then
      let (s, fwd, l) := queries .quicQuery a k r.2 "" fwd
      listenerRun os l (s :: acc) fwd
    else listenerRun os r.2 ("c" :: acc) fwd
  | .gnet a k :: os, l, acc, fwd =>
    let r := admission l .gnetConn false a 0
    if r.1 = .serve then
      let (s, fwd, l) := queries .gnetQuery a k r.2 "" fwd
      listenerRun os l (s :: acc) fwd
    else listenerRun os r.2 ("c" :: acc) fwd
  | .fasthttp a k :: os, l, acc, fwd =>
    let r := admission l .fasthttpConn false a 0
    if r.1 = .serve then
      let (s, fwd, l) := queries .fasthttpQuery a k r.2 "" fwd
      listenerRun os l (s :: acc) fwd
    else listenerRun os r.2 ("c" :: acc) fwd
  | .direct a n :: os, l, acc, fwd =>
    let r := limiterAllowN l a 0 n
    let s := match r.1 with
      | .ok => "o"
      | .errGlobal => "g"
      | .errClient => "k"
    listenerRun os r.2 (s :: acc) fwd

/-! ### the listener run as a sequence of admission attempts -/

/-- one admission attempt as seen at a listener -/
structure Atom where
  a : Addr
  cost : Nat
  /-- what may have been charged in addition if it was admitted (the post-charge of a handled
      query, whose verdict is ignored and therefore not observable) -/
  post : Nat
  admitted : Bool
  deriving DecidableEq, Repr

def Point.post (p : Point) : Nat := if p.onAllowed = .handle then costFromUpstream else 0

/-- one attempt at admission point `p` on the model (no concurrency cap involved) -/
def attempt (l : ResLimiter) (p : Point) (a : Addr) : Atom × ResLimiter :=
  let r := admission l p false a 0
  if r.1 = .handle then (⟨a, p.cost, p.post, true⟩, postCharge r.2 false a 0)
  else if r.1 = .serve then (⟨a, p.cost, p.post, true⟩, r.2)
  else (⟨a, p.cost, p.post, false⟩, r.2)

def queryAtoms (p : Point) (a : Addr) : Nat → ResLimiter → List Atom × ResLimiter
  | 0, l => ([], l)
  | k + 1, l =>
    let x := attempt l p a
    let xs := queryAtoms p a k x.2
    (x.1 :: xs.1, xs.2)

/-- connection-level admission point (if any), query-level point, number of queries -/
def LOp.points : LOp → Option (Addr × Option Point × Point × Nat)
  | .udp a => some (a, none, .udpQuery, 1)
  | .tcp a k => some (a, some .tcpConn, .tcpQuery, k)
  | .http a k => some (a, some .httpConn, .httpQuery, k)
  | .quic a k => some (a, some .quicConn, .quicQuery, k)
  | .gnet a k => some (a, some .gnetConn, .gnetQuery, k)
  | .fasthttp a k => some (a, some .fasthttpConn, .fasthttpQuery, k)
  | .direct _ _ => none

/-- the attempts of one op -/
def opAtoms (l : ResLimiter) (op : LOp) : List Atom × ResLimiter :=
  match op with
  | .direct a n =>
    let r := limiterAllowN l a 0 n
    ([⟨a, n, 0, decide (r.1 = .ok)⟩], r.2)
  | .udp a => queryAtoms .udpQuery a 1 l
  | .tcp a k =>
    let x := attempt l .tcpConn a
    if x.1.admitted then let xs := queryAtoms .tcpQuery a k x.2; (x.1 :: xs.1, xs.2) else ([x.1], x.2)
  | .http a k =>
    let x := attempt l .httpConn a
    if x.1.admitted then let xs := queryAtoms .httpQuery a k x.2; (x.1 :: xs.1, xs.2) else ([x.1], x.2)
  | .quic a k =>
    let x := attempt l .quicConn a
    if x.1.admitted then let xs := queryAtoms .quicQuery a k x.2; (x.1 :: xs.1, xs.2) else ([x.1], x.2)
  | .gnet a k =>
    let x := attempt l .gnetConn a
    if x.1.admitted then let xs := queryAtoms .gnetQuery a k x.2; (x.1 :: xs.1, xs.2) else ([x.1], x.2)
  | .fasthttp a k =>
    let x := attempt l .fasthttpConn a
    if x.1.admitted then let xs := queryAtoms .fasthttpQuery a k x.2; (x.1 :: xs.1, xs.2) else ([x.1], x.2)

/-- all attempts of a run, in order -/
def listenerAtoms : List LOp → ResLimiter → List Atom
  | [], _ => []
  | op :: ops, l =>
    let r := opAtoms l op
    r.1 ++ listenerAtoms ops r.2

/-- the attempts an observed outcome string stands for (`none`: not an outcome of this op) -/
def obsAtoms (op : LOp) (out : String) : Option (List Atom) :=
  match op with
  | .direct a n =>
    if out == "o" then some [⟨a, n, 0, true⟩] else if out == "k" then some [⟨a, n, 0, false⟩] else none
  | _ =>
    match op.points with
    | none => none
    | some (a, conn, q, k) =>
      let refusedCh := match q with
        | .httpQuery => '5'
        | .fasthttpQuery => '5'
        | .quicQuery => 'x'
        | _ => 'r'
      let qs := out.toList.mapM fun ch =>
        if ch == 'o' then some (⟨a, q.cost, q.post, true⟩ : Atom)
        else if ch == refusedCh then some ⟨a, q.cost, q.post, false⟩ else none
      match conn with
      | none => if out.length ≤ k then qs else none
      | some pc =>
        if out == "c" then some [⟨a, pc.cost, pc.post, false⟩]
        else if out.length ≤ k then qs.map fun xs => ⟨a, pc.cost, pc.post, true⟩ :: xs else none

/-- per subnet: the cost that was certainly admitted (`lo`) and the cost that may have been
    charged at most (`hi`: every answered query may have been charged `costFromUpstream` more) -/
abbrev Usage := List (Addr × Nat × Nat)

def Usage.get (c : Opts) (u : Usage) (a : Addr) : Nat × Nat :=
  match u with
  | [] => (0, 0)
  | (b, lo, hi) :: rest => if specSame c a b then (lo, hi) else Usage.get c rest a

def Usage.add (c : Opts) (u : Usage) (a : Addr) (dlo dhi : Nat) : Usage :=
  match u with
  | [] => [(a, dlo, dhi)]
  | (b, lo, hi) :: rest => if specSame c a b then (b, lo + dlo, hi + dhi) :: rest else (b, lo, hi) :: Usage.add c rest a dlo dhi

/-- The property on the attempts of a listener run without a global limit, for a run shorter
    than one second at 1 token/s (nothing refills):
    * the cost certainly admitted for one subnet never exceeds the burst;
    * nobody is refused while the most that can have been charged to his own subnet, plus
      the cost of this attempt, is within the burst;
    * a peer without an address (unix socket) is not limited. -/
def atomsSpec (c : Opts) (burst : Nat) : List Atom → Usage → Bool
  | [], _ => true
  | x :: xs, u =>
    if x.a = .zero then x.admitted && atomsSpec c burst xs u
    else
      let r := Usage.get c u x.a
      if x.admitted then
        decide (r.1 + x.cost ≤ burst) && atomsSpec c burst xs (Usage.add c u x.a x.cost (x.cost + x.post))
      else decide (r.2 + x.cost > burst) && atomsSpec c burst xs u

/-- the queries that were handed to `handleServerReq` -/
def handledCount (xs : List Atom) : Nat := (xs.filter fun x => x.admitted && decide (x.post > 0)).length

/-- The property on an observed listener run: the attempts satisfy `atomsSpec`, and a query
    that was refused (REFUSED / 503 / stream closed) was not forwarded — the upstream saw
    exactly the answered queries. -/
def listenerSpec (c : Opts) (burst : Nat) (ops : List LOp) (outs : List String) (fwd : Nat) : Bool :=
  if ops.length != outs.length then false else
  match (ops.zip outs).mapM fun (op, out) => obsAtoms op out with
  | none => false
  | some xss =>
    let xs := xss.flatten
    fwd == handledCount xs && atomsSpec c burst xs []

/-- how an op's attempts show at the client -/
def renderOp (op : LOp) (xs : List Atom) : String :=
  let ch (refused : Char) (x : Atom) : Char := if x.admitted then 'o' else refused
  match op, xs with
  | .direct _ _, [x] => if x.admitted then "o" else "k"
  | .udp _, xs => String.ofList (xs.map (ch 'r'))
  | .tcp _ _, x :: xs => if x.admitted then String.ofList (xs.map (ch 'r')) else "c"
  | .http _ _, x :: xs => if x.admitted then String.ofList (xs.map (ch '5')) else "c"
  | .quic _ _, x :: xs => if x.admitted then String.ofList (xs.map (ch 'x')) else "c"
  | .gnet _ _, x :: xs => if x.admitted then String.ofList (xs.map (ch 'r')) else "c"
  | .fasthttp _ _, x :: xs => if x.admitted then String.ofList (xs.map (ch '5')) else "c"
  | _, _ => "?"

/-- the model's run without a global limit: outcomes per op and the number of forwards -/
def listenerRunAtoms : List LOp → ResLimiter → List String × Nat
  | [], _ => ([], 0)
  | op :: ops, l =>
    let r := opAtoms l op
    let rest := listenerRunAtoms ops r.2
    (renderOp op r.1 :: rest.1, handledCount r.1 + rest.2)

/-- Direct calls of `limiterAllowN` with a global limit of `g` tokens (rate = burst = g, no
    refill during the case): "only the global limit is shared" —
    * `o`: within the global budget and within the own subnet's budget;
    * `g`: only if the global budget would be exceeded (everything admitted so far by the
      global limiter — including calls the client limiter then refused — plus this cost);
    * `k`: only if the own subnet's budget would be exceeded, where a subnet is charged only by
      calls that passed the global limiter. -/
def directSpec (c : Opts) (burst g : Nat) : List LOp → List String → (Nat × Nat) → Usage → Bool
  | [], [], _, _ => true
  | .direct a n :: ops, out :: outs, (glo, ghi), u =>
    let (lo, hi) := Usage.get c u a
    if out == "o" then
      decide (glo + n ≤ g) && decide (lo + n ≤ burst) && directSpec c burst g ops outs (glo + n, ghi + n) (Usage.add c u a n n)
    else if out == "g" then
      decide (ghi + n > g) && directSpec c burst g ops outs (glo, ghi) u
    else if out == "k" then
      -- the global limiter admitted it (and was charged), the client limiter may or may not have been asked
      decide (hi + n > burst) && directSpec c burst g ops outs (glo, ghi + n) u
    else false
  | _, _, _, _ => false

def runListener (case impl : String) : String × String :=
  let toks := words case
  match (kvGet toks "glob").bind String.toInt?, (kvGet toks "burst").bind String.toInt?,
        (kvGet toks "v4").bind String.toInt?, (kvGet toks "ops").bind fun s => (s.splitOn ",").mapM lopOfStr with
  | some g, some b, some m4, some ops =>
    -- `v6=<mask>` (default: not configured)
    let m6 := ((kvGet toks "v6").bind String.toInt?).getD 0
    let c : Opts := ⟨1, b, m4, m6⟩
    let l := ResLimiter.init ⟨g, c⟩
    -- with a global limit (direct calls only in the generated cases) the verdict kinds matter: `listenerRun`
    let (outs, fwd) := if g > 0 then listenerRun ops l [] 0 else listenerRunAtoms ops l
    -- `fail=1`: the upstream is unreachable, so a query that is handled is answered SERVFAIL (`s`) instead of
    -- NOERROR (`o`) and the upstream sees nothing; what is charged is the same (`handleReq` charges
    -- `costFromUpstream` before it forwards), so the prediction and the specification are those of the healthy
    -- run with `s` read as `o` (network ops only)
    let fail := kvGet toks "fail" == some "1"
    let sw (a b : Char) (xs : List String) : List String :=
      (ops.zip xs).map fun (op, x) => match op with
        | .direct _ _ => x
        | _ => if fail then String.ofList (x.toList.map fun ch => if ch == a then b else ch) else x
    let m := s!"r={",".intercalate (sw 'o' 's' outs)} fwd={if fail then 0 else fwd}"
    let itoks := words impl
    let v := match kvGet itoks "r", kvNat itoks "fwd" with
      | some r, some f =>
        let rs := r.splitOn ","
        if g > 0 then
          if directSpec c (specBurst c) g.toNat ops rs (0, 0) [] && f == 0 then "ok" else "viol:global-shared-only"
        else if fail then
          -- an `o` cannot happen (nothing answers), and `handledCount` is what the upstream would have seen
          if rs.any (fun x => x.toList.contains 'o') && ops.all (fun op => match op with | .direct _ _ => false | _ => true) then "viol:answered-without-upstream"
          else if rs.length != ops.length then "viol:listener"
          else match (ops.zip (sw 's' 'o' rs)).mapM fun (op, out) => obsAtoms op out with
            | none => "viol:listener"
            | some xss => if f == 0 && atomsSpec c (specBurst c) xss.flatten [] then "ok" else "viol:listener-failing-upstream"
        else if listenerSpec c (specBurst c) ops rs f then "ok" else "viol:listener"
      | _, _ => "unparsed"
    (m, v)
  | _, _, _, _ => ("bad-case", "na")

/-! ## line protocol: component `limiter_gcrace`

  Concurrent trials on the real limiter: one gc pass racing with an arrival that takes the
  whole burst from a full idle bucket, then a second such arrival at the same instant.
  `bucket_bound` for the window `[now, now]` says that in every sequential order at most one
  of them is admitted.

  case : `trials=<n> lim=<int> burst=<int>`      out : `hits=<trials with both admitted>`
-/

def runGcRace (case impl : String) : String × String :=
  let toks := words case
  match kvNat toks "trials", kvNat (words impl) "hits" with
  | some _, some h => ("hits=0", if h == 0 then "ok" else "viol:gc-forgot-an-arrival")
  | some _, none => ("hits=0", "unparsed")
  | _, _ => ("bad-case", "na")

/-! ## line protocol: component `limiter_clock`

  Many goroutines doing `now := time.Now(); AllowN(addr, now, 1)` on the real limiter with the
  real clock; time stamps reach the bucket out of order.  `bucket_bound_any_order` says that the
  admitted total is at most `burst + rate × (newest − oldest time stamp)`; the harness compares
  with `burst + rate × (end − start)` (+ 0.5 % + 2 tokens).

  case : `goroutines=<g> ms=<duration> lim=<int> burst=<int>`      out : `within=<0|1>`
-/

/-! ## line protocol: component `limiter_cfg`

  A real router with the configured `limit` and `burst` (also a burst below the rate, or omitted) and one client
  that sends n queries back to back; the harness compares the number admitted with `burst + rate × elapsed`
  (`bucket_bound`: every admitted query costs at least one token) and reports `within`, and that the first query
  of a fresh bucket is admitted (`atleast`).

  case : `lim=<int> burst=<int> n=<queries>`      out : `within=<0|1> atleast=<0|1>`
-/
def runCfg (_case impl : String) : String × String :=
  let it := words ((impl.splitOn " ## ").headD "")
  ("within=1 atleast=1",
    if impl == "panic" then "viol:panic"
    else match kvNat it "within", kvNat it "atleast" with
      | some w, some a =>
        if w ≠ 1 then "viol:C15:more-than-configured-burst-plus-rate-times-window"
        else if a ≠ 1 then "viol:C15:within-budget-client-refused"
        else "ok"
      | _, _ => "unparsed")

def runClock (case impl : String) : String × String :=
  let toks := words case
  match kvNat toks "goroutines", kvNat (words impl) "within" with
  | some _, some w => ("within=1", if w == 1 then "ok" else "viol:over-the-bound-with-real-clock")
  | some _, none => ("within=1", "unparsed")
  | _, _ => ("bad-case", "na")

end MosVerif.Limiter
