/-
  Line protocol of the `handle` component (C03, C10, C12) and the executable specifications
  of those properties as predicates on what the implementation answered.

  case : ecs=<0|1> addr=<none|4:hex8|6:hex32> rules=<rule>;<rule>… nups=<n> u<k>=<fail|reply> r<k>.<msg token>… <query msg tokens>
         rule := <*|s<set index>|name,name,…>/<reverse 0|1>/<reject rcode>/<upstream index|->   sets=<name,…;name,…> (shared domain sets)
  out  : <response msg tokens> rule=<idx> fw=<k>:<hex of the query sent to upstream k> …
-/
import MosVerif.Model.Router
import MosVerif.Model.WireIO
-- @component handle MosVerif.RouterIO.run
-- @component prefetchfw MosVerif.RouterIO.runPrefetchFw
namespace MosVerif.RouterIO
open MosVerif MosVerif.Wire MosVerif.Router MosVerif.WireIO

def addrOfStr (s : String) : Option Addr :=
  if s == "none" then some .none
  else match s.splitOn ":" with
    | ["4", h] => (bytesOfHex h).map .v4
    | ["6", h] => (bytesOfHex h).map .v6
    | _ => none

/-- `sets=<name,name;name,…>`: the shared domain sets a rule may refer to as `s<idx>` -/
def setsOfStr (s : String) : Option (List (List Name)) :=
  if s == "-" then some [] else (s.splitOn ";").mapM (fun t => (t.splitOn ",").mapM bytesOfHex)

def ruleOfStr (sets : List (List Name)) (s : String) : Option Rule :=
  match s.splitOn "/" with
  | [d, rev, rej, fw] => do
    let doms ← if d == "*" then some none
      else if d.startsWith "s" then (natOfStr (d.drop 1).toString).bind (fun i => sets[i]?) |>.map some
      else ((d.splitOn ",").mapM bytesOfHex).map some
    let rev ← boolOfStr rev
    let rej ← natOfStr rej
    let fw ← if fw == "-" then some none else (natOfStr fw).map some
    pure ⟨doms, rev, rej, fw⟩
  | _ => none

/-- tokens `r<k>.<tok>` → `<tok>` -/
def replyToks (toks : List String) (k : Nat) : List String :=
  let pre := s!"r{k}."
  toks.filterMap fun t => if t.startsWith pre then some (t.drop pre.length).toString else none

def envOfToks (toks : List String) : Option Env := do
  let ecs ← (kvGet toks "ecs").bind boolOfStr
  let addr ← (kvGet toks "addr").bind addrOfStr
  let sets ← match kvGet toks "sets" with
    | some v => setsOfStr v
    | none => some []
  let rulesS ← kvGet toks "rules"
  let rules ← if rulesS == "-" then some [] else (rulesS.splitOn ";").mapM (ruleOfStr sets)
  let n ← kvNat toks "nups"
  let ups ← (List.range n).mapM fun k =>
    match kvGet toks s!"u{k}" with
    | some "fail" => some UpOutcome.fail
    | some "reply" => (msgOfToks (replyToks toks k)).map UpOutcome.reply
    | _ => none
  pure ⟨ecs, addr, rules, ups⟩

def strOfOut (o : Out) : String :=
  let fw := o.forwards.map fun (k, b) => s!" fw={k}:{hexOfBytes b}"
  s!"{strOfMsg o.resp} rule={o.ruleIdx}{String.join fw}"

structure ImplOut where
  resp : Msg
  forwards : List (Nat × Bytes)

def implOutOfStr (s : String) : Option ImplOut := do
  let toks := words s
  let resp ← msgOfToks toks
  let fws ← (toks.filter (·.startsWith "fw=")).mapM fun t =>
    match (t.drop 3).toString.splitOn ":" with
    | [k, h] => do pure ((← natOfStr k), (← bytesOfHex h))
    | _ => none
  pure ⟨resp, fws⟩

/-- OPT records anywhere in the message (an OPT record belongs to the additional section; one that sits elsewhere
    is still "an OPT record in the response") -/
def optCount (m : Msg) : Nat :=
  ((m.answers ++ m.authorities ++ m.additionals).filter (fun r => r.rtype == typeOPT)).length

/-- the records of a section that are relayed: everything but OPT (EDNS0 ends at the proxy) -/
def relayed (rs : List Resource) : List Resource := rs.filter (fun r => r.rtype != typeOPT)

/-- C03 + C10 + C12 as one decidable judgement of the implementation's observable behaviour,
    written from the property texts (independent of `Router.handle`). Returns "ok" or "viol:<why>". -/
def spec (env : Env) (m : Msg) (o : ImplOut) : String :=
  let r := o.resp
  let supported := !m.hdr.response && m.hdr.rd && m.hdr.opcode == 0 && m.questions.length == 1
  let queryHasOpt := (m.answers ++ m.authorities ++ m.additionals).any (fun r => r.rtype == typeOPT) -- "the query contained one"
  -- C03: header
  if r.hdr.id ≠ m.hdr.id then "viol:C03:id"
  else if r.hdr.opcode ≠ m.hdr.opcode then "viol:C03:opcode"
  else if !r.hdr.response then "viol:C03:qr"
  else if !r.hdr.ra then "viol:C03:ra"
  else if r.hdr.rd ≠ m.hdr.rd then "viol:C03:rd"
  -- C03: at most one question, equal (ASCII-case-insensitively) to the query's first question
  else if r.questions.length > 1 then "viol:C03:questions"
  else if (match r.questions, m.questions with
      | [rq], q0 :: _ => !(lowerName rq.name == lowerName q0.name && rq.qtype == q0.qtype && rq.qclass == q0.qclass)
      | [_], [] => true
      | _, _ => false) then "viol:C03:question-mismatch"
  -- C03: unsupported → NOTIMP, and nothing is forwarded
  else if !supported then
    (if r.hdr.rcode ≠ rcodeNotImp then "viol:C03:notimp"
     else if !o.forwards.isEmpty then "viol:C03:notimp-forwarded"
     else if optCount r > 0 ∧ !queryHasOpt then "viol:C12:opt-without-query-opt"
     else "ok")
  else
    match m.questions with
    | [] => "ok"
    | q0 :: _ =>
      let qname := lowerName q0.name
      -- C10: the first rule whose condition holds decides
      let first := env.rules.find? (fun ru => ru.applies qname)
      let expectedFw : Option Nat := match first with
        | some ru => if ru.reject > 0 then none else ru.upstream
        | none => none
      -- C12: OPT handling towards the client
      if optCount r ≠ (if queryHasOpt then 1 else 0) then "viol:C12:opt-count"
      else if queryHasOpt ∧ (r.additionals.filter (fun x => x.rtype == typeOPT)) ≠ [newEDNS0 1200 []] then "viol:C12:opt-content"
      else match expectedFw with
        | none =>
          -- reject / no rule / no action: nobody is contacted
          if !o.forwards.isEmpty then "viol:C10:contacted-upstream"
          else match first with
            | some ru => if ru.reject > 0 then (if r.hdr.rcode ≠ ru.reject % 16 then "viol:C10:reject-rcode" else "ok")
                         else (if r.hdr.rcode ≠ rcodeRefused then "viol:C10:refused" else "ok")
            | none => if r.hdr.rcode ≠ rcodeRefused then "viol:C10:refused" else "ok"
        | some u =>
          -- forward rule: exactly that upstream gets exactly that question, RD=1, one OPT, ECS iff enabled and address known
          match o.forwards with
          | [(k, wire)] =>
            if k ≠ u then "viol:C10:wrong-upstream"
            else match unpackMsg wire with
              | .ok fm =>
                if fm.questions ≠ [⟨qname, q0.qtype, q0.qclass⟩] then "viol:C10:forwarded-question"
                else if !fm.hdr.rd ∨ fm.hdr.response then "viol:C10:forwarded-flags"
                else if !fm.answers.isEmpty ∨ !fm.authorities.isEmpty then "viol:C12:forwarded-records"
                else match fm.additionals with
                  | [opt] =>
                    if opt.rtype ≠ typeOPT then "viol:C12:forwarded-additional"
                    else
                      let wantData : Bytes :=
                        if env.ecs ∧ env.addr.isValid then
                          match env.addr.unmap with
                          | .v4 b => [0, 8, 0, 7, 0, 1, 24, 0] ++ b.take 3
                          | .v6 b => [0, 8, 0, 11, 0, 2, 56, 0] ++ b.take 7
                          | .none => []
                        else []
                      if opt.rdata ≠ .raw wantData then "viol:C12:ecs"
                      else
                        -- C03: upstream failure → SERVFAIL; a reply is relayed with its rcode
                        match env.ups[u]? with
                        | some (.reply um) =>
                          if isRespOfQuestion um ⟨qname, q0.qtype, q0.qclass⟩ then
                            (if r.hdr.rcode ≠ um.hdr.rcode then "viol:C03:relayed-rcode"
                             else if r.answers ≠ relayed um.answers ∨ r.authorities ≠ relayed um.authorities then "viol:C03:relayed-records"
                             else "ok")
                          else (if r.hdr.rcode ≠ rcodeServFail then "viol:C03:servfail" else "ok")
                        | _ => if r.hdr.rcode ≠ rcodeServFail then "viol:C03:servfail" else "ok"
                  | _ => "viol:C12:forwarded-opt-count"
              | _ => "viol:C10:forwarded-undecodable"
          | [] => "viol:C10:not-forwarded"
          | _ => "viol:C10:forwarded-more-than-once"

def run (case impl : String) : String × String :=
  let toks := words case
  -- the query's own tokens are those without a `r<k>.` prefix; msgOfToks ignores unknown keys
  match envOfToks toks, msgOfToks (toks.filter (fun t => !(t.startsWith "r" && (t.drop 1).toString.any (· == '.') && !(t.startsWith "rules=")))) with
  | some env, some m =>
    let out := strOfOut (handle env m)
    let v := if impl == "panic" then "viol:panic"
      else match implOutOfStr impl with
        | some o => spec env m o
        | none => "unparsed"
    (out, v)
  | _, _ => ("bad-case", "na")

/-! ### `prefetchfw`: the upstream query of a background refresh (cache hit in the last quarter of the entry's life)
  case : ecs=<0|1> addr=<…> q=<name>,<type>,<class>     (one unconditional forward rule to upstream 0, cache on)
  out  : cached=<0|1> rcode=<n> fw=<k>:<hex>…
  The refresh goes through the same `forward` / `packReq` as a miss, with the same client address: the model's
  prediction is `packReq env q` sent exactly once to upstream 0, while the client is answered from the cache. -/

def wantEcs (env : Env) : Bytes :=
  if env.ecs ∧ env.addr.isValid then
    match env.addr.unmap with
    | .v4 b => [0, 8, 0, 7, 0, 1, 24, 0] ++ b.take 3
    | .v6 b => [0, 8, 0, 11, 0, 2, 56, 0] ++ b.take 7
    | .none => []
  else []

/-- C10/C12 judgement of one forwarded query (written from the property text) -/
def checkForwarded (env : Env) (q : Question) (wire : Bytes) : String :=
  match unpackMsg wire with
  | .ok fm =>
    if fm.questions ≠ [q] then "viol:C10:forwarded-question"
    else if !fm.hdr.rd ∨ fm.hdr.response then "viol:C10:forwarded-flags"
    else match fm.additionals with
      | [opt] =>
        if opt.rtype ≠ typeOPT then "viol:C12:forwarded-additional"
        else if opt.rdata ≠ .raw (wantEcs env) then "viol:C12:ecs"
        else "ok"
      | _ => "viol:C12:forwarded-opt-count"
  | _ => "viol:C10:forwarded-undecodable"

def runPrefetchFw (case impl : String) : String × String :=
  let toks := words case
  match (kvGet toks "ecs").bind boolOfStr, (kvGet toks "addr").bind addrOfStr, (kvGet toks "q").bind questionOfStr with
  | some ecs, some addr, some q0 =>
    let env : Env := ⟨ecs, addr, [⟨none, false, 0, some 0⟩], []⟩
    let q : Question := { q0 with name := lowerName q0.name }
    let out := match packReq env q with
      | .ok wire => s!"cached=1 rcode=0 after=0,1,0 fw=0:{hexOfBytes wire}"
      | _ => "cached=1 rcode=0 after=0,1,0"
    let it := words impl
    let fws := (it.filter (·.startsWith "fw=")).filterMap fun t =>
      match (t.drop 3).toString.splitOn ":" with
      | [k, h] => do pure ((← natOfStr k), (← bytesOfHex h))
      | _ => none
    let v :=
      if impl == "panic" then "viol:panic"
      else if kvGet it "cached" != some "1" then "viol:C19:hit-not-served-from-cache"
      -- after the refresh (whose upstream reply carried an OPT with options): a client without EDNS0 gets no
      -- OPT, a client with EDNS0 gets exactly one OPT without options
      else if kvGet it "after" != some "0,1,0" then "viol:C12:opt-after-refresh"
      else match fws with
        | [(k, wire)] => if k ≠ 0 then "viol:C10:wrong-upstream" else checkForwarded env q wire
        | [] => "viol:C19:no-refresh"
        | _ => "viol:C19:more-than-one-refresh"
    (out, v)
  | _, _, _ => ("bad-case", "na")

end MosVerif.RouterIO
