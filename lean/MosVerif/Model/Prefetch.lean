/-
  C19 — model of the cache prefetch.

    app/router/cache.go    needPrefetch, prefetchCtl.reserve / done, keyForPrefetch (abstract hash `pkey`)
    app/router/router.go   handleReq's cache-hit path, asyncSingleFlightPrefetch, doPrefetch

  Many client threads (each handling one query that reached the cache lookup) and the refresh goroutines they
  spawn run interleaved; one `Label` is one atomic step of one thread (a step under prefetchCtl's mutex, a
  cache operation, the return of an upstream exchange). The cache itself is C08's model (Model/Ttl.lean).
-/
import MosVerif.Util
import MosVerif.Model.Ttl
-- @component needprefetch MosVerif.Prefetch.runNeed
-- @component prefetchctl MosVerif.Prefetch.runCtl
-- @component prefetch_e2e MosVerif.Prefetch.runE2E
namespace MosVerif.Prefetch
open MosVerif.Ttl

/-! ### needPrefetch -/

/-- `lifeSpan := expireTime.Sub(storedTime); remainTtl := time.Until(expireTime); return remainTtl < (lifeSpan >> 2)`
    on int64 nanoseconds; Go's `>>` on a signed integer is an arithmetic shift. -/
def needPrefetch (stored expire now : Int) : Bool :=
  let lifeSpan := expire - stored
  let remainTtl := expire - now
  decide (remainTtl < lifeSpan >>> 2)

/-! ### prefetchCtl -/

/-- `queue map[uint64]struct{}` as a set of keys -/
abbrev Queue := Nat → Bool

def Queue.empty : Queue := fun _ => false

/-- prefetchCtl.reserve (one critical section of `c.m`) -/
def reserve (q : Queue) (key : Nat) : Queue × Bool :=
  if q key then (q, false)                               -- dup
  else (fun k => if k = key then true else q k, true)

/-- prefetchCtl.done -/
def done (q : Queue) (key : Nat) : Queue := fun k => if k = key then false else q k

/-! ### threads -/

/-- what a cache hit holds: the response to send and the entry's times -/
structure Hit where
  served : Msg
  stored : Nat
  expire : Nat
  id : Nat
  deriving Repr

/-- program counter of a client thread inside handleReq -/
inductive CPc where
  | start                      -- before `r.cache.Get`
  | looked (h : Hit)           -- cache hit, before `if needPrefetch(...)`
  | spawning (h : Hit)         -- inside asyncSingleFlightPrefetch: reserve succeeded, before `go func()`
  | ready (h : Hit)            -- about to set rc.Response.Msg = resp
  | responded (h : Hit)        -- the response is with the client
  | missed                     -- cache miss: the miss path is not this property's subject
  deriving Repr

structure Client where
  key : Nat
  pc : CPc
  deriving Repr

/-- program counter of a refresh goroutine (`go func() { r.doPrefetch(..); …; r.prefetch.done(key) }`) -/
inductive RPc where
  | spawned                    -- running, before forward returned
  | fetched (m : Msg)          -- forward returned a response (EDNS0 removed), before r.cache.Store
  | finishing                  -- doPrefetch returned, before r.prefetch.done(key)
  | finished
  deriving Repr

structure Refresher where
  key : Nat                    -- the question / client group (the cache key)
  pk : Nat                     -- keyForPrefetch of it
  pc : RPc
  deriving Repr

structure State where
  mem : Mem
  queue : Queue
  clients : List Client
  refreshers : List Refresher
  nextId : Nat
  deriving Inhabited

/-- fixed parameters: otter's clock, the cache configuration, keyForPrefetch as a function of the cache key -/
structure Params where
  clock : Nat → Nat
  cfg : Cfg
  pkey : Nat → Nat

inductive Label where
  | client (i : Nat) (now : Nat)                    -- the next step of client thread i, at instant `now`
  | forward (j : Nat) (out : Upstream)              -- refresher j: `r.forward` returns `out`
  | store (j : Nat) (now delay : Nat)               -- refresher j: `r.cache.Store(q, remoteAddr, resp)`
  | done (j : Nat)                                  -- refresher j: `r.prefetch.done(key)`
  deriving Repr

def clientStep (P : Params) (s : State) (i : Nat) (now : Nat) : State :=
  match s.clients[i]? with
  | none => s
  | some c =>
    match c.pc with
    | .start =>
      match cacheGet P.clock s.mem c.key now with
      | none => { s with clients := s.clients.set i { c with pc := .missed } }
      | some (served, e) =>
        { s with clients := s.clients.set i { c with pc := .looked ⟨served, e.stored, e.expire, e.id⟩ } }
    | .looked h =>
      if needPrefetch h.stored h.expire now then
        -- asyncSingleFlightPrefetch: key := keyForPrefetch(..); if ok := r.prefetch.reserve(key); !ok { return }
        let res := reserve s.queue (P.pkey c.key)
        if res.2 then { s with queue := res.1, clients := s.clients.set i { c with pc := .spawning h } }
        else { s with clients := s.clients.set i { c with pc := .ready h } }
      else { s with clients := s.clients.set i { c with pc := .ready h } }
    | .spawning h =>
      -- go func() { … }()
      { s with refreshers := s.refreshers ++ [⟨c.key, P.pkey c.key, .spawned⟩],
               clients := s.clients.set i { c with pc := .ready h } }
    | .ready h => { s with clients := s.clients.set i { c with pc := .responded h } }
    | .responded _ => s
    | .missed => s

/-- refresher j: `resp, err := r.forward(ctx, u, q, remoteAddr)` returns -/
def forwardStep (s : State) (j : Nat) (out : Upstream) : State :=
  match s.refreshers[j]? with
  | some r =>
    match r.pc, out with
    | .spawned, .err => { s with refreshers := s.refreshers.set j { r with pc := .finishing } }   -- `return` before Store
    | .spawned, .reply m => { s with refreshers := s.refreshers.set j { r with pc := .fetched (removeEDNS0 m) } }
    | _, _ => s
  | none => s

/-- refresher j: `r.cache.Store(q, remoteAddr, resp)` -/
def storeStep (P : Params) (s : State) (j : Nat) (now delay : Nat) : State :=
  match s.refreshers[j]? with
  | some r =>
    match r.pc with
    | .fetched m =>
      { s with mem := cacheStore P.clock P.cfg s.mem r.key (some m) now delay s.nextId,
               nextId := s.nextId + 1,
               refreshers := s.refreshers.set j { r with pc := .finishing } }
    | _ => s
  | none => s

/-- refresher j: `r.prefetch.done(key)` -/
def doneStep (s : State) (j : Nat) : State :=
  match s.refreshers[j]? with
  | some r =>
    match r.pc with
    | .finishing => { s with queue := done s.queue r.pk, refreshers := s.refreshers.set j { r with pc := .finished } }
    | _ => s
  | none => s

def step (P : Params) (s : State) : Label → State
  | .client i now => clientStep P s i now
  | .forward j out => forwardStep s j out
  | .store j now delay => storeStep P s j now delay
  | .done j => doneStep s j

def run (P : Params) (s : State) : List Label → State
  | [] => s
  | l :: ls => run P (step P s l) ls

/-- any number of client threads, no refresh goroutine, nothing reserved -/
def init (mem : Mem) (keys : List Nat) (nextId : Nat) : State :=
  ⟨mem, Queue.empty, keys.map (fun k => ⟨k, .start⟩), [], nextId⟩

/-- refresh goroutines of prefetch key `pk` that have not yet executed `done` -/
def Refresher.inflightOn (pk : Nat) (r : Refresher) : Bool :=
  r.pk == pk && (match r.pc with | .finished => false | _ => true)

/-- client threads that hold the reservation of `pk` but have not yet spawned the goroutine -/
def Client.spawningOn (P : Params) (pk : Nat) (c : Client) : Bool :=
  match c.pc with
  | .spawning _ => P.pkey c.key == pk
  | _ => false

def inflight (s : State) (pk : Nat) : Nat := s.refreshers.countP (Refresher.inflightOn pk)

/-! ### executable specifications, from the property text -/

/-- "finds an entry in the last quarter of its lifetime": the window test must say yes when clearly inside the
    last quarter and no when clearly outside; `slack` covers the wall clock read by the implementation. -/
def specNeed (stored expire now slack : Int) (out : Bool) : Bool :=
  let life := expire - stored
  let remain := expire - now
  (if 4 * (remain + slack) < life then out else true) && (if 4 * (remain - slack) > life then !out else true)

inductive CtlOp where
  | reserve (k : Nat)
  | done (k : Nat)
  | par (k n : Nat)            -- n goroutines call reserve(k) at the same time
  deriving Repr

/-- result of each reserve (0/1) resp. the number of successful reserves of a `par` -/
def modelCtl : Queue → List CtlOp → List Nat
  | _, [] => []
  | q, .reserve k :: rest => let (q', ok) := reserve q k; (if ok then 1 else 0) :: modelCtl q' rest
  | q, .done k :: rest => modelCtl (done q k) rest
  | q, .par k n :: rest =>
    -- any serialisation of the n critical sections: the first one decides
    if n = 0 then 0 :: modelCtl q rest
    else let (q', ok) := reserve q k; (if ok then 1 else 0) :: modelCtl q' rest

/-- "at most one … in flight at any time": a key granted and not yet released is never granted again -/
def specCtl : List Nat → List CtlOp → List Nat → Bool
  | _, [], [] => true
  | held, .reserve k :: ops, r :: rs => (if held.contains k then r == 0 else r ≤ 1) && specCtl (if r == 1 then k :: held else held) ops rs
  | held, .done k :: ops, rs => specCtl (held.filter (· != k)) ops rs
  | held, .par k _ :: ops, r :: rs => (if held.contains k then r == 0 else r ≤ 1) && specCtl (if r == 1 then k :: held else held) ops rs
  | _, _, _ => false

/-! ### end-to-end scenario (component prefetch_e2e) -/

/-- observables of one scenario -/
structure E2EOut where
  w1cached : Nat       -- hits of wave 1 answered from cache
  w1ttl : Nat          -- the (common) TTL they carried, 0 if they differed
  w2cached : Nat
  w2ttl : Nat
  fast : Bool          -- every hit was answered long before the upstream's delay had passed
  upstream : Nat       -- upstream exchanges seen in total (the priming one included)
  maxConc : Nat        -- most concurrent upstream exchanges for the question
  probe : Option (Bool × Nat)   -- a later query: (answered from cache, TTL)
  probe2 : Option (Bool × Nat)
  deriving DecidableEq, Repr

/-- the clock of the scenario: time 0 (the priming query) is 100 ms after a tick -/
def e2eClock (t : Nat) : Nat := (t + 100 * msNs) / 1000000000

def e2eParams : Params := ⟨e2eClock, ⟨true, initMaxTtl 0⟩, fun k => k⟩

def aRecord (ttl : Nat) : Msg := ⟨0, false, [⟨1, UInt32.ofNat ttl⟩], [], []⟩

/-- the cache after the priming query (miss path): one entry, TTL 4, stored at time 0 -/
def e2eMem0 : Mem := cacheStore e2eParams.clock e2eParams.cfg Mem.empty 0 (some (aRecord 4)) 0 0 1

/-- run client thread i to its end (its own steps only) -/
def clientLabels (i now : Nat) : List Label := [.client i now, .client i now, .client i now, .client i now]

def waveLabels (first n now : Nat) : List Label := (List.range n).flatMap (fun i => clientLabels (first + i) now)

def ttlOfHit (h : Hit) : Nat := match h.served.ans with | [rr] => rr.ttl.toNat | _ => 0

/-- the TTL a client thread that has responded carried -/
def respondedTtl (c : Client) : Option Nat :=
  match c.pc with
  | .responded h => some (ttlOfHit h)
  | _ => none

/-- the common value of a list, 0 if there is none -/
def commonTtl : List Nat → Nat
  | [] => 0
  | t :: rest => if rest.all (· == t) then t else 0

def waveResult (s : State) (first n : Nat) : Nat × Nat :=
  let hits := ((s.clients.drop first).take n).filterMap respondedTtl
  (hits.length, commonTtl hits)

def probeResult (s : State) (i : Nat) : Option (Bool × Nat) :=
  match s.clients[i]? with
  | some c => (match c.pc with | .responded h => some (true, ttlOfHit h) | .missed => some (false, 0) | _ => none)
  | none => none

def e2eT1 : Nat := 3300

/-- the state after wave 1: `n` hits at 3.3 s (the entry's last quarter begins at 3.0 s) -/
def e2eAfterWave1 (n : Nat) : State :=
  run e2eParams (init e2eMem0 (List.replicate (2 * n + 2) 0) 2) (waveLabels 0 n (e2eT1 * msNs))

/-- mode 0 (the refresh succeeds, TTL 4 again): a second wave while the refresh is in flight, the refresh
    returns, stores and releases, one more query. Upstream delay `d` ms. -/
def e2eFinalOk (n d : Nat) : State :=
  let P := e2eParams
  let s2 := run P (e2eAfterWave1 n) (waveLabels n n ((e2eT1 + d / 2) * msNs))
  let s3 := run P s2 [.forward 0 (.reply (aRecord 4)), .store 0 ((e2eT1 + d) * msNs) 0, .done 0]
  run P s3 (clientLabels (2 * n) ((e2eT1 + d + 150) * msNs))

/-- what the upstream gives to a refresh in modes 1 (the exchange fails) and 2 (NXDOMAIN) -/
def e2eOutcome (mode : Nat) : Upstream := if mode = 1 then .err else .reply ⟨3, false, [], [], []⟩

/-- modes 1 and 2: the refresh ends badly, a query 100 ms later (it starts the next refresh, which ends the same
    way), and in mode 1 a last query after the entry has expired -/
def e2eFinalBad (mode n d : Nat) : State :=
  let P := e2eParams
  let out := e2eOutcome mode
  let s2 := run P (e2eAfterWave1 n) [.forward 0 out, .store 0 ((e2eT1 + d) * msNs) 0, .done 0]
  let s3 := run P s2 (clientLabels (2 * n) ((e2eT1 + d + 100) * msNs))
  let s4 := run P s3 [.forward 1 out, .store 1 ((e2eT1 + 2 * d + 100) * msNs) 0, .done 1]
  if mode = 1 then run P s4 (clientLabels (2 * n + 1) (4600 * msNs)) else s4

/-- mode 0: the refresh succeeds; mode 1: the upstream fails; mode 2: the upstream answers NXDOMAIN.
    `n` hits per wave, upstream delay `d` ms. The schedule is the harness' one (see c19_prefetch.go). -/
def modelE2E (mode n d : Nat) : E2EOut :=
  if mode = 0 then
    let s := e2eFinalOk n d
    ⟨(waveResult s 0 n).1, (waveResult s 0 n).2, (waveResult s n n).1, (waveResult s n n).2, true,
      1 + s.refreshers.length, if s.refreshers.length > 0 then 1 else 0, probeResult s (2 * n), none⟩
  else
    let s := e2eFinalBad mode n d
    -- in mode 1 the last query misses and goes to the (failing) upstream itself: one more exchange
    let extra := if mode = 1 then 1 else 0
    ⟨(waveResult s 0 n).1, (waveResult s 0 n).2, 0, 0, true, 1 + s.refreshers.length + extra,
      if s.refreshers.length > 0 then 1 else 0,
      probeResult s (2 * n), if mode = 1 then probeResult s (2 * n + 1) else none⟩

/-- the property on the observables of a scenario -/
def specE2E (mode n : Nat) (o : E2EOut) : Bool :=
  -- every hit in the refresh window is answered from cache, immediately
  o.w1cached == n && o.fast && (mode != 0 || o.w2cached == n) &&
  -- at most one refresh in flight at any time, no matter how many hits
  decide (o.maxConc ≤ 1) &&
  (if mode = 0 then
     -- one refresh for both waves; afterwards hits see renewed TTLs
     o.upstream == 2 && (match o.probe with | some (true, ttl) => decide (ttl > o.w1ttl) | _ => false)
   else
     -- a failed refresh leaves the old entry usable until it expires: the same answer, still ageing
     (match o.probe with | some (true, ttl) => decide (1 ≤ ttl ∧ ttl ≤ o.w1ttl) | _ => false))

/-! ### line protocol -/

def intOfStr' (s : String) : Option Int := intOfStr s

def runNeed (case impl : String) : String × String :=
  let toks := words case
  match (kvGet toks "st").bind intOfStr, (kvGet toks "ex").bind intOfStr, (kvGet toks "slack").bind intOfStr with
  | some st, some ex, some slack =>
    let out := needPrefetch (-st) ex 0
    let v := match boolOfStr impl with
      | some o => if specNeed (-st) ex 0 slack o then "ok" else "viol"
      | none => "unparsed"
    (strOfBool out, v)
  | _, _, _ => ("bad-case", "na")

def ctlOpOfStr (s : String) : Option CtlOp :=
  if s.startsWith "r" then (natOfStr (s.drop 1).toString).map .reserve
  else if s.startsWith "d" then (natOfStr (s.drop 1).toString).map .done
  else if s.startsWith "p" then
    match (s.drop 1).toString.splitOn "x" with
    | [k, n] => do pure (.par (← natOfStr k) (← natOfStr n))
    | _ => none
  else none

def natsOfStr (s : String) : Option (List Nat) :=
  if s == "-" then some [] else (s.splitOn ",").mapM natOfStr

def strOfNats (l : List Nat) : String :=
  if l.isEmpty then "-" else ",".intercalate (l.map toString)

def runCtl (case impl : String) : String × String :=
  let toks := words case
  match (kvGet toks "ops").bind (fun s => (s.splitOn ",").mapM ctlOpOfStr) with
  | some ops =>
    let out := strOfNats (modelCtl Queue.empty ops)
    let v := match natsOfStr impl with
      | some rs => if specCtl [] ops rs then "ok" else "viol"
      | none => "unparsed"
    (out, v)
  | none => ("bad-case", "na")

def strOfProbe : Option (Bool × Nat) → String
  | none => "-"
  | some (c, t) => s!"{if c then "c" else "u"}:{t}"

def probeOfStr (s : String) : Option (Option (Bool × Nat)) :=
  if s == "-" then some none else
  match s.splitOn ":" with
  | [c, t] => do
    let t ← natOfStr t
    if c == "c" then pure (some (true, t)) else if c == "u" then pure (some (false, t)) else none
  | _ => none

def strOfE2E (o : E2EOut) : String :=
  s!"w1={o.w1cached}:{o.w1ttl} w2={o.w2cached}:{o.w2ttl} fast={strOfBool o.fast} up={o.upstream} maxconc={o.maxConc} probe={strOfProbe o.probe} probe2={strOfProbe o.probe2}"

def pairOfStr (s : String) : Option (Nat × Nat) :=
  match s.splitOn ":" with
  | [a, b] => do pure (← natOfStr a, ← natOfStr b)
  | _ => none

def e2eOfStr (s : String) : Option E2EOut := do
  let toks := words s
  let (a, b) ← (kvGet toks "w1").bind pairOfStr
  let (c, d) ← (kvGet toks "w2").bind pairOfStr
  let f ← (kvGet toks "fast").bind boolOfStr
  let up ← kvNat toks "up"
  let mc ← kvNat toks "maxconc"
  let p ← (kvGet toks "probe").bind probeOfStr
  let p2 ← (kvGet toks "probe2").bind probeOfStr
  pure ⟨a, b, c, d, f, up, mc, p, p2⟩

def runE2E (case impl : String) : String × String :=
  let toks := words case
  match kvNat toks "mode", kvNat toks "n", kvNat toks "d" with
  | some mode, some n, some d =>
    if impl == "skip" then ("skip", "na")            -- the harness could not keep the planned timing
    else
      let out := strOfE2E (modelE2E mode n d)
      let v := match e2eOfStr impl with
        | some o => if specE2E mode n o then "ok" else "viol"
        | none => "unparsed"
      (out, v)
  | _, _, _ => ("bad-case", "na")

end MosVerif.Prefetch
