/-
  PoolView — what a function may see of a pooled buffer.

  `pool.GetBuf(size)` returns `size` octets whose content is whatever the previous owner left there (`dirty`).
  A function that fills a prefix of such a buffer and then reads it must read the filled prefix only: its result has
  to be the same for every `dirty` (non-interference with the previous owner, the observable half of C20's
  "recycled memory is exclusively owned").

  DoH GET (app/router/server_http_fasthttp.go and server_http_gohttp.go, `readReqMsg`):

      msgSize := base64.RawURLEncoding.DecodedLen(len(s))     -- an upper bound: the decoder skips CR and LF
      buf := pool.GetBuf(msgSize)
      n, err := base64.RawURLEncoding.Decode(buf, s)           -- writes n ≤ msgSize octets at the front
      reqWireMsg = buf[:n]                                      -- (before ea85fcb: `= buf`, D60)

  The base64 decoder is a parameter: `decoded` are the octets it produces.  Core Lean only.
-/
namespace MosVerif.PoolView

abbrev Bytes := List UInt8

/-- `Decode(buf, s)`: the decoded octets overwrite the front of the buffer, the rest keeps its old content;
    `none` = the decoder would write past the buffer (it cannot: `decoded.length ≤ DecodedLen`). -/
def decodeInto (dirty decoded : Bytes) : Option (Bytes × Nat) :=
  if decoded.length ≤ dirty.length then some (decoded ++ dirty.drop decoded.length, decoded.length) else none

/-- the view the repaired code parses: `buf[:n]` -/
def viewFixed (dirty decoded : Bytes) : Option Bytes :=
  (decodeInto dirty decoded).map fun (buf, n) => buf.take n

/-- the view the code parsed before the repair: the whole buffer -/
def viewWhole (dirty decoded : Bytes) : Option Bytes :=
  (decodeInto dirty decoded).map fun (buf, _) => buf

end MosVerif.PoolView
