/-
  Wire codec model — decoding side.  Mirrors /repo/internal/dnsmsg:
    utils.go   unpackUint16Msg, unpackUint32Msg, unpackBytesMsg, unpackBytesMsgToBuffer
    name.go    NameBuilder.unpack (the pointer-following loop), unpackName
    rr.go      ResourceHdr.unpack, every `*.unpack`, unpackResource
    question.go unpackQuestion
    msg.go     header.unpack, header.header, Msg.Unpack

  Conventions (DESIGN.md §4): Go partiality is explicit.  `Res.panic` is returned exactly
  where the Go code would panic (slice bounds) or corrupt its fixed 254-byte name buffer;
  `Res.err` is any returned error.  Offsets/lengths are `Nat`.  Core Lean only.
-/
import MosVerif.Util
import MosVerif.Generated.Facts
namespace MosVerif.Wire

abbrev Bytes := List UInt8

/-- Outcome of a Go function that may return an error or panic. -/
inductive Res (α : Type) where
  | ok (a : α) : Res α
  | err : Res α
  | panic : Res α
  deriving Repr, DecidableEq

namespace Res
@[inline] def bind {α β} (x : Res α) (f : α → Res β) : Res β :=
  match x with
  | .ok a => f a
  | .err => .err
  | .panic => .panic
instance : Monad Res where
  pure := .ok
  bind := bind
end Res

/-! ### names and records -/

/-- A name in mosproxy's in-memory form: wire labels (length octet + octets)* WITHOUT the
    terminating zero octet. The root is the empty list. -/
abbrev Name := Bytes

structure Question where
  name : Name
  qtype : Nat
  qclass : Nat
  deriving Repr, DecidableEq

/-- RDATA as the Go structs hold it. -/
inductive RData where
  | a (b : Bytes)                       -- A: 4 octets
  | aaaa (b : Bytes)                    -- AAAA: 16 octets
  | name (n : Name)                     -- CNAME / NS / PTR
  | mx (pref : Nat) (n : Name)
  | soa (ns mbox : Name) (serial refresh retry expire minttl : Nat)
  | srv (prio weight port : Nat) (target : Name)
  | raw (data : Bytes)
  deriving Repr, DecidableEq

structure Resource where
  name : Name
  rtype : Nat
  rclass : Nat
  ttl : Nat
  rdata : RData
  deriving Repr, DecidableEq

/-- `dnsmsg.Header`. `z` is the reserved bit 6 of the flag word (`Header.Zero`); it is the last
    field and defaults to `false` so that headers built elsewhere need not mention it. -/
structure Header where
  id : Nat
  response : Bool
  opcode : Nat
  authoritative : Bool
  truncated : Bool
  rd : Bool
  ra : Bool
  ad : Bool
  cd : Bool
  rcode : Nat
  z : Bool := false
  deriving Repr, DecidableEq

structure Msg where
  hdr : Header
  questions : List Question
  answers : List Resource
  authorities : List Resource
  additionals : List Resource
  deriving Repr, DecidableEq

/-! ### record types (const.go) -/
def typeA : Nat := 1
def typeNS : Nat := 2
def typeCNAME : Nat := 5
def typeSOA : Nat := 6
def typePTR : Nat := 12
def typeMX : Nat := 15
def typeAAAA : Nat := 28
def typeSRV : Nat := 33
def typeOPT : Nat := 41

/-! ### primitives (utils.go) -/

/-- Go's `msg[off:]`: panics when `off > len(msg)`. -/
def sliceFrom (msg : Bytes) (off : Nat) : Res Bytes :=
  if off ≤ msg.length then .ok (msg.drop off) else .panic

def be16 (a b : UInt8) : Nat := a.toNat * 256 + b.toNat
def be32 (a b c d : UInt8) : Nat := ((a.toNat * 256 + b.toNat) * 256 + c.toNat) * 256 + d.toNat

/-- `unpackUint16Msg` -/
def u16At (msg : Bytes) (off : Nat) : Res (Nat × Nat) := do
  let buf ← sliceFrom msg off
  match buf with
  | a :: b :: _ => .ok (be16 a b, off + 2)
  | _ => .err

/-- `unpackUint32Msg` -/
def u32At (msg : Bytes) (off : Nat) : Res (Nat × Nat) := do
  let buf ← sliceFrom msg off
  match buf with
  | a :: b :: c :: d :: _ => .ok (be32 a b c d, off + 4)
  | _ => .err

/-- `unpackBytesMsg` / `unpackBytesMsgToBuffer`: `l` octets starting at `off`. -/
def bytesAt (msg : Bytes) (off l : Nat) : Res (Bytes × Nat) := do
  let buf ← sliceFrom msg off
  if buf.length < l then .err else .ok (buf.take l, off + l)

/-! ### name decoding (NameBuilder.unpack) -/

/-- Pointer limit `ptr > 10` and the size test `> 255` of name.go. Tied to the source by translation:
    `Lemmas/TranslatedCodecName.lean` proves `nameLoop` equal to the loop regenerated from name.go. -/
def hopLimit : Nat := 10
def nameCap : Nat := 255      -- 255 in `len(name)+1+c+1 > 255`

/-- The `Loop:` of `NameBuilder.unpack`. `name` is the scratch slice `n.buf[:0]` grown by append
    (a 254-byte array: more than 254 octets would corrupt it — reported as `panic`). -/
def nameLoop (msg : Bytes) (currOff newOff ptr : Nat) (name : Bytes) : Res (Bytes × Nat) :=
  if h : currOff ≥ msg.length then .err                       -- errBaseLen
  else
    let c := (msg[currOff]'(by omega)).toNat
    let currOff1 := currOff + 1
    if c < 64 then                                            -- c & 0xC0 == 0x00
      if c = 0 then
        -- end of name
        let newOff' := if ptr = 0 then currOff1 else newOff
        if name.length > 254 then .panic else .ok (name, newOff')
      else
        let endOff := currOff1 + c
        if endOff > msg.length then .err                      -- errCalcLen
        else if name.length + 1 + c + 1 > nameCap then .err   -- errNameTooLong
        else
          nameLoop msg endOff newOff ptr
            (name ++ [UInt8.ofNat c] ++ (msg.drop currOff1).take c)
    else if c ≥ 192 then                                      -- c & 0xC0 == 0xC0
      if h2 : currOff1 ≥ msg.length then .err                 -- errInvalidPtr
      else
        let c1 := (msg[currOff1]'(by omega)).toNat
        let currOff2 := currOff1 + 1
        let newOff' := if ptr = 0 then currOff2 else newOff
        if ptr + 1 > hopLimit then .err                       -- errTooManyPtr
        else nameLoop msg ((c - 192) * 256 + c1) newOff' (ptr + 1) name
    else .err                                                 -- errReserved (0x40, 0x80)
termination_by (hopLimit + 1 - ptr, msg.length - currOff)
decreasing_by
  all_goals simp_wf
  · right; omega
  · left; omega

/-- `unpackName` -/
def unpackName (msg : Bytes) (off : Nat) : Res (Name × Nat) :=
  nameLoop msg off off 0 []

/-! ### questions and resources -/

def unpackQuestion (msg : Bytes) (off : Nat) : Res (Question × Nat) := do
  let (n, off) ← unpackName msg off
  let (t, off) ← u16At msg off
  let (c, off) ← u16At msg off
  .ok (⟨n, t, c⟩, off)

structure RHdr where
  name : Name
  rtype : Nat
  rclass : Nat
  ttl : Nat
  length : Nat
  deriving Repr

def unpackRHdr (msg : Bytes) (off : Nat) : Res (RHdr × Nat) := do
  let (n, off) ← unpackName msg off
  let (t, off) ← u16At msg off
  let (c, off) ← u16At msg off
  let (ttl, off) ← u32At msg off
  let (l, off) ← u16At msg off
  .ok (⟨n, t, c, ttl, l⟩, off)

/-- The per-type `unpack` methods of rr.go; `len` is the header's RDLENGTH. -/
def unpackRData (msg : Bytes) (off : Nat) (rtype len : Nat) : Res (RData × Nat) :=
  if rtype = typeA then
    if len ≠ 4 then .err else do
      let (b, off) ← bytesAt msg off 4
      .ok (.a b, off)
  else if rtype = typeAAAA then
    if len ≠ 16 then .err else do
      let (b, off) ← bytesAt msg off 16
      .ok (.aaaa b, off)
  else if rtype = typeMX then do
    let (pref, o) ← u16At msg off
    let (n, o) ← unpackName msg o
    if o - off ≠ len then .err else .ok (.mx pref n, o)
  else if rtype = typeCNAME ∨ rtype = typeNS ∨ rtype = typePTR then do
    let (n, o) ← unpackName msg off
    if o - off ≠ len then .err else .ok (.name n, o)
  else if rtype = typeSOA then do
    let (ns, o) ← unpackName msg off
    let (mbox, o) ← unpackName msg o
    let (serial, o) ← u32At msg o
    let (refresh, o) ← u32At msg o
    let (retry, o) ← u32At msg o
    let (expire, o) ← u32At msg o
    let (minttl, o) ← u32At msg o
    if o - off ≠ len then .err else .ok (.soa ns mbox serial refresh retry expire minttl, o)
  else if rtype = typeSRV then do
    let (prio, o) ← u16At msg off
    let (weight, o) ← u16At msg o
    let (port, o) ← u16At msg o
    let (target, o) ← unpackName msg o
    if o - off ≠ len then .err else .ok (.srv prio weight port target, o)
  else do
    let (b, o) ← bytesAt msg off len
    .ok (.raw b, o)

def unpackResource (msg : Bytes) (off : Nat) : Res (Resource × Nat) := do
  let (h, off) ← unpackRHdr msg off
  let (rd, off) ← unpackRData msg off h.rtype h.length
  .ok (⟨h.name, h.rtype, h.rclass, h.ttl, rd⟩, off)

/-- The count-driven loops of `Msg.Unpack`. -/
def unpackQuestions (msg : Bytes) : Nat → Nat → Res (List Question × Nat)
  | 0, off => .ok ([], off)
  | n + 1, off => do
    let (q, off) ← unpackQuestion msg off
    let (qs, off) ← unpackQuestions msg n off
    .ok (q :: qs, off)

def unpackResources (msg : Bytes) : Nat → Nat → Res (List Resource × Nat)
  | 0, off => .ok ([], off)
  | n + 1, off => do
    let (r, off) ← unpackResource msg off
    let (rs, off) ← unpackResources msg n off
    .ok (r :: rs, off)

def testBit (bits : Nat) (k : Nat) : Bool := (bits / 2 ^ k) % 2 = 1

/-- `header.header()` -/
def headerOfBits (id bits : Nat) : Header :=
  { id := id
    response := testBit bits 15
    opcode := (bits / 2048) % 16
    authoritative := testBit bits 10
    truncated := testBit bits 9
    rd := testBit bits 8
    ra := testBit bits 7
    ad := testBit bits 5
    cd := testBit bits 4
    rcode := bits % 16
    z := testBit bits 6 }

/-- `Msg.Unpack` (with `header.unpack`). -/
def unpackMsg (msg : Bytes) : Res Msg := do
  let hdr ← sliceFrom msg 0
  match hdr with
  | i0 :: i1 :: b0 :: b1 :: q0 :: q1 :: a0 :: a1 :: n0 :: n1 :: x0 :: x1 :: _ =>
    let (qs, off) ← unpackQuestions msg (be16 q0 q1) 12
    let (an, off) ← unpackResources msg (be16 a0 a1) off
    let (ns, off) ← unpackResources msg (be16 n0 n1) off
    let (ar, _) ← unpackResources msg (be16 x0 x1) off
    .ok ⟨headerOfBits (be16 i0 i1) (be16 b0 b1), qs, an, ns, ar⟩
  | _ => .err

/-- Offset after the last record (used by framing models). -/
def unpackMsgEnd (msg : Bytes) : Res (Msg × Nat) := do
  let hdr ← sliceFrom msg 0
  match hdr with
  | i0 :: i1 :: b0 :: b1 :: q0 :: q1 :: a0 :: a1 :: n0 :: n1 :: x0 :: x1 :: _ =>
    let (qs, off) ← unpackQuestions msg (be16 q0 q1) 12
    let (an, off) ← unpackResources msg (be16 a0 a1) off
    let (ns, off) ← unpackResources msg (be16 n0 n1) off
    let (ar, off) ← unpackResources msg (be16 x0 x1) off
    .ok (⟨headerOfBits (be16 i0 i1) (be16 b0 b1), qs, an, ns, ar⟩, off)
  | _ => .err

end MosVerif.Wire
