/-
  Go semantics prelude for the byte-slice mode of /verif/extract/gotolean (`extract/gotolean/bytes.go`).
  `MosVerif/Generated/TranslatedCodec.lean` is generated against THIS file and nothing else; everything here is
  hand-written and therefore trusted: keep it small.  Core Lean only.

  Conventions
  * `[]byte` (also `Name`, `pool.Buffer`) is `Bytes = List UInt8`.  A slice is its contents: capacity and aliasing
    are not modelled.  Consequences, each made explicit below: a reslice `b[:hi]` with `len(b) < hi ≤ cap(b)` is
    reported as `panic` (no translated fragment does that); a callee that writes through a slice argument
    (`copy(dst, …)`) returns the new contents as an extra result which the caller assigns back; the one place that
    relies on aliasing with an array (`name := n.buf[:0]` … `n.ToName()`) is the primitive `builderToName`.
  * A Go call is a value of `Res α` (`Wire.Res`): `.ok` (returned with a nil error), `.err` (returned ANY non-nil
    error; error identities and the other results that accompany an error are not modelled), `.panic` (run-time
    panic: slice bounds / index out of range).
  * `uint8/uint16/uint32` values are `Nat` below their modulus; the translator emits the `% 2^w` of conversions and
    of wrapping arithmetic explicitly.
  * Go `int` is `Nat`.  Justification: every `int` of the translated fragments is an offset or a length — it is
    `len(x)`, a constant, a converted unsigned value, or `off + k` / a 14-bit pointer built from those; the
    entry points are called with `off = 0` (`Msg.Unpack`) and a negative value cannot arise.  64-bit overflow is
    not modelled (offsets are bounded by `len(msg) + 2^16`).  The ONE operation that could leave ℕ, subtraction of
    `int`s, is translated into `Int` (`(↑a - ↑b : Int)`): such a value can be compared, added to, kept in a variable
    of its own (which is then an `Int`, never one of the ℕ variables), converted to an unsigned type (two's
    complement: `Int.toNat (x % 2^w)`), or used as an index / slice bound through `natOfInt` (negative: panic).
  * Pool buffers (`pool.GetBuf`, `copyBuf`) are plain copies.
-/
import MosVerif.Model.Wire
namespace MosVerif.GoSem
open MosVerif.Wire (Bytes Res)

instance {α : Type} : Inhabited (Res α) := ⟨.err⟩

/-- `len(b)` -/
@[reducible] def len (b : Bytes) : Nat := b.length

/-- `b[lo:]`: panics when `lo > len(b)`. -/
def sliceFrom (b : Bytes) (lo : Nat) : Res Bytes :=
  if lo ≤ b.length then .ok (b.drop lo) else .panic

/-- `b[:hi]`: panics when `hi > len(b)` (see the note on capacity above). -/
def sliceTo (b : Bytes) (hi : Nat) : Res Bytes :=
  if hi ≤ b.length then .ok (b.take hi) else .panic

/-- `b[lo:hi]`: panics unless `lo ≤ hi ≤ len(b)`. -/
def slice (b : Bytes) (lo hi : Nat) : Res Bytes :=
  if lo ≤ hi ∧ hi ≤ b.length then .ok ((b.take hi).drop lo) else .panic

/-- `b[i]` (as a number): panics when `i ≥ len(b)`. -/
def index (b : Bytes) (i : Nat) : Res Nat :=
  if h : i < b.length then .ok (b[i]'h).toNat else .panic

/-- `binary.BigEndian.Uint16(b)`: panics when `len(b) < 2`. -/
def beUint16 (b : Bytes) : Res Nat :=
  match b with
  | a :: c :: _ => .ok (Wire.be16 a c)
  | _ => .panic

/-- `binary.BigEndian.Uint32(b)`: panics when `len(b) < 4`. -/
def beUint32 (b : Bytes) : Res Nat :=
  match b with
  | a :: c :: d :: e :: _ => .ok (Wire.be32 a c d e)
  | _ => .panic

/-- `append(b, byte(v))` -/
def appendByte (b : Bytes) (v : Nat) : Bytes := b ++ [UInt8.ofNat v]

/-- `append(b, s...)` -/
def appendBytes (b s : Bytes) : Bytes := b ++ s

/-- contents of `dst` after `copy(dst, src)`: `min(len(dst), len(src))` octets are overwritten. -/
def copy (dst src : Bytes) : Bytes := src.take dst.length ++ dst.drop src.length

/-! ### writes through a slice

  A function that writes through a slice parameter returns the slice's new contents (see the conventions above).
  A write through a RESLICE `b[lo:hi]` (an argument `f(b[lo:hi], …)`, `copy(b[lo:], …)`, `PutUint16(b[lo:], …)`, or a
  local `w := b[lo:hi]` that is written through later) is three steps: take the window (`slice`/`sliceFrom`/`sliceTo`,
  with Go's bounds panics), apply the operation to the window's contents, and put the new contents back with `splice`.
  Every operation below keeps the length of the window, which is what makes `splice` the write-back. -/

/-- `b[i] = byte(v)`: panics when `i ≥ len(b)`. -/
def setIndex (b : Bytes) (i v : Nat) : Res Bytes :=
  if i < b.length then .ok (b.set i (UInt8.ofNat v)) else .panic

/-- contents of `b` after the window that starts at `lo` received the contents `w`. -/
def splice (b : Bytes) (lo : Nat) (w : Bytes) : Bytes := b.take lo ++ w ++ b.drop (lo + w.length)

/-- contents of `b` after `binary.BigEndian.PutUint16(b, v)` (`b[0] = byte(v >> 8); b[1] = byte(v)`): panics when
    `len(b) < 2`. -/
def putUint16 (b : Bytes) (v : Nat) : Res Bytes :=
  match b with
  | _ :: _ :: r => .ok (UInt8.ofNat (v / 256) :: UInt8.ofNat v :: r)
  | _ => .panic

/-- contents of `b` after `binary.BigEndian.PutUint32(b, v)`: panics when `len(b) < 4`. -/
def putUint32 (b : Bytes) (v : Nat) : Res Bytes :=
  match b with
  | _ :: _ :: _ :: _ :: r =>
    .ok (UInt8.ofNat (v / 16777216) :: UInt8.ofNat (v / 65536) :: UInt8.ofNat (v / 256) :: UInt8.ofNat v :: r)
  | _ => .panic

/-- an `int` difference used as an index or slice bound: a negative index panics. -/
def natOfInt (i : Int) : Res Nat := if 0 ≤ i then .ok i.toNat else .panic

/-- `pool.GetBuf(size)`: a slice of length `size` over a RECYCLED array — its contents are whatever the array held
    before (`dirty`, a parameter of the translated function), zeros where the array is fresh. -/
def getBuf (dirty : Bytes) (size : Nat) : Bytes := dirty.take size ++ List.replicate (size - dirty.length) 0

/-! ### `map[string]uint16`

  `none` is the nil map; otherwise the bindings, NEWEST FIRST: an insertion prepends, a lookup takes the first binding
  of the key — so a later insertion of the same key overrides the earlier one, as in Go.  Strings are their octets.
  A map is a reference: a function that inserts returns the map as an extra result (like a slice written through).
  Iteration order, `len`, `delete` are not modelled (no translated fragment uses them). -/
abbrev Map := Option (List (Bytes × Nat))

/-- `m == nil` -/
def Map.isNil (m : Map) : Bool := m.isNone

/-- the first (newest) binding of `k` -/
def Map.find : List (Bytes × Nat) → Bytes → Option Nat
  | [], _ => none
  | (k', v) :: rest, k => if k' = k then some v else Map.find rest k

/-- `v, ok := m[k]`: a nil map has no bindings; a missing key yields the zero value. -/
def Map.lookup (m : Map) (k : Bytes) : Nat × Bool :=
  match m with
  | none => (0, false)
  | some l =>
    match Map.find l k with
    | some v => (v, true)
    | none => (0, false)

/-- `m[k] = v`: assignment to an entry of a nil map panics. -/
def Map.insert (m : Map) (k : Bytes) (v : Nat) : Res Map :=
  match m with
  | none => .panic
  | some l => .ok (some ((k, v) :: l))

/-- `NameBuilder.ToName()` after `NameBuilder.unpack` built `name` by appending to `n.buf[:0]` and stored
    `n.l = uint8(len(name))`: a copy of `n.buf[:n.l]`. `n.buf` is a 254-byte array; while `len(name) ≤ 254` the
    appends wrote in place and `n.buf[:n.l]` IS `name`. Beyond that `append` would have reallocated and the array
    holds a stale prefix: that (unreachable) case is reported as `panic`, as the model does. -/
def builderToName (name : Bytes) (l : Nat) : Res Bytes :=
  if name.length > 254 then .panic else .ok (name.take l)

/-! ### loops

  A Go `for` loop is translated to a step function `step : σ → Res (σ ⊕ ρ)` over the variables assigned in its body
  (`.inl s'`: next iteration with state `s'`; `.inr r`: the FUNCTION returns `r` — the statements after the loop are
  part of the step that leaves it).  `loop step s` is the value of running the loop from `s`; it is characterised by
  the unfolding equation `loop_unfold` alone.  (Lean functions are total: from a state where the Go loop would run
  forever `loop` has the junk value `.panic`; the equivalence theorems prove termination, so no junk is ever used.) -/

/-- at most `n` iterations -/
def iter {σ ρ : Type} (step : σ → Res (σ ⊕ ρ)) : Nat → σ → Option (Res ρ)
  | 0, _ => none
  | n + 1, s =>
    match step s with
    | .ok (.inl s') => iter step n s'
    | .ok (.inr r) => some (.ok r)
    | .err => some .err
    | .panic => some .panic

theorem iter_succ_of_some {σ ρ : Type} (step : σ → Res (σ ⊕ ρ)) :
    ∀ (n : Nat) (s : σ) (r : Res ρ), iter step n s = some r → iter step (n + 1) s = some r := by
  intro n
  induction n with
  | zero => intro s r h; simp [iter] at h
  | succ n ih =>
    intro s r h
    rw [iter] at h
    rw [iter]
    cases hs : step s with
    | ok x =>
      cases x with
      | inl s' => rw [hs] at h; simp only at h ⊢; exact ih s' r h
      | inr v => rw [hs] at h; simpa using h
    | err => rw [hs] at h; simpa using h
    | panic => rw [hs] at h; simpa using h

theorem iter_mono {σ ρ : Type} (step : σ → Res (σ ⊕ ρ)) (n m : Nat) (s : σ) (r : Res ρ)
    (h : iter step n s = some r) (hm : n ≤ m) : iter step m s = some r := by
  induction hm with
  | refl => exact h
  | step _ ih => exact iter_succ_of_some step _ s r ih

open Classical in
/-- the value of the loop started in state `s` -/
noncomputable def loop {σ ρ : Type} (step : σ → Res (σ ⊕ ρ)) (s : σ) : Res ρ :=
  if h : ∃ n r, iter step n s = some r then Classical.choose (Classical.choose_spec h) else .panic

theorem loop_eq_of_iter {σ ρ : Type} (step : σ → Res (σ ⊕ ρ)) (n : Nat) (s : σ) (r : Res ρ)
    (h : iter step n s = some r) : loop step s = r := by
  have hex : ∃ n r, iter step n s = some r := ⟨n, r, h⟩
  unfold loop
  rw [dif_pos hex]
  have h1 := Classical.choose_spec (Classical.choose_spec hex)
  have h2 := iter_mono step _ (max n (Classical.choose hex)) s _ h1 (Nat.le_max_right _ _)
  have h3 := iter_mono step _ (max n (Classical.choose hex)) s _ h (Nat.le_max_left _ _)
  rw [h2] at h3
  exact Option.some.inj h3

/-- THE characterisation of `loop`: one iteration. -/
theorem loop_unfold {σ ρ : Type} (step : σ → Res (σ ⊕ ρ)) (s : σ) :
    loop step s =
      match step s with
      | .ok (.inl s') => loop step s'
      | .ok (.inr r) => .ok r
      | .err => .err
      | .panic => .panic := by
  cases hs : step s with
  | ok x =>
    cases x with
    | inl s' =>
      simp only
      by_cases hex : ∃ n r, iter step n s' = some r
      · obtain ⟨n, r, h⟩ := hex
        rw [loop_eq_of_iter step n s' r h]
        apply loop_eq_of_iter step (n + 1) s r
        rw [iter, hs]; exact h
      · have hex2 : ¬ ∃ n r, iter step n s = some r := by
          rintro ⟨n, r, h⟩
          cases n with
          | zero => simp [iter] at h
          | succ n => rw [iter, hs] at h; exact hex ⟨n, r, h⟩
        unfold loop
        rw [dif_neg hex, dif_neg hex2]
    | inr v => exact loop_eq_of_iter step 1 s _ (by rw [iter, hs])
  | err => exact loop_eq_of_iter step 1 s _ (by rw [iter, hs])
  | panic => exact loop_eq_of_iter step 1 s _ (by rw [iter, hs])

/-- A total function that satisfies the unfolding equation and comes with a measure that every continuing
    iteration decreases IS the loop. -/
theorem loop_unique {σ ρ : Type} {α : Type} (step : σ → Res (σ ⊕ ρ)) (f : σ → Res ρ)
    (r : α → α → Prop) (hwf : WellFounded r) (μ : σ → α)
    (hdec : ∀ s s', step s = .ok (.inl s') → r (μ s') (μ s))
    (hf : ∀ s, f s = match step s with
      | .ok (.inl s') => f s'
      | .ok (.inr r) => .ok r
      | .err => .err
      | .panic => .panic) :
    ∀ s, f s = loop step s := by
  intro s
  generalize ha : μ s = a
  induction a using hwf.induction generalizing s with
  | _ a ih =>
    rw [hf s, loop_unfold step s]
    cases hs : step s with
    | ok x =>
      cases x with
      | inl s' => exact ih (μ s') (ha ▸ hdec s s' hs) s' rfl
      | inr v => rfl
    | err => rfl
    | panic => rfl

/-- `loop_unique` with a post-processing `g` of the loop's result. -/
theorem loop_unique_bind {σ ρ β : Type} {α : Type} (step : σ → Res (σ ⊕ ρ)) (g : ρ → Res β) (f : σ → Res β)
    (r : α → α → Prop) (hwf : WellFounded r) (μ : σ → α)
    (hdec : ∀ s s', step s = .ok (.inl s') → r (μ s') (μ s))
    (hf : ∀ s, f s = match step s with
      | .ok (.inl s') => f s'
      | .ok (.inr v) => g v
      | .err => .err
      | .panic => .panic) :
    ∀ s, f s = Res.bind (loop step s) g := by
  intro s
  generalize ha : μ s = a
  induction a using hwf.induction generalizing s with
  | _ a ih =>
    rw [hf s, loop_unfold step s]
    cases hs : step s with
    | ok x =>
      cases x with
      | inl s' => exact ih (μ s') (ha ▸ hdec s s' hs) s' rfl
      | inr v => rfl
    | err => rfl
    | panic => rfl

end MosVerif.GoSem
