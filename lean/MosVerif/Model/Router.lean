/-
  Request handling model (C03, C10, C12).  Mirrors /repo/app/router:
    router.go  handleServerReq (deferred "always a response"), handleReqMsg (NOTIMP predicate, lower-cased copy
               of the question, EDNS0 echo, header fix-up), handleReq (first-match rule scan, reject, forward),
               forward (packReq, exchange, question check, RemoveEDNS0), makeEmptyRespM, makeEmptyResp, packReq
    utils.go   addOrReplaceOpt, newEDNS0
    ecs.go     makeEdns0ClientSubnetReqOpt
  The cache is absent in this model (`cache.Get` misses, `Store` is a no-op): cached paths are C07/C08/C19.
  Domain sets are modelled by their specification (label-suffix match, proved equivalent to the trie in C11).
  The upstream is a parameter: for each upstream tag the case says what an exchange returns.
-/
import MosVerif.Model.Pack
namespace MosVerif.Router
open MosVerif MosVerif.Wire

/-! ### client addresses (netip.Addr) -/
inductive Addr where
  | none                      -- invalid / unknown (e.g. unix socket)
  | v4 (b : Bytes)            -- 4 octets
  | v6 (b : Bytes)            -- 16 octets (may be IPv4-mapped)
  deriving Repr, DecidableEq

def Addr.isValid : Addr → Bool
  | .none => false
  | _ => true

/-- `Addr.Unmap` -/
def Addr.unmap : Addr → Addr
  | .v6 b => if b.take 10 = List.replicate 10 0 ∧ (b.drop 10).take 2 = [255, 255] then .v4 (b.drop 12) else .v6 b
  | a => a

/-! ### ECS (ecs.go) -/
def ecsMask4 : Nat := Facts.ecs_mask4
def ecsMask6 : Nat := Facts.ecs_mask6
def ecsKeep4 : Nat := Facts.ecs_truncated4
def ecsKeep6 : Nat := Facts.ecs_truncated6
/-- `length4 = 2 + 1 + 1 + truncated4` (FAMILY + SOURCE PREFIX-LENGTH + SCOPE PREFIX-LENGTH + address); tied to the
    source by translation (`Lemmas/TranslatedC12.lean`) -/
def ecsLen4 : Nat := 4 + ecsKeep4
def ecsLen6 : Nat := 4 + ecsKeep6
/-- `family4` / `family6` (IANA address family numbers) -/
def ecsFamily4 : Nat := 1
def ecsFamily6 : Nat := 2

/-- mask the address to `bits` leading bits (`addr.Prefix(bits).Addr()`) -/
def maskBytes (b : Bytes) (bits : Nat) : Bytes :=
  (List.range b.length).map fun i =>
    match b[i]? with
    | some x =>
      if (i + 1) * 8 ≤ bits then x
      else if i * 8 ≥ bits then 0
      else UInt8.ofNat (x.toNat / 2 ^ (8 - (bits - i * 8)) * 2 ^ (8 - (bits - i * 8)))
    | none => 0

/-- `makeEdns0ClientSubnetReqOpt`: OPTION-CODE 8, OPTION-LENGTH, FAMILY, SOURCE PREFIX-LENGTH, SCOPE 0, address prefix. -/
def makeECS (a : Addr) : Option Bytes :=
  match a.unmap with
  | .v4 b => some (enc16 8 ++ enc16 ecsLen4 ++ enc16 ecsFamily4 ++ [UInt8.ofNat ecsMask4, 0] ++ (maskBytes b ecsMask4).take ecsKeep4)
  | .v6 b => some (enc16 8 ++ enc16 ecsLen6 ++ enc16 ecsFamily6 ++ [UInt8.ofNat ecsMask6, 0] ++ (maskBytes b ecsMask6).take ecsKeep6)
  | .none => none

/-! ### EDNS0 helpers (utils.go) -/
def udpSize : Nat := Facts.udpSize

/-- `if udpSize < 512 { udpSize = 512 }` of `newEDNS0` (tied to the source by translation) -/
@[simp] def ednsSize (size : Nat) : Nat := if size < 512 then 512 else size

/-- `newEDNS0(udpSize)`: root owner, class = max 512 size, TTL 0, no options. -/
def newEDNS0 (size : Nat) (data : Bytes) : Resource :=
  ⟨[], typeOPT, ednsSize size, 0, .raw data⟩

/-- `addOrReplaceOpt` -/
def addOrReplaceOpt (m : Msg) : Msg :=
  let (_, ar) := popEDNS0 m.additionals
  { m with additionals := ar ++ [newEDNS0 udpSize []] }

/-- the `PopEDNS0` + release in handleReqMsg (one OPT of the additional section, swap-remove) -/
def removeEDNS0 (m : Msg) : Msg := { m with additionals := (popEDNS0 m.additionals).2 }

/-- `removeOpt`: the records that are not OPT, order kept -/
def removeOpt (rs : List Resource) : List Resource := rs.filter (fun r => r.rtype != typeOPT)

/-- `dnsmsg.RemoveEDNS0` (called by `forward` on every upstream reply): every OPT record of every section goes -/
def stripOpt (m : Msg) : Msg :=
  { m with answers := removeOpt m.answers, authorities := removeOpt m.authorities, additionals := removeOpt m.additionals }

/-- `queryOpt(m) != nil`: the query has an OPT record in some section -/
def queryHasOptAny (m : Msg) : Bool :=
  m.additionals.any (fun r => r.rtype == typeOPT) || m.authorities.any (fun r => r.rtype == typeOPT)
    || m.answers.any (fun r => r.rtype == typeOPT)

/-! ### names -/
def lowerByte (b : UInt8) : UInt8 := if 65 ≤ b.toNat ∧ b.toNat ≤ 90 then UInt8.ofNat (b.toNat + 32) else b

/-- `dnsmsg.ToLowerName` on a well-formed name: length octets are ≤ 63 and therefore not letters,
    so lower-casing every octet equals lower-casing the labels. -/
def lowerName (n : Name) : Name := n.map lowerByte

/-- labels of a (well-formed) name, [] for the root -/
def labels (n : Name) : List Bytes := (scanName n).getD []

/-- `e` is a suffix of `n` on a label boundary (the specification of a `domain:` entry). -/
def labelSuffix (e n : Name) : Bool :=
  let le := labels e
  let ln := labels n
  le.length ≤ ln.length && ln.drop (ln.length - le.length) == le

/-! ### rules -/
structure Rule where
  /-- `none`: no domain condition. `some es`: the entries of the rule's domain set (wire names, lower case). -/
  domains : Option (List Name)
  reverse : Bool
  reject : Nat
  upstream : Option Nat
  deriving Repr

def Rule.applies (r : Rule) (qname : Name) : Bool :=
  match r.domains with
  | none => true
  | some es =>
    let matched := es.any (fun e => labelSuffix e qname)
    if r.reverse then !matched else matched

/-! ### upstream outcomes -/
inductive UpOutcome where
  | fail : UpOutcome
  | reply (m : Msg) : UpOutcome
  deriving Repr

structure Env where
  ecs : Bool
  addr : Addr
  rules : List Rule
  ups : List UpOutcome
  deriving Repr

/-- what the handler did besides answering: every upstream exchange as (tag index, query bytes) -/
structure Out where
  resp : Msg
  ruleIdx : Nat
  forwards : List (Nat × Bytes)
  deriving Repr

def emptyHdr : Header := ⟨0, false, 0, false, false, false, false, false, false, 0, false⟩

/-- `makeEmptyRespM(m, rcode)` -/
def makeEmptyRespM (m : Msg) (rcode : Nat) : Msg :=
  { hdr := { emptyHdr with id := m.hdr.id, opcode := m.hdr.opcode, response := true, rd := m.hdr.rd, ra := true, rcode := rcode }
    questions := m.questions.take 1, answers := [], authorities := [], additionals := [] }

/-- `makeEmptyResp(q, rc, rcode)` -/
def makeEmptyResp (q : Question) (rcode : Nat) : Msg :=
  { hdr := { emptyHdr with rcode := rcode }, questions := [q], answers := [], authorities := [], additionals := [] }

/-- the guard of the ECS option in `packReq`: `r.opt.ecsEnabled && remoteAddr.IsValid()` (tied to the source by
    translation) -/
@[simp] def ecsGuard (ecsEnabled addrValid : Bool) : Bool := ecsEnabled && addrValid

/-- `packReq`: RD, one question, one OPT (class udpSize) carrying ECS iff enabled and the address is valid. -/
def reqMsg (env : Env) (q : Question) : Msg :=
  let data := if ecsGuard env.ecs env.addr.isValid then (makeECS env.addr).getD [] else []
  { hdr := { emptyHdr with rd := true }, questions := [q], answers := [], authorities := [],
    additionals := [newEDNS0 udpSize data] }

def packReq (env : Env) (q : Question) : Res Bytes :=
  let m := reqMsg env q
  packMsg m false 0 (msgLen m)

/-- `isRespOfQuestion`: exactly one question, same class and type, same name ASCII-case-insensitively. -/
def isRespOfQuestion (resp : Msg) (q : Question) : Bool :=
  match resp.questions with
  | [rq] => rq.qclass == q.qclass && rq.qtype == q.qtype && rq.name.length == q.name.length
      && lowerName rq.name == lowerName q.name
  | _ => false

def rcodeRefused : Nat := 5
def rcodeServFail : Nat := 2
def rcodeNotImp : Nat := 4

/-- the rule scan of `handleReq`: first rule (with its index) whose condition holds -/
def findRule (qname : Name) : Nat → List Rule → Option (Nat × Rule)
  | _, [] => none
  | i, r :: rs => if r.applies qname then some (i, r) else findRule qname (i + 1) rs

/-- `rejectRCode := matchedRule.reject; rejectRCode > 0`: the matched rule is a reject rule (tied to the source by
    translation, `Lemmas/TranslatedC10.lean`) -/
@[simp] def isReject (rejectRCode : Nat) : Bool := decide (rejectRCode > 0)

/-- `handleReq` (cache absent). Returns the response, the matched rule index and the forwards. -/
def handleReq (env : Env) (q : Question) : Msg × Nat × List (Nat × Bytes) :=
  match findRule q.name 0 env.rules with
  | none => (makeEmptyResp q rcodeRefused, 0, [])
  | some (i, r) =>
    if isReject r.reject then (makeEmptyResp q r.reject, i, [])
    else match r.upstream with
      | none => (makeEmptyResp q rcodeRefused, i, [])
      | some u =>
        match packReq env q with
        | .ok wire =>
          match env.ups[u]? with
          | some (.reply resp) =>
            if isRespOfQuestion resp q then (stripOpt resp, i, [(u, wire)])
            else (makeEmptyResp q rcodeServFail, i, [(u, wire)])
          | _ => (makeEmptyResp q rcodeServFail, i, [(u, wire)])
        | _ => (makeEmptyResp q rcodeServFail, i, [])

/-- `handleReqMsg` + `handleServerReq` (no middlewares, request deadline not reached). -/
def handle (env : Env) (m : Msg) : Out :=
  let notImpl := m.hdr.response || !m.hdr.rd || m.hdr.opcode != 0 || m.questions.length != 1
  let (resp, idx, fw) :=
    if notImpl then (makeEmptyRespM m rcodeNotImp, 0, [])
    else
      match m.questions with
      | q0 :: _ =>
        let q : Question := { q0 with name := lowerName q0.name }
        let (resp, idx, fw) := handleReq env q
        let clientEDNS0 := queryHasOptAny m
        let resp := if clientEDNS0 then addOrReplaceOpt resp else removeEDNS0 resp
        (resp, idx, fw)
      | [] => (makeEmptyRespM m rcodeNotImp, 0, [])
  let resp := { resp with hdr := { resp.hdr with id := m.hdr.id, response := true, opcode := m.hdr.opcode, ra := true, rd := m.hdr.rd } }
  ⟨resp, idx, fw⟩

end MosVerif.Router
