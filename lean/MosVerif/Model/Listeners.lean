/-
  Listener-level observations (C01, C03, C04): what a client of a real listener must see.
  The prediction uses the decoder model only (`unpackMsg`): an undecodable unit is rejected in the
  listener's own way (datagram dropped, connection/stream closed, HTTP 400) and a decodable one is
  answered; after either, a valid query on the same listener is answered.  For the concurrent
  `serve` runs the prediction is schedule independent: every query gets exactly one response that
  is its own (C04's `answers_own`), so all counters equal the number of queries.
-/
import MosVerif.Model.Wire
-- @component malformed MosVerif.Listeners.runMalformed
-- @component serve MosVerif.Listeners.runServe
-- @component mixstress MosVerif.Listeners.runMixStress
namespace MosVerif.Listeners
open MosVerif MosVerif.Wire

/-- how each listener kind rejects a unit it cannot decode -/
def rejection (kind : String) : String :=
  if kind == "udp" then "none"
  else if kind == "http" ∨ kind == "https" ∨ kind == "fasthttp" then "http:400"
  else "closed"       -- tcp, gnet, tls: connection closed; quic: stream closed without a response

def predictFirst (kind : String) (bytes : Bytes) : String :=
  match unpackMsg bytes with
  | .ok _ => "resp"
  | _ => rejection kind

def runMalformed (case impl : String) : String × String :=
  let toks := words case
  match kvGet toks "kind", (kvGet toks "bytes").bind bytesOfHex with
  | some kind, some b =>
    let out := s!"first={predictFirst kind b} next=ok"
    let itoks := words impl
    let v :=
      if impl == "panic" then "viol:panic"
      else if kvGet itoks "next" != some "ok" then "viol:stopped-serving"
      else match unpackMsg b, kvGet itoks "first" with
        | .ok _, _ => "ok"
        | _, some "resp" => "viol:answered-undecodable"
        | _, _ => "ok"
    (out, v)
  | _, _ => ("bad-case", "na")

def judgeCounts (n : Option Nat) (impl : String) : String × String :=
  match n with
  | some n =>
    let out := s!"sent={n} answered={n} once={n} idok={n} own={n} rcodeok={n}"
    let it := words impl
    let v :=
      if impl == "panic" then "viol:panic"
      else match kvNat it "answered", kvNat it "once", kvNat it "idok", kvNat it "own", kvNat it "rcodeok" with
        | some a, some o, some i, some w, some r =>
          if a ≠ n then "viol:C03:missing-response"
          else if o ≠ n then "viol:C03:duplicate-response"
          else if i ≠ n then "viol:C03:header"
          else if w ≠ n then "viol:C04:not-own-answer"
          else if r ≠ n then "viol:C03:rcode"
          else "ok"
        | _, _, _, _, _ => "unparsed"
    (out, v)
  | none => ("bad-case", "na")

def runServe (case impl : String) : String × String :=
  judgeCounts (kvNat (words case) "n") impl

/-- `mixstress`: rounds × 8 listener kinds × clients × queries per client -/
def runMixStress (case impl : String) : String × String :=
  let toks := words case
  let n := do
    let r ← kvNat toks "rounds"
    let c ← kvNat toks "clients"
    let p ← kvNat toks "per"
    pure (r * 8 * c * p)
  judgeCounts n impl

end MosVerif.Listeners
