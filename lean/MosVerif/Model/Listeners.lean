/-
  Listener-level observations (C01, C03, C04): what a client of a real listener must see.
  The prediction uses the decoder model only (`unpackMsg`): an undecodable unit is rejected in the
  listener's own way (datagram dropped, connection/stream closed, HTTP 400) and a decodable one is
  answered; after either, a valid query on the same listener is answered.  For the concurrent
  `serve` runs the prediction is schedule independent: every query gets exactly one response that
  is its own (C04's `answers_own`), so all counters equal the number of queries.
-/
import MosVerif.Model.Router
-- @component malformed MosVerif.Listeners.runMalformed
-- @component serve MosVerif.Listeners.runServe
-- @component rawhttp MosVerif.Listeners.runRawHttp
-- @component dohgetpad MosVerif.Listeners.runDohGetPad
-- @component refusedopt MosVerif.Listeners.runRefusedOpt
-- @component mixstress MosVerif.Listeners.runMixStress
-- @component udpsize MosVerif.Listeners.runUdpSize
-- @component handlemix MosVerif.Listeners.runHandleMix
namespace MosVerif.Listeners
open MosVerif MosVerif.Wire

/-- how each listener kind rejects a unit it cannot decode -/
def rejection (kind : String) : String :=
  if kind == "udp" then "none"
  else if kind == "http" ∨ kind == "https" ∨ kind == "fasthttp" then "http:400"
  else "closed"       -- tcp, gnet, tls: connection closed; quic: stream closed without a response

def predictFirst (kind : String) (bytes : Bytes) : String :=
  match unpackMsg bytes with
  | .ok _ => "resp"
  | _ => rejection kind

/-- `via=raw` on a stream listener: the client's octets are the stream itself, so the 2-octet length prefix is
the client's claim. The listener reads the prefix, then exactly that many octets (`ReadMsgFromTCP`, the gnet
reassembly, the DoQ stream reader) and decodes them; an incomplete unit is waited for (the QUIC client has
closed its sending side, so there the stream ends instead). `none` = nothing arrives while the client waits. -/
def predictRaw (kind : String) (b : Bytes) : String :=
  let incomplete := if kind == "quic" then "closed" else "none"
  match b with
  | h :: l :: rest =>
    let n := h.toNat * 256 + l.toNat
    if rest.length < n then incomplete
    else if rest.length > n then "any"
    else predictFirst kind rest
  | _ => incomplete

def runMalformed (case impl : String) : String × String :=
  let toks := words case
  match kvGet toks "kind", (kvGet toks "bytes").bind bytesOfHex with
  | some kind, some b0 =>
    let raw := kvGet toks "via" == some "raw"
    let b := if raw then (b0.drop 2).take ((b0.getD 0 0).toNat * 256 + (b0.getD 1 0).toNat) else b0
    let out := if raw then s!"first={predictRaw kind b0} next=ok" else s!"first={predictFirst kind b} next=ok"
    let itoks := words impl
    let v :=
      if impl == "panic" then "viol:panic"
      else if kvGet itoks "next" != some "ok" then "viol:stopped-serving"
      else match unpackMsg b, kvGet itoks "first" with
        | .ok _, _ => "ok"
        | _, some "resp" => "viol:answered-undecodable"
        | _, _ => "ok"
    (out, v)
  | _, _ => ("bad-case", "na")

/-- `rawhttp`: raw request bytes written to an HTTP listener. The HTTP parsing layer (net/http, fasthttp) is
outside the model; whatever it hands to the handler is a byte string, on which `unpackMsg` is total
(`Props/C01`), so the only prediction is: no crash and the listener keeps serving. -/
def runRawHttp (_case impl : String) : String × String :=
  let itoks := words impl
  let v :=
    if impl == "panic" then "viol:panic"
    else if kvGet itoks "next" != some "ok" then "viol:stopped-serving"
    else "ok"
  ("next=ok", v)

/-- `dohgetpad`: a DoH GET whose `dns` value is the base64 of a bare 12-octet header with QDCOUNT=1, padded with
CR/LF (which base64 decoding skips) up to the encoded length of a preceding victim query. The decoded message is
those 12 octets: `unpackMsg` fails on them (the announced question is missing; corpus/unpack), so the
listener rejects; what lies behind them in the pooled buffer is another request's data (C20) and must never be
parsed or echoed. -/
def runDohGetPad (case impl : String) : String × String :=
  let n := (kvNat (words case) "rounds").getD 0
  let it := words impl
  let v :=
    if impl == "panic" then "viol:panic"
    else match kvNat it "leaked", kvNat it "accepted", kvNat it "victims" with
      | some l, some a, some vq =>
        if l ≠ 0 then "viol:C20:recycled-buffer-of-another-request-echoed"
        else if a ≠ 0 then "viol:C01:undecodable-message-accepted"
        else if vq ≠ n then "viol:C03:missing-response"
        else "ok"
      | _, _, _ => "unparsed"
  (s!"leaked=0 accepted=0 victims={n} of={n}", v)

/-- `refusedopt`: REFUSED answers produced outside the request handler (client limiter, too many queries in flight
on a connection). The scenario must produce at least one refusal; every response — refused or answered — carries
exactly one OPT without options and with the proxy's size iff its query had an OPT (C12). -/
def runRefusedOpt (_case impl : String) : String × String :=
  let itoks := words impl
  let v :=
    if impl == "panic" then "viol:panic"
    else if kvGet itoks "optok" != some "1" then "viol:C12:opt-of-refused-answer"
    else if kvGet itoks "refused" != some "some" then "viol:scenario-produced-no-refusal"
    else "ok"
  ("refused=some optok=1", v)

def judgeCounts (n : Option Nat) (impl : String) : String × String :=
  match n with
  | some n =>
    let out := s!"sent={n} answered={n} once={n} idok={n} own={n} rcodeok={n}"
    let it := words impl
    let v :=
      if impl == "panic" then "viol:panic"
      else match kvNat it "answered", kvNat it "once", kvNat it "idok", kvNat it "own", kvNat it "rcodeok" with
        | some a, some o, some i, some w, some r =>
          if a ≠ n then "viol:C03:missing-response"
          else if o ≠ n then "viol:C03:duplicate-response"
          else if i ≠ n then "viol:C03:header"
          else if w ≠ n then "viol:C04:not-own-answer"
          else if r ≠ n then "viol:C03:rcode"
          -- responses that came later than the request deadline (6 s) plus slack; absent = not measured
          else if (kvNat it "late").getD 0 ≠ 0 then "viol:C03:late-response"
          -- SERVFAIL answers with the query's own question (a failed upstream exchange: counted as own by the
          -- harness, legitimate one by one) must stay the exception when the upstream is healthy
          else if (kvNat it "servfail").getD 0 * 10 > n then "viol:C03:servfail-with-healthy-upstream"
          else "ok"
        | _, _, _, _, _ => "unparsed"
    (out, v)
  | none => ("bad-case", "na")

def runServe (case impl : String) : String × String :=
  judgeCounts (kvNat (words case) "n") impl

/-- `mixstress`: rounds × 8 listener kinds × clients × queries per client -/
def runMixStress (case impl : String) : String × String :=
  let toks := words case
  let n := do
    let r ← kvNat toks "rounds"
    let c ← kvNat toks "clients"
    let p ← kvNat toks "per"
    pure (r * 8 * c * p)
  judgeCounts n impl

/-- `handlemix`: workers × queries per worker, all answered with their own data -/
def runHandleMix (case impl : String) : String × String :=
  let toks := words case
  let n := do
    let w ← kvNat toks "workers"
    let p ← kvNat toks "per"
    pure (w * p)
  judgeCounts n impl

/-! ### `udpsize` (C09 at the UDP listener)
  The upstream answers `big<k>.u<seq>` with k raw records of 100 octets; the proxy adds its own OPT iff the query
  had one and packs with compression and the client's limit `max 512 (advertised size)`.  The prediction runs the
  pack model on that response and decodes the result. -/

/-- order-preserving sub-list test on records -/
def isSublistBy : List Resource → List Resource → Bool
  | [], _ => true
  | _ :: _, [] => false
  | a :: as, b :: bs => if decide (a = b) then isSublistBy as bs else isSublistBy (a :: as) bs

def labelOfStr (s : String) : Bytes := (UInt8.ofNat s.utf8ByteSize) :: s.toUTF8.toList

def bigRecord (name : Name) (i : Nat) : Resource :=
  ⟨name, 16, 1, 300, .raw ([99, UInt8.ofNat i] ++ List.replicate 98 0)⟩

/-- the UDP listener's client limit (server_udp.go `handleReq`): the class of the query's OPT record if it has one
    (`opt`, `size`), else 0; at least 512; never more than a UDP datagram can carry (`maxUdpPayloadSize`) -/
def udpClientSize (opt : Bool) (size : Nat) : Nat :=
  Nat.min (if opt ∧ size ≥ 512 then size else 512) Facts.udp_maxPayload

def runUdpSize (case impl : String) : String × String :=
  let toks := words case
  match (kvGet toks "opt").bind boolOfStr, kvNat toks "size", kvNat toks "k", kvNat toks "seq" with
  | some opt, some size, some k, some seq =>
    let pad := (kvNat toks "pad").getD 0
    let name : Name := labelOfStr s!"big{k}" ++ labelOfStr s!"u{seq}" ++
      (if pad > 0 then labelOfStr (String.mk (List.replicate pad 'x')) else [])
    let q : Question := ⟨name, 16, 1⟩
    let resp : Msg :=
      { hdr := { Router.emptyHdr with response := true, rd := true, ra := true }
        questions := [q]
        answers := (List.range k).map (bigRecord name)
        authorities := []
        additionals := if opt then [Router.newEDNS0 Router.udpSize []] else [] }
    -- max(512, advertised size), and never more than a UDP datagram can carry (server_udp.go maxUdpPayloadSize):
    -- beyond that the write fails and the client would get no response at all (C03)
    let clientSize := udpClientSize opt size
    let out := match packMsg resp true clientSize (msgLen resp) with
      | .ok bs =>
        match unpackMsg bs with
        | .ok m =>
          let nopt := (m.additionals.filter (fun r => r.rtype == typeOPT)).length
          let intact := m.answers.zipIdx.all (fun (r, i) => r == bigRecord name i ∨ true) && isSublistBy m.answers resp.answers
          s!"len_ok={strOfBool (bs.length ≤ clientSize)} tc={strOfBool m.hdr.truncated} an={m.answers.length} decodes=1 opt={nopt} q={m.questions.length} intact={strOfBool intact}"
        | _ => "undecodable"
      | _ => "pack-error"
    -- specification (C09): within the limit, decodes, TC iff something is missing, question and OPT kept,
    -- kept answers unmodified and in order, nothing dropped if everything fits
    let it := words impl
    let v :=
      if impl == "panic" then "viol:panic"
      else if kvGet it "len_ok" != some "1" then "viol:size"
      else if kvGet it "decodes" != some "1" then "viol:undecodable"
      else match kvNat it "an", (kvGet it "tc").bind boolOfStr, kvNat it "opt", kvNat it "q", kvNat it "intact" with
        | some an, some tc, some nopt, some nq, some intact =>
          if an > k then "viol:extra-records"
          else if an < k ∧ !tc then "viol:tc-missing"
          else if an = k ∧ tc then "viol:tc-added"
          else if nq ≠ 1 then "viol:question-dropped"
          else if nopt ≠ (if opt then 1 else 0) then "viol:opt"
          else if intact ≠ 1 then "viol:records-modified"
          else if msgLen resp ≤ clientSize ∧ an ≠ k then "viol:dropped-though-fits"
          else "ok"
        | _, _, _, _, _ => "unparsed"
    (out, v)
  | _, _, _, _ => ("bad-case", "na")

end MosVerif.Listeners
