/-
  C20 — ownership of recycled memory.

  Life cycle of a pooled object `b`:  free → owned(t) → free.  Events (one per atomic action):
    get t b      thread t obtains b from the pool
    use t b      thread t reads or writes b
    send t u b   t hands b over to thread u (channel send, goroutine spawn argument, return value)
    release t b  t returns b to the pool
  `safe` replays a trace against the ownership map and accepts it iff every event is performed by
  the current owner of the object (so: no use or release by a non-owner, no use after release, no
  double release, no get of an object that is still owned).

  Also: the pool hook's view of the real program — only `get b` / `release b` are visible there —
  as the alternation monitor `poolSafe` used on traces recorded from the real code, and small
  protocol models of the cross-goroutine hand-offs in the code with ALL their interleavings.
-/
import MosVerif.Util
-- @component ownership MosVerif.Own.run
namespace MosVerif.Own

abbrev Thread := Nat
abbrev Buf := Nat

inductive Event where
  | get (t : Thread) (b : Buf)
  | use (t : Thread) (b : Buf)
  | send (t u : Thread) (b : Buf)
  | release (t : Thread) (b : Buf)
  deriving Repr, DecidableEq

/-- owner map; `none` = free (in the pool) -/
abbrev Owners := Buf → Option Thread

def noOwners : Owners := fun _ => none

def setOwner (o : Owners) (b : Buf) (t : Option Thread) : Owners :=
  fun x => if x = b then t else o x

def Event.buf : Event → Buf
  | .get _ b => b
  | .use _ b => b
  | .send _ _ b => b
  | .release _ b => b

/-- One event against the current owner of its object: the new owner, or `none` = violation. -/
def transition (cur : Option Thread) : Event → Option (Option Thread)
  | .get t _ => if cur = none then some (some t) else none
  | .use t _ => if cur = some t then some cur else none
  | .send t u _ => if cur = some t then some (some u) else none
  | .release t _ => if cur = some t then some none else none

/-- replay a trace against the ownership map -/
def safeFrom (o : Owners) : List Event → Bool
  | [] => true
  | e :: es =>
    match transition (o e.buf) e with
    | some n => safeFrom (setOwner o e.buf n) es
    | none => false

def safe (tr : List Event) : Bool := safeFrom noOwners tr

/-- the same replay for one object only: events on other objects are skipped -/
def safeFromB (b : Buf) (cur : Option Thread) : List Event → Bool
  | [] => true
  | e :: es =>
    if e.buf = b then
      match transition cur e with
      | some n => safeFromB b n es
      | none => false
    else safeFromB b cur es

/-! ### all interleavings of two threads' programs -/
def interleavings : List Event → List Event → List (List Event)
  | [], ys => [ys]
  | xs, [] => [xs]
  | x :: xs, y :: ys =>
    (interleavings xs (y :: ys)).map (x :: ·) ++ (interleavings (x :: xs) ys).map (y :: ·)

/-! ### the pool hook's view: get / release only -/
inductive PoolEvent where
  | get (b : Buf)
  | release (b : Buf)
  deriving Repr, DecidableEq

/-- Buffers currently handed out. `allowForeign`: a release of a buffer obtained before tracing started
    is tolerated once (the trace starts in the middle of the program's life). -/
def poolStep (live : List Buf) : PoolEvent → Option (List Buf)
  | .get b => if live.contains b then none else some (b :: live)       -- handed out twice
  | .release b => if live.contains b then some (live.erase b) else none -- double / foreign release

def poolRun (live : List Buf) : List PoolEvent → Option (List Buf)
  | [] => some live
  | e :: es => match poolStep live e with
    | some l => poolRun l es
    | none => none

/-- trace recorded by the hook; `pre` = buffers already handed out when recording started -/
def poolSafe (pre : List Buf) (tr : List PoolEvent) : Bool := (poolRun pre tr).isSome

/-! ### line protocol
  case : scenario=<name> seed=<n> …   (the scenario is run by the harness on the real code with the hook on)
  impl : gets=<n> releases=<n> double=<n> waf=<n> corrupt=<n> pre=<ids,…|-> trace=<G|R><id>,…
  The model's prediction is schedule independent: no double release, no write after release,
  no corrupted output; the recorded trace must satisfy `poolSafe`. -/

def parseTrace (s : String) : Option (List PoolEvent) :=
  if s == "-" then some [] else
  (s.splitOn ",").mapM fun t =>
    if t.startsWith "G" then (natOfStr (t.drop 1).toString).map PoolEvent.get
    else if t.startsWith "R" then (natOfStr (t.drop 1).toString).map PoolEvent.release
    else none

def parseIds (s : String) : Option (List Nat) :=
  if s == "-" then some [] else (s.splitOn ",").mapM natOfStr

def run (_case impl : String) : String × String :=
  let out := "double=0 waf=0 corrupt=0"
  let toks := words impl
  let v :=
    if impl == "panic" then "viol:panic"
    else match kvNat toks "double", kvNat toks "waf", kvNat toks "corrupt", (kvGet toks "pre").bind parseIds, (kvGet toks "trace").bind parseTrace with
      | some d, some w, some c, some pre, some tr =>
        if d ≠ 0 then "viol:double-release"
        else if w ≠ 0 then "viol:write-after-release"
        else if c ≠ 0 then "viol:released-memory-observed"
        else if ¬ poolSafe pre tr then "viol:trace"
        else "ok"
      | _, _, _, _, _ => "unparsed"
  (out, v)

end MosVerif.Own
