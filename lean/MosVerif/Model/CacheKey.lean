/-
  C07 — model of `cacheKey` (app/router/cache.go) and of the lower-casing that
  precedes it on the request path (`dnsmsg.ToLowerName`, called from
  `handleReqMsg` on the copy of the question that `handleReq`/`cacheCtl` see).

      func cacheKey(q *dnsmsg.Question, mark string) pool.Buffer {
          b := pool.GetBuf(len(q.Name) + 1 + 4 + len(mark))
          off := copy(b, q.Name)
          b[off] = 0 // End of the name. Otherwise, the class can be read as a label.
          off++
          binary.BigEndian.PutUint16(b[off:], uint16(q.Class))
          off += 2
          binary.BigEndian.PutUint16(b[off:], uint16(q.Type))
          off += 2
          copy(b[off:], []byte(mark))
          return b
      }

  `pool.GetBuf` hands out a *recycled* byte array: its previous content is
  arbitrary.  That content is an explicit input (`dirty`) of the model, so
  "a byte of the key is never written" is expressible: the result would depend
  on `dirty`.  Every slice/index operation carries its Go panic explicitly
  (`none`).
-/
import MosVerif.Util
-- @component cachekey MosVerif.CacheKey.run
namespace MosVerif.CacheKey

abbrev Bytes := List UInt8

/-- `dnsmsg.Question`: `Name` is the wire name *without* the terminating zero octet
    (a sequence of `len ‖ label` groups; the root is the empty string). -/
structure Question where
  name : Bytes
  cls : UInt16
  typ : UInt16
  deriving DecidableEq, Repr

/-! ### Go slice primitives with explicit panics -/

/-- `pool.GetBuf(size)`: a slice of length `size` whose content is whatever the
    recycled array held (`dirty`); a fresh `make` is the special case of zeros. -/
def getBuf (dirty : Bytes) (size : Nat) : Bytes :=
  dirty.take size ++ List.replicate (size - dirty.length) 0

/-- `n := copy(b[off:], src)`; slicing panics when `off > len(b)`. Returns the new
    buffer and `n = min(len(b[off:]), len(src))`. -/
def copyAt (b : Bytes) (off : Nat) (src : Bytes) : Option (Bytes × Nat) :=
  if off > b.length then none
  else
    let n := min (b.length - off) src.length
    some (b.take off ++ src.take n ++ b.drop (off + n), n)

/-- `b[off] = v`; index out of range panics. -/
def setAt (b : Bytes) (off : Nat) (v : UInt8) : Option Bytes :=
  if off < b.length then some (b.set off v) else none

def hi8 (v : UInt16) : UInt8 := UInt8.ofNat (v.toNat / 256)
def lo8 (v : UInt16) : UInt8 := UInt8.ofNat (v.toNat % 256)

/-- big-endian two octets -/
def be16 (v : UInt16) : Bytes := [hi8 v, lo8 v]

/-- `binary.BigEndian.PutUint16(b[off:], v)`: `b[off:]` panics when `off > len(b)`,
    `PutUint16` panics (`_ = b[1]`) when fewer than two octets remain. -/
def putU16 (b : Bytes) (off : Nat) (v : UInt16) : Option Bytes :=
  if off + 2 ≤ b.length then some ((b.set off (hi8 v)).set (off + 1) (lo8 v)) else none

/-- The function under verification, statement by statement. `dirty` is the previous
    content of the pooled array. -/
def cacheKey (dirty : Bytes) (q : Question) (mark : Bytes) : Option Bytes := do
  let b := getBuf dirty (q.name.length + 1 + 4 + mark.length)
  let (b, off) ← copyAt b 0 q.name
  let b ← setAt b off 0
  let off := off + 1
  let b ← putU16 b off q.cls
  let off := off + 2
  let b ← putU16 b off q.typ
  let off := off + 2
  let (b, _) ← copyAt b off mark
  pure b

/-- The layout the property text asks for: lower-cased name, terminator, class, type, group label. -/
def keyLayout (q : Question) (mark : Bytes) : Bytes :=
  q.name ++ 0 :: (be16 q.cls ++ (be16 q.typ ++ mark))

/-! ### `dnsmsg.ToLowerName` (NameScanner + asciiToLower on each label) -/

def lowerByte (c : UInt8) : UInt8 := if 65 ≤ c ∧ c ≤ 90 then c + 32 else c

/-- One `NameScanner.Scan` per iteration: label length octet `l` (must be 1..63 and fit),
    then the label is lower-cased in place. On a scan error the loop stops and the rest of
    the name is left as it is (the caller, `handleReqMsg`, ignores the error). The
    `len(n) > 254` test of `Scan` is applied by `toLowerName`. -/
def lowerLabels : Nat → Bytes → Bytes
  | 0, n => n
  | _, [] => []
  | fuel + 1, l :: rest =>
    if l.toNat = 0 ∨ l.toNat > 63 ∨ l.toNat > rest.length then l :: rest
    else l :: ((rest.take l.toNat).map lowerByte ++ lowerLabels fuel (rest.drop l.toNat))

def toLowerName (n : Bytes) : Bytes :=
  if n.length > 254 then n else lowerLabels n.length n

/-- The key the request path computes for question `q` of a client in group `mark`:
    `handleReqMsg` lower-cases a copy of the question name, `cacheCtl.Get/Store` build the key. -/
def reqKey (dirty : Bytes) (q : Question) (mark : Bytes) : Option Bytes :=
  cacheKey dirty { q with name := toLowerName q.name } mark

/-! ### well-formed wire names -/

/-- A wire name: a sequence of non-empty labels, each preceded by its length octet. -/
inductive WfName : Bytes → Prop
  | nil : WfName []
  | cons (l : UInt8) (lab rest : Bytes) :
      l ≠ 0 → lab.length = l.toNat → WfName rest → WfName (l :: (lab ++ rest))

/-- A *valid* wire name: labels of 1..63 octets (what `unpackName` accepts). -/
inductive WfName63 : Bytes → Prop
  | nil : WfName63 []
  | cons (l : UInt8) (lab rest : Bytes) :
      l ≠ 0 → l.toNat ≤ 63 → lab.length = l.toNat → WfName63 rest → WfName63 (l :: (lab ++ rest))

/-- executable check of `WfName63` + total length (used by the driver only) -/
def wfNameB : Nat → Bytes → Bool
  | _, [] => true
  | 0, _ :: _ => false
  | fuel + 1, l :: rest =>
    l.toNat ≠ 0 && l.toNat ≤ 63 && l.toNat ≤ rest.length && wfNameB fuel (rest.drop l.toNat)

/-! ### specification (written from the property text, not from the code)

  A case is a pair of (question, group) plus the dirt byte. The observation is three keys:
  `k1`, `k1b` (same query, differently dirtied pool) and `k2` (the other query). -/

structure Case where
  q1 : Question
  m1 : Bytes
  q2 : Question
  m2 : Bytes
  lower : Bool
  dirt : UInt8
  deriving Repr

/-- "same question and client group": name ASCII-case-insensitively (when the request path's
    lower-casing is applied; byte-wise when the key function is called on raw names), class,
    type, group label. -/
def sameTuple (c : Case) : Bool :=
  (if c.lower then c.q1.name.map lowerByte == c.q2.name.map lowerByte else c.q1.name == c.q2.name)
    && c.q1.cls == c.q2.cls && c.q1.typ == c.q2.typ && c.m1 == c.m2

structure Out where
  k1 : Bytes
  k1b : Bytes
  k2 : Bytes
  deriving DecidableEq, Repr

/-- determinism (independent of pool dirt) and: equal keys exactly for the same tuple. -/
def spec (c : Case) (o : Out) : Bool :=
  o.k1 == o.k1b && ((o.k1 == o.k2) == sameTuple c)

def keyFor (lower : Bool) (dirty : Bytes) (q : Question) (m : Bytes) : Option Bytes :=
  if lower then reqKey dirty q m else cacheKey dirty q m

def flip8 (d : UInt8) : UInt8 := 255 - d

def model (c : Case) : Option Out := do
  let k1 ← keyFor c.lower (List.replicate 512 c.dirt) c.q1 c.m1
  let k1b ← keyFor c.lower (List.replicate 512 (flip8 c.dirt)) c.q1 c.m1
  let k2 ← keyFor c.lower (List.replicate 512 c.dirt) c.q2 c.m2
  pure ⟨k1, k1b, k2⟩

/-! ### line protocol
  case: `n1=<hex> c1=<n> t1=<n> m1=<hex> n2=<hex> c2=<n> t2=<n> m2=<hex> lower=<0|1> d=<n>`
  out : `k1=<hex> k1b=<hex> k2=<hex>` -/

def u16OfStr (s : String) : Option UInt16 :=
  (natOfStr s).bind fun n => if n < 65536 then some (UInt16.ofNat n) else none

def caseOfStr (s : String) : Option Case := do
  let t := words s
  let n1 ← (kvGet t "n1").bind bytesOfHex
  let c1 ← (kvGet t "c1").bind u16OfStr
  let t1 ← (kvGet t "t1").bind u16OfStr
  let m1 ← (kvGet t "m1").bind bytesOfHex
  let n2 ← (kvGet t "n2").bind bytesOfHex
  let c2 ← (kvGet t "c2").bind u16OfStr
  let t2 ← (kvGet t "t2").bind u16OfStr
  let m2 ← (kvGet t "m2").bind bytesOfHex
  let lower ← (kvGet t "lower").bind boolOfStr
  let d ← kvNat t "d"
  pure ⟨⟨n1, c1, t1⟩, m1, ⟨n2, c2, t2⟩, m2, lower, UInt8.ofNat d⟩

def strOfOut (o : Out) : String :=
  s!"k1={hexOfBytes o.k1} k1b={hexOfBytes o.k1b} k2={hexOfBytes o.k2}"

def outOfStr (s : String) : Option Out := do
  let t := words s
  let k1 ← (kvGet t "k1").bind bytesOfHex
  let k1b ← (kvGet t "k1b").bind bytesOfHex
  let k2 ← (kvGet t "k2").bind bytesOfHex
  pure ⟨k1, k1b, k2⟩

def run (case impl : String) : String × String :=
  match caseOfStr case with
  | none => ("bad-case", "na")
  | some c =>
    -- with lower=1 the case-insensitive reading of "same name" is only meaningful for valid names
    if c.lower && !(wfNameB 255 c.q1.name && wfNameB 255 c.q2.name
        && c.q1.name.length ≤ 254 && c.q2.name.length ≤ 254) then ("bad-case", "na")
    else
      let m := match model c with
        | some o => strOfOut o
        | none => "panic"
      let v := match outOfStr impl with
        | some o => if spec c o then "ok" else "viol"
        | none => "unparsed"
      (m, v)

end MosVerif.CacheKey
