/-
  C14 — model of the retry loops of the upstream transports and of the
  connection-scoped cancel of a pipelined connection
  (internal/upstream/transport/{pipeline_transport,pipeline_conn,reuse_transport,
  quic_transport,doh_transport}.go).

      PipelineTransport.ExchangeContext            ReuseConnTransport.ExchangeContext
        retry := 0                                   retry := 0
        for {                                        for {
          conn, newConn, err := t.getConn(ctx)         if retry <= 5 { c, err = t.getIdleConn() ; err → return }
          if err != nil { return err }                 if c == nil { isNewConn = true
          resp, err := conn.exchange(ctx, m)                         c, err = t.asyncDial(ctx) ; err → return }
          t.releaseConn(conn)                          resp, err := t.exchangeConnCtx(ctx, payload, c)
          if err != nil {                              if err != nil {
            if !newConn && retry < 5                     if !isNewConn && retry <= 5
                 && !ctxIsDone(ctx) {                         && !ctxIsDone(ctx) {
              retry++; continue }                          retry++; continue }
            return err }                                 return err }
          return resp }                                return resp }

      (the reuse loop's LAST allowed attempt, retry = 6, does not consult the pool: it always dials)
      QuicTransport.exchangePayload: as the pipeline loop (`retry < 5`), and before the retry decision
        `if isQuicConnErr(err) { t.forgetConn(c) }`: after a connection-level failure the transport
        drops the connection, so the next `getConn` dials (a closing quic connection fails its streams
        BEFORE its context is done; `getConn` alone would hand it out again).
      DoHTransport.ExchangeContext : one `select` on ctx.Done() / the result of `exchange`, which is
        for { r, connErr, err := u.exchangeOnce(…)         -- one http round trip
              if connErr && (reused.Load() || isQuicConnErr(err) || isHttp3Err(err)) && retry < 3 && ctx.Err() == nil {
                retry++; continue }
              return r, err }
        (`reused`: httptrace GotConn.Reused; `connErr`: RoundTrip or the body read failed, not a bad
        status or an undecodable body; that `ctx` is the transport's own 6 s context.)

  What one attempt does (where the connection came from, whether the exchange on it
  failed, whether the caller's context is done when the loop looks at it) is NOT
  modelled: it is an arbitrary *oracle* `Nat → Attempt` — every placement of faults
  (refuse, stall, half frame, garbage, FIN, RST at dial / write / read / idle) is some
  oracle.  The loops are total functions with a real measure (`limit − retry`).
-/
import MosVerif.Util
-- @component retry MosVerif.Retry.run
-- @component faults MosVerif.Retry.run
-- @component waiters MosVerif.Retry.runWaiters
namespace MosVerif.Retry

/-! ### one attempt, as seen by the loop -/

/-- how the loop obtained (or failed to obtain) a connection -/
inductive Get where
  /-- `getConn`/`getIdleConn` failed without dialling (pool / transport closed) -/
  | poolErr
  /-- a dial was started for this attempt and it failed, or the caller's context ended
      while waiting for it (`pool.Get`, `asyncDial`, `dialingQuicCall.wait`) -/
  | dialErr
  /-- a connection taken from the pool (`newConn = false`) -/
  | pooled
  /-- a freshly dialled connection (`newConn = true`) -/
  | fresh
  deriving DecidableEq, Repr

structure Attempt where
  get : Get
  /-- result of the exchange on that connection: `none` = an error, `some tag` = a reply -/
  res : Option Nat
  /-- what `ctxIsDone(ctx)` answers if it is evaluated after this attempt failed -/
  ctxDone : Bool
  /-- what happens if the loop dials in this attempt WITHOUT consulting the pool (only the reuse
      loop's last attempt does): `none` = the dial fails, `some r` = it succeeds and the exchange on
      the fresh connection gives `r` -/
  forced : Option (Option Nat)
  /-- … and what `ctxIsDone(ctx)` answers after that -/
  forcedDone : Bool
  /-- the failure of this attempt is a QUIC connection-level error (`isQuicConnErr`); for DoH also:
      an `*http3.Error` (`isHttp3Err`: what quic-go/http3 makes of a connection close for the requests
      that were in flight) -/
  connErr : Bool
  /-- (DoH) the failure is one of the RESPONSE that was received (bad status, undecodable body),
      not of the connection -/
  respErr : Bool
  deriving DecidableEq, Repr

/-- attempt number ↦ what happens in it. Arbitrary. -/
abbrev Oracle := Nat → Attempt

structure Out where
  /-- `none` = `ExchangeContext` returned an error, `some tag` = that reply -/
  res : Option Nat
  /-- number of loop iterations (attempts `0 … n-1` were made) -/
  n : Nat
  deriving DecidableEq, Repr

def Get.isErr : Get → Bool
  | .poolErr | .dialErr => true
  | _ => false

/-! ### the three loops, as written -/

/-- `PipelineTransport.ExchangeContext`. `retry` is the Go variable, `i` the (ghost)
    number of the attempt. -/
def pipelineLoop (o : Oracle) (retry i : Nat) : Out :=
  -- conn, newConn, err := t.getConn(ctx)
  match (o i).get with
  | .poolErr => ⟨none, i + 1⟩          -- if err != nil { return nil, joinErr(errs) }
  | .dialErr => ⟨none, i + 1⟩
  | g =>
    let newConn := g == .fresh
    -- resp, err := conn.exchange(ctx, m) ; t.releaseConn(conn)
    match (o i).res with
    | some r => ⟨some r, i + 1⟩         -- return resp, nil
    | none =>
      if _h : retry < 5 then
        if !newConn && !(o i).ctxDone then
          pipelineLoop o (retry + 1) (i + 1)   -- retry++ ; continue
        else ⟨none, i + 1⟩
      else ⟨none, i + 1⟩                -- return nil, joinErr(errs)
termination_by 5 - retry

/-- the attempt as it happens when the pool is not consulted: a dial, whatever the pool holds -/
def forcedDial (a : Attempt) : Attempt :=
  match a.forced with
  | none => { a with get := .dialErr, res := none, ctxDone := a.forcedDone }
  | some r => { a with get := .fresh, res := r, ctxDone := a.forcedDone }

/-- `ReuseConnTransport.ExchangeContext` (`retry <= 5`). `poolErr` = `getIdleConn`
    returned `ErrClosedTransport`; `dialErr` = `asyncDial` failed. -/
def reuseLoop (o : Oracle) (retry i : Nat) : Out :=
  -- if retry <= 5 { c, err = t.getIdleConn() … }  ;  if c == nil { isNewConn = true; c, err = t.asyncDial(ctx) … }
  let a := if retry ≤ 5 then o i else forcedDial (o i)
  match a.get with
  | .poolErr => ⟨none, i + 1⟩
  | .dialErr => ⟨none, i + 1⟩
  | g =>
    let isNewConn := g == .fresh
    -- resp, err := t.exchangeConnCtx(ctx, payload, c)
    match a.res with
    | some r => ⟨some r, i + 1⟩
    | none =>
      if _h : retry ≤ 5 then
        if !isNewConn && !a.ctxDone then
          reuseLoop o (retry + 1) (i + 1)
        else ⟨none, i + 1⟩
      else ⟨none, i + 1⟩
termination_by 6 - retry

/-- `QuicTransport.exchangePayload` (`retry < 5`; errors are not joined). `forgot`: the transport
    holds no connection because the previous attempt ended with `t.forgetConn(c)`. -/
def quicLoop (o : Oracle) (retry i : Nat) (forgot : Bool) : Out :=
  -- c, newConn, err := t.getConn(ctx)      (t.c == nil: a dial, whatever the oracle's pool says)
  let a := if forgot then forcedDial (o i) else o i
  match a.get with
  | .poolErr => ⟨none, i + 1⟩
  | .dialErr => ⟨none, i + 1⟩
  | g =>
    let newConn := g == .fresh
    -- b, err := t.exchangeConn(ctx, payload, c)
    match a.res with
    | some r => ⟨some r, i + 1⟩
    | none =>
      -- if isQuicConnErr(err) { t.forgetConn(c) }
      if _h : retry < 5 then
        if !newConn && !a.ctxDone then
          quicLoop o (retry + 1) (i + 1) a.connErr
        else ⟨none, i + 1⟩
      else ⟨none, i + 1⟩
termination_by 5 - retry

/-- `DoHTransport.ExchangeContext` / `exchange`. The caller's context is only looked at by the outer
    `select`: an attempt with `ctxDone` does not end before the caller's deadline, the caller gets
    the context's error. (Assumption: the caller's deadline is not later than the transport's own
    6 s context, so `ctx.Err() == nil` holds whenever the loop looks at it.) -/
def dohLoop (o : Oracle) (retry i : Nat) : Out :=
  let a := o i
  if a.ctxDone then ⟨none, i + 1⟩            -- case <-ctx.Done(): return nil, context.Cause(ctx)
  else
    -- r, connErr, err := u.exchangeOnce(httptrace.WithClientTrace(ctx, trace), rawQuery)
    if !a.get.isErr && a.res.isSome then ⟨a.res, i + 1⟩
    else
      let connErr := !a.respErr
      let reused := a.get == .pooled
      if _h : retry < 3 then
        if connErr && (reused || a.connErr) then dohLoop o (retry + 1) (i + 1)
        else ⟨none, i + 1⟩
      else ⟨none, i + 1⟩
termination_by 3 - retry

/-- a DoH attempt as the common loop sees it: retried (budget permitting) = "pooled failure",
    reported = "fresh failure" -/
def dohView (a : Attempt) : Attempt :=
  if a.ctxDone then { a with get := .fresh, res := none }
  else if !a.get.isErr && a.res.isSome then a
  else if !a.respErr && (a.get == .pooled || a.connErr) then { a with get := .pooled, res := none }
  else { a with get := .fresh, res := none }

/-- the common shape: `lim` = number of retries allowed (5, 5, 6). Attempt number and
    retry counter coincide (both start at 0 and are incremented together). -/
def loop (lim : Nat) (o : Oracle) (r : Nat) : Out :=
  match (o r).get with
  | .poolErr => ⟨none, r + 1⟩
  | .dialErr => ⟨none, r + 1⟩
  | g =>
    match (o r).res with
    | some x => ⟨some x, r + 1⟩
    | none =>
      if _h : r < lim then
        if !(g == .fresh) && !(o r).ctxDone then loop lim o (r + 1) else ⟨none, r + 1⟩
      else ⟨none, r + 1⟩
termination_by lim - r

inductive Kind where
  | pipeline | reuse | quic | doh
  deriving DecidableEq, Repr

/-- retries allowed by each loop (`retry < 5`, `retry <= 5`, `retry < 5`, `retry < 3`) -/
def Kind.lim : Kind → Nat
  | .pipeline => 5
  | .reuse => 6
  | .quic => 5
  | .doh => 3

/-- the reuse loop's attempts as they really happen: from retry 6 on the pool is not consulted -/
def reuseEff (o : Oracle) : Oracle := fun i => if i ≤ 5 then o i else forcedDial (o i)

/-- the quic loop's attempts as they really happen: after a connection-level failure the
    connection is forgotten and the next attempt dials -/
def quicEff (o : Oracle) : Nat → Attempt
  | 0 => o 0
  | i + 1 => if (quicEff o i).connErr then forcedDial (o (i + 1)) else o (i + 1)

/-- the attempts as they really happen in a loop of kind `k` -/
def eff (k : Kind) (o : Oracle) : Oracle :=
  match k with
  | .reuse => reuseEff o
  | .quic => quicEff o
  | .doh => fun i => dohView (o i)
  | .pipeline => o

/-- attempts `0 … poolLim` take a pooled connection when the pool offers one -/
def Kind.poolLim : Kind → Nat
  | .doh => 3
  | _ => 5

/-- `ExchangeContext` of a transport of kind `k` under oracle `o` -/
def exchange (k : Kind) (o : Oracle) : Out :=
  match k with
  | .pipeline => pipelineLoop o 0 0
  | .reuse => reuseLoop o 0 0
  | .quic => quicLoop o 0 0 false
  | .doh => dohLoop o 0 0

/-- dials started during attempts `0 … n-1` -/
def dialsUpTo (o : Oracle) : Nat → Nat
  | 0 => 0
  | n + 1 => dialsUpTo o n + (match (o n).get with | .dialErr | .fresh => 1 | _ => 0)

/-- exchanges started on a connection (one `Write` each) during attempts `0 … n-1` -/
def exchUpTo (o : Oracle) : Nat → Nat
  | 0 => 0
  | n + 1 => exchUpTo o n + (if (o n).get.isErr then 0 else 1)

/-! ### the pipelined connection: connection-scoped cancel

      closeWithErr: c.m.Lock(); if c.closed { unlock; return }; c.closed = true; unlock
                    c.cancelCause(err); go c.c.Close()      -- the socket close must not block the caller
                                                            -- (a tls.Conn tries to send close_notify for up to 5 s)
      readLoop    : … if err != nil { c.closeWithErr(read err); return }
      write       : … if err != nil (and not a udp size error) { c.closeWithErr(write err) }
      exchange    : select { case <-ctx.Done(): err | case <-c.ctx.Done(): err | case r := <-respChan: r }
-/

/-- an exchange blocked in the `select` of `pipelineConn.exchange` -/
structure Waiter where
  ex : Nat
  /-- its 1-buffered `respChan` holds a reply -/
  hasResp : Bool
  /-- its caller's context is done -/
  callerDone : Bool
  deriving DecidableEq, Repr

structure PConn where
  closed : Bool := false
  /-- `c.ctx` cancelled -/
  ctxDone : Bool := false
  /-- `go c.c.Close()` was issued -/
  sockClosed : Bool := false
  waiters : List Waiter := []
  deriving DecidableEq, Repr

def PConn.closeWithErr (c : PConn) : PConn :=
  if c.closed then c else { c with closed := true, ctxDone := true, sockClosed := true }

inductive ConnOp where
  /-- an exchange enters the `select` -/
  | wait (w : Waiter)
  /-- an exchange leaves (`deleteQueueC`) -/
  | leave (ex : Nat)
  /-- readLoop delivers a reply to `ex`'s channel -/
  | deliver (ex : Nat)
  /-- the caller's context of `ex` ends -/
  | callerDone (ex : Nat)
  /-- readLoop's read failed (EOF, reset, undecodable frame, idle time-out) -/
  | readErr
  /-- a write failed -/
  | writeErr
  /-- `Close()` by the pool / the transport -/
  | close
  deriving DecidableEq, Repr

def PConn.step (c : PConn) : ConnOp → PConn
  | .wait w => { c with waiters := w :: c.waiters }
  | .leave ex => { c with waiters := c.waiters.filter (·.ex != ex) }
  | .deliver ex =>
    { c with waiters := c.waiters.map (fun w => if w.ex == ex then { w with hasResp := true } else w) }
  | .callerDone ex =>
    { c with waiters := c.waiters.map (fun w => if w.ex == ex then { w with callerDone := true } else w) }
  | .readErr => c.closeWithErr
  | .writeErr => c.closeWithErr
  | .close => c.closeWithErr

def PConn.run (c : PConn) : List ConnOp → PConn
  | [] => c
  | op :: t => (c.step op).run t

/-- `connDead`: the connection is aborted -/
def connDead (c : PConn) : PConn := c.step .readErr

inductive Arm where
  | callerDone | connDone | resp
  deriving DecidableEq, Repr

/-- arms of `w`'s select that can fire in state `c` (empty = blocked) -/
def ready (c : PConn) (w : Waiter) : List Arm :=
  (if w.callerDone then [.callerDone] else []) ++
  (if c.ctxDone then [.connDone] else []) ++
  (if w.hasResp then [.resp] else [])

/-- what `exchange` returns to the retry loop when `arm` fires: `true` = a reply -/
def Arm.reply : Arm → Bool
  | .resp => true
  | _ => false

/-! ### the write side of a pipelined TCP / DoT connection: ONE socket write deadline, one write lock

      writeTCP: select { case c.wm <- struct{}{}:            -- the write lock (a 1-buffered channel)
                       | case <-ctx.Done(): return | case <-c.ctx.Done(): return }
                defer func() { <-c.wm }()
                ddl, _ := ctx.Deadline() ; c.c.SetWriteDeadline(ddl) ; c.c.Write(b)

  `SetWriteDeadline` also applies to a Write that is already blocked, so it must only be called by
  the exchange that holds the lock. Any number of exchanges, any interleaving (`List WOp`). -/

inductive WPc where
  | idle      -- not in writeTCP
  | waiting   -- blocked in the select on the write lock
  | locked    -- holds the lock, deadline not set yet
  | writing   -- SetWriteDeadline done, inside (possibly blocked in) c.c.Write
  | done
  deriving DecidableEq, Repr

structure WState where
  pc : Nat → WPc
  /-- holder of `c.wm` -/
  lock : Option Nat
  /-- the write deadline in force on the socket (`none`: none) -/
  sockDdl : Option Nat

def winit : WState := ⟨fun _ => .idle, none, none⟩

def wupd (f : Nat → WPc) (x : Nat) (v : WPc) : Nat → WPc := fun y => if y = x then v else f y

inductive WOp where
  /-- exchange `x` makes its next move -/
  | step (x : Nat)
  /-- exchange `x`, waiting for the lock, leaves through a context arm -/
  | giveUp (x : Nat)
  deriving DecidableEq, Repr

/-- `ddl x` = the deadline of exchange `x`'s own context (`none`: it has none) -/
def wstep (ddl : Nat → Option Nat) (s : WState) : WOp → WState
  | .step x =>
    match s.pc x with
    | .idle => { s with pc := wupd s.pc x .waiting }
    | .waiting =>
      match s.lock with
      | none => { s with pc := wupd s.pc x .locked, lock := some x }   -- case c.wm <- struct{}{}
      | some _ => s                                                     -- still blocked
    | .locked => { s with pc := wupd s.pc x .writing, sockDdl := ddl x } -- SetWriteDeadline(ddl); Write
    | .writing => { s with pc := wupd s.pc x .done, lock := none }      -- Write returned; <-c.wm
    | .done => s
  | .giveUp x =>
    match s.pc x with
    | .waiting => { s with pc := wupd s.pc x .done }
    | _ => s

def wrun (ddl : Nat → Option Nat) (s : WState) : List WOp → WState
  | [] => s
  | op :: t => wrun ddl (wstep ddl s op) t

/-- the ordering that must NOT be written: the deadline set on entry, before the lock is taken -/
def wstepEarly (ddl : Nat → Option Nat) (s : WState) : WOp → WState
  | .step x =>
    match s.pc x with
    | .idle => { s with pc := wupd s.pc x .waiting, sockDdl := ddl x }
    | .waiting =>
      match s.lock with
      | none => { s with pc := wupd s.pc x .writing, lock := some x }
      | some _ => s
    | .locked => s
    | .writing => { s with pc := wupd s.pc x .done, lock := none }
    | .done => s
  | .giveUp x =>
    match s.pc x with
    | .waiting => { s with pc := wupd s.pc x .done }
    | _ => s

def wrunEarly (ddl : Nat → Option Nat) (s : WState) : List WOp → WState
  | [] => s
  | op :: t => wrunEarly ddl (wstepEarly ddl s op) t

/-! ### wait sites: every `select` of the exchange paths with the pinned text of its arms
    (the table itself lives in `Props/C14.lean` because it mentions `Facts`) -/

inductive ArmKind where
  | callerCtx   -- `case <-ctx.Done():`
  | derivedCtx  -- `case <-callCtx.Done():` (callCtx := context.WithCancel(ctx))
  | connCtx     -- `case <-c.ctx.Done():`
  | dflt        -- `default:`
  | chan        -- any other channel operation
  deriving DecidableEq, Repr

def pre (p s : String) : Bool := p.toList.isPrefixOf s.toList

def armKind (s : String) : ArmKind :=
  if pre "case <-ctx.Done():" s then .callerCtx
  else if pre "case <-callCtx.Done():" s then .derivedCtx
  else if pre "case <-c.ctx.Done():" s then .connCtx
  else if pre "default:" s then .dflt
  else .chan

structure Sel where
  fn : String
  arms : List String

def Sel.hasCtxArm (s : Sel) : Bool :=
  s.arms.any fun a => armKind a == .callerCtx || armKind a == .derivedCtx || armKind a == .connCtx

/-! ### fault scripts (line protocol)

  token = source + behaviour:
    source  p pooled connection · f freshly dialled · g no connection
    p/f behaviours: ok reply · fin / rst peer closes after reading the query · gar undecodable frame ·
        idle peer closed it while idle (p only) · sil silence · half half a frame then silence ·
        kill (QUIC) the whole connection fails with a connection-level error ·
        resp (DoH) a response arrives but is bad (status, undecodable body)
    g behaviours: R dial refused · B dial never completes (caller's deadline ends the wait) ·
        C pool / transport closed
  `sil`, `half`, `B` end with the caller's context: `ctxDone = true`. -/

def healthyDial : Option (Option Nat) := some (some 1)

def attemptOfTok (s : String) : Option Attempt :=
  match s with
  | "pok" => some ⟨.pooled, some 1, false, healthyDial, false, false, false⟩
  | "pfin" | "prst" | "pgar" | "pidle" => some ⟨.pooled, none, false, healthyDial, false, false, false⟩
  | "pkill" => some ⟨.pooled, none, false, healthyDial, false, true, false⟩
  | "presp" => some ⟨.pooled, none, false, healthyDial, false, false, true⟩
  | "psil" | "phalf" => some ⟨.pooled, none, true, healthyDial, false, false, false⟩
  | "fok" => some ⟨.fresh, some 1, false, healthyDial, false, false, false⟩
  | "ffin" | "frst" | "fgar" => some ⟨.fresh, none, false, some none, false, false, false⟩
  | "fkill" => some ⟨.fresh, none, false, some none, false, true, false⟩
  | "fresp" => some ⟨.fresh, none, false, some none, false, false, true⟩
  | "fsil" | "fhalf" => some ⟨.fresh, none, true, some none, true, false, false⟩
  | "gR" => some ⟨.dialErr, none, false, none, false, false, false⟩
  | "gB" => some ⟨.dialErr, none, true, none, true, false, false⟩
  | "gC" => some ⟨.poolErr, none, false, healthyDial, false, false, false⟩
  | _ => none

/-- what a dial does in the world of a script: the behaviour of its first f- or g-token
    (a healthy server if there is none) -/
def worldDial : List Attempt → Option (Option Nat) × Bool
  | [] => (healthyDial, false)
  | a :: t => if a.get == .fresh || a.get == .dialErr then (a.forced, a.forcedDone) else worldDial t

/-- the same world for every attempt: a dial made instead of taking a pooled connection meets the
    script's dial behaviour; the context state after such a dial is that of the f/g-token too -/
def scriptOfStr (s : String) : Option (List Attempt) := do
  let l ← (s.splitOn ",").mapM attemptOfTok
  let d := worldDial l
  pure (l.map fun a => { a with forced := d.1, forcedDone := d.2 })

/-- beyond the script: no pooled connection is left and the server is healthy -/
def defaultAttempt : Attempt := ⟨.fresh, some 1, false, healthyDial, false, false, false⟩

def oracleOf (l : List Attempt) : Oracle := fun i => l.getD i defaultAttempt

def kindOfStr : String → Option Kind
  | "pipeline" => some .pipeline
  | "reuse" => some .reuse
  | "quic" => some .quic
  | "doh" => some .doh
  | _ => none

/-- observed / predicted outcome of one `ExchangeContext` -/
structure Obs where
  ok : Bool
  /-- exchanges started on a connection (`none`: not observable in this set-up) -/
  att : Option Nat
  /-- dials (`none`: not observable) -/
  dials : Option Nat
  /-- "prompt" (≤ deadline/2), "intime" (≤ deadline + slack), "late" -/
  t : String
  /-- every exchange that was waiting on a connection that died returned promptly -/
  woke : Bool
  /-- connections the client should have closed and did not -/
  leak : Nat
  deriving DecidableEq, Repr

def predict (k : Kind) (o : Oracle) (obs : String) : Obs :=
  let out := exchange k o
  let e := eff k o
  let last := e (out.n - 1)
  { ok := out.res.isSome
    att := if obs.contains 'a' then some (exchUpTo e out.n) else none
    dials := if obs.contains 'd' then some (dialsUpTo e out.n) else none
    t := if out.res.isNone && last.ctxDone then "intime" else "prompt"
    woke := true, leak := 0 }

/-! ### the property as a decidable predicate on an observed outcome (from the property text)

  * returns no later than the deadline plus slack, whatever the server does;
  * a failure on a pooled connection while a healthy server is reachable (context live):
    retried — at most `lim` times — and succeeds; this holds for EVERY transport, DoH included;
  * QUIC: a connection that is dying (streams fail with a connection-level error before its context
    is done) is not handed out again: the retry dials and, with a healthy server, succeeds;
  * connection-reuse transports: however many stale connections the pool holds, if a dial reaches
    a healthy server (and the context is live) the exchange succeeds;
  * a bounded number of attempts; a failure on a freshly dialled connection is reported, not
    retried: the exchange fails, no further attempt is made, at most one dial per exchange;
  * when connections die (no silent fault involved) the exchange ends promptly, and so does
    every other exchange that was waiting on such a connection; dead connections are closed. -/

def isStale (a : Attempt) : Bool := a.get == .pooled && a.res.isNone && !a.ctxDone
def isHealthy (a : Attempt) : Bool := !a.get.isErr && a.res.isSome

/-- the script starts with `k ≤ lim` stale pooled attempts followed by a healthy one -/
def staleThenHealthy (lim : Nat) (l : List Attempt) : Bool :=
  let k := (l.takeWhile isStale).length
  decide (k ≤ lim) && isHealthy (l.getD k defaultAttempt)

/-- every attempt of the script is healthy or fails on a pooled connection with the context live,
    and a dial reaches a healthy server -/
def stalePoolHealthyServer (l : List Attempt) : Bool :=
  l.all fun a => (isHealthy a || isStale a) && (a.forced.getD none).isSome

/-- after `j ≤ poolLim` stale pooled attempts the script's next attempt is on a freshly dialled
    connection and fails: `some j` -/
def freshFailureAt (lim : Nat) (l : List Attempt) : Option Nat :=
  let j := (l.takeWhile isStale).length
  let a := l.getD j defaultAttempt
  if decide (j ≤ lim) && a.get == .fresh && a.res.isNone then some j else none

/-- (QUIC) no attempt of the stale prefix failed with a connection-level error — such a failure
    changes what the NEXT attempt is (a dial), see `quicKillThenDial` -/
def plainPrefix (k : Kind) (l : List Attempt) : Bool :=
  !(k == .quic && (l.takeWhile isStale).any (·.connErr))

/-- (QUIC) after `j ≤ 4` plain stale attempts a pooled attempt fails with a connection-level error
    (the connection is dying) while the context is live, and a dial reaches a healthy server -/
def quicKillThenDial (l : List Attempt) : Bool :=
  let j := (l.takeWhile fun a => isStale a && !a.connErr).length
  let a := l.getD j defaultAttempt
  decide (j ≤ 4) && isStale a && a.connErr &&
    ((l.getD (j + 1) defaultAttempt).forced.getD none).isSome

/-- the script as the clauses below read it: for DoH "stale pooled connection" means a failure that is a
    connection error on a reused connection (or a QUIC connection error), "fresh failure" any other -/
def specView (k : Kind) (l : List Attempt) : List Attempt :=
  if k == .doh then l.map dohView else l

def specCore (k : Kind) (l : List Attempt) (o : Obs) : Bool :=
  o.t != "late" &&
  (match (if plainPrefix k l then freshFailureAt k.poolLim l else none) with
   | some j => !o.ok && (match o.att with | some a => decide (a ≤ j + 1) | none => true)
   | none => true) &&
  (if plainPrefix k l && staleThenHealthy k.poolLim l then o.ok else true) &&
  (if k == .quic && quicKillThenDial l then o.ok else true) &&
  (if k == .reuse && stalePoolHealthyServer l then o.ok else true) &&
  (match o.att with | some a => decide (a ≤ k.lim + 1) | none => true) &&
  (match o.dials with | some d => decide (d ≤ 1) | none => true) &&
  (if l.all (fun a => !a.ctxDone && !a.forcedDone) then o.t == "prompt" else true) &&
  o.woke && o.leak == 0

def spec (k : Kind) (l : List Attempt) (o : Obs) : Bool := specCore k (specView k l) o

def specReasonCore (k : Kind) (l : List Attempt) (o : Obs) : String :=
  if o.t == "late" then "late"
  else if (match (if plainPrefix k l then freshFailureAt k.poolLim l else none) with
      | some j => o.ok || (match o.att with | some a => decide (a > j + 1) | none => false)
      | none => false) then "fresh-failure-not-returned"
  else if plainPrefix k l && staleThenHealthy k.poolLim l && !o.ok then "stale-not-survived"
  else if k == .quic && quicKillThenDial l && !o.ok then "dying-conn-not-survived"
  else if k == .reuse && stalePoolHealthyServer l && !o.ok then "stale-pool-not-survived"
  else if (match o.att with | some a => decide (a > k.lim + 1) | none => false) then "unbounded"
  else if (match o.dials with | some d => decide (d > 1) | none => false) then "fresh-retried"
  else if l.all (fun a => !a.ctxDone && !a.forcedDone) && o.t != "prompt" then "not-prompt"
  else if !o.woke then "waiters-not-woken"
  else if o.leak != 0 then "dead-conn-not-closed"
  else "other"

def specReason (k : Kind) (l : List Attempt) (o : Obs) : String := specReasonCore k (specView k l) o

def strOfOptNat : Option Nat → String
  | none => "-"
  | some n => toString n

def optNatOfStr (s : String) : Option (Option Nat) :=
  if s == "-" then some none else (natOfStr s).map some

def strOfObs (o : Obs) : String :=
  s!"res={if o.ok then "ok" else "err"} att={strOfOptNat o.att} dials={strOfOptNat o.dials} t={o.t} woke={strOfBool o.woke} leak={o.leak}"

def obsOfStr (s : String) : Option Obs := do
  let toks := words s
  let r ← kvGet toks "res"
  let ok ← if r == "ok" then some true else if r == "err" then some false else none
  let att ← (kvGet toks "att").bind optNatOfStr
  let dials ← (kvGet toks "dials").bind optNatOfStr
  let t ← kvGet toks "t"
  let woke ← (kvGet toks "woke").bind boolOfStr
  let leak ← kvNat toks "leak"
  pure ⟨ok, att, dials, t, woke, leak⟩

/-- case: `loop=<pipeline|reuse|quic|doh> script=<tok,…> obs=<subset of "ad"|-> …`
    (further fields are for the harness only) -/
def run (case impl : String) : String × String :=
  let toks := words case
  match (kvGet toks "loop").bind kindOfStr, (kvGet toks "script").bind scriptOfStr, kvGet toks "obs" with
  | some k, some l, some obs =>
    let m := strOfObs (predict k (oracleOf l) obs)
    let impl := (impl.splitOn " ## ").headD ""
    let v := match obsOfStr impl with
      | some o => if spec k l o then "ok" else "viol:" ++ specReason k l o
      | none => "unparsed"
    (m, v)
  | _, _, _ => ("bad-case", "na")

/-! ### component `waiters`: n exchanges blocked on one pipelined connection that dies

  case: `fresh=<0/1 per waiter, comma separated> next=<ok|refuse> …`
  waiter j obtained the connection freshly (`1`: it waited for the dial) or from the pool (`0`);
  after the connection died, a new dial reaches a healthy server (`ok`) or is refused.
  out : `res=<o|e per waiter> woke=<0|1> t=<prompt|intime|late> leak=<n>` -/

def waiterOracle (fresh nextOk : Bool) : Oracle := fun i =>
  if i = 0 then ⟨if fresh then .fresh else .pooled, none, false, none, false, false, false⟩
  else if nextOk then ⟨.fresh, some 1, false, none, false, false, false⟩ else ⟨.dialErr, none, false, none, false, false, false⟩

/-- all waiters are parked on `c`, `c` dies; each one whose `connDone` arm is ready returns an
    error from `exchange` and goes through the pipeline retry loop -/
def waitersOutcome (fresh : List Bool) (nextOk : Bool) : List Bool × Bool :=
  let ws := (List.range fresh.length).map fun j => (⟨j, false, false⟩ : Waiter)
  let c : PConn := ws.foldl (fun c w => c.step (.wait w)) {}
  let c := connDead c
  let woke := c.waiters.all fun w => (ready c w).contains .connDone
  (fresh.map fun f => (exchange .pipeline (waiterOracle f nextOk)).res.isSome, woke)

def bitsOfStr (s : String) : Option (List Bool) := (s.splitOn ",").mapM boolOfStr

def strOfRes (l : List Bool) : String := String.join (l.map fun b => if b then "o" else "e")

def runWaiters (case impl : String) : String × String :=
  let toks := words case
  match (kvGet toks "fresh").bind bitsOfStr, kvGet toks "next" with
  | some fresh, some next =>
    let (res, woke) := waitersOutcome fresh (next == "ok")
    let m := s!"res={strOfRes res} woke={strOfBool woke} t=prompt leak=0"
    let impl := (impl.splitOn " ## ").headD ""
    let itoks := words impl
    let v := match kvGet itoks "res", (kvGet itoks "woke").bind boolOfStr, kvGet itoks "t", kvNat itoks "leak" with
      | some r, some w, some t, some leak =>
        -- property text: every exchange waiting on the dead connection fails or is retried promptly;
        -- one that came from the pool and finds a healthy server succeeds
        let okStale := (fresh.zip r.toList).all fun (f, ch) => f || next != "ok" || ch == 'o'
        if t == "late" then "viol:late"
        else if !w || t != "prompt" then "viol:waiters-not-woken"
        else if r.length != fresh.length then "viol:missing-return"
        else if !okStale then "viol:stale-not-survived"
        else if leak != 0 then "viol:dead-conn-not-closed"
        else "ok"
      | _, _, _, _ => "unparsed"
    (m, v)
  | _, _ => ("bad-case", "na")

end MosVerif.Retry
