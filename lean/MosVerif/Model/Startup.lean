/-
  C18 — model of the router's start-up and shutdown (app/router/router.go `run`, `close`, `closeImpl`;
  app/router/sever.go `startServer`).

      func run(ctx, cfg) (_ *router, err error) {
          r := &router{...}
          defer func() { if err != nil { r.close(err) } }()          -- close r if failed to init
          regMetrics ...
          if metrics configured { l, err := net.Listen(..); if err != nil { return nil, err }
                                  r.serverClosers = append(r.serverClosers, func() { s.Close() }) ... }
          for upstreams  { err := r.initUpstream(..);  if err != nil { return nil, err } }
          for domainSets { err := r.loadDomainSet(..); if err != nil { return nil, err } }
          for rules      { ru, err := r.loadRule(..);  if err != nil { return nil, err } ... }
          cache, err := r.initCache(..); if err != nil { return }; r.cache = cache
          for servers    { closer, err := r.startServer(&serverCfg)
                           if err != nil { return nil, err }
                           r.serverClosers = append(r.serverClosers, closer) }
          return r, nil }

      func (r *router) close(err)     { r.closeOnce.Do(func() { r.closeImpl(err) }) }
      func (r *router) closeImpl(err) { r.cancel(err); r.limiter.Close()
                                        for _, u := range r.upstreams { u.u.Close() }
                                        if r.cache != nil { r.cache.Close() }
                                        for _, f := range r.serverClosers { f() } }

  A configuration is the list of its items in the order `run` visits them; every item says whether its
  initialisation succeeds and whether a successfully initialised item owns an OS socket from then on
  (every listener, the metrics endpoint, a quic:// or h3:// upstream) or goroutines (the memory cache) or a
  connection (the redis backend).  Items are identified by their position.
  `serverClosers` is a list of *optional* closers: `none` is a nil `func()`, calling it panics.  `startServer`
  returns `(nil, err)` on failure; the code appends the closer only after the error check.
-/
import MosVerif.Util
-- @component startup MosVerif.Startup.runCase
namespace MosVerif.Startup

inductive Kind where
  | metrics | upstream | domainSet | rule
  /-- `initCache`: the memory cache (otter, owns goroutines), then the redis backend (owns a connection), then
      the ip marker file; `cacheDone` is `r.cache = cache` after `initCache` returned without error -/
  | memCache | redisCache | ipMarker | cacheDone
  | server
  deriving DecidableEq, Repr

structure Item where
  kind : Kind
  ok : Bool
  /-- a successfully initialised item owns an OS socket -/
  sock : Bool
  deriving DecidableEq, Repr

/-- what `closeImpl` does, in order -/
inductive Act where
  | cancel
  | limiterClose
  | upClose (id : Nat)
  | cacheClose (id : Nat)
  | srvClose (id : Nat)
  /-- a nil closer was called: runtime panic -/
  | nilCall
  deriving DecidableEq, Repr

structure Router where
  /-- `r.upstreams` (ids of the initialised upstreams) -/
  upstreams : List Nat := []
  /-- the backends started by the running `initCache` (its local `c`), not yet assigned to `r.cache` -/
  cacheLocal : List Nat := []
  /-- `r.cache` (nil, or the backends it owns) -/
  cache : Option (List Nat) := none
  /-- `r.serverClosers`; `none` = nil func -/
  closers : List (Option Nat) := []
  /-- `r.closeOnce` has fired -/
  closeDone : Bool := false
  deriving DecidableEq, Repr

/-- the process' view: which items currently own an open socket, and what close actions ran -/
structure World where
  live : List Nat := []
  acts : List Act := []
  panicked : Bool := false
  deriving DecidableEq, Repr

/-- `for _, f := range r.serverClosers { f() }` — stops at the first nil func (panic). -/
def runClosers : List (Option Nat) → World → World
  | [], w => w
  | none :: _, w => { w with acts := w.acts ++ [.nilCall], panicked := true }
  | some i :: rest, w =>
    runClosers rest { w with acts := w.acts ++ [.srvClose i], live := w.live.filter (· != i) }

def closeUpstreams : List Nat → World → World
  | [], w => w
  | u :: rest, w =>
    closeUpstreams rest { w with acts := w.acts ++ [.upClose u], live := w.live.filter (· != u) }

/-- `cacheCtl.Close`: closes the memory and the redis backend it holds -/
def closeBackends : List Nat → World → World
  | [], w => w
  | b :: rest, w =>
    closeBackends rest { w with acts := w.acts ++ [.cacheClose b], live := w.live.filter (· != b) }

/-- `closeImpl` -/
def closeImpl (r : Router) (w : World) : World :=
  let w := { w with acts := w.acts ++ [.cancel, .limiterClose] }
  let w := closeUpstreams r.upstreams w
  let w := match r.cache with
    | some bs => closeBackends bs w
    | none => w
  runClosers r.closers w

/-- `close`: `closeOnce.Do(closeImpl)` -/
def close (r : Router) (w : World) : Router × World :=
  if r.closeDone then (r, w) else ({ r with closeDone := true }, closeImpl r w)

/-- result of `startServer`/the metrics `net.Listen`: the closer (nil on failure) and the error flag -/
def startServer (id : Nat) (it : Item) : Option Nat × Bool :=
  if it.ok then (some id, false) else (none, true)

/-- one step of the sequential start: `none` = the item failed (`return nil, err`). -/
def initItem (id : Nat) (it : Item) (r : Router) (w : World) : Option (Router × World) :=
  let w' := if it.sock then { w with live := w.live ++ [id] } else w
  match it.kind with
  | .metrics | .server =>
    let (closer, err) := startServer id it
    if err then none
    else some ({ r with closers := r.closers ++ [closer] }, { w with live := w.live ++ [id] })
  | .upstream => if it.ok then some ({ r with upstreams := r.upstreams ++ [id] }, w') else none
  | .memCache | .redisCache =>
    if it.ok then some ({ r with cacheLocal := r.cacheLocal ++ [id] }, { w with live := w.live ++ [id] }) else none
  | .cacheDone =>
    -- `r.cache = cache` (executed once in the code; written as an append so that it never forgets a backend)
    if it.ok then some ({ r with cache := some (r.cache.getD [] ++ r.cacheLocal), cacheLocal := [] }, w) else none
  | .domainSet | .rule | .ipMarker => if it.ok then some (r, w) else none

/-- what the failing item's own error path does before `run` returns the error: `initCache` closes its local
    cacheCtl (`c.Close()`) when the redis backend or the ip marker fails — `r.cache` is still nil then, so
    `closeImpl` would not reach the backends that were already started.  (`cacheDone` cannot fail in the code;
    marked as failing it stands for any other late error inside `initCache`, all of which call `c.Close()`.) -/
def failCleanup (it : Item) (r : Router) (w : World) : Router × World :=
  match it.kind with
  | .redisCache | .ipMarker | .cacheDone => ({ r with cacheLocal := [] }, closeBackends r.cacheLocal w)
  | _ => (r, w)

structure Result where
  /-- `run` returned an error (and no router) -/
  err : Bool
  r : Router
  w : World
  /-- ids whose initialisation was attempted -/
  attempted : List Nat
  deriving DecidableEq, Repr

/-- the body of `run` from item number `id` on; on failure the deferred `r.close(err)` runs. -/
def runFrom : Nat → List Item → Router → World → List Nat → Result
  | _, [], r, w, att => ⟨false, r, w, att⟩
  | id, it :: rest, r, w, att =>
    match initItem id it r w with
    | none =>
      let (r1, w1) := failCleanup it r w
      let (r', w') := close r1 w1
      ⟨true, r', w', att ++ [id]⟩
    | some (r', w') => runFrom (id + 1) rest r' w' (att ++ [id])

def run (cfg : List Item) : Result := runFrom 0 cfg {} {} []

/-- `run` and, when it succeeded, the caller's `r.close(nil)` `n` times (shutdown; `n ≥ 1`). -/
def closeN : Nat → Router → World → Router × World
  | 0, r, w => (r, w)
  | n + 1, r, w => let (r', w') := close r w; closeN n r' w'

def runThenClose (cfg : List Item) (n : Nat) : Result :=
  let res := run cfg
  if res.err then res else
    let (r', w') := closeN n res.r res.w
    { res with r := r', w := w' }

/-! ### the property, as a decidable predicate on what the harness observes -/

/-- observation: did `run` return an error / ok, or did the process panic; the configured listeners
    whose address cannot be bound again afterwards; the number of sockets the process still owns. -/
structure Obs where
  res : String        -- "ok" | "err" | "panic"
  busy : List Nat
  leak : Nat
  deriving DecidableEq, Repr

/-- written from the property text: a start-up error is reported as an error (never a panic, never success)
    after releasing what had been started; a successful start followed by close leaves nothing open. -/
def spec (cfg : List Item) (o : Obs) : Bool :=
  let anyFail := cfg.any (fun it => !it.ok)
  (o.res == (if anyFail then "err" else "ok")) && o.busy.isEmpty && o.leak == 0

def obsOf (res : Result) : Obs :=
  { res := if res.w.panicked then "panic" else if res.err then "err" else "ok"
    busy := res.w.live
    leak := res.w.live.length }

/-! ### line protocol
  case: `it=<k><o><s>,...`  k ∈ m u d r M R I c s (in `run`'s order; M R I: memory cache, redis, ip marker;
  c: `r.cache = cache`), o ∈ + -, s ∈ 0 1; further `key=value` tokens
  (listener kinds, failure modes) are for the harness only.  output: `res=<ok|err|panic> busy=<ids|-> leak=<n>`.
-/
def kindOfChar : Char → Option Kind
  | 'm' => some .metrics | 'u' => some .upstream | 'd' => some .domainSet
  | 'r' => some .rule | 'M' => some .memCache | 'R' => some .redisCache | 'I' => some .ipMarker
  | 'c' => some .cacheDone | 's' => some .server | _ => none

def itemOfStr (s : String) : Option Item :=
  match s.toList with
  | [k, o, c] => do
    let k ← kindOfChar k
    let o ← if o == '+' then some true else if o == '-' then some false else none
    let c ← if c == '1' then some true else if c == '0' then some false else none
    pure ⟨k, o, c⟩
  | _ => none

def itemsOfStr (s : String) : Option (List Item) :=
  if s == "-" then some [] else (s.splitOn ",").mapM itemOfStr

def kindRank : Kind → Nat
  | .metrics => 0 | .upstream => 1 | .domainSet => 2 | .rule => 3 | .memCache => 4 | .redisCache => 5
  | .ipMarker => 6 | .cacheDone => 7 | .server => 8

/-- `run` visits the items in this order; at most one metrics endpoint and one cache. -/
def wellOrdered : List Item → Bool
  | a :: b :: rest =>
    (kindRank a.kind < kindRank b.kind ||
      (kindRank a.kind == kindRank b.kind &&
        (a.kind == .upstream || a.kind == .domainSet || a.kind == .rule || a.kind == .server))) &&
      wellOrdered (b :: rest)
  | _ => true

/-- the cache stage is one function in the code: its sub-stages (memory cache first) are followed by
    `cacheDone` before anything else happens.  `b`: inside `initCache`. -/
def stagedFrom : Bool → List Item → Bool
  | b, [] => !b
  | b, it :: rest =>
    match it.kind with
    | .memCache => !b && stagedFrom true rest
    | .redisCache | .ipMarker => stagedFrom true rest
    | .cacheDone => stagedFrom false rest
    | _ => !b && stagedFrom false rest

def staged (cfg : List Item) : Bool := stagedFrom false cfg

def strOfIds (l : List Nat) : String :=
  if l.isEmpty then "-" else ",".intercalate (l.map toString)

def idsOfStr (s : String) : Option (List Nat) :=
  if s == "-" then some [] else (s.splitOn ",").mapM natOfStr

def strOfObs (o : Obs) : String := s!"res={o.res} busy={strOfIds o.busy} leak={o.leak}"

def obsOfStr (s : String) : Option Obs := do
  let toks := words ((s.splitOn " ## ").headD "")
  let res ← kvGet toks "res"
  let busy ← (kvGet toks "busy").bind idsOfStr
  let leak ← kvNat toks "leak"
  pure ⟨res, busy, leak⟩

def runCase (case impl : String) : String × String :=
  let toks := words case
  match (kvGet toks "it").bind itemsOfStr with
  | some cfg =>
    if !(wellOrdered cfg && staged cfg) then ("bad-case", "na") else
    let m := strOfObs (obsOf (runThenClose cfg 2))
    let v := match obsOfStr impl with
      | some o => if spec cfg o then "ok" else "viol"
      | none => if impl == "panic" then "viol:panic" else "unparsed"
    (m, v)
  | none => ("bad-case", "na")

end MosVerif.Startup
