/-
  C08 — model of the cache with the redis backend (and, optionally, the memory cache in front of it).

    app/router/cache.go       cacheCtl.Store (memory.Store + redis.AsyncStore), cacheCtl.Get (memory, then redis:
                              `v != nil && time.Now().Before(expireTime)`, copy into the memory cache)
    internal/cache/redis.go   AsyncStore (relative ttl in ms computed when the SET is queued, ≤ 10 ms dropped),
                              buildValue / Get (storedTime and expireTime as whole Unix seconds), setLoop (SET [NX] PX)

  A queued SET is applied by redis at an arbitrary later instant (step `apply t`) or never (`drop`): the proxy's
  queue, a slow or blocked server. Its PX ttl counts from that instant. Instants are nanoseconds since a Unix
  second. The memory cache is C08's model (Model/Ttl.lean).
-/
import MosVerif.Util
import MosVerif.Model.Ttl
-- @component rediscache MosVerif.RedisCache.run
namespace MosVerif.RedisCache
open MosVerif.Ttl

abbrev G : Nat := 1000000000

/-- time.Time.Unix(): whole seconds -/
def floorSec (t : Nat) : Nat := t / G * G

/-- a value in redis: buildValue's 16 byte head (stored, expire as Unix seconds) + the packed message -/
structure RVal where
  stored : Nat
  expire : Nat
  msg : Msg
  id : Nat
  gone : Nat          -- the instant redis drops the key: applied + PX
  deriving Repr

/-- a SET waiting in setOpChan / on its way -/
structure ROp where
  key : Nat
  stored : Nat
  expire : Nat
  msg : Msg
  id : Nat
  ttlMs : Int         -- PX, computed by AsyncStore when the op is queued
  nx : Bool
  queued : Nat        -- when it was queued
  deriving Repr

structure RState where
  mem : Mem
  redis : Nat → Option RVal
  pending : List ROp
  deriving Inhabited

def RState.empty : RState := ⟨Mem.empty, fun _ => none, []⟩

structure RCfg where
  hasMem : Bool
  hasRedis : Bool
  maximumTtl : Int

/-- AsyncStore: `ttlMs := time.Until(expireTime).Milliseconds()` read at instant `now` (Go's `/` truncates) -/
abbrev redisTtlMs (expire now : Int) : Int := (timeUntil expire now).tdiv 1000000

/-- AsyncStore: `if ttlMs <= 10 { return }` -/
abbrev redisTtlTooShort (ttlMs : Int) : Bool := decide (ttlMs ≤ 10)

/-- cacheCtl.Store with both backends. `now`, `delay` as in Ttl.cacheStore (one `time.Until` instant for both). -/
def rStore (clock : Nat → Nat) (cfg : RCfg) (st : RState) (k : Nat) (resp : Option Msg) (now delay id : Nat) : RState :=
  match store (cfg.hasMem || cfg.hasRedis) resp cfg.maximumTtl with
  | none => st
  | some c =>
    let mem := if cfg.hasMem then cacheStore clock ⟨true, cfg.maximumTtl⟩ st.mem k resp now delay id else st.mem
    let expire : Int := expireAt now c.ttl
    -- AsyncStore: ttlMs := time.Until(expireTime).Milliseconds(); if ttlMs <= 10 { return }
    let ttlMs : Int := redisTtlMs expire ((now + delay : Nat) : Int)
    let pending :=
      if cfg.hasRedis && !redisTtlTooShort ttlMs then
        st.pending ++ [⟨k, floorSec now, floorSec expire.toNat, c.msg, id, ttlMs, c.setNX, now + delay⟩]
      else st.pending
    { st with mem := mem, pending := pending }

/-- redis executes the oldest waiting SET at instant `t` -/
def rApply (st : RState) (t : Nat) : RState :=
  match st.pending with
  | [] => st
  | op :: rest =>
    let exists_ := match st.redis op.key with | some v => decide (t < v.gone) | none => false
    if op.nx && exists_ then { st with pending := rest }
    else
      let v : RVal := ⟨op.stored, op.expire, op.msg, op.id, t + (op.ttlMs * 1000000).toNat⟩
      { st with pending := rest, redis := fun k => if k = op.key then some v else st.redis k }

/-- the oldest waiting SET is lost (queue full, connection lost, command failed) -/
def rDrop (st : RState) : RState := { st with pending := st.pending.tail }

/-- cacheCtl.Get: the memory cache, then redis. A redis value counts only while the expire time it carries is in
    the future; it is copied into the memory cache (set-if-absent, times as carried). -/
def rGet (clock : Nat → Nat) (cfg : RCfg) (st : RState) (k : Nat) (now : Nat) : RState × Option (Msg × Entry) :=
  match (if cfg.hasMem then cacheGet clock st.mem k now else none) with
  | some hit => (st, some hit)
  | none =>
    if cfg.hasRedis then
      match st.redis k with
      | some v =>
        if now < v.gone ∧ now < v.expire then                  -- present in redis ∧ time.Now().Before(expireTime)
          let e : Entry := ⟨v.stored, v.expire, 0, v.msg, v.id⟩
          let mem := if cfg.hasMem then otterSet st.mem (clock now) k e ((v.expire : Int) - (now : Int)) true else st.mem
          ({ st with mem := mem }, some (subtractTTL v.msg (elapsedDelta (now - v.stored)), e))
        else (st, none)
      | none => (st, none)
    else (st, none)

/-- handleReq around the cache (as Ttl.handleQuery) -/
def rQuery (clock : Nat → Nat) (cfg : RCfg) (st : RState) (k : Nat) (up : Upstream) (now delay id : Nat) : RState × QObs :=
  match rGet clock cfg st k now with
  | (st', some (served, e)) => (st', .cached e.id (popEDNS0 served))
  | (st', none) =>
    match up with
    | .err => (st', .failed)
    | .reply m =>
      let m := removeEDNS0 m
      (rStore clock cfg st' k (some m) now delay id, .upstream id m)

inductive RStep where
  | store (k : Nat) (resp : Option Msg) (t delay : Nat)
  | get (k : Nat) (t : Nat)
  | query (k : Nat) (up : Upstream) (t delay : Nat)
  | apply (t : Nat)                     -- redis executes the oldest waiting SET now
  | drop                                -- the oldest waiting SET is lost
  | evict (k : Nat)                     -- otter drops a node
  | revict (k : Nat)                    -- redis drops a key (maxmemory, flush, restart)
  deriving Repr

def rStep (clock : Nat → Nat) (cfg : RCfg) (st : RState) (id : Nat) : RStep → RState × Obs
  | .store k resp t delay => (rStore clock cfg st k resp t delay id, .none)
  | .get k t =>
    match rGet clock cfg st k t with
    | (st', none) => (st', .miss)
    | (st', some (served, e)) => (st', .hit e served)
  | .query k up t delay =>
    let (st', o) := rQuery clock cfg st k up t delay id
    (st', .q o)
  | .apply t => (rApply st t, .none)
  | .drop => (rDrop st, .none)
  | .evict k => ({ st with mem := st.mem.del k }, .none)
  | .revict k => ({ st with redis := fun k' => if k' = k then none else st.redis k' }, .none)

def rRunFrom (clock : Nat → Nat) (cfg : RCfg) (st : RState) (id : Nat) : List RStep → RState × List Obs
  | [] => (st, [])
  | s :: rest =>
    let (st', o) := rStep clock cfg st id s
    let (st'', os) := rRunFrom clock cfg st' (id + 1) rest
    (st'', o :: os)

/-! ### the harness' histories (component rediscache, op `rhist`)

  Events as in `hist` (Model/Ttl.lean). History time 0 is `uoff` ms after a Unix second; every SET is applied
  `lag` ms after it was queued; with the memory cache, otter's clock ticks at history times ≡ 500 ms. -/

def absNs (uoff tMs : Nat) : Nat := (tMs + uoff) * msNs

/-- otter's clock in absolute time: ticks where history time ≡ 500 (mod 1000) ms -/
def rhClock (uoff : Nat) (t : Nat) : Nat := (t + (1500 - uoff) * msNs) / G

/-- apply the waiting SETs that are due by `t` (each at its own due instant) -/
def applyDue (lagNs : Nat) (t : Nat) : Nat → RState → RState
  | 0, st => st
  | fuel + 1, st =>
    match st.pending with
    | [] => st
    | op :: _ => if op.queued + lagNs ≤ t then applyDue lagNs t fuel (rApply st (op.queued + lagNs)) else st

def rhStep (uoff lagNs : Nat) (cfg : RCfg) (st : RState) (id : Nat) (e : Ev) : RState × Obs :=
  let t := absNs uoff e.t
  let st := applyDue lagNs t (st.pending.length) st
  let clock := rhClock uoff
  match e.kind with
  | 0 => rStep clock cfg st id (.store e.key (match e.up with | .reply m => some m | .err => none) t 0)
  | 1 => rStep clock cfg st id (.store e.key none t 0)
  | 2 => rStep clock cfg st id (.get e.key t)
  | _ => rStep clock cfg st id (.query e.key e.up t 0)

def rhRun (uoff lagNs : Nat) (cfg : RCfg) : RState → Nat → List Ev → List Obs
  | _, _, [] => []
  | st, id, e :: rest =>
    let (st', o) := rhStep uoff lagNs cfg st id e
    o :: rhRun uoff lagNs cfg st' (id + 1) rest

def modelRHist (mem : Bool) (cfgMax : Int) (lagMs uoff : Nat) (evs : List Ev) : List Obs :=
  rhRun uoff (lagMs * msNs) ⟨mem, true, initMaxTtl cfgMax⟩ RState.empty 1 evs

/-! ### line protocol -/

def run (case impl : String) : String × String :=
  let toks := words case
  match kvGet toks "op" with
  | some "rhist" =>
    match (kvGet toks "mem").bind boolOfStr, (kvGet toks "max").bind intOfStr, kvNat toks "lag", kvNat toks "uoff",
          (kvGet toks "ev").bind (fun s => (s.splitOn ";").mapM evOfStr) with
    | some mem, some mx, some lag, some uoff, some evs =>
      if !sortedEvs evs || !shortEvs evs || uoff ≥ 1000 then ("bad-case", "na")
      else if impl == "skip" then ("skip", "na")
      else
        let out := strOfObsList (modelRHist mem mx lag uoff evs)
        let itoks := if impl == "-" then [] else impl.splitOn ";"
        -- the specification is the one of `hist`: the property does not depend on the backend
        let v := match obsOfStrs evs itoks with
          | some os => if specHist mx evs os then "ok" else "viol"
          | none => "unparsed"
        (out, v)
    | _, _, _, _, _ => ("bad-case", "na")
  -- a memory cache in front of redis; a positive answer (which the memory cache may have rejected as too big),
  -- then an error response for the same question: set-if-absent is decided by redis when there is one, so the
  -- error response is refused and the lookup is the positive answer
  | some "twotier" =>
    let got := kvGet (words impl) "got"
    ("got=pos", if impl == "panic" then "viol:panic"
      else if got == some "pos" then "ok"
      else if got == some "neg" then "viol:C08:error-response-displaced-live-positive"
      else if got == some "miss" then "viol:C07:live-entry-missed"
      else "unparsed")
  -- a second positive store of the same question (a successful refresh) replaces the entry in every tier: later
  -- hits see the renewed ttl (C19), and a shorter one too (C08: the ttl never exceeds the upstream's)
  | some "restore" =>
    let got := kvGet (words ((impl.splitOn " ## ").headD "")) "got"
    ("got=new", if impl == "panic" then "viol:panic"
      else if got == some "new" then "ok"
      else if got == some "old" then "viol:C19:refresh-did-not-replace-the-entry"
      else if got == some "miss" then "viol:C07:live-entry-missed"
      else "unparsed")
  -- the ttl of an answer that comes back from a slow GET, judged when the lookup returns (the harness compares
  -- with the upstream's ttl minus the whole seconds since the store)
  | some "slowget" =>
    let ok := kvGet (words ((impl.splitOn " ## ").headD "")) "ok"
    ("ok=1", if impl == "panic" then "viol:panic"
      else if ok == some "1" then "ok"
      else if ok == some "0" then "viol:C08:ttl-not-aged-by-the-time-of-the-lookup"
      else "unparsed")
  -- a redis outage between the positive and the error response
  | some "outage" =>
    let got := kvGet (words impl) "got"
    ("got=pos", if impl == "panic" then "viol:panic"
      else if got == some "pos" then "ok"
      else if got == some "neg" then "viol:C08:error-response-displaced-live-positive"
      else if got == some "miss" then "viol:C07:live-entry-missed"
      else "unparsed")
  -- redis only: the cache is in use from the moment the client has connected
  | some "rstart" =>
    let got := kvGet (words impl) "got"
    ("got=hit", if impl == "panic" then "viol:panic"
      else if got == some "hit" then "ok"
      else if got == some "miss" then "viol:C07:cached-answer-missed-after-start"
      else "unparsed")
  | _ => ("bad-case", "na")

end MosVerif.RedisCache
