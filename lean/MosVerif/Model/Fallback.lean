/-
  C16 — model of `udpWithFallback.ExchangeContext` (internal/upstream/upstream.go).

      r, err := u.u.ExchangeContext(ctx, q)
      if err != nil { return nil, err }
      if r.Header.Truncated { ReleaseMsg(r); return u.t.ExchangeContext(ctx, q) }
      return r, nil

  The two legs are parameters (their behaviour is C05/C06/C14's business);
  a message is identified by an opaque tag so that "which message was
  returned" is observable.
-/
import MosVerif.Util
-- @component fallback MosVerif.Fallback.run
-- @component fallbackseq MosVerif.Fallback.runSeq
namespace MosVerif.Fallback

/-- Outcome of one leg: an error, or a message (opaque identity `tag`, TC flag). -/
inductive Leg where
  | err : Leg
  | msg (tag : Nat) (tc : Bool) : Leg
  deriving DecidableEq, Repr

structure Out where
  result : Leg
  /-- number of exchanges started on the TCP leg -/
  tcpCalls : Nat
  /-- query handed to the TCP leg (if any) -/
  tcpQuery : Option Nat
  deriving DecidableEq, Repr

/-- `q` is the (opaque) query; `u`/`t` the outcome the UDP / TCP leg would give. -/
def exchange (q : Nat) (u t : Leg) : Out :=
  match u with
  | .err => ⟨.err, 0, none⟩
  | .msg tag tc =>
    if tc then ⟨t, 1, some q⟩ else ⟨.msg tag tc, 0, none⟩

/-- The property as a decidable predicate on an observed outcome. -/
def spec (q : Nat) (u t : Leg) (o : Out) : Bool :=
  match u with
  | .err => true                      -- the property says nothing about a failed UDP leg
  | .msg tag tc =>
    if tc then
      -- the same query is re-sent over TCP, the caller gets the TCP outcome,
      -- never the truncated UDP message
      o.tcpCalls == 1 && o.tcpQuery == some q && o.result == t
    else
      o.result == .msg tag false && o.tcpCalls == 0

/-- `dnsutils.ReadMsgFromUDP`: a datagram of `n` octets that does not decode (`unpackFailed`) and whose third octet
    is `b2` is handed on as a header-only TC message iff `err != nil && n >= 12 && b[2]&(1<<1) != 0`. -/
def udpTcHeaderOnly (unpackFailed : Bool) (n b2 : Nat) : Bool :=
  unpackFailed && decide (n ≥ 12) && (b2 &&& 2 != 0)

/-- a reply (QR=1, RD=1, TC=`tc`: third octet 0x81 / 0x83) cut to `n` octets in the middle of a record does not
    decode: the UDP leg hands on a TC message iff `udpTcHeaderOnly`; otherwise the datagram is ignored and the
    exchange ends with an error at the caller's deadline. -/
def cutReply (tag : Nat) (tc : Bool) (n : Nat) : Leg :=
  if udpTcHeaderOnly true n (129 + (if tc then 2 else 0)) then .msg tag true else .err

/-! ### line protocol -/

def legOfStr (s : String) : Option Leg :=
  match s.splitOn ":" with
  | ["err"] => some .err
  | ["hang"] => some .err     -- a leg that never answers: its exchange ends with an error at the caller's deadline
  | ["ok", tag, tc] => do
      let tag ← natOfStr tag
      let tc ← boolOfStr tc
      pure (.msg tag tc)
  -- a reply of more than 4096 octets ("big"), a TC reply cut in the middle of a record ("cut"): still a reply
  -- with / without TC as far as the property is concerned
  | ["ok", tag, tc, shape] => do
      let tag ← natOfStr tag
      let tc ← boolOfStr tc
      if shape.startsWith "cut" then
        -- "cut": at 512 octets; "cut<N>": at N octets
        pure (cutReply tag tc ((natOfStr (shape.drop 3).toString).getD 512))
      else pure (.msg tag tc)
  | _ => none

def strOfLeg : Leg → String
  | .err => "err"
  | .msg tag tc => s!"ok:{tag}:{strOfBool tc}"

def strOfOut (o : Out) : String :=
  let q := match o.tcpQuery with | none => "none" | some q => toString q
  s!"res={strOfLeg o.result} tcp={o.tcpCalls} tq={q}"

def outOfStr (s : String) : Option Out := do
  let toks := words s
  let r ← (kvGet toks "res").bind legOfStr
  let n ← kvNat toks "tcp"
  let tq ← kvGet toks "tq"
  let tq ← if tq == "none" then some none else (natOfStr tq).map some
  pure ⟨r, n, tq⟩

/-- case: `q=<n> u=<leg> t=<leg>` -/
def run (case impl : String) : String × String :=
  let toks := words case
  match kvNat toks "q", (kvGet toks "u").bind legOfStr, (kvGet toks "t").bind legOfStr with
  | some q, some u, some t =>
    let m := strOfOut (exchange q u t)
    -- "replies without TC … cause no TCP attempt" also holds for a reply without TC that does not decode (cut):
    -- the UDP leg yields no message (`.err` above, where `spec` is silent), but a reply WAS received
    let noTcReply := match ((kvGet toks "u").getD "").splitOn ":" with
      | ["ok", _, "0", _] => true
      | _ => false
    let v :=
      if kvGet (words impl) "res" == some "nilnil" then "viol:neither-message-nor-error"
      else match outOfStr impl with
      | some o =>
        if noTcReply && o.tcpCalls != 0 then "viol:tcp-attempt-for-a-reply-without-tc"
        else if spec q u t o then "ok" else "viol"
      | none => "unparsed"
    (m, v)
  | _, _, _ => ("bad-case", "na")

/-! ### `fallbackseq`: k truncated UDP replies in a row on one upstream, healthy TCP server (which may close
    the connection after each reply). Every step is `exchange q (msg _ true) (msg _ false)`, so every caller gets
    the TCP reply (that the TCP leg survives the stale pooled connection is C14 `stale_then_healthy_succeeds`). -/
def seqModel (k : Nat) : List Leg := (List.range k).map fun i => (exchange i (.msg (1000 + i) true) (.msg (2000 + i) false)).result

/-- The same run when the TCP server closes without replying during the first `f` exchanges: those callers get the
    TCP leg's error, every later one the TCP reply — the upstream keeps no memory of a failed TCP leg. -/
def seqModelF (f k : Nat) : List Leg := (List.range k).map fun i =>
  (exchange i (.msg (1000 + i) true) (if i < f then .err else .msg (2000 + i) false)).result

def runSeq (case impl : String) : String × String :=
  let par := (kvNat (words case) "par").getD 1
  -- `giveup` rounds: the caller's deadline ends before the TCP leg's reply — the TCP leg's outcome is its error
  let f := (((kvNat (words case) "fail").getD 0) + ((kvNat (words case) "giveup").getD 0)) * par
  match (kvNat (words case) "seq").map (· * par) with
  | some k =>
    let exp := (seqModelF f k).map fun l => match l with | .msg _ false => "ok" | .msg _ true => "tc" | .err => "err"
    let out := "res=" ++ ",".intercalate exp
    let v := if impl == "panic" then "viol:panic"
      else match kvGet (words impl) "res" with
        | some r =>
          if (kvNat (words impl) "overlap").getD 0 ≠ 0 then "viol:C06:second-query-on-a-connection-that-owes-a-reply"
          else if r.splitOn "," == exp then "ok" else "viol"
        | none => "unparsed"
    (out, v)
  | none => ("bad-case", "na")

end MosVerif.Fallback
