/-
  C07 — model of `internal/cache/mem.go` (`MemoryCache.Store/Get`, `releaseEntry`, the entry pool).

      type cacheEntry struct { l sync.RWMutex; storedTime, expireTime time.Time; k string; v pool.Buffer }

      Store(k, stored, expire, v, setNX):            Get(k):
        ks := string(k); vCopy := CopyBuf(v)           e, ok := backend.Get(k)
        e := newCacheEntry()          -- sync.Pool     if ok {
        e.l.Lock()                                       if e.l.TryRLock() {
        e.storedTime, e.expireTime = …                     if e.v == nil || e.k != string(k) {
        e.k = ks                                               e.l.RUnlock(); return nil }
        e.v = vCopy                                        v = CopyBuf(e.v); …times…
        e.l.Unlock()                                       e.l.RUnlock(); return v }
        SetIfAbsent / Set (ks, e, ttl)                   return nil }
                                                       return nil
      releaseEntry(e):   -- otter's DeletionListener (evicted / expired / replaced)
        e.l.Lock(); times = 0; e.k = ""; if e.v != nil { ReleaseBuf(e.v); e.v = nil }; e.l.Unlock()
        cacheEntryPool.Put(e)

  Two layers.

  * `Step` — the concurrent layer: any number of threads, one Go statement per step, the
    `sync.RWMutex` of every entry explicit (`wr` = the writer, `rd` = the readers holding it;
    the mutex's reader *count* is `rd.length`).  The backend (otter) and `sync.Pool` are
    **adversarial**: `backend.Get` may return any entry object whatsoever, `newCacheEntry` may
    return any entry object (even one that is still in use), the deletion listener may be started
    on any entry at any time, any number of times, and `TryRLock` may fail spuriously.  Every
    behaviour of the real backend and pool is a behaviour of this layer, so what is proved here
    does not rest on otter's internals.
    The payload `V` stands for the triple (value bytes, storedTime, expireTime): the three fields
    are written / wiped / read inside the same lock sections.
  * `Seq` — the sequential "otter as a finite map" layer used for the converse direction
    (a repeated query hits) and as the executable reference for the `cachehist` component.
-/
import MosVerif.Util
-- @component cachehist MosVerif.MemCache.runHist
-- @component cachestress MosVerif.MemCache.runStress
-- @component cacheval MosVerif.MemCache.runVal
namespace MosVerif.MemCache

/-- function update -/
def upd {α : Type} (f : Nat → α) (i : Nat) (x : α) : Nat → α := fun j => if j = i then x else f j

/-- a `cacheEntry` object -/
structure Entry (K V : Type) where
  k : K
  v : Option V            -- `nil` or the value buffer's content (+ the two times)
  wr : Option Nat         -- thread holding `l` for writing
  rd : List Nat           -- threads holding `l` for reading
  deriving Repr

/-- program counter + locals of a thread; `e` is the entry pointer it holds -/
inductive Pc (K V : Type) where
  | idle
  -- MemoryCache.Store(k, …, v, setNX)
  | sNew (k : K) (v : V) (nx : Bool)                 -- before `e := newCacheEntry()`
  | sLock (e : Nat) (k : K) (v : V) (nx : Bool)      -- before `e.l.Lock()`
  | sFillK (e : Nat) (k : K) (v : V) (nx : Bool)     -- before `e.k = ks` (times written just before)
  | sFillV (e : Nat) (k : K) (v : V) (nx : Bool)     -- before `e.v = vCopy`
  | sUnlock (e : Nat) (k : K) (v : V) (nx : Bool)    -- before `e.l.Unlock()`
  | sSet (e : Nat) (k : K) (v : V) (nx : Bool)       -- before `backend.Set / SetIfAbsent`
  -- MemoryCache.Get(k)
  | gLookup (k : K)                                  -- before `backend.Get(k)`
  | gTry (e : Nat) (k : K)                           -- before `e.l.TryRLock()`
  | gCheck (e : Nat) (k : K)                         -- before `e.v == nil || e.k != string(k)`
  | gCopy (e : Nat) (k : K)                          -- before `v = CopyBuf(e.v)`
  | gUnlockHit (e : Nat) (k : K) (v : V)             -- before `e.l.RUnlock(); return v`
  | gUnlockMiss (e : Nat) (k : K)                    -- before `e.l.RUnlock(); return nil`
  | gDone (k : K) (res : Option V)                   -- `Get(k)` has returned `res`
  | gBad                                             -- `CopyBuf(e.v)` met `e.v == nil` after the check
  -- releaseEntry(e)
  | rLock (e : Nat)
  | rWipeK (e : Nat)                                 -- before `e.k = ""` (times zeroed just before)
  | rWipeV (e : Nat)                                 -- before `ReleaseBuf(e.v); e.v = nil`
  | rUnlock (e : Nat)
  | rPut (e : Nat)                                   -- before `cacheEntryPool.Put(e)`

structure State (K V : Type) where
  ent : Nat → Entry K V
  pc : Nat → Pc K V
  /-- ghost: every `(k, v)` with which `Store` has been called so far -/
  hist : List (K × V)

variable {K V : Type}

def State.setPc (s : State K V) (t : Nat) (p : Pc K V) : State K V := { s with pc := upd s.pc t p }
def State.setEnt (s : State K V) (e : Nat) (x : Entry K V) : State K V := { s with ent := upd s.ent e x }

/-- all entries are zero objects, nobody runs -/
def init [Inhabited K] : State K V :=
  { ent := fun _ => ⟨default, none, none, []⟩, pc := fun _ => .idle, hist := [] }

/-- One statement of one thread `t`. -/
inductive Step [Inhabited K] [DecidableEq K] : State K V → State K V → Prop
  -- Store
  | callStore (s t k v nx) : s.pc t = .idle →
      Step s { (s.setPc t (.sNew k v nx)) with hist := (k, v) :: s.hist }
  | storeNew (s t k v nx) (e : Nat) : s.pc t = .sNew k v nx →            -- sync.Pool: any object
      Step s (s.setPc t (.sLock e k v nx))
  | storeLock (s t e k v nx) : s.pc t = .sLock e k v nx → (s.ent e).wr = none → (s.ent e).rd = [] →
      Step s ((s.setEnt e { s.ent e with wr := some t }).setPc t (.sFillK e k v nx))
  | storeFillK (s t e k v nx) : s.pc t = .sFillK e k v nx →
      Step s ((s.setEnt e { s.ent e with k := k }).setPc t (.sFillV e k v nx))
  | storeFillV (s t e k v nx) : s.pc t = .sFillV e k v nx →
      Step s ((s.setEnt e { s.ent e with v := some v }).setPc t (.sUnlock e k v nx))
  | storeUnlock (s t e k v nx) : s.pc t = .sUnlock e k v nx →
      Step s ((s.setEnt e { s.ent e with wr := none }).setPc t (.sSet e k v nx))
  | storeSet (s t e k v nx) : s.pc t = .sSet e k v nx →                  -- backend state is not tracked
      Step s (s.setPc t .idle)
  -- Get
  | callGet (s t k) : s.pc t = .idle → Step s (s.setPc t (.gLookup k))
  | getLookupHit (s t k) (e : Nat) : s.pc t = .gLookup k →               -- backend: any object
      Step s (s.setPc t (.gTry e k))
  | getLookupMiss (s t k) : s.pc t = .gLookup k → Step s (s.setPc t (.gDone k none))
  | getTryOk (s t e k) : s.pc t = .gTry e k → (s.ent e).wr = none →
      Step s ((s.setEnt e { s.ent e with rd := t :: (s.ent e).rd }).setPc t (.gCheck e k))
  | getTryFail (s t e k) : s.pc t = .gTry e k →                           -- writer holds/wants the lock
      Step s (s.setPc t (.gDone k none))
  | getCheck (s t e k) : s.pc t = .gCheck e k →
      Step s (s.setPc t (if (s.ent e).v.isNone || decide ((s.ent e).k ≠ k) then .gUnlockMiss e k else .gCopy e k))
  | getCopy (s t e k) : s.pc t = .gCopy e k →
      Step s (s.setPc t (match (s.ent e).v with | some v => .gUnlockHit e k v | none => .gBad))
  | getUnlockHit (s t e k v) : s.pc t = .gUnlockHit e k v →
      Step s ((s.setEnt e { s.ent e with rd := (s.ent e).rd.filter (· ≠ t) }).setPc t (.gDone k (some v)))
  | getUnlockMiss (s t e k) : s.pc t = .gUnlockMiss e k →
      Step s ((s.setEnt e { s.ent e with rd := (s.ent e).rd.filter (· ≠ t) }).setPc t (.gDone k none))
  | getRet (s t k res) : s.pc t = .gDone k res → Step s (s.setPc t .idle)
  -- releaseEntry, started by the backend whenever it likes
  | callRelease (s t) (e : Nat) : s.pc t = .idle → Step s (s.setPc t (.rLock e))
  | relLock (s t e) : s.pc t = .rLock e → (s.ent e).wr = none → (s.ent e).rd = [] →
      Step s ((s.setEnt e { s.ent e with wr := some t }).setPc t (.rWipeK e))
  | relWipeK (s t e) : s.pc t = .rWipeK e →
      Step s ((s.setEnt e { s.ent e with k := default }).setPc t (.rWipeV e))
  | relWipeV (s t e) : s.pc t = .rWipeV e →
      Step s ((s.setEnt e { s.ent e with v := none }).setPc t (.rUnlock e))
  | relUnlock (s t e) : s.pc t = .rUnlock e →
      Step s ((s.setEnt e { s.ent e with wr := none }).setPc t (.rPut e))
  | relPut (s t e) : s.pc t = .rPut e → Step s (s.setPc t .idle)

/-- every interleaving: the reflexive-transitive closure from `init` -/
inductive Reachable [Inhabited K] [DecidableEq K] : State K V → Prop
  | init : Reachable init
  | step {s s'} : Reachable s → Step s s' → Reachable s'

/-- the entry whose lock the thread holds for writing / reading at this pc -/
def Pc.wsec : Pc K V → Option Nat
  | .sFillK e .. | .sFillV e .. | .sUnlock e .. | .rWipeK e | .rWipeV e | .rUnlock e => some e
  | _ => none

def Pc.rsec : Pc K V → Option Nat
  | .gCheck e _ | .gCopy e _ | .gUnlockHit e _ _ | .gUnlockMiss e _ => some e
  | _ => none

/-- the statements that write / read the data fields `k`, `v` of an entry -/
def Pc.writes : Pc K V → Option Nat
  | .sFillK e .. | .sFillV e .. | .rWipeK e | .rWipeV e => some e
  | _ => none

def Pc.reads : Pc K V → Option Nat
  | .gCheck e _ | .gCopy e _ => some e
  | _ => none

/-! ### the faithful layer: otter as a map with a deletion queue, `sync.Pool` as a list

  The same statements, but `newCacheEntry` only returns a pooled or a never-used object,
  `backend.Get` only returns what the map holds, `Set` hands the replaced entry to the deletion
  listener, eviction / expiry (`evict`) is a step of the backend, and the listener runs exactly on
  entries that left the map. Every faithful step is an adversarial step (or leaves the core state
  unchanged) — `Props/C07.faithful_refines` — so everything proved about `Step` holds here. -/

structure Backend (K : Type) where
  map : K → Option Nat
  pend : List Nat          -- removed from the map, listener not yet started
  pool : List Nat          -- cacheEntryPool
  next : Nat               -- objects ≥ next were never allocated

structure FState (K V : Type) where
  core : State K V
  be : Backend K

def updKey [DecidableEq K] {α : Type} (f : K → α) (k : K) (x : α) : K → α := fun j => if j = k then x else f j

inductive FStep [Inhabited K] [DecidableEq K] : FState K V → FState K V → Prop
  /-- any statement that does not touch backend or pool -/
  | local (c c' : State K V) (b : Backend K) : Step c c' →
      (∀ t k v nx e, c.pc t = .sNew k v nx → c'.pc t ≠ .sLock e k v nx) →
      (∀ t k e, c.pc t = .gLookup k → c'.pc t ≠ .gTry e k) →
      (∀ t e, c.pc t = .idle → c'.pc t ≠ .rLock e) →
      FStep ⟨c, b⟩ ⟨c', b⟩
  | newPooled (c : State K V) (b : Backend K) (t k v nx) (e : Nat) (pre post : List Nat) :
      c.pc t = .sNew k v nx → b.pool = pre ++ e :: post →
      FStep ⟨c, b⟩ ⟨c.setPc t (.sLock e k v nx), { b with pool := pre ++ post }⟩
  | newFresh (c : State K V) (b : Backend K) (t k v nx) :
      c.pc t = .sNew k v nx →
      FStep ⟨c, b⟩ ⟨c.setPc t (.sLock b.next k v nx), { b with next := b.next + 1 }⟩
  | set (c : State K V) (b : Backend K) (t e k v) :
      c.pc t = .sSet e k v false →
      FStep ⟨c, b⟩ ⟨c.setPc t .idle,
        { b with map := updKey b.map k (some e), pend := (b.map k).toList ++ b.pend }⟩
  | setIfAbsent (c : State K V) (b : Backend K) (t e k v) :
      c.pc t = .sSet e k v true →
      FStep ⟨c, b⟩ ⟨c.setPc t .idle,
        if (b.map k).isSome then b else { b with map := updKey b.map k (some e) }⟩
  | lookupHit (c : State K V) (b : Backend K) (t k e) :
      c.pc t = .gLookup k → b.map k = some e →
      FStep ⟨c, b⟩ ⟨c.setPc t (.gTry e k), b⟩
  | evict (c : State K V) (b : Backend K) (k : K) (e : Nat) : b.map k = some e →
      FStep ⟨c, b⟩ ⟨c, { b with map := updKey b.map k none, pend := e :: b.pend }⟩
  | listener (c : State K V) (b : Backend K) (t e) (pre post : List Nat) :
      c.pc t = .idle → b.pend = pre ++ e :: post →
      FStep ⟨c, b⟩ ⟨c.setPc t (.rLock e), { b with pend := pre ++ post }⟩
  | put (c : State K V) (b : Backend K) (t e) : c.pc t = .rPut e →
      FStep ⟨c, b⟩ ⟨c.setPc t .idle, { b with pool := e :: b.pool }⟩
  | poolDrop (c : State K V) (b : Backend K) (pre post : List Nat) (e : Nat) :   -- GC empties sync.Pool
      b.pool = pre ++ e :: post → FStep ⟨c, b⟩ ⟨c, { b with pool := pre ++ post }⟩

def finit [Inhabited K] : FState K V := ⟨init, ⟨fun _ => none, [], [], 0⟩⟩

inductive FReachable [Inhabited K] [DecidableEq K] : FState K V → Prop
  | init : FReachable finit
  | step {s s'} : FReachable s → FStep s s' → FReachable s'

/-! ## sequential layer: otter as a finite map, the entry pool as a free list -/

structure Seq (K V : Type) where
  map : K → Option Nat          -- backend: key ↦ entry object
  heap : Nat → K × Option V     -- entry objects (fields k, v)
  free : List Nat               -- cacheEntryPool
  next : Nat                    -- objects `≥ next` have never been allocated

def Seq.empty [Inhabited K] : Seq K V := ⟨fun _ => none, fun _ => (default, none), [], 0⟩

def updK [DecidableEq K] {α : Type} (f : K → α) (k : K) (x : α) : K → α := fun j => if j = k then x else f j

/-- `releaseEntry(e)` run to completion -/
def Seq.release [Inhabited K] (s : Seq K V) (e : Nat) : Seq K V :=
  { s with heap := upd s.heap e (default, none), free := e :: s.free }

/-- `newCacheEntry()`: an object from the pool or a fresh one -/
def Seq.alloc (s : Seq K V) : Nat × Seq K V :=
  match s.free with
  | e :: rest => (e, { s with free := rest })
  | [] => (s.next, { s with next := s.next + 1 })

/-- `Store` run to completion; a replaced entry is handed to the deletion listener -/
def Seq.store [Inhabited K] [DecidableEq K] (s : Seq K V) (k : K) (v : V) (nx : Bool) : Seq K V :=
  let (e, s) := s.alloc
  let s := { s with heap := upd s.heap e (k, some v) }
  match s.map k with
  | some old =>
    if nx then s       -- SetIfAbsent: rejected, `e` is garbage
    else ({ s with map := updK s.map k (some e) }).release old
  | none => { s with map := updK s.map k (some e) }

/-- `Get` run to completion -/
def Seq.get [DecidableEq K] (s : Seq K V) (k : K) : Option V :=
  match s.map k with
  | none => none
  | some e =>
    let (k', v') := s.heap e
    if v'.isNone || decide (k' ≠ k) then none else v'

/-- eviction / expiry of key `k` by the backend, listener run to completion -/
def Seq.evict [Inhabited K] [DecidableEq K] (s : Seq K V) (k : K) : Seq K V :=
  match s.map k with
  | none => s
  | some e => ({ s with map := updK s.map k none }).release e

inductive Op (K V : Type) where
  | store (k : K) (v : V) (nx : Bool)
  | get (k : K)
  | evict (k : K)

def Seq.apply [Inhabited K] [DecidableEq K] (s : Seq K V) : Op K V → Seq K V
  | .store k v nx => s.store k v nx
  | .get _ => s
  | .evict k => s.evict k

def Seq.run [Inhabited K] [DecidableEq K] (s : Seq K V) (ops : List (Op K V)) : Seq K V :=
  ops.foldl Seq.apply s

/-! ## value codec (`packCacheMsg` / `unpackCacheMsg`), wire codec and s2 abstract -/

/-- `packCacheMsg m = s2.Encode(m.Pack(uncompressed))`, errors as `none` -/
def packCache {M W C : Type} (pack : M → Option W) (s2enc : W → C) (m : M) : Option C :=
  (pack m).map s2enc

/-- `unpackCacheMsg b = UnpackMsg(s2.Decode(b))` -/
def unpackCache {M W C : Type} (unpack : W → Option M) (s2dec : C → Option W) (b : C) : Option M :=
  (s2dec b).bind unpack

/-- a resource record as far as this property is concerned -/
structure RR where
  name : List UInt8
  typ : Nat
  cls : Nat
  ttl : Nat
  data : List UInt8
  deriving DecidableEq, Repr

structure Msg where
  id : Nat
  bits : Nat                      -- QR, opcode, AA, TC, RD, RA, AD, CD, rcode
  questions : List (List UInt8 × Nat × Nat)
  answers : List RR
  authorities : List RR
  additionals : List RR
  deriving DecidableEq, Repr

def typeOPT : Nat := 41

/-- `dnsutils.SubtractTTL` on one record (uint32 arithmetic: `TTL > delta ? TTL - delta : 1`; OPT skipped) -/
def subTTL (delta : Nat) (r : RR) : RR :=
  if r.typ = typeOPT then r
  else if r.ttl > delta then { r with ttl := r.ttl - delta } else { r with ttl := 1 }

def subtractTTL (delta : Nat) (m : Msg) : Msg :=
  { m with answers := m.answers.map (subTTL delta), authorities := m.authorities.map (subTTL delta),
           additionals := m.additionals.map (subTTL delta) }

/-- what `cacheCtl.Get` hands to `handleReq` on a hit whose stored bytes are `b`, `elapsed` seconds after the store -/
def serve {W C : Type} (unpack : W → Option Msg) (s2dec : C → Option W) (b : C) (elapsed : Nat) : Option Msg :=
  (unpackCache unpack s2dec b).map (subtractTTL elapsed)

/-- "equal apart from TTL ageing": same owner, type, class, data; an OPT pseudo-record is untouched -/
def RR.eqModTtl (a b : RR) : Bool :=
  a.name == b.name && a.typ == b.typ && a.cls == b.cls && a.data == b.data &&
    (a.typ != typeOPT || a.ttl == b.ttl)

def eqSection : List RR → List RR → Bool
  | [], [] => true
  | a :: as, b :: bs => a.eqModTtl b && eqSection as bs
  | _, _ => false

/-- "apart from TTL ageing and the transaction ID it equals the response": same flags and rcode,
    same questions, same records in every section in the same order -/
def Msg.eqModTtlId (a b : Msg) : Bool :=
  a.bits == b.bits && a.questions == b.questions && eqSection a.answers b.answers &&
    eqSection a.authorities b.authorities && eqSection a.additionals b.additionals

/-! ## `cachehist`: histories on a real router, checked against the property text

  case : `f=<hex range file|none> ops=<op>;<op>;…` with (fields after those listed are for the harness only)
      `s,<key>,<r>,<nx>,…`   `CacheStore` of response number `r` under key tuple `key`
                             (`nx=1`: negative response → `SetIfAbsent`)
      `g,<key>,…`            `CacheGet`
      `h,<key>,<r>,…`        a client query through `handleServerReq`; `r` is the number of the answer the
                             scripted upstream gives *if* it is asked now
  `key` is the generator's canonical rendering of (lower-cased name, class, type, group label) — known by
  construction, not computed by the code under test; response numbers are unique per op. The harness
  recovers the number of a served message from its fingerprint (ID and TTLs masked), `?` if unknown.
  out  : one token per op: `s` | `hit:<r>` | `miss` | `c:<r>` (answered from cache, upstream not asked) |
         `u:<r>` (upstream asked exactly once) | `bad`
-/

inductive HOp where
  | store (key fp : String) (nx : Bool)
  | get (key : String)
  | handle (key fp : String)
  deriving Repr

inductive HOut where
  | stored
  | hit (fp : String)
  | miss
  | cached (fp : String)
  | upstream (fp : String)
  | bad
  deriving DecidableEq, Repr

/-- the reference: otter as a map (ample capacity, lifetimes far longer than a history) -/
def histModel (s : Seq String String) : List HOp → List HOut
  | [] => []
  | .store key fp nx :: rest => .stored :: histModel (s.store key fp nx) rest
  | .get key :: rest =>
    (match s.get key with | some fp => .hit fp | none => .miss) :: histModel s rest
  | .handle key fp :: rest =>
    match s.get key with
    | some c => .cached c :: histModel s rest
    | none => .upstream fp :: histModel (s.store key fp false) rest   -- all scripted answers are NOERROR

/-- the property, on an observed history. `past` = the (key, fp) pairs written so far, i.e. the
    responses the proxy produced when it relayed an upstream answer (or was told to store).
    * a response served from the cache was stored for the same key tuple, unchanged;
    * conversely a repeat of a key that was written before is answered from the cache. -/
def histSpec (past : List (String × String)) : List HOp → List HOut → Bool
  | [], [] => true
  | .store key fp _ :: ops, .stored :: outs => histSpec ((key, fp) :: past) ops outs
  | .get key :: ops, .hit fp :: outs => past.contains (key, fp) && histSpec past ops outs
  | .get key :: ops, .miss :: outs => !(past.any (·.1 == key)) && histSpec past ops outs
  | .handle key _ :: ops, .cached c :: outs => past.contains (key, c) && histSpec past ops outs
  | .handle key fp :: ops, .upstream u :: outs =>
    !(past.any (·.1 == key)) && u == fp && histSpec ((key, fp) :: past) ops outs
  | _, _ => false

def hopOfStr (s : String) : Option HOp :=
  match s.splitOn "," with
  | "s" :: key :: fp :: nx :: _ => (boolOfStr nx).map (.store key fp)
  | "g" :: key :: _ => some (.get key)
  | "h" :: key :: fp :: _ => some (.handle key fp)
  | _ => none

def houtOfStr (s : String) : Option HOut :=
  match s.splitOn ":" with
  | ["s"] => some .stored
  | ["hit", fp] => some (.hit fp)
  | ["miss"] => some .miss
  | ["c", fp] => some (.cached fp)
  | ["u", fp] => some (.upstream fp)
  | ["bad"] => some .bad
  | _ => none

def strOfHOut : HOut → String
  | .stored => "s"
  | .hit fp => "hit:" ++ fp
  | .miss => "miss"
  | .cached fp => "c:" ++ fp
  | .upstream fp => "u:" ++ fp
  | .bad => "bad"

def runHist (case impl : String) : String × String :=
  match (kvGet (words case) "ops").bind (fun o => (o.splitOn ";").mapM hopOfStr) with
  | none => ("bad-case", "na")
  | some ops =>
    let m := ";".intercalate ((histModel Seq.empty ops).map strOfHOut)
    let v := match (impl.splitOn ";").mapM houtOfStr with
      | some outs => if histSpec [] ops outs then "ok" else "viol"
      | none => "unparsed"
    (m, v)

/-! ## `cachestress`: concurrent stores / gets / evictions on the real `MemoryCache`.
  The schedule is not reproducible, so the observation is a summary: `bad` = number of hits whose value
  was not stored under the requested key, `live` = 1 iff both hits and misses occurred. The model's
  prediction is schedule independent (`Props/C07.hit_same_key`): `bad=0`. -/
def runStress (_case impl : String) : String × String :=
  let t := words impl
  let v := match kvNat t "bad", kvNat t "live" with
    | some b, some _ => if b == 0 then "ok" else "viol"
    | _, _ => "unparsed"
  ("bad=0 live=1", v)

/-! ## `cacheval`: `unpackCacheMsg (packCacheMsg m)` on generated messages; the observation is whether
  the decoded message equals `m` field by field (`rt=1`) — a sampled check of the imported codec/s2
  assumptions of `value_roundtrip`. -/
def runVal (_case impl : String) : String × String :=
  ("rt=1", if impl == "rt=1" then "ok" else if impl == "rt=0" then "viol" else "unparsed")

end MosVerif.MemCache
