/-
  C07 — model of `internal/cache/mem.go` (`MemoryCache.Store/Get`, `releaseEntry`) as it is after the
  repairs fb0d3a6 (no entry recycling, idempotent release), 3a97998 (leftover removal, serialized
  stores, refused entry released) and f8fe887 (lookup retries).

      type cacheEntry struct { l sync.RWMutex; storedTime, expireTime time.Time; k string; v pool.Buffer }

      Store(k, stored, expire, v, setNX):                  Get(k):
        ks := string(k); vCopy := CopyBuf(v)                 misses := 0
        e := new(cacheEntry)                                 for retry := 0; retry < 8; retry++ {
        e.l.Lock(); times; e.k = ks; e.v = vCopy; Unlock       e, ok := backend.Get(k)
        l := &storeLocks[hash(ks)]; l.Lock(); defer Unlock     if !ok { if misses++; misses < 3 { continue }; break }
        if setNX {                                             if !e.l.TryRLock() { continue }
          ok := SetIfAbsent(ks, e, ttl)                        if e.v == nil || e.k != string(k) {
          if !ok { if _, alive := Get(ks); !alive {                e.l.RUnlock(); continue }
                     Delete(ks); ok = SetIfAbsent(…) } }       v = CopyBuf(e.v); …times…; e.l.RUnlock(); return v
          if !ok { releaseEntry(e) }                         }
        } else if !Set(ks, e, ttl) { releaseEntry(e) }       return nil
      releaseEntry(e):   -- also otter's DeletionListener, possibly several times for one entry
        e.l.Lock(); times = 0; e.k = ""; if e.v != nil { ReleaseBuf(e.v); e.v = nil }; e.l.Unlock()

  * `Step` — the concurrent layer: any number of threads, one Go statement per step, the
    `sync.RWMutex` of every entry explicit (`wr` = the writer, `rd` = the readers holding it;
    the mutex's reader *count* is `rd.length`).  The backend (otter) is **adversarial**:
    `backend.Get` may return any entry object whatsoever, the deletion listener may be started on
    any entry at any time, any number of times, `TryRLock` may fail spuriously, and the allocator may
    even hand `Store` an object that is still in use (the real `new` never does; the safety result
    does not need that).  Every behaviour of the real backend is a behaviour of this layer, so what is
    proved here (a hit was stored under the requested key) does not rest on otter's internals.
    The backend calls of `Store` (`SetIfAbsent/Get/Delete/Set` under the stripe lock) do not touch
    entry objects; the stripe lock matters for the converse direction only (`Model/QCache`).
    The payload `V` stands for the triple (value bytes, storedTime, expireTime): the three fields
    are written / wiped / read inside the same lock sections.
  * `FStep` — the same statements over a backend that is a map with a deletion queue.
  The converse direction (a live key is never reported as a miss) is in `Model/QCache`.
-/
import MosVerif.Util
-- @component cachestress MosVerif.MemCache.runStress
-- @component cacheval MosVerif.MemCache.runVal
namespace MosVerif.MemCache

/-- function update -/
def upd {α : Type} (f : Nat → α) (i : Nat) (x : α) : Nat → α := fun j => if j = i then x else f j

/-- a `cacheEntry` object -/
structure Entry (K V : Type) where
  k : K
  v : Option V            -- `nil` or the value buffer's content (+ the two times)
  wr : Option Nat         -- thread holding `l` for writing
  rd : List Nat           -- threads holding `l` for reading
  deriving Repr

/-- program counter + locals of a thread; `e` is the entry pointer it holds -/
inductive Pc (K V : Type) where
  | idle
  -- MemoryCache.Store(k, …, v, setNX)
  | sNew (k : K) (v : V) (nx : Bool)                 -- before `e := new(cacheEntry)`
  | sLock (e : Nat) (k : K) (v : V) (nx : Bool)      -- before `e.l.Lock()`
  | sFillK (e : Nat) (k : K) (v : V) (nx : Bool)     -- before `e.k = ks` (times written just before)
  | sFillV (e : Nat) (k : K) (v : V) (nx : Bool)     -- before `e.v = vCopy`
  | sUnlock (e : Nat) (k : K) (v : V) (nx : Bool)    -- before `e.l.Unlock()`
  | sSet (e : Nat) (k : K) (v : V) (nx : Bool)       -- before the backend calls under the stripe lock
  -- MemoryCache.Get(k); `n` = the loop variable `retry`, `m` = `misses`
  | gLookup (k : K) (n m : Nat)                      -- before `backend.Get(k)`
  | gTry (e : Nat) (k : K) (n m : Nat)               -- before `e.l.TryRLock()`
  | gCheck (e : Nat) (k : K) (n m : Nat)             -- before `e.v == nil || e.k != string(k)`
  | gCopy (e : Nat) (k : K) (n m : Nat)              -- before `v = CopyBuf(e.v)`
  | gUnlockHit (e : Nat) (k : K) (v : V)             -- before `e.l.RUnlock(); return v`
  | gUnlockMiss (e : Nat) (k : K) (n m : Nat)        -- before `e.l.RUnlock(); continue`
  | gDone (k : K) (res : Option V)                   -- `Get(k)` has returned `res`
  | gBad                                             -- `CopyBuf(e.v)` met `e.v == nil` after the check
  -- releaseEntry(e)
  | rLock (e : Nat)
  | rWipeK (e : Nat)                                 -- before `e.k = ""` (times zeroed just before)
  | rWipeV (e : Nat)                                 -- before `ReleaseBuf(e.v); e.v = nil`
  | rUnlock (e : Nat)

/-- the loop condition of `Get`: `retry < 8` -/
abbrev getBudget (retry : Nat) : Prop := retry < 8
/-- `if misses++; misses < 3 { continue }` (on the incremented counter) -/
abbrev getMissesCond (misses : Nat) : Prop := misses < 3

/-- `continue` in `Get`'s loop: `retry++`, leave the loop (miss) when `retry < 8` fails -/
def Pc.again {K V : Type} (k : K) (n m : Nat) : Pc K V :=
  if getBudget (n + 1) then .gLookup k (n + 1) m else .gDone k none

structure State (K V : Type) where
  ent : Nat → Entry K V
  pc : Nat → Pc K V
  /-- ghost: every `(k, v)` with which `Store` has been called so far -/
  hist : List (K × V)

variable {K V : Type}

def State.setPc (s : State K V) (t : Nat) (p : Pc K V) : State K V := { s with pc := upd s.pc t p }
def State.setEnt (s : State K V) (e : Nat) (x : Entry K V) : State K V := { s with ent := upd s.ent e x }

/-- all entries are zero objects, nobody runs -/
def init [Inhabited K] : State K V :=
  { ent := fun _ => ⟨default, none, none, []⟩, pc := fun _ => .idle, hist := [] }

/-- One statement of one thread `t`. -/
inductive Step [Inhabited K] [DecidableEq K] : State K V → State K V → Prop
  -- Store
  | callStore (s t k v nx) : s.pc t = .idle →
      Step s { (s.setPc t (.sNew k v nx)) with hist := (k, v) :: s.hist }
  | storeNew (s t k v nx) (e : Nat) : s.pc t = .sNew k v nx →            -- allocator: any object
      Step s (s.setPc t (.sLock e k v nx))
  | storeLock (s t e k v nx) : s.pc t = .sLock e k v nx → (s.ent e).wr = none → (s.ent e).rd = [] →
      Step s ((s.setEnt e { s.ent e with wr := some t }).setPc t (.sFillK e k v nx))
  | storeFillK (s t e k v nx) : s.pc t = .sFillK e k v nx →
      Step s ((s.setEnt e { s.ent e with k := k }).setPc t (.sFillV e k v nx))
  | storeFillV (s t e k v nx) : s.pc t = .sFillV e k v nx →
      Step s ((s.setEnt e { s.ent e with v := some v }).setPc t (.sUnlock e k v nx))
  | storeUnlock (s t e k v nx) : s.pc t = .sUnlock e k v nx →
      Step s ((s.setEnt e { s.ent e with wr := none }).setPc t (.sSet e k v nx))
  | storeSet (s t e k v nx) : s.pc t = .sSet e k v nx →                  -- accepted; backend state is not tracked here
      Step s (s.setPc t .idle)
  | storeRefused (s t e k v nx) : s.pc t = .sSet e k v nx →              -- `!ok`: `releaseEntry(e)`
      Step s (s.setPc t (.rLock e))
  -- Get
  | callGet (s t k) : s.pc t = .idle → Step s (s.setPc t (.gLookup k 0 0))
  | getLookupHit (s t k n m) (e : Nat) : s.pc t = .gLookup k n m →       -- backend: any object
      Step s (s.setPc t (.gTry e k n m))
  | getLookupMiss (s t k n m) : s.pc t = .gLookup k n m →                -- `misses++; if misses < 3 continue; break`
      Step s (s.setPc t (if getMissesCond (m + 1) then .again k n (m + 1) else .gDone k none))
  | getTryOk (s t e k n m) : s.pc t = .gTry e k n m → (s.ent e).wr = none →
      Step s ((s.setEnt e { s.ent e with rd := t :: (s.ent e).rd }).setPc t (.gCheck e k n m))
  | getTryFail (s t e k n m) : s.pc t = .gTry e k n m →                   -- writer holds/wants the lock: `continue`
      Step s (s.setPc t (.again k n m))
  | getCheck (s t e k n m) : s.pc t = .gCheck e k n m →
      Step s (s.setPc t (if (s.ent e).v.isNone || decide ((s.ent e).k ≠ k) then .gUnlockMiss e k n m else .gCopy e k n m))
  | getCopy (s t e k n m) : s.pc t = .gCopy e k n m →
      Step s (s.setPc t (match (s.ent e).v with | some v => .gUnlockHit e k v | none => .gBad))
  | getUnlockHit (s t e k v) : s.pc t = .gUnlockHit e k v →
      Step s ((s.setEnt e { s.ent e with rd := (s.ent e).rd.filter (· ≠ t) }).setPc t (.gDone k (some v)))
  | getUnlockMiss (s t e k n m) : s.pc t = .gUnlockMiss e k n m →         -- `e.l.RUnlock(); continue`
      Step s ((s.setEnt e { s.ent e with rd := (s.ent e).rd.filter (· ≠ t) }).setPc t (.again k n m))
  | getRet (s t k res) : s.pc t = .gDone k res → Step s (s.setPc t .idle)
  -- releaseEntry as the deletion listener, started by the backend whenever and as often as it likes
  | callRelease (s t) (e : Nat) : s.pc t = .idle → Step s (s.setPc t (.rLock e))
  | relLock (s t e) : s.pc t = .rLock e → (s.ent e).wr = none → (s.ent e).rd = [] →
      Step s ((s.setEnt e { s.ent e with wr := some t }).setPc t (.rWipeK e))
  | relWipeK (s t e) : s.pc t = .rWipeK e →
      Step s ((s.setEnt e { s.ent e with k := default }).setPc t (.rWipeV e))
  | relWipeV (s t e) : s.pc t = .rWipeV e →
      Step s ((s.setEnt e { s.ent e with v := none }).setPc t (.rUnlock e))
  | relUnlock (s t e) : s.pc t = .rUnlock e →
      Step s ((s.setEnt e { s.ent e with wr := none }).setPc t .idle)

/-- every interleaving: the reflexive-transitive closure from `init` -/
inductive Reachable [Inhabited K] [DecidableEq K] : State K V → Prop
  | init : Reachable init
  | step {s s'} : Reachable s → Step s s' → Reachable s'

/-- the entry whose lock the thread holds for writing / reading at this pc -/
def Pc.wsec : Pc K V → Option Nat
  | .sFillK e .. | .sFillV e .. | .sUnlock e .. | .rWipeK e | .rWipeV e | .rUnlock e => some e
  | _ => none

def Pc.rsec : Pc K V → Option Nat
  | .gCheck e .. | .gCopy e .. | .gUnlockHit e .. | .gUnlockMiss e .. => some e
  | _ => none

/-- the statements that write / read the data fields `k`, `v` of an entry -/
def Pc.writes : Pc K V → Option Nat
  | .sFillK e .. | .sFillV e .. | .rWipeK e | .rWipeV e => some e
  | _ => none

def Pc.reads : Pc K V → Option Nat
  | .gCheck e .. | .gCopy e .. => some e
  | _ => none

/-! ### the faithful layer: otter as a map with a deletion queue

  The same statements, but `new(cacheEntry)` returns a never-used object, `backend.Get` only returns
  what the map holds, `Set` hands the replaced entry to the deletion listener, eviction / expiry
  (`evict`) is a step of the backend, and the listener runs on entries of the deletion queue — possibly
  more than once for one entry (`listenerAgain`). Every faithful step is an adversarial step (or leaves
  the core state unchanged) — `Props/C07.faithful_refines` — so everything proved about `Step` holds here. -/

structure Backend (K : Type) where
  map : K → Option Nat
  pend : List Nat          -- entries the listener is (still) going to be called for
  next : Nat               -- objects ≥ next were never allocated

structure FState (K V : Type) where
  core : State K V
  be : Backend K

def updKey [DecidableEq K] {α : Type} (f : K → α) (k : K) (x : α) : K → α := fun j => if j = k then x else f j

inductive FStep [Inhabited K] [DecidableEq K] : FState K V → FState K V → Prop
  /-- any statement that does not touch the backend -/
  | local (c c' : State K V) (b : Backend K) : Step c c' →
      (∀ t k v nx e, c.pc t = .sNew k v nx → c'.pc t ≠ .sLock e k v nx) →
      (∀ t k n m e, c.pc t = .gLookup k n m → c'.pc t ≠ .gTry e k n m) →
      (∀ t e, c.pc t = .idle → c'.pc t ≠ .rLock e) →
      (∀ t e k v nx, c.pc t = .sSet e k v nx → c'.pc t = .sSet e k v nx) →
      FStep ⟨c, b⟩ ⟨c', b⟩
  | newFresh (c : State K V) (b : Backend K) (t k v nx) :
      c.pc t = .sNew k v nx →
      FStep ⟨c, b⟩ ⟨c.setPc t (.sLock b.next k v nx), { b with next := b.next + 1 }⟩
  | set (c : State K V) (b : Backend K) (t e k v) :
      c.pc t = .sSet e k v false →
      FStep ⟨c, b⟩ ⟨c.setPc t .idle,
        { b with map := updKey b.map k (some e), pend := (b.map k).toList ++ b.pend }⟩
  | setIfAbsent (c : State K V) (b : Backend K) (t e k v) :
      c.pc t = .sSet e k v true → b.map k = none →
      FStep ⟨c, b⟩ ⟨c.setPc t .idle, { b with map := updKey b.map k (some e) }⟩
  | refused (c : State K V) (b : Backend K) (t e k v nx) :                 -- too big / key present
      c.pc t = .sSet e k v nx →
      FStep ⟨c, b⟩ ⟨c.setPc t (.rLock e), b⟩
  | lookupHit (c : State K V) (b : Backend K) (t k n m e) :
      c.pc t = .gLookup k n m → b.map k = some e →
      FStep ⟨c, b⟩ ⟨c.setPc t (.gTry e k n m), b⟩
  | evict (c : State K V) (b : Backend K) (k : K) (e : Nat) : b.map k = some e →   -- size / expiry / Delete
      FStep ⟨c, b⟩ ⟨c, { b with map := updKey b.map k none, pend := e :: b.pend }⟩
  | expiredLookup (c : State K V) (b : Backend K) (k : K) (e : Nat) : b.map k = some e →
      FStep ⟨c, b⟩ ⟨c, { b with pend := e :: b.pend }⟩       -- delete task for a node that stays in the map
  | listener (c : State K V) (b : Backend K) (t e) (pre post : List Nat) :
      c.pc t = .idle → b.pend = pre ++ e :: post →
      FStep ⟨c, b⟩ ⟨c.setPc t (.rLock e), { b with pend := pre ++ post }⟩
  | listenerAgain (c : State K V) (b : Backend K) (t e) :
      c.pc t = .idle → e ∈ b.pend →
      FStep ⟨c, b⟩ ⟨c.setPc t (.rLock e), b⟩

def finit [Inhabited K] : FState K V := ⟨init, ⟨fun _ => none, [], 0⟩⟩

inductive FReachable [Inhabited K] [DecidableEq K] : FState K V → Prop
  | init : FReachable finit
  | step {s s'} : FReachable s → FStep s s' → FReachable s'

/-! ## value codec (`packCacheMsg` / `unpackCacheMsg`), wire codec and s2 abstract -/

/-- `packCacheMsg m = s2.Encode(m.Pack(uncompressed))`, errors as `none` -/
def packCache {M W C : Type} (pack : M → Option W) (s2enc : W → C) (m : M) : Option C :=
  (pack m).map s2enc

/-- `unpackCacheMsg b = UnpackMsg(s2.Decode(b))` -/
def unpackCache {M W C : Type} (unpack : W → Option M) (s2dec : C → Option W) (b : C) : Option M :=
  (s2dec b).bind unpack

/-- a resource record as far as this property is concerned -/
structure RR where
  name : List UInt8
  typ : Nat
  cls : Nat
  ttl : Nat
  data : List UInt8
  deriving DecidableEq, Repr

structure Msg where
  id : Nat
  bits : Nat                      -- QR, opcode, AA, TC, RD, RA, AD, CD, rcode
  questions : List (List UInt8 × Nat × Nat)
  answers : List RR
  authorities : List RR
  additionals : List RR
  deriving DecidableEq, Repr

def typeOPT : Nat := 41

/-- `dnsutils.SubtractTTL` on one record (uint32 arithmetic: `TTL > delta ? TTL - delta : 1`; OPT skipped) -/
def subTTL (delta : Nat) (r : RR) : RR :=
  if r.typ = typeOPT then r
  else if r.ttl > delta then { r with ttl := r.ttl - delta } else { r with ttl := 1 }

def subtractTTL (delta : Nat) (m : Msg) : Msg :=
  { m with answers := m.answers.map (subTTL delta), authorities := m.authorities.map (subTTL delta),
           additionals := m.additionals.map (subTTL delta) }

/-- what `cacheCtl.Get` hands to `handleReq` on a hit whose stored bytes are `b`, `elapsed` seconds after the store -/
def serve {W C : Type} (unpack : W → Option Msg) (s2dec : C → Option W) (b : C) (elapsed : Nat) : Option Msg :=
  (unpackCache unpack s2dec b).map (subtractTTL elapsed)

/-- "equal apart from TTL ageing": same owner, type, class, data; an OPT pseudo-record is untouched -/
def RR.eqModTtl (a b : RR) : Bool :=
  a.name == b.name && a.typ == b.typ && a.cls == b.cls && a.data == b.data &&
    (a.typ != typeOPT || a.ttl == b.ttl)

def eqSection : List RR → List RR → Bool
  | [], [] => true
  | a :: as, b :: bs => a.eqModTtl b && eqSection as bs
  | _, _ => false

/-- "apart from TTL ageing and the transaction ID it equals the response": same flags and rcode,
    same questions, same records in every section in the same order -/
def Msg.eqModTtlId (a b : Msg) : Bool :=
  a.bits == b.bits && a.questions == b.questions && eqSection a.answers b.answers &&
    eqSection a.authorities b.authorities && eqSection a.additionals b.additionals

/-! ## `cachestress`: concurrent stores / gets / evictions on the real `MemoryCache`.
  The schedule is not reproducible, so the observation is a summary: `bad` = number of hits whose value
  was not stored under the requested key, `live` = 1 iff both hits and misses occurred. The model's
  prediction is schedule independent (`Props/C07.hit_same_key`): `bad=0`. -/
def runStress (_case impl : String) : String × String :=
  let t := words impl
  let v := match kvNat t "bad", kvNat t "live" with
    | some b, some _ => if b == 0 then "ok" else "viol"
    | _, _ => "unparsed"
  ("bad=0 live=1", v)

/-! ## `cacheval`: `unpackCacheMsg (packCacheMsg m)` on generated messages; the observation is whether
  the decoded message equals `m` field by field (`rt=1`) — a sampled check of the imported codec/s2
  assumptions of `value_roundtrip`. -/
def runVal (_case impl : String) : String × String :=
  ("rt=1", if impl == "rt=1" then "ok" else if impl == "rt=0" then "viol" else "unparsed")

end MosVerif.MemCache
