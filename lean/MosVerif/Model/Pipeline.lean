/-
  C05 — model of the multiplexing ("pipeline") upstream connection
  (internal/upstream/transport/pipeline_conn.go, pipeline_transport.go).

  One `Step` = one mutex-protected region / one channel operation / one branch of
  the `select` of the Go code, so that a `List Step` is an arbitrary interleaving
  of any number of concurrent `ExchangeContext` calls, the read loops of any number
  of connections and an arbitrary server.

      pipelineConn{ m; closed; nextQid; reserved; queue map[uint32]chan *Msg }
      exchange:  respChan := make(chan *Msg, 1)
                 qid, err := c.addQueueC(respChan) ; if err → return err
                 defer c.deleteQueueC(qid)
                 err = c.write(ctx, m, qid)       ; if err → return err   (a failed write may close the connection)
                 select { <-ctx.Done → err | <-c.ctx.Done → err
                        | r := <-respChan → r.Header.ID = BigEndian.Uint16(m); return r }
      readLoop:  r := read ; ch := c.getQueueC(r.Header.ID)
                 if ch != nil { select { case ch <- r: default: drop } } else drop

  Channels are objects of their own (`chans`), the queue of a connection maps a wire
  id to a channel, an exchange receives from *its own* channel (not through the queue) —
  exactly like the Go code; nothing in the model presupposes that ids are unique.
  `hist` (newest event first) is the observable history the property talks about,
  `taken` is a ghost record "exchange e consumed the reply event with index k".
-/
import MosVerif.Util
-- @component pipeline MosVerif.Pipeline.run
namespace MosVerif.Pipeline

/-! ### the 1-buffered channel, the waiter table -/

/-- `chan *dnsmsg.Msg` of capacity 1: `p` = payload nonce of the buffered reply,
    `k` = ghost stamp (index of the `reply` event in the history). -/
inductive Slot where
  | empty
  | full (p k : Nat)
  deriving DecidableEq, Repr

/-- `map[uint32]chan`: wire id ↦ channel (a channel is named by a number). -/
abbrev Queue := List (Nat × Nat)

def qget (q : Nat) : Queue → Option Nat
  | [] => none
  | (a, ch) :: t => if a = q then some ch else qget q t

/-- `delete(c.queue, qid)` -/
def qdel (q : Nat) : Queue → Queue
  | [] => []
  | (a, ch) :: t => if a = q then qdel q t else (a, ch) :: qdel q t

/-- `c.queue[qid] = ch` (a Go map assignment overwrites) -/
def qput (q ch : Nat) (l : Queue) : Queue := (q, ch) :: qdel q l

structure Conn where
  nextQid : Nat := 0
  reserved : Nat := 0
  closed : Bool := false
  queue : Queue := []
  deriving DecidableEq, Repr

/-- `Status()`: (Closed, Available) -/
def Conn.status (c : Conn) : Bool × Bool :=
  (c.closed, decide (c.nextQid + c.reserved ≤ 65535))

/-- `Reserve()` -/
def Conn.reserve (c : Conn) : Conn :=
  if c.nextQid + c.reserved < 65535 then { c with reserved := c.reserved + 1 } else c

/-- `addQueueC(respChan)`: `none` = `errPipelineConnEoL`. `% 65536` is the `uint16(...)` conversion. -/
def Conn.addQueueC (c : Conn) (ch : Nat) : Conn × Option Nat :=
  let c := if c.reserved > 0 then { c with reserved := c.reserved - 1 } else c
  if c.nextQid > 65535 then (c, none)
  else
    let qid := c.nextQid % 65536
    ({ c with nextQid := c.nextQid + 1, queue := qput qid ch c.queue }, some qid)

/-- `deleteQueueC(qid)` including the end-of-life close. -/
def Conn.deleteQueueC (c : Conn) (qid : Nat) : Conn :=
  let q := qdel qid c.queue
  let eol := decide (c.nextQid > 65535) && q.isEmpty
  { c with queue := q, closed := c.closed || eol }

/-! ### exchanges, events, state -/

/-- where an `ExchangeContext` call stands -/
inductive Pc where
  /-- in the retry loop of `ExchangeContext`, not inside `pipelineConn.exchange` -/
  | idle
  /-- `addQueueC` returned `q` on connection `c` for channel `ch`; `write` not done yet -/
  | registered (c q ch : Nat)
  /-- blocked in the `select` -/
  | waiting (c q ch : Nat)
  /-- the `select` is over (`some p`: a reply with payload `p` was received); the deferred
      `deleteQueueC` is still to run -/
  | leaving (c q : Nat) (r : Option Nat)
  /-- `ExchangeContext` has returned -/
  | done
  deriving DecidableEq, Repr

/-- observable events -/
inductive Ev where
  /-- `addQueueC` gave exchange `e` wire id `id` on connection `c` -/
  | assign (e c id : Nat)
  /-- the server received `e`'s query on connection `c`; it carried wire id `id` -/
  | query (e c id : Nat)
  /-- the server sent, on connection `c`, a reply with wire id `id` and payload `p` -/
  | reply (c id p : Nat)
  /-- `ExchangeContext` of `e` returned: `none` = an error, `some (ID, payload)` = a message -/
  | ret (e : Nat) (r : Option (Nat × Nat))
  deriving DecidableEq, Repr

def upd {α : Type} (f : Nat → α) (i : Nat) (v : α) : Nat → α := fun x => if x = i then v else f x

@[simp] theorem upd_same {α : Type} (f : Nat → α) (i : Nat) (v : α) : upd f i v i = v := by simp [upd]
@[simp] theorem upd_other {α : Type} (f : Nat → α) (i j : Nat) (v : α) (h : j ≠ i) : upd f i v j = f j := by
  simp [upd, h]

structure State where
  conns : Nat → Conn
  chans : Nat → Slot
  nchan : Nat
  pcs : Nat → Pc
  /-- newest first -/
  hist : List Ev
  /-- ghost: (exchange, index of the reply event it received) -/
  taken : List (Nat × Nat)

/-- `cid e` = the ID in the first two bytes of the caller's query of exchange `e`;
    `base c` = `nextQid` of connection `c` at the start of the observed history
    (ids below it were used earlier). -/
structure Cfg where
  cid : Nat → Nat
  base : Nat → Nat

def init (cfg : Cfg) : State :=
  { conns := fun c => { nextQid := cfg.base c }, chans := fun _ => .empty, nchan := 0,
    pcs := fun _ => .idle, hist := [], taken := [] }

inductive Step where
  /-- `Reserve()` called by the pool -/
  | reserve (c : Nat)
  /-- `e` (idle) enters `exchange` on connection `c`: `make(chan,1)` + `addQueueC` -/
  | addQ (e c : Nat)
  /-- `write`; `ok=false`: the write failed (`closes`: … and `closeWithErr` was called) -/
  | write (e : Nat) (ok closes : Bool)
  /-- the read loop of `c` got a reply with wire id `id` and payload `p` -/
  | srvReply (c id p : Nat)
  /-- `select`: `r := <-respChan` -/
  | take (e : Nat)
  /-- `select`: `<-ctx.Done()` -/
  | cancel (e : Nat)
  /-- `select`: `<-c.ctx.Done()` (the connection was closed) -/
  | dead (e : Nat)
  /-- the deferred `deleteQueueC`, and `exchange` returns -/
  | delQ (e : Nat)
  /-- `ExchangeContext` returns an error instead of (re)trying -/
  | giveUp (e : Nat)
  /-- `closeWithErr` (read error, pool, transport close) -/
  | close (c : Nat)
  deriving DecidableEq, Repr

def step (cfg : Cfg) (s : State) : Step → State
  | .reserve c => { s with conns := upd s.conns c (s.conns c).reserve }
  | .addQ e c =>
    match s.pcs e with
    | .idle =>
      match (s.conns c).addQueueC s.nchan with
      | (c', none) => { s with conns := upd s.conns c c' }
      | (c', some q) =>
        { s with conns := upd s.conns c c', chans := upd s.chans s.nchan .empty, nchan := s.nchan + 1,
                 pcs := upd s.pcs e (.registered c q s.nchan), hist := .assign e c q :: s.hist }
    | _ => s
  | .write e ok closes =>
    match s.pcs e with
    | .registered c q ch =>
      if ok then { s with pcs := upd s.pcs e (.waiting c q ch), hist := .query e c q :: s.hist }
      else { s with pcs := upd s.pcs e (.leaving c q none),
                    conns := if closes then upd s.conns c { s.conns c with closed := true } else s.conns }
    | _ => s
  | .srvReply c id p =>
    let s' := { s with hist := .reply c id p :: s.hist }
    match qget id (s.conns c).queue with
    | none => s'                                      -- unknown id: discarded
    | some ch =>
      match s.chans ch with
      | .empty => { s' with chans := upd s.chans ch (.full p s.hist.length) }
      | .full _ _ => s'                               -- buffer occupied: discarded (`default:`)
  | .take e =>
    match s.pcs e with
    | .waiting c q ch =>
      match s.chans ch with
      | .full p k => { s with chans := upd s.chans ch .empty, pcs := upd s.pcs e (.leaving c q (some p)),
                              taken := (e, k) :: s.taken }
      | .empty => s
    | _ => s
  | .cancel e =>
    match s.pcs e with
    | .waiting c q _ => { s with pcs := upd s.pcs e (.leaving c q none) }
    | _ => s
  | .dead e =>
    match s.pcs e with
    | .waiting c q _ => if (s.conns c).closed then { s with pcs := upd s.pcs e (.leaving c q none) } else s
    | _ => s
  | .delQ e =>
    match s.pcs e with
    | .leaving c q r =>
      let s' := { s with conns := upd s.conns c ((s.conns c).deleteQueueC q) }
      match r with
      | some p => { s' with pcs := upd s.pcs e .done, hist := .ret e (some (cfg.cid e, p)) :: s.hist }
      | none => { s' with pcs := upd s.pcs e .idle }
    | _ => s
  | .giveUp e =>
    match s.pcs e with
    | .idle => { s with pcs := upd s.pcs e .done, hist := .ret e none :: s.hist }
    | _ => s
  | .close c => { s with conns := upd s.conns c { s.conns c with closed := true } }

def exec (cfg : Cfg) (s : State) : List Step → State
  | [] => s
  | st :: rest => exec cfg (step cfg s st) rest

/-! ### the property as a decidable predicate on an observed history (newest event first)

  Written from the property text: an exchange that returns a message returns a reply the
  server sent, after the exchange was given its wire id, on that connection and with that
  wire id; the caller's ID is restored; a wire id is never reused on a connection; every
  exchange returns at most once. -/

/-- the (connection, wire id) currently assigned to `e` -/
def curAssign (e : Nat) : List Ev → Option (Nat × Nat)
  | [] => none
  | .assign e' c id :: t => if e' = e then some (c, id) else curAssign e t
  | _ :: t => curAssign e t

/-- the server sent `reply c id p` since `e` was given its current wire id -/
def replySince (e c id p : Nat) : List Ev → Bool
  | [] => false
  | .reply c' id' p' :: t => (c' == c && id' == id && p' == p) || replySince e c id p t
  | .assign e' _ _ :: t => if e' = e then false else replySince e c id p t
  | _ :: t => replySince e c id p t

def isRetOf (e : Nat) : Ev → Bool
  | .ret e' _ => e' == e
  | _ => false

def isAssignOf (c id : Nat) : Ev → Bool
  | .assign _ c' id' => c' == c && id' == id
  | _ => false

/-- `ExchangeContext` of `e` has returned -/
def returned (e : Nat) (h : List Ev) : Bool := h.any (isRetOf e)

/-- wire id `id` was given to some exchange on connection `c` -/
def idUsed (c id : Nat) (h : List Ev) : Bool := h.any (isAssignOf c id)

def okEv (cfg : Cfg) (ev : Ev) (older : List Ev) : Bool :=
  match ev with
  | .assign e c id => decide (id < 65536) && decide (cfg.base c ≤ id) && !idUsed c id older && !returned e older
  | .query e c id => curAssign e older == some (c, id)
  | .reply _ _ _ => true
  | .ret e none => !returned e older
  | .ret e (some (mid, p)) =>
    !returned e older && mid == cfg.cid e &&
      match curAssign e older with
      | some (c, id) => replySince e c id p older
      | none => false

def spec (cfg : Cfg) : List Ev → Bool
  | [] => true
  | ev :: older => okEv cfg ev older && spec cfg older

/-- first event (oldest first) at which the history breaks the property -/
def firstBad (cfg : Cfg) : List Ev → Option Ev
  | [] => none
  | ev :: older =>
    match firstBad cfg older with
    | some b => some b
    | none => if okEv cfg ev older then none else some ev

/-! ### script level: the serialised schedules the harness produces

  case : `tcp=<0|1> mc=<n> pre=<n> ops=<op>,<op>,…`
     s<E>:<cid>            start exchange E with caller ID cid, wait until the server saw its query
     b<E>:<cid>+<E>:<cid>…  start several exchanges concurrently, wait until the server saw all queries
     h<E>:<cid>+<E>:<cid>…  all are handed a connection by the pool first, then enter `exchange` one by one,
                            no retry (needs the harness hook; without it the harness runs a burst)
     r<E>:<p>              server replies to E's current (connection, wire id) with payload p
     u<c>:<id>:<p>         server sends a reply with wire id `id`, payload p on connection c
     c<E>                  cancel E's context
     x<c>                  server closes connection c (stalled writes on it fail; the other stalled writes complete)
     g                     the server stops reading: every write stalls (tcp: the write lock stays taken, later
                           exchanges of that connection are registered and block before their write)
     o                     the server reads again: stalled writes complete
     f<k>                  the stalled writes fail; k=1 on udp: "message too long" (the connection stays open)
     t<c>                  the idle timeout of connection c expires while its read loop waits for bytes (possibly
                           in the middle of a frame): the client closes the connection
     F<c>:<id>:<p>:<iid>:<ip>…  the server sends ONE frame: the reply (id, p); its rdata contains well-formed
                           length-prefixed replies (iid, ip), which are data, not messages
     A<c>:… / Z<c>         that frame in two parts: up to the embedded replies / the rest (tcp only); no other
                           frame can be sent on c in between
  out  : `pre=<summary> log=<group>|<group>|…`, one group of `,`-separated tokens per op:
     q<E>:<c>:<id>  i<c>:<id>:<p> | i-  m<E>:<ID>:<p>  e<E>:cancel|err  x<c> | x-
     a<c> (part of a frame written)  n<c> (harness only: the client kept c after a read timeout)
     w<E>:<c>:<id> (E's write, carrying wire id `id`, is stalled)  b<E> (E is registered and waits for the write lock)
     and one last group: k<c> for every exhausted connection the client closed (end of life)
     harness only (the model never emits them): t<E> timeout, T script abandoned, z<E> caller's buffer modified,
     y<E> query altered beyond the ID
  The connection an exchange lands on, the order of concurrent starters and the retry
  decisions are the connection pool's / scheduler's business: the model follows the choices
  visible in the implementation's log (oracle) and computes everything else itself.
-/

def splitC (sep : Char) : List Char → List (List Char)
  | [] => [[]]
  | c :: t =>
    match splitC sep t with
    | [] => [[]]
    | h :: r => if c = sep then [] :: h :: r else (c :: h) :: r

def natOfChars (cs : List Char) : Option Nat :=
  if cs.isEmpty then none
  else cs.foldl (fun acc c => acc.bind fun n => if c.isDigit then some (n * 10 + (c.toNat - 48)) else none) (some 0)

def natsOf (cs : List Char) : Option (List Nat) :=
  (splitC ':' cs).mapM natOfChars

inductive Op where
  | start (e cid : Nat)
  | burst (es : List (Nat × Nat))
  | hold (es : List (Nat × Nat))
  | reply (e p : Nat)
  | raw (c id p : Nat)
  | cancel (e : Nat)
  | kill (c : Nat)
  /-- the server stops reading: from now on every write of the client stalls -/
  | gate
  /-- the server reads again: the stalled writes complete -/
  | ungate
  /-- the stalled writes fail (`1`: with "message too long", which leaves a UDP connection open) -/
  | fail (k : Nat)
  /-- the idle timeout of connection `c` expires while its read loop waits for bytes -/
  | idle (c : Nat)
  /-- one frame: the reply `(id, p)`, whose rdata contains well-formed framed replies `inner` -/
  | frame (c id p : Nat) (inner : List (Nat × Nat))
  /-- the part of such a frame that precedes the embedded replies -/
  | fhead (c id p : Nat) (inner : List (Nat × Nat))
  /-- the rest of the frame begun on `c` -/
  | ftail (c : Nat)
  deriving Repr

def pairsOf : List Nat → Option (List (Nat × Nat))
  | [] => some []
  | [_] => none
  | a :: b :: t => (pairsOf t).map ((a, b) :: ·)

def opOfChars : List Char → Option Op
  | 's' :: r => match natsOf r with | some [e, cid] => some (.start e cid) | _ => none
  | 'b' :: r => do
      let parts ← (splitC '+' r).mapM natsOf
      let es ← parts.mapM fun | [e, cid] => some (e, cid) | _ => none
      pure (.burst es)
  | 'h' :: r => do
      let parts ← (splitC '+' r).mapM natsOf
      let es ← parts.mapM fun | [e, cid] => some (e, cid) | _ => none
      pure (.hold es)
  | 'r' :: r => match natsOf r with | some [e, p] => some (.reply e p) | _ => none
  | 'u' :: r => match natsOf r with | some [c, id, p] => some (.raw c id p) | _ => none
  | 'c' :: r => match natsOf r with | some [e] => some (.cancel e) | _ => none
  | 'x' :: r => match natsOf r with | some [c] => some (.kill c) | _ => none
  | ['g'] => some .gate
  | ['o'] => some .ungate
  | 'f' :: r => match natsOf r with | some [k] => some (.fail k) | _ => none
  | 't' :: r => match natsOf r with | some [c] => some (.idle c) | _ => none
  | 'F' :: r => match natsOf r with
      | some (c :: id :: p :: rest) => (pairsOf rest).map (.frame c id p)
      | _ => none
  | 'A' :: r => match natsOf r with
      | some (c :: id :: p :: rest) => (pairsOf rest).map (.fhead c id p)
      | _ => none
  | 'Z' :: r => match natsOf r with | some [c] => some (.ftail c) | _ => none
  | _ => none

/-- tokens of the log -/
inductive Tok where
  | q (e c id : Nat)
  | inj (c id p : Nat)
  | noinj
  | msg (e mid p : Nat)
  | err (e : Nat) (cancel : Bool)
  | closed (c : Nat)
  | killed (c : Nat)
  | nokill
  | timeout (e : Nat)
  /-- the write of `e` (wire id `id`, connection `c`) is stalled -/
  | held (e c id : Nat)
  /-- `e` is registered and waits for the tcp write lock -/
  | blocked (e : Nat)
  /-- the first part of a frame was written on `c` -/
  | part (c : Nat)
  /-- harness only: after a read timeout the client went on reading from `c` -/
  | kept (c : Nat)
  /-- harness only: the rest of the script was abandoned after a timeout -/
  | abort
  /-- harness only: the caller's query buffer of `e` was modified -/
  | mutated (e : Nat)
  /-- harness only: the query of `e` seen by the server differs from the caller's beyond the ID -/
  | corrupt (e : Nat)
  deriving DecidableEq, Repr

def tokOfChars : List Char → Option Tok
  | ['i', '-'] => some .noinj
  | ['x', '-'] => some .nokill
  | ['T'] => some .abort
  | 'z' :: r => (natOfChars r).map .mutated
  | 'y' :: r => (natOfChars r).map .corrupt
  | 'q' :: r => match natsOf r with | some [e, c, id] => some (.q e c id) | _ => none
  | 'w' :: r => match natsOf r with | some [e, c, id] => some (.held e c id) | _ => none
  | 'b' :: r => (natOfChars r).map .blocked
  | 'a' :: r => (natOfChars r).map .part
  | 'n' :: r => (natOfChars r).map .kept
  | 'i' :: r => match natsOf r with | some [c, id, p] => some (.inj c id p) | _ => none
  | 'm' :: r => match natsOf r with | some [e, mid, p] => some (.msg e mid p) | _ => none
  | 'e' :: r =>
    match splitC ':' r with
    | [e, k] => (natOfChars e).bind fun e =>
        if k = "cancel".toList then some (.err e true) else if k = "err".toList then some (.err e false) else none
    | _ => none
  | 'k' :: r => (natOfChars r).map .closed
  | 'x' :: r => (natOfChars r).map .killed
  | 't' :: r => (natOfChars r).map .timeout
  | _ => none

def strOfTok : Tok → String
  | .q e c id => s!"q{e}:{c}:{id}"
  | .inj c id p => s!"i{c}:{id}:{p}"
  | .noinj => "i-"
  | .msg e mid p => s!"m{e}:{mid}:{p}"
  | .err e true => s!"e{e}:cancel"
  | .err e false => s!"e{e}:err"
  | .closed c => s!"k{c}"
  | .killed c => s!"x{c}"
  | .nokill => "x-"
  | .timeout e => s!"t{e}"
  | .held e c id => s!"w{e}:{c}:{id}"
  | .blocked e => s!"b{e}"
  | .part c => s!"a{c}"
  | .kept c => s!"n{c}"
  | .abort => "T"
  | .mutated e => s!"z{e}"
  | .corrupt e => s!"y{e}"

def groupOfChars (cs : List Char) : Option (List Tok) :=
  if cs = ['-'] ∨ cs = [] then some [] else (splitC ',' cs).mapM tokOfChars

def strOfGroup (g : List Tok) : String :=
  if g.isEmpty then "-" else ",".intercalate (g.map strOfTok)

/-- canonical order inside a group: what the server did, results by exchange, stalled writes by
    (connection, id), lock waiters by exchange, queries by (connection, id), the rest -/
def tokClass : Tok → Nat
  | .inj _ _ _ | .noinj | .killed _ | .nokill | .part _ | .kept _ => 0
  | .msg _ _ _ | .err _ _ => 1
  | .held _ _ _ => 2
  | .blocked _ => 3
  | .q _ _ _ => 4
  | _ => 5

def tokKey : Tok → Nat × Nat
  | .msg e _ _ | .err e _ | .blocked e => (e, 0)
  | .held _ c id | .q _ c id => (c, id)
  | _ => (0, 0)

def tokLe (a b : Tok) : Bool :=
  tokClass a < tokClass b ||
  (tokClass a == tokClass b && tokClass a != 0 &&
    ((tokKey a).1 < (tokKey b).1 || ((tokKey a).1 == (tokKey b).1 && (tokKey a).2 ≤ (tokKey b).2))) ||
  (tokClass a == 0 && tokClass b == 0)

def insertTok (x : Tok) : List Tok → List Tok
  | [] => [x]
  | y :: t => if tokLe y x then y :: insertTok x t else x :: y :: t

def canon (g : List Tok) : List Tok := g.foldl (fun acc t => insertTok t acc) []

/-- the prefix: `pre` sequential exchanges (start, correct reply, return), summarised per
    connection as (queries seen, highest wire id + 1, no id seen twice) plus the number of
    exchanges that returned a message other than their own reply with their own ID, and the
    number that returned an error. -/
structure PreSum where
  conns : List (Nat × Nat × Bool)
  /-- exchanges that returned a message that was not their own reply with their own ID -/
  bad : Nat
  /-- exchanges that returned an error -/
  err : Nat
  deriving DecidableEq, Repr

def strOfPre (p : PreSum) : String :=
  let cs := p.conns.map fun (n, m, u) => s!"{n}:{m}:{strOfBool u}"
  (if cs.isEmpty then "-" else "+".intercalate cs) ++ s!";{p.bad};{p.err}"

def preConnOfChars (x : List Char) : Option (Nat × Nat × Bool) :=
  match natsOf x with
  | some [n, m, u] => if u ≤ 1 then some (n, m, u == 1) else none
  | _ => none

def preOfChars (cs : List Char) : Option PreSum :=
  match splitC ';' cs with
  | [a, b, e] => do
    let bad ← natOfChars b
    let err ← natOfChars e
    let conns ← if a = ['-'] then some [] else (splitC '+' a).mapM preConnOfChars
    pure ⟨conns, bad, err⟩
  | _ => none

/-- model of the prefix: the pool hands out the newest connection while `Status().Available`,
    else dials; each exchange is `Reserve`/`addQueueC`/reply/`deleteQueueC`. Returns the
    connections (oldest first). -/
def preStep (cs : List Conn) (cur : Conn) : List Conn :=
  match cur.addQueueC 0 with
  | (c', some q) => cs ++ [c'.deleteQueueC q]
  | (c', none) => cs ++ [c']      -- not reachable: `Available` was just checked

def preRun : Nat → List Conn → List Conn
  | 0, cs => cs
  | n + 1, cs =>
    match cs.getLast? with
    | some c =>
      if !c.status.1 && c.status.2 then preRun n (preStep cs.dropLast c)
      else preRun n (preStep cs ({} : Conn).reserve)
    | none => preRun n (preStep cs ({} : Conn).reserve)

structure RunSt where
  s : State
  nconns : Nat
  /-- connections the server closed -/
  killed : List Nat
  /-- exchanges that got their connection from a fresh dial (no retry) -/
  newConn : List Nat
  retries : List Nat      -- one entry per retry of an exchange
  tcp : Bool := false
  /-- the server is not reading: writes stall -/
  gated : Bool := false
  /-- exchanges whose write is stalled (they are registered, their bytes are with the fake connection) -/
  held : List Nat := []
  /-- frames of which only the first part was written: (connection, id, payload) -/
  halfFrames : List (Nat × Nat × Nat) := []
  /-- bookkeeping for speed only: (exchange, connection, wire id) of every registration made so far -/
  regs : List (Nat × Nat × Nat) := []

def openOn (s : State) (c : Nat) (e : Nat) : Bool :=
  match s.pcs e with
  | .registered c' _ _ | .waiting c' _ _ | .leaving c' _ _ => c' == c
  | _ => false

def isWaitingOn (s : State) (c : Nat) (e : Nat) : Bool :=
  match s.pcs e with
  | .waiting c' _ _ => c' == c
  | _ => false

/-- default choice of the pool when the log says nothing: newest connection if usable, else dial -/
def defaultPick (r : RunSt) : Nat :=
  if r.nconns = 0 then 0
  else
    let c := r.nconns - 1
    let st := (r.s.conns c).status
    if !st.1 && st.2 && !r.killed.contains c then c else r.nconns

def findQ (g : List Tok) (e : Nat) : Option (Nat × Nat) :=
  g.findSome? fun
    | .q e' c id => if e' = e then some (c, id) else none
    | .held e' c id => if e' = e then some (c, id) else none
    | _ => none

/-- Reserve (as the pool does for busy and new connections) and addQueueC -/
def regStart (cfg : Cfg) (r : RunSt) (_known : List Nat) (e c : Nat) : RunSt :=
  let isNew := c ≥ r.nconns
  -- (busy for the pool = some exchange holds the connection = its waiter table is not empty)
  let busy := !(r.s.conns c).queue.isEmpty
  let s := if isNew || busy then step cfg r.s (.reserve c) else r.s
  let s := step cfg s (.addQ e c)
  { r with s := s, nconns := max r.nconns (c + 1),
           newConn := if isNew then e :: r.newConn else r.newConn.erase e,
           regs := match s.pcs e with
                   | .registered c' q _ => (e, c', q) :: r.regs
                   | _ => r.regs }

/-- the server is not reading: the write stalls; on tcp, behind a stalled write of the same
    connection, the exchange does not even get the write lock -/
def stallStart (r : RunSt) (e : Nat) : RunSt × List Tok :=
  match r.s.pcs e with
  | .registered c' q _ =>
    if r.tcp && r.held.any (openOn r.s c') then (r, [.blocked e])
    else ({ r with held := r.held ++ [e] }, [.held e c' q])
  | _ => (r, [])

def writeStart (cfg : Cfg) (r : RunSt) (e : Nat) : RunSt × List Tok :=
  let s := step cfg r.s (.write e true false)
  match s.pcs e with
  | .waiting c' q _ => ({ r with s := s }, [.q e c' q])
  | _ => ({ r with s := s }, [])

/-- one attempt of `e` on connection `c`: Reserve (as the pool does for busy and new connections),
    addQueueC, write. Returns the tokens. -/
def doStart (cfg : Cfg) (r : RunSt) (known : List Nat) (e c : Nat) : RunSt × List Tok :=
  let r1 := regStart cfg r known e c
  if r.gated then stallStart r1 e else writeStart cfg r1 e

/-- after a reply reached connection `c`: the exchange whose channel is full takes it and returns -/
def drain (cfg : Cfg) (r : RunSt) (known : List Nat) : RunSt × List Tok :=
  known.foldl (fun (acc : RunSt × List Tok) e =>
    let (r, toks) := acc
    match r.s.pcs e with
    | .waiting _ _ ch =>
      match r.s.chans ch with
      | .full p _ =>
        let s1 := step cfg r.s (.take e)
        let s2 := step cfg s1 (.delQ e)
        ({ r with s := s2 }, toks ++ [.msg e (cfg.cid e) p])
      | .empty => (r, toks)
    | _ => (r, toks)) (r, [])

/-- the exchanges that were ever registered under `(c, id)` -/
def regsOf (r : RunSt) (c id : Nat) : List Nat :=
  (r.regs.filter fun x => x.2.1 == c && x.2.2 == id).map (·.1)

def inject (cfg : Cfg) (r : RunSt) (_known : List Nat) (c id p : Nat) : RunSt × List Tok :=
  -- (the client closes connections asynchronously; a connection it closed has no exchange left,
  --  so whether it is closed is neither consulted by the harness nor here)
  -- (nor can a frame be sent while another one is half written)
  if c < r.nconns && !r.killed.contains c && !r.halfFrames.any (·.1 == c) then
    let r := { r with s := step cfg r.s (.srvReply c id p) }
    -- (only an exchange registered under (c, id) can have received it)
    let (r, toks) := drain cfg r (regsOf r c id)
    (r, .inj c id p :: toks)
  else (r, [.noinj])

def insertSorted (x : Nat × Nat × Nat) : List (Nat × Nat × Nat) → List (Nat × Nat × Nat)
  | [] => [x]
  | y :: t => if x.2.1 < y.2.1 || (x.2.1 == y.2.1 && x.2.2 ≤ y.2.2) then x :: y :: t else y :: insertSorted x t

/-- sort (e, c, id) by (c, id) -/
def sortByConnId (l : List (Nat × Nat × Nat)) : List (Nat × Nat × Nat) := l.foldr insertSorted []

/-- start a group of exchanges concurrently: follow the observed order (by connection and wire id) -/
def startGroup (cfg : Cfg) (r : RunSt) (known : List Nat) (es : List Nat) (g : List Tok) : RunSt × List Tok :=
  let seen := es.filterMap fun e => (findQ g e).map fun (c, id) => (e, c, id)
  let unseen := es.filter fun e => (findQ g e).isNone
  let (r, toks) := (sortByConnId seen).foldl (fun (acc : RunSt × List Tok) (x : Nat × Nat × Nat) =>
      let (r, toks) := acc
      let c := if x.2.1 ≤ r.nconns then x.2.1 else defaultPick r
      let (r, t) := doStart cfg r known x.1 c
      (r, toks ++ t)) (r, [])
  unseen.foldl (fun (acc : RunSt × List Tok) e =>
      let (r, toks) := acc
      let (r, t) := doStart cfg r known e (defaultPick r)
      (r, toks ++ t)) (r, toks)

/-- `h`: everybody was handed the connection the pool offers now; those the log shows failing
    found it exhausted: `addQueueC` → end of life → error (no retry through the hook) -/
def holdGroup (cfg : Cfg) (r : RunSt) (known : List Nat) (es : List Nat) (g : List Tok) : RunSt × List Tok :=
  let c0 := defaultPick r
  let failing := es.filter fun e => g.contains (.err e false) && (findQ g e).isNone
  let others := es.filter fun e => !failing.contains e
  let (r, qs) := startGroup cfg r known others g
  let (r, errs) := failing.foldl (fun (acc : RunSt × List Tok) e =>
      let (r, toks) := acc
      let s1 := step cfg r.s (.addQ e c0)
      match s1.pcs e with
      | .idle => ({ r with s := step cfg s1 (.giveUp e) }, toks ++ [.err e false])
      | _ =>
        let s2 := step cfg s1 (.write e true false)
        match s2.pcs e with
        | .waiting c' q _ => ({ r with s := s2, regs := (e, c', q) :: r.regs }, toks ++ [.q e c' q])
        | _ => ({ r with s := s2 }, toks)) (r, [])
  (r, errs ++ qs)

def qKey : Tok → Nat × Nat
  | .q _ c id => (c, id)
  | _ => (0, 0)

/-- every victim leaves — through `<-c.ctx.Done()` if it waits in the `select`, through a failed write /
    the write lock's `select` if it is still registered — and runs its deferred delete -/
def killVictims (cfg : Cfg) (r : RunSt) (victims : List Nat) : RunSt :=
  victims.foldl (fun (r : RunSt) e =>
    { r with s := step cfg (step cfg (step cfg r.s (.dead e)) (.write e false false)) (.delQ e) }) r

def giveUpAll (cfg : Cfg) (r : RunSt) (quit : List Nat) : RunSt :=
  quit.foldl (fun (r : RunSt) e => { r with s := step cfg r.s (.giveUp e) }) r

def isRegistered (s : State) (e : Nat) : Bool :=
  match s.pcs e with
  | .registered _ _ _ => true
  | _ => false

def isInsideOn (s : State) (c : Nat) (e : Nat) : Bool :=
  match s.pcs e with
  | .registered c' _ _ | .waiting c' _ _ => c' == c
  | _ => false

/-- the exchanges that just failed retry or give up: the observed decision, else ExchangeContext's rule -/
def settle (cfg : Cfg) (r : RunSt) (known : List Nat) (victims : List Nat) (g : List Tok) : RunSt × List Tok :=
  let retry := victims.filter fun e =>
    match findQ g e with
    | some _ => true
    | none => if g.contains (.err e false) then false
              else !r.newConn.contains e && (r.retries.filter (· == e)).length < 5
  let quit := victims.filter fun e => !retry.contains e
  let r3 := giveUpAll cfg r quit
  let r4 : RunSt := { r3 with retries := retry ++ r3.retries }
  let res := startGroup cfg r4 known retry g
  (res.1, quit.map (fun e => Tok.err e false) ++ res.2)

/-- connection `c` dies (the server closed it, or a write on it failed) -/
def killConn (cfg : Cfg) (r : RunSt) (known : List Nat) (c : Nat) (g : List Tok) : RunSt × List Tok :=
  let r1 : RunSt := { r with s := step cfg r.s (.close c), killed := c :: r.killed,
                             halfFrames := r.halfFrames.filter (·.1 != c) }
  let victims := known.filter (isInsideOn r1.s c)
  let r2 := killVictims cfg r1 victims
  let r2 : RunSt := { r2 with held := r2.held.filter fun e => !victims.contains e }
  let res := settle cfg r2 known victims g
  (res.1, [.killed c] ++ res.2)

/-- the server reads again: the stalled writes complete, then the writes of those that waited for the
    write lock; whoever finds a reply in its channel takes it -/
def openGate (cfg : Cfg) (r : RunSt) (known : List Nat) : RunSt × List Tok :=
  let pend := known.filter fun e => isRegistered r.s e && !r.held.contains e
  let res := (r.held ++ pend).foldl (fun (acc : RunSt × List Tok) e =>
      let s := step cfg acc.1.s (.write e true false)
      match s.pcs e with
      | .waiting c' q _ => ({ acc.1 with s := s }, acc.2 ++ [Tok.q e c' q])
      | _ => ({ acc.1 with s := s }, acc.2)) ({ r with gated := false, held := [] }, [])
  let res2 := drain cfg res.1 known
  (res2.1, res2.2 ++ res.2)

def connOf (s : State) (e : Nat) : Option Nat :=
  match s.pcs e with
  | .registered c _ _ | .waiting c _ _ | .leaving c _ _ => some c
  | _ => none

def dedupNat : List Nat → List Nat
  | [] => []
  | x :: t => if t.contains x then dedupNat t else x :: dedupNat t

/-- the stalled writes fail -/
def failGate (cfg : Cfg) (r : RunSt) (known : List Nat) (k : Nat) (g : List Tok) : RunSt × List Tok :=
  if !r.gated then (r, [])
  else if !r.tcp && k == 1 then
    -- udp, "message too long": the exchanges return the error, the connection stays
    let hs := r.held
    let r1 : RunSt := { r with gated := false, held := [] }
    let r2 := killVictims cfg r1 hs
    settle cfg r2 known hs g
  else
    let cs := dedupNat (r.held.filterMap (connOf r.s))
    cs.foldl (fun (acc : RunSt × List Tok) c =>
      let res := killConn cfg acc.1 known c g
      (res.1, acc.2 ++ res.2)) ({ r with gated := false }, [])

/-- the (connection, wire id) of the last query of `e` that reached the server -/
def lastQuery (e : Nat) : List Ev → Option (Nat × Nat)
  | [] => none
  | .query e' c id :: t => if e' = e then some (c, id) else lastQuery e t
  | _ :: t => lastQuery e t

def runOp (cfg : Cfg) (r : RunSt) (known : List Nat) (op : Op) (g : List Tok) : RunSt × List Tok :=
  match op with
    | .start e _ => startGroup cfg r known [e] g
    | .burst es => startGroup cfg r known (es.map (·.1)) g
    | .hold es => holdGroup cfg r known (es.map (·.1)) g
    | .reply e p =>
      -- (the server cannot answer a query it has not seen a byte of: `e` waits for the write lock)
      if isRegistered r.s e && !r.held.contains e then (r, [.noinj])
      else
        match (if r.held.contains e then curAssign e r.s.hist else lastQuery e r.s.hist) with
        | some (c, id) => inject cfg r known c id p
        | none => (r, [.noinj])
    | .raw c id p => inject cfg r known c id p
    | .cancel e =>
      match r.s.pcs e with
      | .waiting _ _ _ =>
        let s1 := step cfg r.s (.cancel e)
        let s2 := step cfg s1 (.delQ e)
        let s3 := step cfg s2 (.giveUp e)
        ({ r with s := s3 }, [.err e true])
      | .registered _ _ _ =>
        if r.held.contains e then (r, [])      -- inside Write: nothing happens before the write returns
        else
          -- waiting for the write lock: `<-ctx.Done()` in writeTCP, the write never happens
          let s1 := step cfg r.s (.write e false false)
          let s2 := step cfg s1 (.delQ e)
          let s3 := step cfg s2 (.giveUp e)
          ({ r with s := s3 }, [.err e true])
      | _ => (r, [])
    | .kill c =>
      if c < r.nconns && !r.killed.contains c then
        let res := killConn cfg { r with gated := false } known c g
        let res2 := openGate cfg res.1 known
        (res2.1, res.2 ++ res2.2)
      else (r, [.nokill])
    | .idle c =>
      -- read error (deadline) in the read loop: closeWithErr; to the exchanges the same as a dead connection
      if c < r.nconns && !r.killed.contains c then
        let res := killConn cfg { r with gated := false } known c g
        let res2 := openGate cfg res.1 known
        (res2.1, res.2 ++ res2.2)
      else (r, [.nokill])
    | .frame c id p _ => inject cfg r known c id p      -- the embedded replies are data
    | .fhead c id p _ =>
      if r.tcp && c < r.nconns && !r.killed.contains c && !r.halfFrames.any (·.1 == c) then
        ({ r with halfFrames := (c, id, p) :: r.halfFrames }, [.part c])      -- nothing is dispatched yet
      else (r, [.noinj])
    | .ftail c =>
      match r.halfFrames.find? (·.1 == c) with
      | some (_, id, p) => inject cfg { r with halfFrames := r.halfFrames.filter (·.1 != c) } known c id p
      | none => (r, [.noinj])
    | .gate => ({ r with gated := true }, [])
    | .ungate => if r.gated then openGate cfg r known else (r, [])
    | .fail k => failGate cfg r known k g

def opExchanges : Op → List (Nat × Nat)
  | .start e cid => [(e, cid)]
  | .burst es => es
  | .hold es => es
  | _ => []

def lookupNat (l : List (Nat × Nat)) (e : Nat) : Nat :=
  match l.find? (·.1 == e) with
  | some (_, v) => v
  | none => 0

/-- last group: the exhausted connections the client has closed (end of life) -/
def endGroup (r : RunSt) : List Tok :=
  (List.range r.nconns).filterMap fun c =>
    let k := r.s.conns c
    if k.nextQid > 65535 && k.closed && !r.killed.contains c then some (.closed c) else none

def runOps (cfg : Cfg) (known : List Nat) : RunSt → List Op → List (List Tok) → List (List Tok)
  | r, [], _ => [endGroup r]
  | r, op :: ops, gs =>
    let (r', toks) := runOp cfg r known op (gs.headD [])
    canon toks :: runOps cfg known r' ops gs.tail

/-- the first query / stalled write of `e` in the rest of the log -/
def nextAssign (e : Nat) (rest : List Tok) : Option (Nat × Nat) := findQ rest e

/-- history (newest first) told by a log (flattened, in order). The wire id of an exchange is
    revealed by its (possibly stalled) write; an exchange seen waiting for the write lock (`b`) was
    registered by then, its wire id is revealed by its later write. -/
def histOfToks : List Ev → List Tok → List Ev
  | h, [] => h
  | h, t :: rest =>
    let h' :=
      match t with
      | .q e c id => if curAssign e h == some (c, id) && !returned e h && !(h.contains (.query e c id))
                     then .query e c id :: h else .query e c id :: .assign e c id :: h
      | .held e c id => .assign e c id :: h
      | .blocked e =>
        match nextAssign e rest with
        | some (c, id) => .assign e c id :: h
        | none => h
      | .inj c id p => .reply c id p :: h
      | .msg e mid p => .ret e (some (mid, p)) :: h
      | .err e _ => .ret e none :: h
      | _ => h
    histOfToks h' rest

/-- inside a group the log lists results before queries; chronologically an exchange's query comes
    before its result (an exchange whose stalled write completes may return in the same group) -/
def chrono (g : List Tok) : List Tok :=
  g.filter (fun t => tokClass t == 0) ++ g.filter (fun t => tokClass t == 2 || tokClass t == 3 || tokClass t == 4) ++
  g.filter (fun t => tokClass t == 1 || tokClass t == 5)

def histOfLog (gs : List (List Tok)) : List Ev := histOfToks [] (gs.map chrono).flatten

def strOfEv : Ev → String
  | .assign e c id => s!"assign-e{e}-c{c}-id{id}"
  | .query e c id => s!"query-e{e}-c{c}-id{id}"
  | .reply c id p => s!"reply-c{c}-id{id}-p{p}"
  | .ret e none => s!"ret-e{e}-error"
  | .ret e (some (mid, p)) => s!"ret-e{e}-ID{mid}-p{p}"

/-- configuration and initial state of a script: the connections left by the prefix -/
def scriptCfg (cids : List (Nat × Nat)) (pconns : List Conn) : Cfg :=
  ⟨lookupNat cids, fun c => (pconns.getD c {}).nextQid⟩

def scriptInit (pconns : List Conn) : State :=
  { conns := fun c => pconns.getD c {}, chans := fun _ => .empty, nchan := 0,
    pcs := fun _ => .idle, hist := [], taken := [] }

def scriptRun (pconns : List Conn) (tcp : Bool) : RunSt :=
  { s := scriptInit pconns, nconns := pconns.length, killed := [], newConn := [], retries := [], tcp := tcp }

def kvChars (toks : List String) (key : String) : Option (List Char) := (kvGet toks key).map String.toList

def run (case impl : String) : String × String :=
  let toks := words case
  match kvNat toks "pre", (kvChars toks "ops").bind (fun cs => (splitC ',' cs).mapM opOfChars) with
  | some pre, some ops =>
    let cids := ops.flatMap opExchanges
    let known := cids.map (·.1)
    let pconns := preRun pre []
    let cfg : Cfg := scriptCfg cids pconns
    let itoks := words impl
    let ipre := (kvChars itoks "pre").bind preOfChars
    let ilog := (kvChars itoks "log").bind fun cs => (splitC '|' cs).mapM groupOfChars
    let mpre : PreSum := ⟨pconns.map fun c => (c.nextQid, c.nextQid, true), 0, 0⟩
    let r0 : RunSt := scriptRun pconns (kvNat toks "tcp" == some 1)
    let mlog := runOps cfg known r0 ops (ilog.getD [])
    let mout := s!"pre={strOfPre mpre} log={"|".intercalate (mlog.map strOfGroup)}"
    let verdict :=
      match ipre, ilog with
      | some ip, some il =>
        if ip.bad > 0 then "viol:prefix-wrong-reply"
        else if ip.conns.any (fun (_, _, u) => !u) then "viol:prefix-wire-id-reused"
        else
          let icfg : Cfg := ⟨lookupNat cids, fun c => (ip.conns.getD c (0, 0, true)).2.1⟩
          match firstBad icfg (histOfLog il) with
          | none => if spec icfg (histOfLog il) then "ok" else "viol"
          | some ev => "viol:" ++ strOfEv ev
      | _, _ => "unparsed"
    (mout, verdict)
  | _, _ => ("bad-case", "na")

end MosVerif.Pipeline
