/-
  C08 — model of the cache's time arithmetic.

    internal/dnsutils/msg_ttl.go   GetMinimalTTL, SubtractTTL
    app/router/cache.go            initCache (maximumTtl), cacheCtl.Store, cacheCtl.Get (memory backend)
    internal/cache/mem.go          MemoryCache.Store (Set / SetIfAbsent), MemoryCache.Get
    otter v1.2.0                   getTTL / getExpiration / HasExpired on the one-second clock `unixtime.Now()`
    app/router/router.go           handleReq: hit path, miss path (failed exchange ⇒ no Store), forward's RemoveEDNS0

  Durations are `Int` nanoseconds (Go: int64, the only multiplication is shown not to wrap),
  TTLs are `UInt32` (Go: uint32, subtraction wraps exactly as in Go), instants are `Nat` nanoseconds,
  otter's clock is a function `clock : instant → tick` supplied by the caller (the model never reads a clock).
-/
import MosVerif.Util
-- @component ttlpolicy MosVerif.Ttl.run
namespace MosVerif.Ttl

/-! ### messages -/

/-- dnsmsg.TypeOPT -/
abbrev typeOPT : Nat := 41

structure RR where
  typ : Nat
  ttl : UInt32
  deriving DecidableEq, Repr, Inhabited

structure Msg where
  rcode : Nat
  tc : Bool
  ans : List RR
  auth : List RR
  add : List RR
  deriving DecidableEq, Repr, Inhabited

/-- the order in which both helpers walk the records: `[...]{m.Answers, m.Authorities, m.Additionals}` -/
def Msg.rrs (m : Msg) : List RR := m.ans ++ m.auth ++ m.add

/-! ### internal/dnsutils/msg_ttl.go -/

/-- one iteration of GetMinimalTTL's loop body on the pair (minTTL, hasRecord) -/
def minStep (acc : UInt32 × Bool) (rr : RR) : UInt32 × Bool :=
  if rr.typ = typeOPT then acc                      -- opt record ttl is not ttl
  else (if rr.ttl < acc.1 then rr.ttl else acc.1, true)

/-- GetMinimalTTL -/
def getMinimalTTL (m : Msg) : UInt32 × Bool :=
  let acc := m.rrs.foldl minStep (0xFFFFFFFF, false)   -- minTTL := ^uint32(0); hasRecord := false
  if !acc.2 then (0, false) else (acc.1, true)

/-- the body of SubtractTTL's loop for one record -/
def subRR (delta : UInt32) (rr : RR) : RR :=
  if rr.typ = typeOPT then rr
  else if rr.ttl > delta then { rr with ttl := rr.ttl - delta }   -- hdr.TTL -= delta (uint32)
  else { rr with ttl := 1 }

/-- SubtractTTL -/
def subtractTTL (m : Msg) (delta : UInt32) : Msg :=
  { m with ans := m.ans.map (subRR delta), auth := m.auth.map (subRR delta), add := m.add.map (subRR delta) }

/-! ### durations -/

/-- time.Second -/
abbrev second : Int := 1000000000

/-- int64 two's complement wrap-around -/
def wrap64 (x : Int) : Int := (x + 9223372036854775808) % 18446744073709551616 - 9223372036854775808

/-- `time.Duration(u) * time.Second` -/
def durOfSeconds (u : UInt32) : Int := wrap64 ((u.toNat : Int) * second)

/-- defaultMaxCacheTtl = time.Hour * 6 -/
abbrev defaultMaxCacheTtl : Int := 6 * 3600 * second

/-- maxCacheTtlLimit = time.Hour * 24 * 365 * 10 (otter's uint32 second clock must not wrap) -/
abbrev maxCacheTtlLimit : Int := 24 * 365 * 10 * 3600 * second

/-- initCache: `c.maximumTtl = time.Duration(cfg.MaximumTTL) * time.Second; if c.maximumTtl <= 0 { default };
    if c.maximumTtl > maxCacheTtlLimit { c.maximumTtl = maxCacheTtlLimit }` -/
def initMaxTtl (cfgMaximumTTL : Int) : Int :=
  let d := wrap64 (cfgMaximumTTL * second)
  let d := if d ≤ 0 then defaultMaxCacheTtl else d
  if d > maxCacheTtlLimit then maxCacheTtlLimit else d

/-! ### cacheCtl.Store -/

/-- the lifetime switch, the floor and the cap -/
def storeTtl (m : Msg) (maximumTtl : Int) : Int :=
  let (u, hasRr) := getMinimalTTL m
  let msgRrMinTtl := durOfSeconds u
  let ttl : Int :=
    match m.rcode with
    | 3 =>                                   -- RCodeNameError, 30 s
      let defaultTtl := second * 30
      if hasRr then min defaultTtl msgRrMinTtl else defaultTtl
    | 2 =>                                   -- RCodeServerFailure, 1 s
      let defaultTtl := second * 1
      if hasRr then min defaultTtl msgRrMinTtl else defaultTtl
    | 0 =>                                   -- RCodeSuccess
      let defaultTtl := second * 30
      if hasRr then msgRrMinTtl else defaultTtl
    | _ =>                                   -- other rcodes, 5 s
      let defaultTtl := second * 5
      if hasRr then min defaultTtl msgRrMinTtl else defaultTtl
  let ttl := if ttl ≤ 0 then second else ttl                 -- minimum ttl is 1
  let ttl := if ttl > maximumTtl then maximumTtl else ttl    -- apply maximum
  ttl

/-- `negativeResp := resp.RCode != dnsmsg.RCodeSuccess` -/
abbrev negativeResp (rcode : Nat) : Bool := rcode != 0

/-- what cacheCtl.Store hands to the backend -/
structure StoreCall where
  msg : Msg
  ttl : Int          -- expireTime − storedTime
  setNX : Bool       -- negativeResp
  deriving Repr

/-- cacheCtl.Store up to the backend call; `none` = returned without storing -/
def store (hasBackend : Bool) (resp : Option Msg) (maximumTtl : Int) : Option StoreCall :=
  if !hasBackend then none                   -- c.memory == nil && c.redis == nil
  else match resp with
    | none => none                           -- resp == nil
    | some m =>
      if m.tc then none                      -- resp.Header.Truncated
      else some ⟨m, storeTtl m maximumTtl, negativeResp m.rcode⟩   -- negativeResp := resp.RCode != RCodeSuccess

/-! ### the memory backend (otter v1.2.0) -/

/-- a node of otter's hash map with our cacheEntry -/
structure Entry where
  stored : Nat       -- storedTime, ns
  expire : Nat       -- expireTime, ns
  expTick : Nat      -- node.expiration (uint32, otter clock ticks)
  msg : Msg
  id : Nat           -- which Store call created it (ghost)
  deriving Repr

/-- key ↦ node present in otter's hash map. An expired node stays in the map until otter's clean-up or an
    overwriting Set removes it. -/
abbrev Mem := Nat → Option Entry

def Mem.empty : Mem := fun _ => none
def Mem.set (mem : Mem) (k : Nat) (e : Entry) : Mem := fun k' => if k' = k then some e else mem k'
def Mem.del (mem : Mem) (k : Nat) : Mem := fun k' => if k' = k then none else mem k'

abbrev u32 : Nat := 4294967296

/-- otter getTTL: `uint32((ttl + time.Second - 1) / time.Second)` (Go's `/` truncates toward zero) -/
def otterTtlTicks (ttl : Int) : Nat := (((ttl + second - 1).tdiv second) % (u32 : Int)).toNat

/-- MemoryCache.Store on otter: `Set` replaces; for `setNX` the value goes in with `SetIfAbsent`, and when that
    is refused because of a node that `backend.Get` does not report alive (an expired leftover: otter keeps
    expired nodes in its hash map) the leftover is deleted and `SetIfAbsent` is tried again. So a set-if-absent
    store is refused exactly by a live node. `nowTick` = unixtime.Now(). -/
def otterSet (mem : Mem) (nowTick : Nat) (k : Nat) (e : Entry) (ttl : Int) (onlyIfAbsent : Bool) : Mem :=
  let e := { e with expTick := (nowTick + otterTtlTicks ttl) % u32 }   -- getExpiration, uint32 addition
  if onlyIfAbsent then
    match mem k with
    | some old => if old.expTick ≤ nowTick then mem.set k e else mem   -- expired leftover: removed, stored
    | none => mem.set k e
  else mem.set k e

/-- otter GetNode: present and `!HasExpired()` where HasExpired is `expiration <= unixtime.Now()` -/
def otterGet (mem : Mem) (nowTick : Nat) (k : Nat) : Option Entry :=
  match mem k with
  | some e => if e.expTick ≤ nowTick then none else some e
  | none => none

/-- configuration of a cacheCtl -/
structure Cfg where
  hasBackend : Bool
  maximumTtl : Int
  deriving Repr

/-- `expireTime := now.Add(ttl)` (instants and durations in nanoseconds) -/
abbrev expireAt (now ttl : Int) : Int := now + ttl

/-- `time.Until(t)` read at instant `now` -/
abbrev timeUntil (t now : Int) : Int := t - now

/-- cacheCtl.Store with the memory backend. `now` = the `time.Now()` taken in Store; `delay` = the time that
    passes until MemoryCache.Store evaluates `time.Until(expireTime)` and otter reads its clock. -/
def cacheStore (clock : Nat → Nat) (cfg : Cfg) (mem : Mem) (k : Nat) (resp : Option Msg) (now delay id : Nat) : Mem :=
  match store cfg.hasBackend resp cfg.maximumTtl with
  | none => mem
  | some c =>
    let expire : Int := expireAt now c.ttl
    let e : Entry := ⟨now, expire.toNat, 0, c.msg, id⟩
    let untilExp : Int := timeUntil expire ((now + delay : Nat) : Int)      -- time.Until(expireTime)
    otterSet mem (clock (now + delay)) k e untilExp c.setNX

/-- Get's `uint32(time.Since(storedTime).Seconds())` -/
def elapsedDelta (elapsedNs : Nat) : UInt32 := UInt32.ofNat (elapsedNs / 1000000000)

/-- cacheCtl.Get on the memory backend: the served copy and the node it came from -/
def cacheGet (clock : Nat → Nat) (mem : Mem) (k : Nat) (now : Nat) : Option (Msg × Entry) :=
  match otterGet mem (clock now) k with
  | none => none
  | some e => some (subtractTTL e.msg (elapsedDelta (now - e.stored)), e)

/-! ### router.handleReq around the cache -/

/-- outcome of the upstream exchange -/
inductive Upstream where
  | err
  | reply (m : Msg)
  deriving Repr

/-- dnsmsg.PopEDNS0 (handleReqMsg, for a client without EDNS0): the last OPT of the additional section is replaced
    by the last record and the section is shortened by one. -/
def popOPT : List RR → List RR
  | [] => []
  | rr :: rest =>
    if rest.any (·.typ = typeOPT) then rr :: popOPT rest
    else if rr.typ = typeOPT then
      match rest.getLast? with
      | none => []
      | some l => l :: rest.dropLast
    else rr :: rest

def popEDNS0 (m : Msg) : Msg := { m with add := popOPT m.add }

/-- dnsmsg.removeOpt: every OPT record goes, the order of the others is kept -/
def removeOpt (l : List RR) : List RR := l.filter (fun rr => !(rr.typ == typeOPT))

/-- dnsmsg.RemoveEDNS0 (router.forward, on every upstream reply): all three sections -/
def removeEDNS0 (m : Msg) : Msg := { m with ans := removeOpt m.ans, auth := removeOpt m.auth, add := removeOpt m.add }

inductive QObs where
  | cached (from_ : Nat) (m : Msg)          -- answered from the cache
  | upstream (from_ : Nat) (m : Msg)        -- answered with the upstream's reply (stored on the way)
  | failed                                   -- SERVFAIL, nothing stored
  deriving Repr

/-- handleReq after rule matching. (The prefetch a hit may trigger is C19's subject.) -/
def handleQuery (clock : Nat → Nat) (cfg : Cfg) (mem : Mem) (k : Nat) (up : Upstream) (now delay id : Nat) : Mem × QObs :=
  match cacheGet clock mem k now with
  | some (served, e) =>
    -- handleReqMsg: the client (the harness' client sends no OPT) gets the response without EDNS0
    (mem, .cached e.id (popEDNS0 served))
  | none =>
    match up with
    | .err => (mem, .failed)                                   -- `if err != nil { …; return }` before Store
    | .reply m =>
      let m := removeEDNS0 m                                    -- forward()
      (cacheStore clock cfg mem k (some m) now delay id, .upstream id m)

/-! ### histories -/

inductive Step where
  | store (k : Nat) (resp : Option Msg) (t delay : Nat)    -- cacheCtl.Store
  | get (k : Nat) (t : Nat)                                 -- cacheCtl.Get
  | query (k : Nat) (up : Upstream) (t delay : Nat)         -- a client query
  | evict (k : Nat)                                         -- otter drops a node (capacity eviction, expiry clean-up)
  deriving Repr

inductive Obs where
  | none                                                    -- the step shows nothing
  | miss
  | hit (e : Entry) (served : Msg)
  | q (o : QObs)
  deriving Repr

/-- one step; `id` is the identity given to a node created by this step -/
def step (clock : Nat → Nat) (cfg : Cfg) (mem : Mem) (id : Nat) : Step → Mem × Obs
  | .store k resp t delay => (cacheStore clock cfg mem k resp t delay id, .none)
  | .get k t =>
    match cacheGet clock mem k t with
    | none => (mem, .miss)
    | some (served, e) => (mem, .hit e served)
  | .query k up t delay =>
    let (mem', o) := handleQuery clock cfg mem k up t delay id
    (mem', .q o)
  | .evict k => (mem.del k, .none)

/-- run a history; step number `i` (from `id`) creates nodes with identity `i` -/
def runFrom (clock : Nat → Nat) (cfg : Cfg) (mem : Mem) (id : Nat) : List Step → Mem × List Obs
  | [] => (mem, [])
  | s :: rest =>
    let (mem', o) := step clock cfg mem id s
    let (mem'', os) := runFrom clock cfg mem' (id + 1) rest
    (mem'', o :: os)

/-! ### executable specification, written from the property text

  "A response served from cache carries for every record a TTL no greater than the upstream-supplied TTL minus
   the whole seconds elapsed since it was fetched (floored at 1), and nothing is served from cache once its
   lifetime — the smallest record TTL, capped by the configured maximum (default 6 h), and at most 30 s for
   NXDOMAIN or record-less answers, 5 s for other error codes and 1 s for SERVFAIL — has elapsed, allowing 2 s
   of cache-clock granularity. Truncated responses and failed exchanges are never cached, and an error response
   never displaces a live positive entry." -/

/-- is this record an EDNS0 pseudo record (its "TTL" field is flags, not a TTL)? -/
def RR.isOPT (rr : RR) : Bool := rr.typ == typeOPT

/-- the smallest record TTL in seconds, if the answer has records -/
def specMinTtl (m : Msg) : Option Nat :=
  match (m.rrs.filter (fun rr => !rr.isOPT)).map (·.ttl.toNat) with
  | [] => none
  | x :: xs => some (xs.foldl Nat.min x)

/-- the configured maximum in seconds (default 6 h) -/
def specCap (cfgMax : Int) : Nat := if cfgMax ≤ 0 then 21600 else cfgMax.toNat

/-- the lifetime of the property text, in whole seconds -/
def specLifetime (m : Msg) (cfgMax : Int) : Nat :=
  let cap := specCap cfgMax
  let byRecords := match specMinTtl m with | none => cap | some t => Nat.min t cap
  let byClass :=
    if m.rcode = 3 then 30                         -- NXDOMAIN
    else if m.rcode = 2 then 1                     -- SERVFAIL
    else if m.rcode ≠ 0 then 5                     -- other error codes
    else if (specMinTtl m).isNone then 30          -- record-less answers
    else byRecords
  Nat.min byRecords byClass

/-- served TTLs: the same real (non-OPT) records in the same order, every TTL ≤ max 1 (upstream TTL − whole
    seconds elapsed). EDNS0 pseudo records carry no TTL and are none of this property's business. -/
def specServedRRs (elapsedSec : Nat) : List RR → List RR → Bool
  | [], [] => true
  | o :: os, s :: ss =>
    o.typ == s.typ && decide (s.ttl.toNat ≤ Nat.max 1 (o.ttl.toNat - elapsedSec)) && specServedRRs elapsedSec os ss
  | _, _ => false

def realRRs (l : List RR) : List RR := l.filter (fun rr => !rr.isOPT)

def specServed (elapsedSec : Nat) (orig served : Msg) : Bool :=
  specServedRRs elapsedSec (realRRs orig.ans) (realRRs served.ans) &&
  specServedRRs elapsedSec (realRRs orig.auth) (realRRs served.auth) &&
  specServedRRs elapsedSec (realRRs orig.add) (realRRs served.add)

/-- the same bound without relying on the order of the records (a client without EDNS0 gets the additional
    section with the OPT record swapped out, which may permute it): every served real record is one of the
    original real records of the same type, aged -/
def specServedAnyRRs (elapsedSec : Nat) (orig served : List RR) : Bool :=
  (realRRs served).all fun s => (realRRs orig).any fun o =>
    o.typ == s.typ && decide (s.ttl.toNat ≤ Nat.max 1 (o.ttl.toNat - elapsedSec))

def specServedAny (elapsedSec : Nat) (orig served : Msg) : Bool :=
  specServedAnyRRs elapsedSec orig.ans served.ans && specServedAnyRRs elapsedSec orig.auth served.auth &&
  specServedAnyRRs elapsedSec orig.add served.add

/-- outcome of "Store, then Get at once": `none` = miss, `some (lifeNs, served)`. -/
abbrev StoreOut := Option (Nat × Msg)

/-- the lifetime of an entry (expire − stored, ns) the property allows for response `m`: at least nothing, at
    most the lifetime of the text; one second is the cache's smallest unit. -/
def specLifeOK (m : Msg) (cfgMax : Int) (lifeNs : Nat) : Bool :=
  decide (lifeNs ≤ Nat.max 1 (specLifetime m cfgMax) * 1000000000)

def specStore (hasBackend : Bool) (cfgMax : Int) (m : Msg) (o : StoreOut) : Bool :=
  match o with
  | none => true                                   -- not caching is always allowed
  | some (lifeNs, served) =>
    hasBackend && !m.tc && specLifeOK m cfgMax lifeNs && specServed 0 m served

/-! ### executable models of the ops -/

def modelStore (hasBackend : Bool) (cfgMax : Int) (m : Msg) : StoreOut :=
  let cfg : Cfg := ⟨hasBackend, initMaxTtl cfgMax⟩
  let clock : Nat → Nat := fun t => t / 1000000000
  let mem := cacheStore clock cfg Mem.empty 0 (some m) 0 0 1
  match cacheGet clock mem 0 0 with
  | none => none
  | some (served, e) => some (e.expire - e.stored, served)

/-! ### timed histories (component op `hist`) -/

structure Ev where
  t : Nat                 -- planned time, ms since the start of the history
  kind : Nat              -- 0 = s (Store), 1 = n (Store nil), 2 = g (Get), 3 = q (client query)
  key : Nat
  up : Upstream           -- for s: the response; for q: the upstream's outcome
  deriving Repr

def msNs : Nat := 1000000

/-- the history's time zero is 500 ms after a tick of the cache clock -/
def histClock (t : Nat) : Nat := (t + 500 * msNs) / 1000000000

def Ev.toStep (e : Ev) : Step :=
  match e.kind with
  | 0 => .store e.key (match e.up with | .reply m => some m | .err => none) (e.t * msNs) 0
  | 1 => .store e.key none (e.t * msNs) 0
  | 2 => .get e.key (e.t * msNs)
  | _ => .query e.key e.up (e.t * msNs) 0

def modelHist (cfgMax : Int) (evs : List Ev) : List Obs :=
  (runFrom histClock ⟨true, initMaxTtl cfgMax⟩ Mem.empty 1 (evs.map Ev.toStep)).2

/-- the response event number `j` (from 1) put into the cache, if it is a storing kind of event -/
def evMsg (evs : List Ev) (j : Nat) : Option (Ev × Msg) :=
  if j = 0 then none else
  match evs[j - 1]? with
  | none => none
  | some e =>
    match e.kind, e.up with
    | 0, .reply m => some (e, m)
    | 3, .reply m => some (e, removeEDNS0 m)
    | _, _ => none

/-- harness events start at their planned time or up to this much later -/
def tolMs : Nat := 120

/-- is this event a positive (rcode 0, not truncated) Store of `key`? Such a Store always puts its response into
    the cache, replacing what is there. -/
def posStore (ev : Ev) (key : Nat) : Bool :=
  ev.kind == 0 && ev.key == key &&
  match ev.up with
  | .reply m => m.rcode == 0 && !m.tc
  | .err => false

/-- the last positive Store of `key` in a list of events -/
def lastPos (l : List Ev) (key : Nat) : Option Ev :=
  l.foldl (fun acc e => if posStore e key then some e else acc) none

/-- no cache has to keep anything longer than this many seconds (ten years) -/
def tenYears : Nat := 315360000

/-- the positive entry of `key` as of the first `n` events — the response of the last positive Store — is
    certainly still alive at `tMs`: its lifetime minus the cache clock's one-second granularity has not run out.
    (Nothing can have replaced it but an error response: another positive Store would be the last one, and a
    client query is answered from it as long as it lives.) -/
def livePositiveBefore (cfgMax : Int) (evs : List Ev) (n key tMs : Nat) : Bool :=
  match lastPos (evs.take n) key with
  | none => false
  | some e =>
    match e.up with
    | .reply m => decide (tMs + tolMs + 1000 < e.t + Nat.min (specLifetime m cfgMax) tenYears * 1000)
    | .err => false

/-- checks on one cache hit observed by event `i` (at `tMs`, key `key`): it comes from event `from_` -/
def specHit (cfgMax : Int) (evs : List Ev) (i key tMs from_ : Nat) (life : Option Nat) (served : Msg) : Bool :=
  match evMsg evs from_ with
  | none => false                                             -- not something that was ever fetched: e.g. a failure
  | some (e, m) =>
    decide (from_ < i) && e.key == key && decide (e.t ≤ tMs) &&
    !m.tc &&                                                  -- truncated responses are never cached
    (match life with | none => true | some l => specLifeOK m cfgMax l) &&
    -- nothing is served once the lifetime has elapsed, allowing 2 s
    decide (tMs - e.t < specLifetime m cfgMax * 1000 + 2000 + tolMs) &&
    -- aged TTLs (the real elapsed time is at least planned − tol)
    (if life.isSome then specServed ((tMs - e.t - tolMs) / 1000) m served
     else specServedAny ((tMs - e.t - tolMs) / 1000) m served) &&
    -- an error response never displaces a live positive entry
    (m.rcode == 0 || !livePositiveBefore cfgMax evs (from_ - 1) key e.t)

def specObs (cfgMax : Int) (evs : List Ev) (i : Nat) (e : Ev) : Obs → Bool
  | .hit en served => e.kind == 2 && specHit cfgMax evs i e.key e.t en.id (some (en.expire - en.stored)) served
  | .miss => e.kind == 2
  | .q (.cached from_ served) => e.kind == 3 && specHit cfgMax evs i e.key e.t from_ none served
  | .q _ => e.kind == 3                                        -- answered by the upstream / SERVFAIL: not this property
  | .none => e.kind == 0 || e.kind == 1

def specHistFrom (cfgMax : Int) (evs : List Ev) (i : Nat) : List Ev → List Obs → Bool
  | [], [] => true
  | e :: es, o :: os => specObs cfgMax evs i e o && specHistFrom cfgMax evs (i + 1) es os
  | _, _ => false

def specHist (cfgMax : Int) (evs : List Ev) (obs : List Obs) : Bool := specHistFrom cfgMax evs 1 evs obs

/-- histories are shorter than this (ms, about 31 years): the cache clock does not wrap -/
def histLimitMs : Nat := 1000000000000

def shortEvs (l : List Ev) : Bool := l.all (fun e => decide (e.t ≤ histLimitMs))

/-- the events of a history are listed in the order of their planned times -/
def sortedEvs : List Ev → Bool
  | [] => true
  | [_] => true
  | a :: b :: rest => decide (a.t ≤ b.t) && sortedEvs (b :: rest)

/-! ### line protocol -/

def intOfStr (s : String) : Option Int :=
  if s.startsWith "-" then (natOfStr (s.drop 1).toString).map (fun n => -(n : Int)) else (natOfStr s).map (fun n => (n : Int))

def rrOfStr (s : String) : Option RR :=
  match s.splitOn ":" with
  | [a, b] => do
    let t ← natOfStr a
    let v ← natOfStr b
    if v < u32 then pure ⟨t, UInt32.ofNat v⟩ else none
  | _ => none

def rrsOfStr (s : String) : Option (List RR) :=
  if s == "-" then some [] else (s.splitOn ",").mapM rrOfStr

def strOfRRs (l : List RR) : String :=
  if l.isEmpty then "-" else ",".intercalate (l.map fun r => s!"{r.typ}:{r.ttl.toNat}")

def strOfMsgRRs (m : Msg) : String := s!"{strOfRRs m.ans}/{strOfRRs m.auth}/{strOfRRs m.add}"

def msgRRsOfStr (rc : Nat) (tc : Bool) (s : String) : Option Msg :=
  match s.splitOn "/" with
  | [a, b, c] => do
    let a ← rrsOfStr a
    let b ← rrsOfStr b
    let c ← rrsOfStr c
    pure ⟨rc, tc, a, b, c⟩
  | _ => none

def msgOfToks (toks : List String) (rc : Nat) (tc : Bool) : Option Msg := do
  let a ← (kvGet toks "an").bind rrsOfStr
  let b ← (kvGet toks "ns").bind rrsOfStr
  let c ← (kvGet toks "ar").bind rrsOfStr
  pure ⟨rc, tc, a, b, c⟩

def strOfLife (ns : Nat) : String :=
  if ns % 1000000000 = 0 then toString (ns / 1000000000) else s!"{ns / 1000000000}+{ns % 1000000000}"

def lifeOfStr (s : String) : Option Nat :=
  match s.splitOn "+" with
  | [a] => (natOfStr a).map (· * 1000000000)
  | [a, b] => do
    let a ← natOfStr a
    let b ← natOfStr b
    pure (a * 1000000000 + b)
  | _ => none

def strOfStoreOut : StoreOut → String
  | none => "miss"
  | some (l, served) => s!"life={strOfLife l} ttls={strOfMsgRRs served}"

def storeOutOfStr (rc : Nat) (s : String) : Option StoreOut :=
  if s == "miss" then some none else do
    let toks := words s
    let l ← (kvGet toks "life").bind lifeOfStr
    let m ← (kvGet toks "ttls").bind (msgRRsOfStr rc false)
    pure (some (l, m))

def runStore (toks : List String) (impl : String) : String × String :=
  match (kvGet toks "max").bind intOfStr, (kvGet toks "nb").bind boolOfStr, kvNat toks "rc",
        (kvGet toks "tc").bind boolOfStr with
  | some mx, some nb, some rc, some tc =>
    match msgOfToks toks rc tc with
    | some m =>
      let out := strOfStoreOut (modelStore (!nb) mx m)
      let v := match storeOutOfStr rc impl with
        | some o => if specStore (!nb) mx m o then "ok" else "viol"
        | none => "unparsed"
      (out, v)
    | none => ("bad-case", "na")
  | _, _, _, _ => ("bad-case", "na")

def runSubttl (toks : List String) (impl : String) : String × String :=
  match kvNat toks "d", msgOfToks toks 0 false with
  | some d, some m =>
    if d < u32 then
      let out := strOfMsgRRs (subtractTTL m (UInt32.ofNat d))
      let v := match msgRRsOfStr 0 false impl with
        | some o => if specServed d m o then "ok" else "viol"
        | none => "unparsed"
      (out, v)
    else ("bad-case", "na")
  | _, _ => ("bad-case", "na")

/-- the smallest record TTL, independently of the model: GetMinimalTTL's contract -/
def specMin (m : Msg) (o : UInt32 × Bool) : Bool :=
  match specMinTtl m with
  | none => o == (0, false)
  | some t => o.2 && o.1.toNat == t

def runMinttl (toks : List String) (impl : String) : String × String :=
  match msgOfToks toks 0 false with
  | some m =>
    let r := getMinimalTTL m
    let out := s!"min={r.1.toNat} ok={strOfBool r.2}"
    let itoks := words impl
    let v := match kvNat itoks "min", (kvGet itoks "ok").bind boolOfStr with
      | some n, some ok => if n < u32 && specMin m (UInt32.ofNat n, ok) then "ok" else "viol"
      | _, _ => "unparsed"
    (out, v)
  | none => ("bad-case", "na")

def evOfStr (s : String) : Option Ev :=
  match s.splitOn "/" with
  | [t, "n", k] => do pure ⟨← natOfStr t, 1, ← natOfStr k, .err⟩
  | [t, "g", k] => do pure ⟨← natOfStr t, 2, ← natOfStr k, .err⟩
  | [t, "q", k, "err"] => do pure ⟨← natOfStr t, 3, ← natOfStr k, .err⟩
  | [t, kind, k, rc, tc, an, ns, ar] => do
    let kind ← if kind == "s" then some 0 else if kind == "q" then some 3 else none
    let rc ← natOfStr rc
    let tc ← boolOfStr tc
    let a ← rrsOfStr an
    let b ← rrsOfStr ns
    let c ← rrsOfStr ar
    pure ⟨← natOfStr t, kind, ← natOfStr k, .reply ⟨rc, tc, a, b, c⟩⟩
  | _ => none

def strOfObs : Obs → Option String
  | .none => none
  | .miss => some "m"
  | .hit e served => some s!"h:{e.id}:{strOfLife (e.expire - e.stored)}:{strOfMsgRRs served}"
  | .q (.cached f m) => some s!"c:{f}:{m.rcode}:{strOfBool m.tc}:{strOfMsgRRs m}"
  | .q (.upstream f m) => some s!"u:{f}:{m.rcode}:{strOfBool m.tc}:{strOfMsgRRs m}"
  | .q .failed => some "u:0:2:0:-/-/-"

def strOfObsList (os : List Obs) : String :=
  let l := os.filterMap strOfObs
  if l.isEmpty then "-" else ";".intercalate l

/-- parse the observation of event `e` (the events that show nothing take none of the tokens) -/
def obsOfStrs : List Ev → List String → Option (List Obs)
  | [], [] => some []
  | [], _ :: _ => none
  | e :: es, toks =>
    if e.kind == 0 || e.kind == 1 then (obsOfStrs es toks).map (Obs.none :: ·)
    else match toks with
      | [] => none
      | tok :: rest => do
        let o ← (match tok.splitOn ":" with
          | ["m"] => some Obs.miss
          | "h" :: f :: life :: rrs => do
            let f ← natOfStr f
            let l ← lifeOfStr life
            let m ← msgRRsOfStr 0 false (":".intercalate rrs)
            pure (Obs.hit ⟨0, l, 0, m, f⟩ m)
          | c :: f :: rc :: tc :: rrs => do
            let f ← natOfStr f
            let rc ← natOfStr rc
            let tc ← boolOfStr tc
            let m ← msgRRsOfStr rc tc (":".intercalate rrs)
            if c == "c" then pure (Obs.q (.cached f m))
            else if c == "u" then pure (Obs.q (.upstream f m))
            else none
          | _ => none)
        (obsOfStrs es rest).map (o :: ·)

def runHist (toks : List String) (impl : String) : String × String :=
  match (kvGet toks "max").bind intOfStr, (kvGet toks "ev").bind (fun s => (s.splitOn ";").mapM evOfStr) with
  | some mx, some evs =>
    if !sortedEvs evs || !shortEvs evs then ("bad-case", "na")
    else if impl == "skip" then ("skip", "na")            -- the harness could not keep the planned timing
    else
      let out := strOfObsList (modelHist mx evs)
      let itoks := if impl == "-" then [] else impl.splitOn ";"
      let v := match obsOfStrs evs itoks with
        | some os => if specHist mx evs os then "ok" else "viol"
        | none => "unparsed"
      (out, v)
  | _, _ => ("bad-case", "na")

def run (case impl : String) : String × String :=
  let toks := words case
  match kvGet toks "op" with
  | some "store" => runStore toks impl
  | some "subttl" => runSubttl toks impl
  | some "minttl" => runMinttl toks impl
  | some "hist" => runHist toks impl
  | _ => ("bad-case", "na")

end MosVerif.Ttl
