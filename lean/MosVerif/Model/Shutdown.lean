/-
  C18 — shutdown of a running router with traffic: `run` (Model/Startup.lean) starts the listeners and one
  upstream (Model/Close.lean, real dialer = `auto`); a warm-up query is answered, `n` queries are in flight
  (the upstream server holds its replies), the router is closed twice, one more query arrives afterwards.
  `handleReq` turns a failed exchange into SERVFAIL, so "fails" is observed as RCODE 2.
-/
import MosVerif.Model.Startup
import MosVerif.Model.Close
-- @component shutdown MosVerif.Shutdown.runCase
namespace MosVerif.Shutdown
open MosVerif

structure Obs where
  res : String       -- run: "ok" | "err" | "panic" | "hang"
  warm : String      -- "ok" | "fail" | "hang" | "-" (no warm-up query)
  closes : Option Nat
  infl : String      -- "fail": every in-flight query was answered SERVFAIL promptly | "ok" | "hang"
  after : String     -- the query after close: "fail" | "ok" | "hang"
  busy : List Nat
  leak : Nat
  deriving DecidableEq, Repr

/-- the script the upstream sees -/
def script (warm : Bool) (n : Nat) : List Close.Op :=
  (if warm then [.start 0 false, .reply 0] else []) ++
  (List.range n).map (fun i => Close.Op.start (i + 1) false) ++ [.close, .close, .start (n + 1) false]

def resOf (s : Close.St) (e : Nat) : Option Close.Res :=
  (s.exs.find? (·.id == e)).bind (·.res)

def model (cfg : List Startup.Item) (k : Close.Kind) (warm : Bool) (n : Nat) : Obs :=
  let r := Startup.runThenClose cfg 2
  let s := Close.runScript k true (script warm n)
  { res := (Startup.obsOf r).res
    warm := if warm then (if resOf s 0 == some .ok then "ok" else "fail") else "-"
    closes := some 2
    infl := if (List.range n).all (fun i => resOf s (i + 1) == some .err) then "fail"
            else if (List.range n).any (fun i => resOf s (i + 1) == none) then "hang" else "ok"
    after := match resOf s (n + 1) with | some .err => "fail" | none => "hang" | _ => "ok"
    busy := r.w.live
    leak := r.w.live.length + (s.conns.filter (·.isOpen)).length }

/-- from the property text: closing the router returns (twice), in-flight and subsequent exchanges fail
    instead of hanging, no listening socket and no upstream connection stays open. -/
def spec (o : Obs) : Bool :=
  o.res == "ok" && o.closes == some 2 && o.infl == "fail" && o.after == "fail" && o.busy.isEmpty && o.leak == 0
    && o.warm != "hang"

def strOfObs (o : Obs) : String :=
  let cl := match o.closes with | some n => toString n | none => "hang"
  s!"res={o.res} warm={o.warm} cl={cl} infl={o.infl} after={o.after} busy={Startup.strOfIds o.busy} leak={o.leak}"

def obsOfStr (s : String) : Option Obs := do
  let toks := words ((s.splitOn " ## ").headD "")
  let res ← kvGet toks "res"
  let warm ← kvGet toks "warm"
  let cl ← kvGet toks "cl"
  let infl ← kvGet toks "infl"
  let after ← kvGet toks "after"
  let busy ← (kvGet toks "busy").bind Startup.idsOfStr
  let leak ← kvNat toks "leak"
  pure ⟨res, warm, natOfStr cl, infl, after, busy, leak⟩

/-- case: `it=<items as in startup, all +> k=<reuse|pipe|quic> warm=<0|1> n=<in-flight>` (+ harness-only tokens) -/
def runCase (case impl : String) : String × String :=
  let toks := words case
  match (kvGet toks "it").bind Startup.itemsOfStr, (kvGet toks "k").bind Close.kindOfStr,
        (kvGet toks "warm").bind boolOfStr, kvNat toks "n" with
  | some cfg, some k, some warm, some n =>
    if !(Startup.wellOrdered cfg && Startup.staged cfg) || cfg.any (fun it => !it.ok) then ("bad-case", "na") else
    let m := strOfObs (model cfg k warm n)
    let v := match obsOfStr impl with
      | some o => if spec o then "ok" else "viol"
      | none => if impl == "panic" then "viol:panic" else "unparsed"
    (m, v)
  | _, _, _, _ => ("bad-case", "na")

end MosVerif.Shutdown
