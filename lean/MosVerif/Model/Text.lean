/-
  C11 — model of the name/text helpers of `internal/dnsmsg/name.go`, `utils.go`
  and of the line handling of `internal/domain_matcher/loader_helper.go`.

  A name in mosproxy's internal wire form is the concatenation of
  `<len> <len octets>` groups WITHOUT the terminating zero octet (the root is
  the empty slice).  Errors are modelled as `none` (their identity is not
  observable through the matcher); the comment beside each `none` names the Go
  error.  Loops that advance an offset are written over the remaining suffix
  `s[off:]` with an explicit fuel (= an upper bound of the iterations), so they
  stay structurally recursive and evaluate by `decide`.

  Core Lean only.
-/
import MosVerif.Util
namespace MosVerif.Text

abbrev Bytes := List UInt8
abbrev Label := List UInt8

/-! ### utils.go -/

/-- `asciiToLower`, one octet: `if 'A' <= c && c <= 'Z' { c += 'a' - 'A' }`. -/
def lowerByte (c : UInt8) : UInt8 := if 65 ≤ c ∧ c ≤ 90 then c + 32 else c

/-- `asciiToLower(label)` -/
def lowerLabel (l : Label) : Label := l.map lowerByte

/-- `isPrintableLabelChar`: letters, digits, hyphen. -/
def isPrintableLabelChar (b : UInt8) : Bool :=
  (97 ≤ b && b ≤ 122) || (65 ≤ b && b ≤ 90) || (48 ≤ b && b ≤ 57) || b == 45

/-! ### NameBuilder -/

/-- `NameBuilder`: `buf[:l]`. -/
structure Builder where
  data : Bytes := []
  deriving Repr, DecidableEq

/-- the greatest `labelEnd` that `AppendLabel` accepts (Facts.dm_builderMax). -/
def builderMax : Nat := 253
/-- the greatest label length (Facts.dm_labelMax). -/
def labelMax : Nat := 63

/-- `NameBuilder.AppendLabel` -/
def Builder.appendLabel (b : Builder) (s : Bytes) : Option Builder :=
  let l := s.length
  if l == 0 then none                                   -- errZeroSegLen
  else if l > labelMax then none                        -- errSegTooLong
  else
    let labelStart := b.data.length
    let labelEnd := labelStart + 1 + l
    if labelEnd > builderMax then none                  -- errNameTooLong
    else some ⟨b.data ++ UInt8.ofNat l :: s⟩

/-- `bytes.IndexByte(s, c)`; `none` is `-1`. -/
def indexByte (c : UInt8) : Bytes → Option Nat
  | [] => none
  | x :: xs => if x = c then some 0 else (indexByte c xs).map (· + 1)

/-- the `for off < len(s)` loop of `ParseReadable`; `rest` is `s[off:]`.
    Note the `i > 0` test: a `.` at the very start of `rest` (`i == 0`) makes the
    *whole* remainder one label, dots included. -/
def parseLoop : Nat → Bytes → Builder → Option Builder
  | 0, _, b => some b                                   -- not reached (fuel = len(s))
  | fuel + 1, rest, b =>
    if rest.isEmpty then some b                         -- `off < len(s)` is false
    else
      let label := match indexByte 46 rest with
        | some (i + 1) => rest.take (i + 1)             -- i > 0
        | _ => rest                                     -- i == 0 or i == -1
      match b.appendLabel label with
      | none => none
      | some b' => parseLoop fuel (rest.drop (label.length + 1)) b'   -- off += len(label) + 1

/-- drop one trailing `.` -/
def dropTrailingDot (s : Bytes) : Bytes :=
  if s.getLast? = some 46 then s.dropLast else s

/-- `NameBuilder.ParseReadable` (from a `Reset` builder). -/
def parseReadable (s : Bytes) : Option Builder :=
  let s := dropTrailingDot s
  if s.length == 0 then some {}                         -- the root
  else parseLoop s.length s {}

/-! ### NameScanner -/

/-- greatest accepted `len(s.n)` (Facts.dm_scanMax). -/
def scanMax : Nat := 254

/-- successive `Scan()` calls collecting `Label()`; `rest` is `s.n[s.off:]`.
    `none` = `Err() != nil`. -/
def scanLoop : Nat → Bytes → Option (List Label)
  | 0, _ => some []                                     -- not reached (fuel = len(n) + 1)
  | _ + 1, [] => some []                                -- `s.off > len(s.n)-1`
  | fuel + 1, c :: rest =>
    let labelLen := c.toNat
    if labelLen == 0 then none                          -- errZeroSegLen
    else if labelLen > labelMax then none               -- errInvalidLabelLen
    else if labelLen > rest.length then none            -- labelEnd > len(s.n)
    else (scanLoop fuel (rest.drop labelLen)).map (rest.take labelLen :: ·)

def scan (n : Bytes) : Option (List Label) :=
  if n.length > scanMax then none                       -- errNameTooLong
  else scanLoop (n.length + 1) n

/-- `ToLowerName`: lower-cases label octets in place, stopping at a scanner error. -/
def toLowerLoop : Nat → Bytes → Bytes
  | 0, n => n
  | _ + 1, [] => []
  | fuel + 1, c :: rest =>
    let labelLen := c.toNat
    if labelLen == 0 then c :: rest
    else if labelLen > labelMax then c :: rest
    else if labelLen > rest.length then c :: rest
    else c :: (lowerLabel (rest.take labelLen) ++ toLowerLoop fuel (rest.drop labelLen))

def toLowerName (n : Bytes) : Bytes :=
  if n.length > scanMax then n else toLowerLoop (n.length + 1) n

/-! ### ToReadable -/

/-- one iteration of `appendEscapedLabel`. -/
def escapeByte (b : UInt8) : Bytes :=
  if isPrintableLabelChar b then [b]
  else if b = 46 then [92, 46]                          -- "\\."
  else if b = 92 then [92, 92]                          -- "\\\\"
  else [92, 48 + b / 100, 48 + b / 10 % 10, 48 + b % 10]

def appendEscapedLabel (dst : Bytes) (label : Label) : Bytes :=
  label.foldl (fun d b => d ++ escapeByte b) dst

/-- the loop of `ToReadable` over the scanned labels. -/
def readableLoop : Bool → Bytes → List Label → Bytes
  | _, b, [] => b
  | started, b, l :: ls =>
    let b := if started then b ++ [46] else b
    readableLoop true (appendEscapedLabel b l) ls

/-- `ToReadable`; `none` = error (invalid name). The labels are appended while
    scanning, but a scanner error discards the buffer, so scanning first is the same. -/
def toReadable (n : Bytes) : Option Bytes :=
  if n.length == 0 then some [46]
  else (scan n).map (readableLoop false [])

/-! ### loader_helper.go: one line -/

/-- Unicode white space as `bytes.TrimSpace` sees it, as UTF-8 sequences
    (U+0009..U+000D, U+0020, U+0085, U+00A0, U+1680, U+2000..U+200A, U+2028, U+2029,
    U+202F, U+205F, U+3000). -/
def spaceSeqs : List Bytes :=
  [[9], [10], [11], [12], [13], [32], [0xC2, 0x85], [0xC2, 0xA0], [0xE1, 0x9A, 0x80],
   [0xE2, 0x80, 0x80], [0xE2, 0x80, 0x81], [0xE2, 0x80, 0x82], [0xE2, 0x80, 0x83],
   [0xE2, 0x80, 0x84], [0xE2, 0x80, 0x85], [0xE2, 0x80, 0x86], [0xE2, 0x80, 0x87],
   [0xE2, 0x80, 0x88], [0xE2, 0x80, 0x89], [0xE2, 0x80, 0x8A], [0xE2, 0x80, 0xA8],
   [0xE2, 0x80, 0xA9], [0xE2, 0x80, 0xAF], [0xE2, 0x81, 0x9F], [0xE3, 0x80, 0x80]]

/-- the white-space sequence `s` starts with, if any. -/
def leadingSpace (s : Bytes) : Option Bytes := spaceSeqs.find? (fun q => q.isPrefixOf s)

def trimLeft : Nat → Bytes → Bytes
  | 0, s => s
  | fuel + 1, s =>
    match leadingSpace s with
    | some q => trimLeft fuel (s.drop q.length)
    | none => s

def trailingSpace (s : Bytes) : Option Bytes := spaceSeqs.find? (fun q => q.isSuffixOf s)

def trimRight : Nat → Bytes → Bytes
  | 0, s => s
  | fuel + 1, s =>
    match trailingSpace s with
    | some q => trimRight fuel (s.take (s.length - q.length))
    | none => s

/-- `bytes.TrimSpace` -/
def trimSpace (s : Bytes) : Bytes :=
  let s := trimLeft s.length s
  trimRight s.length s

/-- `if i := bytes.IndexByte(b, '#'); i >= 0 { b = b[:i] }` -/
def stripComment (b : Bytes) : Bytes :=
  match indexByte 35 b with
  | some i => b.take i
  | none => b

/-- body of the loader's loop up to the `continue`: `none` = the line is skipped. -/
def loaderLine (line : Bytes) : Option Bytes :=
  let b := trimSpace (stripComment line)
  if b.length == 0 then none else some b

/-! ### the wire form of a label list (used to state facts about the above) -/

def encode : List Label → Bytes
  | [] => []
  | l :: ls => UInt8.ofNat l.length :: (l ++ encode ls)

def wireLen : List Label → Nat
  | [] => 0
  | l :: ls => l.length + 1 + wireLen ls

end MosVerif.Text
