/-
  Response packing of the router (C09).  Mirrors /repo/app/router:
    server_utils.go  packResp (limit capped at 65535), packRespTCP (limit 65535, 2-octet length prefix)
    server_udp.go    udpServer.handleReq: client limit = class of the query's OPT record (utils.go queryOpt: the
                     first OPT found in additionals, authorities, answers), floor 512, cap 65507
  and the line protocol of the harness components `packresp` / `packtcp`.
-/
import MosVerif.Model.WireIO
-- @component packresp MosVerif.RespIO.runPackResp
-- @component packtcp MosVerif.RespIO.runPackTCP
namespace MosVerif.Wire

def respCap : Nat := Facts.resp_cap          -- 65535
def udpFloor : Nat := 512                    -- tied by translation: `udpClamp_translated` (Lemmas/TranslatedC09)
def udpMax : Nat := 65507                    -- = maxUdpPayloadSize

/-- the two clamps of `udpServer.handleReq`: `if clientUdpSize < 512 {…}`, `if clientUdpSize > maxUdpPayloadSize {…}` -/
def udpClamp (s : Nat) : Nat :=
  let s := if s < udpFloor then udpFloor else s
  if s > udpMax then udpMax else s

/-- `packResp(m, compression, size)`: the buffer has `m.Len()` octets. -/
def packResp (m : Msg) (c : Bool) (size : Nat) : Res Bytes :=
  let size := if size > respCap then respCap else size
  packMsg m c size (msgLen m)

/-- `packRespTCP(m, compression)`: body packed with limit 65535 behind a 2-octet length prefix
    (`uint16(n)`). -/
def packRespTCP (m : Msg) (c : Bool) : Res Bytes := do
  let body ← packMsg m c respCap (msgLen m)
  .ok (enc16 (body.length % 65536) ++ body)

/-- `queryOpt`: the first OPT record of the query, looking at the additional, authority and answer
    sections in this order -/
def queryOpt (q : Msg) : Option Resource :=
  (q.additionals ++ q.authorities ++ q.answers).find? (fun r => r.rtype == typeOPT)

/-- the limit `udpServer.handleReq` packs the response with: the class of the query's OPT record,
    at least 512, at most 65507 -/
def clientUdpSize (q : Msg) : Nat :=
  let s := match queryOpt q with
    | some o => o.rclass
    | none => 0
  udpClamp s

end MosVerif.Wire

namespace MosVerif.RespIO
open MosVerif MosVerif.Wire MosVerif.WireIO

def outOfStr (s : String) : Option Bytes := (kvGet (words s) "out").bind bytesOfHex

/-- component `packresp`: case `c=<0|1> size=<n> <message tokens>`; impl output `err` | `out=<hex>` -/
def runPackResp (case impl : String) : String × String :=
  let toks := words case
  match msgOfToks toks, (kvGet toks "c").bind boolOfStr, kvNat toks "size" with
  | some m, some c, some size =>
    let out := match packResp m c size with
      | .ok bs => s!"out={hexOfBytes bs}"
      | .err => "err"
      | .panic => "panic"
    let v :=
      if impl == "panic" then "viol:panic"
      else if ¬ msgWF m then "ok"
      else if impl == "err" then "viol:err"
      else match outOfStr impl with
        | some o =>
          let eff := if size > 65535 then 65535 else size
          -- the transport limit itself, then everything C09 says about Msg.Pack with that limit
          packSpec m eff ⟨msgLen m, o, none, none⟩
        | none => "unparsed"
    (out, v)
  | _, _, _ => ("bad-case", "na")

/-- component `packtcp`: case `c=<0|1> <message tokens>`; impl output `err` | `out=<hex incl. prefix>` -/
def runPackTCP (case impl : String) : String × String :=
  let toks := words case
  match msgOfToks toks, (kvGet toks "c").bind boolOfStr with
  | some m, some c =>
    let out := match packRespTCP m c with
      | .ok bs => s!"out={hexOfBytes bs}"
      | .err => "err"
      | .panic => "panic"
    let v :=
      if impl == "panic" then "viol:panic"
      else if ¬ msgWF m then "ok"
      else if impl == "err" then "viol:err"
      else match outOfStr impl with
        | some (p0 :: p1 :: body) =>
          if be16 p0 p1 ≠ body.length then "viol:prefix"
          else packSpec m 65535 ⟨msgLen m, body, none, none⟩
        | some _ => "viol:short"
        | none => "unparsed"
    (out, v)
  | _, _ => ("bad-case", "na")

end MosVerif.RespIO
