/-
  C10 (start-up part) — tag tables built by `run`: initUpstream, loadDomainSet, loadRule
  (/repo/app/router/{upstream.go,domain_set.go,rule.go,router.go}).
  A configuration is accepted iff every upstream has a non-empty, new tag and an address, every domain set
  has a non-empty, new tag, and every rule's `domain` / `forward` reference (when non-empty) names an
  existing domain set / upstream.  Unknown YAML keys are rejected by the strict decoder
  (mapstructure ErrorUnused) before `run` is reached: `unknownKey`.
-/
import MosVerif.Util
-- @component loadcfg MosVerif.LoadCfg.run
namespace MosVerif.LoadCfg

structure Cfg where
  /-- (tag, addr-present) -/
  upstreams : List (String × Bool)
  domainSets : List String
  /-- (domain reference, forward reference); "" = none -/
  rules : List (String × String)
  unknownKey : Bool
  /-- the `reject` value of every rule, as written in the configuration -/
  rejects : List Nat := []
  /-- the configuration file holds more than one YAML document -/
  multiDoc : Bool := false
  deriving Repr

/-- `initUpstream` over the list, threading the tag table -/
def loadUpstreams : List String → List (String × Bool) → Option (List String)
  | tbl, [] => some tbl
  | tbl, (tag, hasAddr) :: rest =>
    if tag = "" then none                       -- missing tag
    else if tbl.contains tag then none          -- dup tag
    else if !hasAddr then none                  -- missing addr
    else loadUpstreams (tag :: tbl) rest

def loadDomainSets : List String → List String → Option (List String)
  | tbl, [] => some tbl
  | tbl, tag :: rest =>
    if tag = "" then none
    else if tbl.contains tag then none
    else loadDomainSets (tag :: tbl) rest

def loadRules (ups dss : List String) : List (String × String) → Bool
  | [] => true
  | (d, f) :: rest =>
    if d ≠ "" ∧ !dss.contains d then false       -- cannot find domain set tag
    else if f ≠ "" ∧ !ups.contains f then false   -- cannot find upstream
    else loadRules ups dss rest

/-- does the router start with this configuration? -/
def accepts (c : Cfg) : Bool :=
  if c.unknownKey then false
  else match loadUpstreams [] c.upstreams with
    | none => false
    | some ups =>
      match loadDomainSets [] c.domainSets with
      | none => false
      | some dss => loadRules ups dss c.rules

/-- the specification, written from the property text -/
def specAccepts (c : Cfg) : Bool :=
  let utags := c.upstreams.map (·.1)
  !c.unknownKey
    && utags.all (· ≠ "") && decide utags.Nodup && c.upstreams.all (·.2)
    && c.domainSets.all (· ≠ "") && decide c.domainSets.Nodup
    && c.rules.all (fun (d, f) => (d = "" || c.domainSets.contains d) && (f = "" || utags.contains f))

/-- `loadRule` accepts the rule's `reject` value: the negation of `cfg.Reject < 0 || cfg.Reject > 15` (tied to the
    source by translation, `Lemmas/TranslatedC10.lean`) -/
@[simp] def rejectInRange (reject : Nat) : Bool := decide (reject ≤ 15)

/-- the whole start-up decision: the tag tables, plus `loadRule`'s range check of `reject` (the header's rcode field
    has 4 bits) and the decoder's refusal of a second YAML document -/
def acceptsFull (c : Cfg) : Bool := accepts c && c.rejects.all rejectInRange && !c.multiDoc

/-- … and what the property asks for: a reject rule answers with ITS rcode (so the value must be an rcode), and
    nothing in the configuration is silently ignored -/
def specFull (c : Cfg) : Bool := specAccepts c && c.rejects.all (· ≤ 15) && !c.multiDoc

/-! line protocol: case `unk=<0|1> ups=<tag:0|1,…|-> dss=<tag,…|-> rules=<d/f;…|->` (empty string written `_`) ;
    out `ok` | `rejected` -/
def unq (s : String) : String := if s == "_" then "" else s

def parseUp (t : String) : Option (String × Bool) :=
  match t.splitOn ":" with
  | [tg, a] => (boolOfStr a).map (fun b => (unq tg, b))
  | _ => none

def parseRule (t : String) : Option (String × String) :=
  match t.splitOn "/" with
  | [d, f] => some (unq d, unq f)
  | [d, f, _reject] => some (unq d, unq f)     -- a reject rcode does not excuse an unknown reference
  | _ => none

def parseList {α} (s : String) (sep : String) (f : String → Option α) : Option (List α) :=
  if s == "-" then some [] else (s.splitOn sep).mapM f

def parseReject (t : String) : Option Nat :=
  match t.splitOn "/" with
  | [_, _] => some 0
  | [_, _, r] => natOfStr r
  | _ => none

def parseCfg (toks : List String) : Option Cfg := do
  let unk ← (kvGet toks "unk").bind boolOfStr
  let ups ← (kvGet toks "ups").bind (parseList · "," parseUp)
  let dss ← (kvGet toks "dss").bind (parseList · "," (fun t => some (unq t)))
  let rules ← (kvGet toks "rules").bind (parseList · ";" parseRule)
  let rejects ← (kvGet toks "rules").bind (parseList · ";" parseReject)
  let multi := kvGet toks "docs" == some "2"
  -- `nsk`: a mapping with a key that is not a string somewhere in the file — no setting has such a key
  let unk := unk || (kvGet toks "nsk").isSome
  pure { upstreams := ups, domainSets := dss, rules := rules, unknownKey := unk, rejects := rejects, multiDoc := multi }

def run (case impl : String) : String × String :=
  match parseCfg (words case) with
  | some c =>
    let out := if acceptsFull c then "ok" else "rejected"
    let v := if impl == "panic" then "viol:panic"
      else if impl == "ok" ∧ !specFull c then "viol:accepted-bad-config"
      else if impl == "rejected" ∧ specFull c then "viol:rejected-good-config"
      else "ok"
    (out, v)
  | none => ("bad-case", "na")

end MosVerif.LoadCfg
