/-
  C13 — several connections on one gnet listener.

  `OnOpen` allocates a FRESH `connCtx` per connection (`cc := &connCtx{…}`; `c.SetContext(cc)`); every
  handler goroutine and its `AsyncWrite` completion callback capture the `cc` and the `gnet.Conn` of the
  connection that decoded the query, and may outlive it (the client went away while the query was at the
  upstream: `OnClose` runs, the reply arrives later; gnet then calls the callback with `net.ErrClosed`).
  The per-connection in-flight counter therefore belongs to exactly one connection for ever.

  The model keeps one `Gnet.Conn` per connection identity; an event of connection `k` touches only entry `k`.
-/
import MosVerif.Model.Gnet
-- @component gnetframes MosVerif.GnetMulti.run
namespace MosVerif.GnetMulti
open MosVerif.Gnet

/-- events of one connection -/
inductive LOp where
  /-- accepted: `OnOpen` -/
  | opn
  /-- octets arrived: `OnTraffic` -/
  | seg (bs : Bytes)
  /-- the peer went away: `OnClose` (handlers of queries still at the upstream keep running) -/
  | cls
  /-- the `j`-th running handler of this connection gets its reply: `AsyncWrite`, then the callback -/
  | rel (j : Nat)
  deriving DecidableEq, Repr

/-- an event of the listener: which connection, what -/
structure MOp where
  k : Nat
  op : LOp
  deriving DecidableEq, Repr

structure MConn where
  c : Conn := {}
  opened : Bool := false
  /-- `OnClose` has run -/
  gone : Bool := false
  /-- replies that came back after `OnClose` (handed to `AsyncWrite` of the dead connection, never on the wire) -/
  late : Nat := 0
  deriving DecidableEq, Repr

/-- one event on the connection it belongs to -/
def lstep (dec : Bytes → Bool) (max : Nat) (m : MConn) : LOp → MConn
  | .opn => if m.opened then m else { c := {}, opened := true, gone := false, late := 0 }
  | .seg bs => if m.opened && !m.gone then { m with c := step dec max m.c (.seg bs) } else m
  | .cls => if m.opened then { m with gone := true } else m
  | .rel j =>
    if !m.opened then m
    else if m.gone then
      match m.c.pending[j]? with
      | none => m
      | some _ =>
        { m with c := { m.c with pending := m.c.pending.eraseIdx j
                                 cc := { m.c.cc with concurrent := m.c.cc.concurrent - 1 } }
                 late := m.late + 1 }
    else { m with c := step dec max m.c (.rel j) }

/-- the listener: connection identity ↦ its state -/
abbrev Listener := Nat → MConn

def mstep (dec : Bytes → Bool) (max : Nat) (s : Listener) (o : MOp) : Listener :=
  fun k => if k = o.k then lstep dec max (s k) o.op else s k

def mrun (dec : Bytes → Bool) (max : Nat) (ops : List MOp) (s : Listener) : Listener :=
  ops.foldl (mstep dec max) s

/-- the events of connection `k`, in order -/
def proj (k : Nat) (ops : List MOp) : List LOp := (ops.filter (fun o => o.k == k)).map MOp.op

def lrun (dec : Bytes → Bool) (max : Nat) (ops : List LOp) (m : MConn) : MConn :=
  ops.foldl (lstep dec max) m

/-! ### reference semantics of ONE connection (property text: a query is REFUSED iff `max` handlers of
    ITS OWN connection are running; every admitted query of a connection that is still there is answered once) -/

structure MRef where
  r : Ref := {}
  opened : Bool := false
  gone : Bool := false
  late : Nat := 0
  deriving DecidableEq, Repr

def lrefStep (dec : Bytes → Bool) (max : Nat) (m : MRef) : LOp → MRef
  | .opn => if m.opened then m else { r := {}, opened := true, gone := false, late := 0 }
  | .seg bs => if m.opened && !m.gone then { m with r := refStep dec max m.r (.seg bs) } else m
  | .cls => if m.opened then { m with gone := true } else m
  | .rel j =>
    if !m.opened then m
    else if m.gone then
      match m.r.pending[j]? with
      | none => m
      | some _ =>
        { m with r := { m.r with pending := m.r.pending.eraseIdx j, running := m.r.running - 1 }
                 late := m.late + 1 }
    else { m with r := refStep dec max m.r (.rel j) }

def lrefRun (dec : Bytes → Bool) (max : Nat) (ops : List LOp) (m : MRef) : MRef :=
  ops.foldl (lrefStep dec max) m

/-- no zero-length frame, no empty segment (as for a single connection) -/
def lnoEmpty (dec : Bytes → Bool) (max : Nat) : List LOp → MRef → Bool
  | [], _ => true
  | op :: ops, m =>
    (match op with
     | .seg bs =>
       !(m.opened && !m.gone) ||
         (!bs.isEmpty && (m.r.closed || (parse (m.r.rest ++ bs)).1.all (fun f => !f.isEmpty)))
     | _ => true) && lnoEmpty dec max ops (lrefStep dec max m op)

/-- the handlers still running at the end complete, oldest first (late if the connection is gone) -/
def mdrain (m : MConn) : MConn :=
  if m.gone then
    { m with c := { m.c with pending := []
                             cc := { m.c.cc with concurrent := m.c.cc.concurrent - m.c.pending.length } }
             late := m.late + m.c.pending.length }
  else { m with c := drain m.c }

def mrefDrain (m : MRef) : MRef :=
  if m.gone then
    { m with r := { m.r with pending := [], running := m.r.running - m.r.pending.length }
             late := m.late + m.r.pending.length }
  else { m with r := refDrain m.r }

/-- observables of one connection -/
structure CObs where
  o : Obs
  late : Nat
  deriving DecidableEq, Repr

def cobsOf (m : MConn) : CObs := ⟨obsOf m.c.log m.c.writes m.c.closed, m.late⟩
def cobsOfRef (m : MRef) : CObs := ⟨obsOf m.r.log m.r.writes m.r.closed, m.late⟩

structure MCase where
  max : Nat
  /-- number of connections (identities 1..conns) -/
  conns : Nat
  ops : List MOp
  deriving Repr

/-- expected observables of connection `k`: the reference run over ITS OWN events only -/
def expectedOf (c : MCase) (k : Nat) : CObs :=
  cobsOfRef (mrefDrain (lrefRun decB c.max (proj k c.ops) {}))

def specConn (c : MCase) (k : Nat) (o : CObs) : Bool :=
  let e := expectedOf c k
  sortW o.o.w == sortW e.o.w && o.o.up == e.o.up && o.o.closed == e.o.closed && o.late == e.late

/-- the property on what was observed on every connection -/
def spec (c : MCase) (obs : List CObs) : Bool :=
  obs.length == c.conns &&
    (List.range c.conns).all (fun i => match obs[i]? with
      | some o => specConn c (i + 1) o
      | none => false)

def caseOk (c : MCase) : Bool :=
  (List.range c.conns).all (fun i => lnoEmpty decB c.max (proj (i + 1) c.ops) {})

def modelObs (c : MCase) : List CObs :=
  let s := mrun decB c.max c.ops (fun _ => {})
  (List.range c.conns).map (fun i => cobsOf (mdrain (s (i + 1))))

/-! ### line protocol
  case : `max=<n> ord=m cf=<conn of frame 1>,… fr=<len>[x],… ops=<o<k>|s<k>:<n>|c<k>|r<k>:<j>>,…`
         frame i (DNS id i) belongs to the stream of connection cf[i]; `o<k>` accept, `s<k>:<n>` the next n
         octets of connection k's stream arrive, `c<k>` the peer of k goes away, `r<k>:<j>` the j-th running
         handler of k (by id) gets its upstream reply.
  out  : `c<k>=<writes>/<closed>/<late>/<state>` per connection, `up=<ids that reached the upstream>` -/

def streamsOf (frs : List (Nat × Bool)) (cf : List Nat) (k : Nat) : Bytes :=
  ((frs.zip cf).zipIdx 1).flatMap fun (p, i) => if p.2 == k then frame (bodyOf i p.1.1 p.1.2) else []

def parseMOps (toks : List String) (streams : Nat → Bytes) : Option (List MOp) :=
  let rec go (toks : List String) (used : Nat → Nat) (acc : List MOp) : Option (List MOp) :=
    match toks with
    | [] => some acc.reverse
    | t :: rest =>
      let body := (t.drop 1).toString
      if t.startsWith "o" then (natOfStr body).bind fun k => go rest used (⟨k, .opn⟩ :: acc)
      else if t.startsWith "c" then (natOfStr body).bind fun k => go rest used (⟨k, .cls⟩ :: acc)
      else if t.startsWith "s" then
        match body.splitOn ":" with
        | [ks, ns] =>
          match natOfStr ks, natOfStr ns with
          | some k, some n =>
            let s := (streams k).drop (used k)
            if n ≤ s.length then
              go rest (fun x => if x = k then used k + n else used x) (⟨k, .seg (s.take n)⟩ :: acc)
            else none
          | _, _ => none
        | _ => none
      else if t.startsWith "r" then
        match body.splitOn ":" with
        | [ks, js] =>
          match natOfStr ks, natOfStr js with
          | some k, some j => go rest used (⟨k, .rel j⟩ :: acc)
          | _, _ => none
        | _ => none
      else none
  go toks (fun _ => 0) []

def strOfConn (m : MConn) : String :=
  let o := cobsOf m
  s!"{strOfW true o.o.w}/{strOfBool o.o.closed}/{o.late}/{strOfSt m.c}"

def parseConnObs (s : String) : Option CObs :=
  match s.splitOn "/" with
  | w :: cl :: late :: _ =>
    match parseW w, boolOfStr cl, natOfStr late with
    | some w, some cl, some late => some ⟨⟨w, [], cl⟩, late⟩
    | _, _, _ => none
  | _ => none

def runMulti (case impl : String) : String × String :=
  let toks := words case
  match kvNat toks "max", (kvGet toks "fr").bind parseFrames, (kvGet toks "cf").bind parseNats, kvGet toks "ops" with
  | some max, some frs, some cf, some opsS =>
    if frs.any (fun p => p.1 == 0 || p.1 > 65535 || (p.2 && p.1 < 17)) || frs.length != cf.length
        || cf.any (· == 0) then ("bad-case", "na") else
    let conns := cf.foldl Nat.max 0
    match parseMOps (if opsS == "-" then [] else opsS.splitOn ",") (streamsOf frs cf) with
    | none => ("bad-case", "na")
    | some ops =>
      let c : MCase := ⟨max, conns, ops⟩
      if !caseOk c || ops.any (fun o => o.k == 0 || o.k > conns) then ("bad-case", "na") else
      let s := mrun decB max ops (fun _ => {})
      let ms := (List.range conns).map (fun i => mdrain (s (i + 1)))
      let ups := sortN (ms.flatMap fun m => (accepted m.c.log).map idOf)
      let parts := (ms.zipIdx 1).map fun (m, k) => s!"c{k}={strOfConn m}"
      let mstr := " ".intercalate parts ++ s!" up={strOfNats ups}"
      let itoks := words impl
      let obs := (List.range conns).map fun i => (kvGet itoks s!"c{i + 1}").bind parseConnObs
      let v :=
        if obs.any Option.isNone then "unparsed"
        else
          -- `up` is judged per connection through the ids each connection forwarded: reconstruct from the global list
          match (kvGet itoks "up").bind parseNats with
          | none => "unparsed"
          | some up =>
            let co := (obs.filterMap id).zipIdx 1 |>.map fun (o, k) =>
              let mine := up.filter fun id => (cf[id - 1]?).getD 0 == k
              ({ o with o := { o.o with up := mine } } : CObs)
            if spec c co && up.all (fun id => id ≥ 1 && id ≤ frs.length) then "ok" else "viol"
      (mstr, v)
  | _, _, _, _ => ("bad-case", "na")

def run (case impl : String) : String × String :=
  if kvGet (words case) "ord" == some "m" then runMulti case impl else Gnet.run case impl

end MosVerif.GnetMulti
