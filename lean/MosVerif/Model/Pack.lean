/-
  Wire codec model — encoding side.  Mirrors /repo/internal/dnsmsg:
    name.go     NameScanner, Name.PackLen, Name.pack (compression table keyed by the whole
                remaining suffix *including* its first length octet; suffixes are registered only
                after the name was written out in full)
    question.go Question.Len, Question.pack
    rr.go       ResourceHdr.pack/packLen, every `*.pack`/`packLen`
    msg.go      Header.Pack, Msg.Len, Msg.Pack (size limit, TC, counts), PopEDNS0

  The Go code writes into a pre-sized buffer `b` at a running offset and fails with
  ErrSmallBuffer at the first write past `len(b)`.  Since writes are sequential and offsets only
  grow, "some write does not fit" is equivalent to "the complete output is longer than len(b)";
  the model therefore builds the output as a list (`off` = bytes written so far) and compares
  its length with the capacity once, at the end (`packMsg`).  RDLENGTH back-patching is modelled
  functionally: RDATA is produced for the known start offset, then prefixed by its length.
-/
import MosVerif.Model.Wire
namespace MosVerif.Wire

/-! ### big-endian encoders (`packUint16`, `packUint32`) -/
def enc16 (v : Nat) : Bytes := [UInt8.ofNat (v / 256 % 256), UInt8.ofNat (v % 256)]
def enc32 (v : Nat) : Bytes :=
  [UInt8.ofNat (v / 16777216 % 256), UInt8.ofNat (v / 65536 % 256), UInt8.ofNat (v / 256 % 256), UInt8.ofNat (v % 256)]

/-! ### the buffer view

  What the Go writers do with the pre-sized buffer `b` and the running offset: `writeAt b off bs` writes the octets
  `bs` at `off` (`ErrSmallBuffer` unless they fit) and returns the new contents and the new offset.  The translated
  writers of utils.go are EQUAL to `writeAt` of the model's encoders (`Lemmas/TranslatedEnc.lean`), and sequential
  writes compose into ONE write of the concatenation (`writeAt_append`) — which is the justification of building
  the output as a list and comparing its length with the capacity once. -/
def writeAt (b : Bytes) (off : Nat) (bs : Bytes) : Res (Bytes × Nat) :=
  if off + bs.length ≤ b.length then .ok (b.take off ++ bs ++ b.drop (off + bs.length), off + bs.length) else .err

/-! ### NameScanner -/

/-- Labels of a name as the scanner yields them, `none` when `scanner.Err() != nil`
    (zero-length label, label longer than 63, label running past the end). The `len > 254`
    test is in `scanName`. -/
def scanLabelsAux : Nat → Bytes → Option (List Bytes)
  | 0, [] => some []
  | 0, _ :: _ => none                  -- unreachable: fuel = length
  | _ + 1, [] => some []
  | fuel + 1, l :: rest =>
    let n := l.toNat
    if n = 0 ∨ n > 63 ∨ rest.length < n then none
    else match scanLabelsAux fuel (rest.drop n) with
      | some ls => some (rest.take n :: ls)
      | none => none

def scanName (n : Name) : Option (List Bytes) :=
  if n.length > 254 then none else scanLabelsAux n.length n

/-- `Name.PackLen`: always 1..255. -/
def namePackLen (n : Name) : Nat := (if n.length > 254 then 254 else n.length) + 1

/-! ### compression table -/

/-- The Go `map[string]uint16`, keyed by the remaining suffix of the name (wire form, without
    terminator, including the length octet of its first label). Newest binding first. -/
abbrev Table := List (Bytes × Nat)

def Table.find (t : Table) (k : Bytes) : Option Nat :=
  match t with
  | [] => none
  | (k', v) :: rest => if k' = k then some v else Table.find rest k

def ptrLimit : Nat := 16383   -- int(^uint16(0)>>2) = 0x3FFF; tied by translation: `ptrFits_translated` (Lemmas/TranslatedC02), `loop2_step_ok` (Lemmas/TranslatedEncName)

/-- Register every suffix of the (valid, fully written) name `n` that starts at offset
    `≤ 0x3FFF`; `pos` is the absolute offset of the current suffix. -/
def registerSuffixes : Nat → Table → Nat → Bytes → Table
  | 0, t, _, _ => t
  | _ + 1, t, _, [] => t
  | fuel + 1, t, pos, l :: rest =>
    let n := l.toNat
    let t' := if pos ≤ ptrLimit then (l :: rest, pos) :: t else t
    registerSuffixes fuel t' (pos + 1 + n) (rest.drop n)

/-- The scanning loop of `Name.pack`: returns the bytes written and whether a table hit ended
    the name with a pointer. `tbl = none` ⇔ compression off. -/
def packNameLoop : Nat → Option Table → Bytes → Bytes → Res (Bytes × Bool)
  | 0, _, [], acc => .ok (acc, false)
  | 0, _, _ :: _, _ => .err
  | _ + 1, _, [], acc => .ok (acc, false)
  | fuel + 1, tbl, l :: rest, acc =>
    let n := l.toNat
    if n = 0 ∨ n > 63 ∨ rest.length < n then .err          -- scanner.Err()
    else
      match tbl.bind (·.find (l :: rest)) with
      | some ptr =>                                         -- hit: emit a pointer, done
        .ok (acc ++ [UInt8.ofNat (Nat.lor (ptr / 256 % 256) 192), UInt8.ofNat (ptr % 256)], true)
      | none =>
        packNameLoop fuel tbl (rest.drop n) (acc ++ [l] ++ rest.take n)

/-- `Name.pack(msg, off, compression)`: bytes appended at `off` and the updated table. -/
def packName (off : Nat) (tbl : Option Table) (n : Name) : Res (Bytes × Option Table) :=
  if n.length > 254 then .err                               -- errNameTooLong (first Scan)
  else match packNameLoop n.length tbl n [] with
    | .ok (bs, true) => .ok (bs, tbl)
    | .ok (bs, false) =>
      let tbl' := match tbl with
        | some t => some (registerSuffixes n.length t off n)
        | none => none
      .ok (bs ++ [0], tbl')
    | .err => .err
    | .panic => .panic

/-! ### questions -/
def questionLen (q : Question) : Nat := namePackLen q.name + 4

def packQuestion (off : Nat) (tbl : Option Table) (q : Question) : Res (Bytes × Option Table) := do
  let (nb, tbl) ← packName off tbl q.name
  .ok (nb ++ enc16 q.qtype ++ enc16 q.qclass, tbl)

/-! ### resources -/
def rdataPackLen : RData → Nat
  | .a _ => 4
  | .aaaa _ => 16
  | .name n => namePackLen n
  | .mx _ n => 2 + namePackLen n
  | .soa ns mbox _ _ _ _ _ => namePackLen ns + namePackLen mbox + 20
  | .srv _ _ _ t => 6 + namePackLen t
  | .raw d => if d.length > 65535 then 65535 else d.length

def resourcePackLen (r : Resource) : Nat := namePackLen r.name + 10 + rdataPackLen r.rdata

/-- RDATA bytes when its first octet lands at absolute offset `off`. -/
def packRData (off : Nat) (tbl : Option Table) : RData → Res (Bytes × Option Table)
  | .a b => .ok (b, tbl)
  | .aaaa b => .ok (b, tbl)
  | .name n => packName off tbl n
  | .mx pref n => do
    let (nb, tbl) ← packName (off + 2) tbl n
    .ok (enc16 pref ++ nb, tbl)
  | .soa ns mbox serial refresh retry expire minttl => do
    let (b1, tbl) ← packName off tbl ns
    let (b2, tbl) ← packName (off + b1.length) tbl mbox
    .ok (b1 ++ b2 ++ enc32 serial ++ enc32 refresh ++ enc32 retry ++ enc32 expire ++ enc32 minttl, tbl)
  | .srv prio weight port target => do
    let (nb, tbl) ← packName (off + 6) tbl target
    .ok (enc16 prio ++ enc16 weight ++ enc16 port ++ nb, tbl)
  | .raw d => if d.length > 65535 then .err else .ok (d, tbl)

def packResource (off : Nat) (tbl : Option Table) (r : Resource) : Res (Bytes × Option Table) := do
  let (nb, tbl) ← packName off tbl r.name
  let fixed := nb ++ enc16 r.rtype ++ enc16 r.rclass ++ enc32 r.ttl
  let (rd, tbl) ← packRData (off + fixed.length + 2) tbl r.rdata
  -- RDLENGTH is `uint16(off) - uint16(dataStartOff)`
  .ok (fixed ++ enc16 (rd.length % 65536) ++ rd, tbl)

/-! ### header -/
def b2n (b : Bool) : Nat := if b then 1 else 0

/-- `Header.Pack`: `uint16(OpCode)<<11 | uint16(RCode)` or-ed with the flag bits (uint16 arithmetic). -/
def bitsOfHeader (h : Header) : Nat :=
  let base := Nat.lor ((h.opcode * 2048) % 65536) (h.rcode % 65536)
  let base := if h.ra then Nat.lor base 128 else base
  let base := if h.rd then Nat.lor base 256 else base
  let base := if h.truncated then Nat.lor base 512 else base
  let base := if h.authoritative then Nat.lor base 1024 else base
  let base := if h.response then Nat.lor base 32768 else base
  let base := if h.z then Nat.lor base 64 else base
  let base := if h.ad then Nat.lor base 32 else base
  let base := if h.cd then Nat.lor base 16 else base
  base

def headerBitTC : Nat := 512

/-! ### PopEDNS0 -/

/-- Index of the last OPT record, scanning from the end as the Go loop does. -/
def lastOptIdx (rs : List Resource) : Option Nat :=
  let idxs := (List.range rs.length).filter (fun i => match rs[i]? with | some r => r.rtype == typeOPT | none => false)
  idxs.getLast?

/-- `PopEDNS0`: swap-remove the last OPT (the last element moves into its slot). -/
def popEDNS0 (rs : List Resource) : Option Resource × List Resource :=
  match lastOptIdx rs with
  | none => (none, rs)
  | some i =>
    match rs[i]?, rs.getLast? with
    | some opt, some last =>
      let rs' := (rs.set i last).dropLast
      (some opt, rs')
    | _, _ => (none, rs)

/-! ### Msg.Len / Msg.Pack -/
def msgLen (m : Msg) : Nat :=
  12 + (m.questions.map questionLen).sum
     + (m.answers.map resourcePackLen).sum
     + (m.authorities.map resourcePackLen).sum
     + (m.additionals.map resourcePackLen).sum

/-- State of the packing loops: bytes after the header so far, table, whether something
    was skipped, and how many elements of the current section were skipped. -/
structure PState where
  body : Bytes
  tbl : Option Table
  deriving Repr

/-- One section loop: `limit = none` ⇔ `size ≤ 0` (no limit). Returns new state and the number of
    elements skipped (`continue`). -/
def packQuestionsLoop (limit : Option Nat) : List Question → PState → Res (PState × Nat)
  | [], s => .ok (s, 0)
  | q :: qs, s =>
    let off := 12 + s.body.length
    match limit with
    | some size =>
      if off + questionLen q > size then do
        let (s', k) ← packQuestionsLoop limit qs s
        .ok (s', k + 1)
      else do
        let (bs, tbl) ← packQuestion off s.tbl q
        packQuestionsLoop limit qs ⟨s.body ++ bs, tbl⟩
    | none => do
      let (bs, tbl) ← packQuestion off s.tbl q
      packQuestionsLoop limit qs ⟨s.body ++ bs, tbl⟩

def packResourcesLoop (limit : Option Nat) : List Resource → PState → Res (PState × Nat)
  | [], s => .ok (s, 0)
  | r :: rs, s =>
    let off := 12 + s.body.length
    match limit with
    | some size =>
      if off + resourcePackLen r > size then do
        let (s', k) ← packResourcesLoop limit rs s
        .ok (s', k + 1)
      else do
        let (bs, tbl) ← packResource off s.tbl r
        packResourcesLoop limit rs ⟨s.body ++ bs, tbl⟩
    | none => do
      let (bs, tbl) ← packResource off s.tbl r
      packResourcesLoop limit rs ⟨s.body ++ bs, tbl⟩

def minSize : Nat := Facts.pack_minSize   -- 512

/-- `if edns0Opt != nil { m.Additionals = append(…, edns0Opt); edns0Opt.pack(b, off, …) }` -/
def packOpt (opt : Option Resource) (s : PState) : Res PState :=
  match opt with
  | some o => do
    let (bs, tbl) ← packResource (12 + s.body.length) s.tbl o
    .ok ⟨s.body ++ bs, tbl⟩
  | none => .ok s

/-- `Msg.Pack(b, compression, size)` with `cap = len(b)`. Returns the packed message
    (`b[:n]`). -/
def packMsg (m : Msg) (compression : Bool) (size : Nat) (cap : Nat) : Res Bytes :=
  if m.questions.length > 65535 ∨ m.answers.length > 65535 ∨ m.authorities.length > 65535
      ∨ m.additionals.length > 65535 then .err
  else
    let size := if size > 0 ∧ size < minSize then minSize else size
    if cap < 12 then .err
    else
      let (opt, additionals) := if size > 0 then popEDNS0 m.additionals else (none, m.additionals)
      -- `size -= edns0Opt.packLen()`; a result ≤ 0 disables the limit (`size > 0` tests)
      let limit : Option Nat :=
        if size > 0 then
          match opt with
          | some o => if size > resourcePackLen o then some (size - resourcePackLen o) else none
          | none => some size
        else none
      let s0 : PState := ⟨[], if compression then some [] else none⟩
      do
        let (s1, kq) ← packQuestionsLoop limit m.questions s0
        let (s2, ka) ← packResourcesLoop limit m.answers s1
        let (s3, kn) ← packResourcesLoop limit m.authorities s2
        let (s4, kx) ← packResourcesLoop limit additionals s3
        -- the popped OPT is appended again and packed last
        let s5 ← packOpt opt s4
        let truncated := kq + ka + kn + kx > 0
        let bits := if truncated then Nat.lor (bitsOfHeader m.hdr) headerBitTC else bitsOfHeader m.hdr
        let out := enc16 m.hdr.id ++ enc16 bits
          ++ enc16 (m.questions.length - kq) ++ enc16 (m.answers.length - ka)
          ++ enc16 (m.authorities.length - kn) ++ enc16 (m.additionals.length - kx)
          ++ s5.body
        if out.length > cap then .err else .ok out

/-! ### the buffer view of the packers

  `Name.pack`, `Question.pack`, `Resource.pack` write at `off` into the pre-sized buffer `msg` and return the new
  offset (the compression map is updated in place): `writeRes msg off (pack… off tbl x)` is that view of the model's
  packers — the octets the model produces, written with `writeAt`.  The translated Go packers are EQUAL to these
  (`Lemmas/TranslatedEnc*.lean`). -/
def writeRes (msg : Bytes) (off : Nat) (r : Res (Bytes × Option Table)) : Res (Bytes × Option Table × Nat) :=
  match r with
  | .ok (bs, tbl) =>
    match writeAt msg off bs with
    | .ok (m, o) => .ok (m, tbl, o)
    | .err => .err
    | .panic => .panic
  | .err => .err
  | .panic => .panic

def packNameBuf (msg : Bytes) (off : Nat) (tbl : Option Table) (n : Name) : Res (Bytes × Option Table × Nat) :=
  writeRes msg off (packName off tbl n)

def packQuestionBuf (msg : Bytes) (off : Nat) (tbl : Option Table) (q : Question) : Res (Bytes × Option Table × Nat) :=
  writeRes msg off (packQuestion off tbl q)

def packResourceBuf (msg : Bytes) (off : Nat) (tbl : Option Table) (r : Resource) : Res (Bytes × Option Table × Nat) :=
  writeRes msg off (packResource off tbl r)

/-! ### well-formedness: exactly the messages the decoder can produce -/

def nameWF (n : Name) : Bool := (scanName n).isSome

def isTypedRR (t : Nat) : Bool :=
  t == typeA || t == typeAAAA || t == typeMX || t == typeCNAME || t == typeNS || t == typePTR
    || t == typeSOA || t == typeSRV

def u16 (v : Nat) : Bool := v < 65536
def u32 (v : Nat) : Bool := v < 4294967296

/-- RDATA has the shape `unpackResource` builds for this type. -/
def rdataWF (t : Nat) : RData → Bool
  | .a b => t == typeA && b.length == 4
  | .aaaa b => t == typeAAAA && b.length == 16
  | .name n => (t == typeCNAME || t == typeNS || t == typePTR) && nameWF n
  | .mx p n => t == typeMX && u16 p && nameWF n
  | .soa ns mb a b c d e => t == typeSOA && nameWF ns && nameWF mb && u32 a && u32 b && u32 c && u32 d && u32 e
  | .srv p w port tg => t == typeSRV && u16 p && u16 w && u16 port && nameWF tg
  | .raw d => !isTypedRR t && d.length ≤ 65535

def resourceWF (r : Resource) : Bool :=
  nameWF r.name && u16 r.rtype && u16 r.rclass && u32 r.ttl && rdataWF r.rtype r.rdata

def questionWF (q : Question) : Bool := nameWF q.name && u16 q.qtype && u16 q.qclass

def headerWF (h : Header) : Bool := u16 h.id && h.opcode < 16 && h.rcode < 16

def msgWF (m : Msg) : Bool :=
  headerWF m.hdr && m.questions.all questionWF && m.answers.all resourceWF
    && m.authorities.all resourceWF && m.additionals.all resourceWF
    && m.questions.length ≤ 65535 && m.answers.length ≤ 65535
    && m.authorities.length ≤ 65535 && m.additionals.length ≤ 65535

end MosVerif.Wire
