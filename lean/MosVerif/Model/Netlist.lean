/-
  C07 — model of `internal/netlist` (ip.go, netlist.go) and of the range-file
  loader / `ipMarker.Mark` (app/router/cache.go).

  * `Ipv6{h,l uint64}` with the lexicographic `cmp`, `addr2Ipv6` (= `netip.Addr.As16`,
    an IPv4 address becomes its v4-mapped form `::ffff:a.b.c.d`),
  * `ListBuilder.Add` (validity + `start ≤ end`), `Build` (sort by start, adjacent overlap test),
  * `List.Lookup`: `sort.Search` (the binary search loop of the standard library, modelled
    statement by statement) for the first range whose start is `> ip`, then `contains` on its
    predecessor; indexing outside the slice is an explicit panic (`none`),
  * `loadIpMarkerFromReader`: lines, `#` comments, `TrimSpace`, `start,end,label`, label index
    assignment; `netip.ParseAddr` is a parameter of the loader (the driver instantiates it
    with a transcription of the standard library's parser),
  * `ipMarker.Mark`.
-/
import MosVerif.Util
-- @component ipmark MosVerif.Netlist.run
namespace MosVerif.Netlist

abbrev Bytes := List UInt8

/-! ### ip.go -/

structure Ipv6 where
  h : UInt64
  l : UInt64
  deriving DecidableEq, Repr

/-- `func (ip Ipv6) cmp(ip2 Ipv6) int` -/
def Ipv6.cmp (ip ip2 : Ipv6) : Int :=
  if ip.h < ip2.h then -1
  else if ip.h > ip2.h then 1
  else if ip.l < ip2.l then -1
  else if ip.l > ip2.l then 1
  else 0

/-- the 128-bit number an address stands for (used by specifications only).
    (The literal is the *left* factor on purpose: `Nat.mul` recurses on its right argument, so the
    kernel never tries to unfold 2^64 successors when it meets this term with a variable `a`.) -/
def Ipv6.val (a : Ipv6) : Nat := 2 ^ 64 * a.h.toNat + a.l.toNat

/-- `netip.Addr`: the zero value (invalid), an IPv4 address, or an IPv6 address (zone irrelevant here). -/
inductive Addr where
  | invalid
  | v4 (a : UInt32)
  | v6 (h l : UInt64)
  deriving DecidableEq, Repr

def Addr.isValid : Addr → Bool
  | .invalid => false
  | _ => true

/-- `addr2Ipv6`: `b := addr.As16()`, big-endian halves. `As16` of an IPv4 address is `::ffff:a.b.c.d`. -/
def addr2Ipv6 : Addr → Ipv6
  | .invalid => ⟨0, 0⟩
  | .v4 a => ⟨0, 0xffff00000000 ||| a.toUInt64⟩
  | .v6 h l => ⟨h, l⟩

/-! ### netlist.go -/

structure Range (V : Type) where
  v : V
  start : Ipv6
  stop : Ipv6      -- `end` in the Go source
  deriving Repr

/-- `ipRange.contains` -/
def Range.contains {V} (r : Range V) (ip : Ipv6) : Option V :=
  if r.start.cmp ip ≤ 0 ∧ ip.cmp r.stop ≤ 0 then some r.v else none

/-- `ListBuilder.Add`: `none` stands for `ok = false`. -/
def builderAdd {V} (b : List (Range V)) (start stop : Addr) (v : V) : Option (List (Range V)) :=
  if !start.isValid || !stop.isValid then none
  else
    let r : Range V := { start := addr2Ipv6 start, stop := addr2Ipv6 stop, v := v }
    if r.start.cmp r.stop > 0 then none
    else some (b ++ [r])

/-- the `less` function given to `sort.Slice`, as the total preorder `mergeSort` wants -/
def startLe {V} (a b : Range V) : Bool := decide (a.start.cmp b.start ≤ 0)

/-- `for i := 0; i < len(rs)-1; i++ { if rs[i].end.cmp(rs[i+1].start) >= 0 { return error } }` -/
def overlapAdj {V} : List (Range V) → Bool
  | a :: b :: rest => decide (a.stop.cmp b.start ≥ 0) || overlapAdj (b :: rest)
  | _ => false

/-- `ListBuilder.Build`. `sort.Slice` is not stable; the model sorts with `mergeSort`. Ranges with
    equal starts always fail the overlap test (`Props/C07.build_any_sort`), so the choice of the
    sorting algorithm cannot be observed. `none` = error. -/
def build {V} (b : List (Range V)) : Option (List (Range V)) :=
  let rs := b.mergeSort startLe
  if overlapAdj rs then none else some rs

/-- `sort.Search(n, f)`:
      i, j := 0, n
      for i < j { h := int(uint(i+j) >> 1); if !f(h) { i = h + 1 } else { j = h } }
      return i
    `f h = none` models a panic inside the predicate (index out of range). -/
def searchLoop (f : Nat → Option Bool) (i j : Nat) : Option Nat :=
  if i < j then
    let h := (i + j) / 2
    match f h with
    | none => none
    | some false => searchLoop f (h + 1) j
    | some true => searchLoop f i h
  else some i
termination_by j - i
decreasing_by all_goals omega

/-- `List.Lookup`: `if i == 0 { return }` -/
abbrev lookupNone (i : Nat) : Prop := i = 0

/-- `List.Lookup`. Outer `none` = panic, inner `none` = not found. -/
def lookup {V} (l : List (Range V)) (ip : Ipv6) : Option (Option V) :=
  match searchLoop (fun i => (l[i]?).map fun r => decide (ip.cmp r.start < 0)) 0 l.length with
  | none => none
  | some i =>
    if lookupNone i then some none
    else match l[i - 1]? with
      | none => none
      | some r => some (r.contains ip)

/-- `List.LookupAddr` -/
def lookupAddr {V} (l : List (Range V)) (a : Addr) : Option (Option V) :=
  if !a.isValid then some none else lookup l (addr2Ipv6 a)

/-! ### the range file loader -/

structure Marker where
  l : List (Range Nat)
  s : List Bytes
  deriving Repr

/-- `ipMarker.Mark`; outer `none` = panic (`m.s[idx]` out of range). -/
def Marker.mark (m : Marker) (a : Addr) : Option Bytes :=
  if !a.isValid then some []
  else match lookupAddr m.l a with
    | none => none
    | some none => some []
    | some (some idx) => m.s[idx]?

/-- `cacheCtl.ipMark`: no marker configured or an invalid address ⇒ the empty group -/
def ipMark (m : Option Marker) (a : Addr) : Option Bytes :=
  match m with
  | none => some []
  | some m => if !a.isValid then some [] else m.mark a

def isSpace (c : UInt8) : Bool := c == 32 || (9 ≤ c && c ≤ 13)

/-- `strings.TrimSpace` restricted to ASCII white space (the generators emit ASCII only) -/
def trimSpace (s : Bytes) : Bytes :=
  ((s.dropWhile isSpace).reverse.dropWhile isSpace).reverse

/-- `strings.Cut(s, sep)` for a one octet separator -/
def cut (s : Bytes) (sep : UInt8) : Bytes × Bytes × Bool :=
  match s.span (· != sep) with
  | (a, _ :: b) => (a, b, true)
  | (a, []) => (a, [], false)

/-- `bufio.ScanLines`: split at `\n`, drop one trailing `\r`, no empty final token. -/
def dropCR (l : Bytes) : Bytes :=
  match l.reverse with
  | 13 :: r => r.reverse
  | _ => l

def splitLinesAux : Bytes → Bytes → List Bytes
  | [], cur => if cur.isEmpty then [] else [dropCR cur.reverse]
  | c :: rest, cur =>
    if c == 10 then dropCR cur.reverse :: splitLinesAux rest []
    else splitLinesAux rest (c :: cur)

def splitLines (file : Bytes) : List Bytes := splitLinesAux file []

inductive LoadErr where
  | parse     -- "invalid line #n": missing comma / unparsable address
  | range     -- "invalid range at line #n": `Add` returned false
  | overlap   -- "failed to build ip list": `Build` failed
  deriving DecidableEq, Repr

/-- a data line after comment stripping and trimming: `start,end,label` -/
def parseLine (pa : Bytes → Option Addr) (s : Bytes) : Option (Addr × Addr × Bytes) :=
  match cut s 44 with
  | (_, _, false) => none
  | (t, s, true) =>
    match pa t with
    | none => none
    | some start =>
      match cut s 44 with
      | (_, _, false) => none
      | (t, s, true) =>
        match pa t with
        | none => none
        | some stop => some (start, stop, s)

/-- `assignIdx` (the Go code keeps a map beside the slice; the index of a label is its position) -/
def findIdx : List Bytes → Bytes → Option Nat
  | [], _ => none
  | x :: rest, s => if x = s then some 0 else (findIdx rest s).map (· + 1)

def assignIdx (labels : List Bytes) (s : Bytes) : Nat × List Bytes :=
  match findIdx labels s with
  | some i => (i, labels)
  | none => (labels.length, labels ++ [s])

/-- the scanner loop of `loadIpMarkerFromReader` -/
def loadLines (pa : Bytes → Option Addr) :
    List Bytes → List (Range Nat) → List Bytes → Except LoadErr (List (Range Nat) × List Bytes)
  | [], b, labels => .ok (b, labels)
  | t :: rest, b, labels =>
    let t := (cut t 35).1
    let t := trimSpace t
    if t.isEmpty then loadLines pa rest b labels
    else match parseLine pa t with
      | none => .error .parse
      | some (start, stop, markStr) =>
        let (idx, labels) := assignIdx labels markStr
        match builderAdd b start stop idx with
        | none => .error .range
        | some b => loadLines pa rest b labels

def loadMarker (pa : Bytes → Option Addr) (file : Bytes) : Except LoadErr Marker :=
  match loadLines pa (splitLines file) [] [] with
  | .error e => .error e
  | .ok (b, labels) =>
    match build b with
    | none => .error .overlap
    | some l => .ok ⟨l, labels⟩

/-! ### `netip.ParseAddr` (Go 1.23), transcribed for the driver -/

def isDigit (c : UInt8) : Bool := 48 ≤ c && c ≤ 57
def isHex (c : UInt8) : Bool := isDigit c || (97 ≤ c && c ≤ 102) || (65 ≤ c && c ≤ 70)
def hexVal8 (c : UInt8) : Nat :=
  if isDigit c then c.toNat - 48 else if 97 ≤ c then c.toNat - 87 else c.toNat - 55

structure V4St where
  val : Nat := 0
  pos : Nat := 0
  digLen : Nat := 0
  fields : List UInt8 := []

/-- `parseIPv4Fields` over `s`; `i` is the index of the head of `s` in the original, `prevDot` whether `s[i-1] == '.'` -/
def parseV4Loop : Bytes → Nat → Bool → V4St → Option V4St
  | [], _, _, st => some st
  | c :: rest, i, prevDot, st =>
    if isDigit c then
      if st.digLen == 1 && st.val == 0 then none
      else
        let val := st.val * 10 + (c.toNat - 48)
        if val > 255 then none
        else parseV4Loop rest (i + 1) false { st with val := val, digLen := st.digLen + 1 }
    else if c == 46 then
      if i == 0 || rest.isEmpty || prevDot then none
      else if st.pos == 3 then none
      else parseV4Loop rest (i + 1) true
        { val := 0, digLen := 0, pos := st.pos + 1, fields := st.fields ++ [UInt8.ofNat st.val] }
    else none

def parseIPv4Fields (s : Bytes) : Option (List UInt8) :=
  match parseV4Loop s 0 false {} with
  | none => none
  | some st => if st.pos < 3 then none else some (st.fields ++ [UInt8.ofNat st.val])

def be (bs : List UInt8) : Nat := bs.foldl (fun a b => a * 256 + b.toNat) 0

def parseIPv4 (s : Bytes) : Option Addr :=
  (parseIPv4Fields s).map fun f => .v4 (UInt32.ofNat (be f))

structure V6St where
  s : Bytes
  i : Nat := 0
  ip : List UInt8 := []        -- the octets written so far (`ip[0:i]`)
  ellipsis : Option Nat := none

/-- the `for i < 16` loop of `parseIPv6`; the result is the state at loop exit, `none` an error -/
def parseV6Loop : Nat → V6St → Option V6St
  | 0, st => some st
  | fuel + 1, st =>
    if st.i < 16 then
      let ds := st.s.takeWhile isHex
      if ds.length > 4 then none
      else if ds.length == 0 then none
      else
        let acc := ds.foldl (fun a c => a * 16 + hexVal8 c) 0
        let rest := st.s.drop ds.length
        if rest.head? == some 46 then
          if st.ellipsis.isNone && st.i != 12 then none
          else if st.i + 4 > 16 then none
          else match parseIPv4Fields st.s with
            | none => none
            | some f => some { st with s := [], i := st.i + 4, ip := st.ip ++ f }
        else
          let st := { st with ip := st.ip ++ [UInt8.ofNat (acc / 256), UInt8.ofNat (acc % 256)], i := st.i + 2, s := rest }
          match st.s with
          | [] => some st
          | c :: s1 =>
            if c != 58 then none
            else match s1 with
              | [] => none
              | c1 :: s2 =>
                if c1 == 58 then
                  if st.ellipsis.isSome then none
                  else
                    let st := { st with ellipsis := some st.i, s := s2 }
                    if s2.isEmpty then some st else parseV6Loop fuel st
                else parseV6Loop fuel { st with s := s1 }
    else some st

def parseIPv6 (inp : Bytes) : Option Addr :=
  let (s, zone, hasZone) := cut inp 37
  if hasZone && zone.isEmpty then none
  else
    let mk (ip : List UInt8) : Addr :=
      .v6 (UInt64.ofNat (be (ip.take 8))) (UInt64.ofNat (be (ip.drop 8)))
    let (s, ell, only) :=
      match s with
      | 58 :: 58 :: r => (r, some 0, r.isEmpty)
      | _ => (s, none, false)
    if only then some (mk (List.replicate 16 0))
    else match parseV6Loop 9 { s := s, ellipsis := ell } with
      | none => none
      | some st =>
        if !st.s.isEmpty then none
        else if st.i < 16 then
          match st.ellipsis with
          | none => none
          | some e => some (mk (st.ip.take e ++ List.replicate (16 - st.i) 0 ++ st.ip.drop e))
        else if st.ellipsis.isSome then none
        else some (mk st.ip)

def parseAddrGo (s : Bytes) : Option Addr :=
  match s.find? (fun c => c == 46 || c == 58 || c == 37) with
  | some 46 => parseIPv4 s
  | some 58 => parseIPv6 s
  | _ => none

/-! ### specification of the group label (written from the property text)

  "the label of the configured address range containing the client, or none": a linear scan over
  the *file's* ranges compared as 128-bit numbers; a file is acceptable only when every line parses,
  every range has `start ≤ end` and no two ranges intersect. -/

structure SRange where
  lo : Nat
  hi : Nat
  label : Bytes
  deriving Repr

/-- data lines of the file → ranges, `none` if a line does not parse -/
def specRanges (pa : Bytes → Option Addr) : List Bytes → Option (List SRange)
  | [] => some []
  | t :: rest =>
    let t := trimSpace (cut t 35).1
    if t.isEmpty then specRanges pa rest
    else match parseLine pa t, specRanges pa rest with
      | some (a, b, lab), some rs =>
        if a.isValid && b.isValid then some (⟨(addr2Ipv6 a).val, (addr2Ipv6 b).val, lab⟩ :: rs) else none
      | _, _ => none

def SRange.intersects (r s : SRange) : Bool := decide (r.lo ≤ s.hi ∧ s.lo ≤ r.hi)

def noIntersect : List SRange → Bool
  | [] => true
  | r :: rest => rest.all (fun s => !r.intersects s) && noIntersect rest

def fileOK (rs : List SRange) : Bool :=
  rs.all (fun r => decide (r.lo ≤ r.hi)) && noIntersect rs

def specLabel (rs : List SRange) (a : Addr) : Bytes :=
  if !a.isValid then []
  else match rs.find? (fun r => decide (r.lo ≤ (addr2Ipv6 a).val ∧ (addr2Ipv6 a).val ≤ r.hi)) with
    | some r => r.label
    | none => []

inductive Out where
  | err (e : LoadErr)
  | marks (ms : List Bytes)
  | panic
  deriving DecidableEq, Repr

def spec (pa : Bytes → Option Addr) (file : Bytes) (addrs : List Addr) (o : Out) : Bool :=
  match specRanges pa (splitLines file), o with
  | _, .panic => false
  | none, .err _ => true
  | none, .marks _ => false
  | some rs, .err _ => !fileOK rs
  | some rs, .marks ms => fileOK rs && ms == addrs.map (specLabel rs)

/-- `Mark` on each address in turn; `none` as soon as one call panics -/
def marksOf (m : Marker) : List Addr → Option (List Bytes)
  | [] => some []
  | a :: rest =>
    match m.mark a, marksOf m rest with
    | some x, some xs => some (x :: xs)
    | _, _ => none

def model (pa : Bytes → Option Addr) (file : Bytes) (addrs : List Addr) : Out :=
  match loadMarker pa file with
  | .error e => .err e
  | .ok m =>
    match marksOf m addrs with
    | none => .panic
    | some ms => .marks ms

/-! ### line protocol
  case: `f=<hex of the range file> a=<addr>;<addr>;…`   (an address is text, or `invalid` for the zero Addr)
  out : `err=parse|range|overlap` or `m=<hex>,<hex>,…` -/

def strOfErr : LoadErr → String
  | .parse => "parse" | .range => "range" | .overlap => "overlap"

def strOfOut : Out → String
  | .err e => "err=" ++ strOfErr e
  | .marks ms => "m=" ++ ",".intercalate (ms.map hexOfBytes)
  | .panic => "panic"

def outOfStr (s : String) : Option Out :=
  match s.splitOn "=" with
  | ["err", "parse"] => some (.err .parse)
  | ["err", "range"] => some (.err .range)
  | ["err", "overlap"] => some (.err .overlap)
  | ["m", ms] => ((ms.splitOn ",").mapM bytesOfHex).map .marks
  | _ => if s == "panic" then some .panic else none

def addrOfStr (s : String) : Option Addr :=
  if s == "invalid" then some .invalid else parseAddrGo s.toUTF8.toList

def run (case impl : String) : String × String :=
  let t := words case
  match (kvGet t "f").bind bytesOfHex, (kvGet t "a").bind (fun a => (a.splitOn ";").mapM addrOfStr) with
  | some file, some addrs =>
    let m := strOfOut (model parseAddrGo file addrs)
    let v := match outOfStr impl with
      | some o => if spec parseAddrGo file addrs o then "ok" else "viol"
      | none => "unparsed"
    (m, v)
  | _, _ => ("bad-case", "na")

end MosVerif.Netlist
