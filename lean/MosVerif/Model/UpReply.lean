/-
  C01, upstream side — what the REAL upstream transports do with the octets a server sends as a reply.

  Mirrors (as of 941027f)
    internal/dnsutils/net_io.go          ReadMsgFromTCP, ReadMsgFromUDP
    internal/upstream/transport/
      pipeline_conn.go                   readLoop (read · decode · non-blocking hand-over to the waiter), exchange
      reuse_transport.go                 exchangeConn (one frame, id of the connection's query counter)
      quic_transport.go                  exchangeStream (one frame from the query's stream)
      doh_transport.go                   exchange (status, body limited to 65535 octets, decode)
    internal/upstream/upstream.go        udpWithFallback (TC=1 → the same query over TCP)

  Component `upreply` (harness/cmd/mvharness/c01_upreply.go): a scripted server answers the first query of a
  fresh upstream with arbitrary octets and behaves correctly afterwards.
    case : tr=<scheme> sc=<tok,…> …            impl : next=<ok|fail> first=<resp|err|nil|hang> mem=<ok|big> lost=<k> an=<n|-> ## …
  The model predicts `first` from the script by running its own decoder (`Wire.unpackMsg`) on the octets the
  transport would hand to the decoder; where the outcome depends on a race inside the real code (a reply
  delivered to the waiter and the connection closed right after it; a reset that may overtake data) it is
  `any` (the implementation's value is echoed) and only the specification judges it.
  Core Lean only.
-/
import MosVerif.Model.Wire
-- @component upreply MosVerif.UpReply.run
-- @component uprecords MosVerif.UpReply.runRecords
namespace MosVerif.UpReply
open MosVerif MosVerif.Wire

/-! ### limits regenerated from the source -/

/-- `io.LimitReader(resp.Body, 65535)` in `DoHTransport.exchange` -/
def dohLimit : Nat := Facts.c01up_dohLimit
/-- the floor of `ReadMsgFromUDP`: `if bufSize < 2048 { bufSize = 2048 }`.
    Tied by translation (`Lemmas/TranslatedC01Up.udpFloor_translated`). -/
@[reducible] def udpFloor (bufSize : Nat) : Nat := if bufSize < 2048 then 2048 else bufSize
/-- `ReadMsgFromUDP(c.c, 65535)` in `readLoop` (the argument is regenerated), through the floor of `ReadMsgFromUDP` -/
def udpBuf : Nat := udpFloor Facts.c01up_udpBufSize

/-- `pool.GetBuf(int(length))`: the number of octets `ReadMsgFromTCP` reads after the two length octets.
    Tied by translation (`tcpBodyLen_translated`). -/
@[reducible] def tcpBodyLen (length : Nat) : Nat := length
/-- `n >= 12 && b[2]&(1<<1) != 0` of `ReadMsgFromUDP` (the conjunct `err != nil` is the `.err` branch in which
    `headerOnly` is consulted). Tied by translation (`tcCut_translated`). -/
@[reducible] def tcCut (n b2 : Nat) : Prop := n ≥ 12 ∧ (b2 / 2) % 2 = 1
/-- `n > 0` of `readLoop`: a datagram that yields no message but had octets is skipped. (`udpSkips_translated`) -/
@[reducible] def udpSkips (n : Nat) : Prop := n > 0
/-- `r.Header.ID != qid` of `exchangeConn` is the negation of this. (`idMatches_translated`) -/
@[reducible] def idMatches (id qid : Nat) : Prop := id = qid

/-! ### framing -/

/-- Outcome of `dnsutils.ReadMsgFromTCP` on the octets `s` that will ever arrive on the stream. -/
inductive Read where
  | msg (m : Msg) (rest : Bytes)   -- a complete frame that decodes; `rest` stays unread
  | bad (rest : Bytes)             -- a complete frame that does not decode: the error is returned
  | short                          -- fewer octets than needed: `io.ReadFull` fails (EOF, reset, deadline)
  | panic
  deriving Repr, DecidableEq

/-- `ReadMsgFromTCP`: two length octets, `pool.GetBuf(int(length))`, `io.ReadFull`, `dnsmsg.UnpackMsg`. -/
def readMsgFromTCP (s : Bytes) : Read :=
  match s with
  | h :: l :: rest =>
    if rest.length < tcpBodyLen (be16 h l) then .short
    else match unpackMsg (rest.take (tcpBodyLen (be16 h l))) with
      | .ok m => .msg m (rest.drop (tcpBodyLen (be16 h l)))
      | .err => .bad (rest.drop (tcpBodyLen (be16 h l)))
      | .panic => .panic
  | _ => .short

/-- The frames of a stream as the protocol defines them (RFC 1035 4.2.2): the complete ones in order, and
    whether octets that are no complete frame are left at the end. -/
def framesAux : Nat → Bytes → List Bytes × Bool
  | 0, s => ([], !s.isEmpty)
  | _ + 1, [] => ([], false)
  | _ + 1, [_] => ([], true)
  | fuel + 1, h :: l :: rest =>
    if rest.length < be16 h l then ([], true)
    else (rest.take (be16 h l) :: (framesAux fuel (rest.drop (be16 h l))).1, (framesAux fuel (rest.drop (be16 h l))).2)

def frames (s : Bytes) : List Bytes × Bool := framesAux s.length s

/-! ### the pipelined connection's read loop (pipeline_conn.go `readLoop`) -/

/-- a response channel `make(chan *dnsmsg.Msg, cap)` -/
structure Chan where
  buf : List Msg
  cap : Nat
  deriving Repr, DecidableEq

/-- `pipelineConn.queue`: wire id ↦ channel of the exchange that owns the id -/
abbrev Queue := List (Nat × Chan)

def qget (q : Queue) (id : Nat) : Option Chan := (q.find? (fun e => e.1 == id)).map (·.2)
def qdel (q : Queue) (id : Nat) : Queue := q.filter (fun e => e.1 != id)
def qset (q : Queue) (id : Nat) (c : Chan) : Queue := (id, c) :: qdel q id

inductive Sent where
  | sent | dropped | blocked
  deriving Repr, DecidableEq

/-- The hand-over of a decoded reply:
    ```
    resChan := c.getQueueC(r.Header.ID)
    if resChan != nil { select { case resChan <- r: default: dnsmsg.ReleaseMsg(r) } } else { dnsmsg.ReleaseMsg(r) }
    ```
    `blocking = true` is the variant `resChan <- r` without `default:`: on a full channel the loop never
    continues. The code is `blocking = false` (pinned, `Props/C01Up.pins`). -/
def deliver (blocking : Bool) (q : Queue) (m : Msg) : Queue × Sent :=
  match qget q m.hdr.id with
  | none => (q, .dropped)
  | some ch =>
    if ch.buf.length < ch.cap then (qset q m.hdr.id { ch with buf := ch.buf ++ [m] }, .sent)
    else if blocking then (q, .blocked)
    else (q, .dropped)

/-- What happens on a pipelined connection, in the order in which it happens. -/
inductive Ev where
  | unit (b : Bytes)     -- the read loop reads the next frame (TCP) / datagram (UDP)
  | join (id : Nat)      -- `addQueueC`: an exchange registers a fresh channel (buffer 1) under a wire id
  | take (id : Nat)      -- the owner of the id receives from its channel
  | leave (id : Nat)     -- `deleteQueueC`: the owner leaves (deadline, connection error, or after its reply)
  deriving Repr, DecidableEq

inductive UnitRes where
  | msg (m : Msg) | skip | close | panic
  deriving Repr, DecidableEq

def emptyHeader : Header := headerOfBits 0 0

/-- The header-only message `ReadMsgFromUDP` makes of a datagram that does not decode but has at least the
    12 header octets and TC set (`n >= 12 && b[2]&(1<<1) != 0`): id, QR and TC=1, no records (82eb250). -/
def headerOnly (d : Bytes) : Option Msg :=
  match d with
  | a :: b :: f :: _ =>
    if tcCut d.length f.toNat then
      some ⟨{ emptyHeader with id := be16 a b, response := (f.toNat / 128) % 2 = 1, truncated := true }, [], [], [], []⟩
    else none
  | _ => none

/-- Outcome of `dnsutils.ReadMsgFromUDP` on one datagram `b` (cut to the read buffer by the socket read). -/
inductive UdpRead where
  | msg (m : Msg)      -- decoded, or the header-only stand-in of an undecodable TC reply
  | bad (n : Nat)      -- error, `n` octets were read
  | panic
  deriving Repr, DecidableEq

def readMsgFromUDPn (buf : Nat) (b : Bytes) : UdpRead :=
  match unpackMsg (b.take buf) with
  | .ok m => .msg m
  | .err =>
    (match headerOnly (b.take buf) with
     | some m => .msg m
     | none => .bad (b.take buf).length)
  | .panic => .panic

/-- with the read buffer of the code -/
def readMsgFromUDP (b : Bytes) : UdpRead := readMsgFromUDPn udpBuf b

/-- no UDP datagram is larger (the specification reads a datagram whole) -/
def maxDatagram : Nat := 65535

/-- One read of the loop. TCP: a frame that does not decode closes the connection. UDP: a datagram that
    yields no message is skipped if it had octets (`n > 0 → continue`), an empty one falls through to
    `closeWithErr`. -/
def unitStep (isTCP : Bool) (b : Bytes) : UnitRes :=
  if isTCP then
    match unpackMsg b with
    | .ok m => .msg m
    | .err => .close
    | .panic => .panic
  else
    match readMsgFromUDP b with
    | .msg m => .msg m
    | .bad n => if udpSkips n then .skip else .close
    | .panic => .panic

inductive End where
  | idle (n : Nat)       -- every event has happened, n units were read, the loop is back in `Read`
  | closed (n : Nat)     -- unit number n (from 0) made the loop close the connection and return
  | blocked (n : Nat)    -- the loop is stuck handing over the message of unit number n
  | panic
  deriving Repr, DecidableEq

def runLoop (blocking isTCP : Bool) : Queue → Nat → List Ev → Queue × End
  | q, n, [] => (q, .idle n)
  | q, n, .join id :: es => runLoop blocking isTCP (qset q id ⟨[], 1⟩) n es
  | q, n, .take id :: es =>
    runLoop blocking isTCP (match qget q id with
      | some ch => qset q id { ch with buf := ch.buf.drop 1 }
      | none => q) n es
  | q, n, .leave id :: es => runLoop blocking isTCP (qdel q id) n es
  | q, n, .unit b :: es =>
    match unitStep isTCP b with
    | .panic => (q, .panic)
    | .close => (q, .closed n)
    | .skip => runLoop blocking isTCP q (n + 1) es
    | .msg m =>
      match deliver blocking q m with
      | (q', .blocked) => (q', .blocked n)
      | (q', _) => runLoop blocking isTCP q' (n + 1) es

def unitsOf : List Ev → Nat
  | [] => 0
  | .unit _ :: es => unitsOf es + 1
  | _ :: es => unitsOf es

/-! ### the script -/

inductive Tok where
  | write (b : Bytes) | dgram (b : Bytes) | pause
  | close | reset | stall | kill
  | status (n : Nat) | clen (s : String) | chunked | ctype | body (b : Bytes) | raw (b : Bytes)
  | bad
  deriving Repr, DecidableEq

def hexTok (f : Bytes → Tok) (r : List Char) : Tok :=
  match bytesOfHex (String.ofList r) with
  | some b => f b
  | none => .bad

def natTok (f : Nat → Tok) (r : List Char) : Tok :=
  match (String.ofList r).toNat? with
  | some n => f n
  | none => .bad

def parseTok (t : String) : Tok :=
  match t.toList with
  | ['c'] => .close
  | ['r'] => .reset
  | ['z'] => .stall
  | ['k'] => .kill
  | ['t', 'e'] => .chunked
  | 's' :: 't' :: r => natTok .status r
  | 'c' :: 'l' :: r => .clen (String.ofList r)
  | 'c' :: 't' :: _ => .ctype
  | 'w' :: r => hexTok .write r
  | 'd' :: r => hexTok .dgram r
  | 'b' :: r => hexTok .body r
  | 'g' :: r => hexTok .raw r
  | 'x' :: r => natTok (fun n => .body (List.replicate n 0)) r
  -- y<n>: n MiB of zero octets; all that matters is that it is more than any limit
  | 'y' :: r => natTok (fun _ => .body (List.replicate 70000 0)) r
  | 'p' :: r => natTok (fun _ => .pause) r
  | _ => .bad

inductive Term where
  | none | close | reset | stall | kill
  deriving Repr, DecidableEq

/-- The first terminal token ends the script (the generator puts it last). -/
def termOf : List Tok → Term
  | [] => .none
  | .close :: _ => .close
  | .reset :: _ => .reset
  | .stall :: _ => .stall
  | .kill :: _ => .kill
  | _ :: ts => termOf ts

/-- the octets written on the connection before the terminal token -/
def streamOf : List Tok → Bytes
  | [] => []
  | .write b :: ts => b ++ streamOf ts
  | .close :: _ => []
  | .reset :: _ => []
  | .stall :: _ => []
  | .kill :: _ => []
  | _ :: ts => streamOf ts

def dgramsOf : List Tok → List Bytes
  | [] => []
  | .dgram b :: ts => b :: dgramsOf ts
  | _ :: ts => dgramsOf ts

/-- The prediction for the first exchange. -/
inductive First where
  | resp | err | any | panic
  deriving Repr, DecidableEq

def First.str : First → String
  | .resp => "resp" | .err => "err" | .any => "any" | .panic => "panic"

def delivered (q : Queue) (id : Nat) : Option Msg :=
  match qget q id with
  | some ch => ch.buf.head?
  | none => none

def isClosed : End → Bool
  | .closed _ => true
  | _ => false

def isStuck : End → Bool
  | .blocked _ => true
  | .panic => true
  | _ => false

/-! ### one-at-a-time connections (tcp, tls, TCP leg of udp): `ReuseConnTransport.exchangeConn` -/

/-- One exchange on a connection whose query counter is `qid` and on which the octets `s` arrive: a frame
    that does not decode, or whose id is not `qid`, is an error (the connection is closed by `releaseConn`). -/
def reuseExchange (qid : Nat) (s : Bytes) : Res (Msg × Bytes) :=
  match readMsgFromTCP s with
  | .msg m rest => if idMatches m.hdr.id qid then .ok (m, rest) else .err
  | .bad _ => .err
  | .short => .err
  | .panic => .panic

def reuseFirst (s : Bytes) (t : Term) : First :=
  match reuseExchange 0 s with
  | .ok _ => if t = .reset then .any else .resp
  | .err => .err
  | .panic => .panic

/-! ### DoQ: one frame from the query's own stream, the id is not looked at (it is overwritten) -/

def quicFirst (s : Bytes) (t : Term) : First :=
  match readMsgFromTCP s with
  | .msg _ _ => if t = .reset ∨ t = .kill then .any else .resp
  | .bad _ => .err
  | .short => .err
  | .panic => .panic

/-! ### pipelined tcp / tls: the first exchange owns wire id 0 -/

def pipeFirst (s : Bytes) (t : Term) : First :=
  if isStuck (runLoop false true [(0, ⟨[], 1⟩)] 0 ((frames s).1.map .unit)).2 then .panic
  else
    match delivered (runLoop false true [(0, ⟨[], 1⟩)] 0 ((frames s).1.map .unit)).1 0 with
    | some _ =>
      if isClosed (runLoop false true [(0, ⟨[], 1⟩)] 0 ((frames s).1.map .unit)).2 ∨ t = .close ∨ t = .reset then .any
      else .resp
    | none => .err

/-- The write-stall scenario: ids 0 (blocked in Write) and 1 (queued behind it) are registered, the frames
    arrive, later the server reads and answers properly. Exchange 0 fails iff a frame closes the connection. -/
def wstallFirst (s : Bytes) : First :=
  if isStuck (runLoop false true [(0, ⟨[], 1⟩), (1, ⟨[], 1⟩)] 0 ((frames s).1.map .unit)).2 then .panic
  else if isClosed (runLoop false true [(0, ⟨[], 1⟩), (1, ⟨[], 1⟩)] 0 ((frames s).1.map .unit)).2 then
    (match delivered (runLoop false true [(0, ⟨[], 1⟩), (1, ⟨[], 1⟩)] 0 ((frames s).1.map .unit)).1 0 with
     | some _ => .any
     | none => .err)
  else if (frames s).2 then .any
  else .resp

/-! ### udp, with the TCP retry of a truncated reply -/

def udpFirst (ds : List Bytes) (tleg : List Tok) : First :=
  if isStuck (runLoop false false [(0, ⟨[], 1⟩)] 0 (ds.map .unit)).2 then .panic
  else
    match delivered (runLoop false false [(0, ⟨[], 1⟩)] 0 (ds.map .unit)).1 0 with
    | none => .err
    | some m =>
      if isClosed (runLoop false false [(0, ⟨[], 1⟩)] 0 (ds.map .unit)).2 then .any
      else if m.hdr.truncated then
        (if tleg.isEmpty then .resp else reuseFirst (streamOf tleg) (termOf tleg))
      else .resp

/-! ### DoH -/

/-- `DoHTransport.exchange` once the HTTP client has produced a response: `status`, the `Content-Length` it
    parsed (`-1` if none), the octets `body` that `resp.Body` yields and whether the body ends with an error.
    `presize = true` is the variant that calls `bb.Grow(int(resp.ContentLength))` first (Go: a buffer of more
    than 2^48 octets cannot be allocated, `Grow` panics); the code is `presize = false` (pinned). -/
def dohExchange (presize : Bool) (status : Nat) (contentLength : Int) (body : Bytes) (bodyErr : Bool) : Res Msg :=
  if status ≠ 200 then .err
  else if presize ∧ contentLength > 0 ∧ contentLength.toNat ≥ 2 ^ 48 then .panic
  else
    -- `bb.ReadFrom(io.LimitReader(resp.Body, 65535))`: at most `dohLimit` octets; a read error behind the limit is not seen
    if bodyErr ∧ body.length < dohLimit then .err
    else unpackMsg (body.take dohLimit)

structure Http where
  st : Nat
  cl : Option String
  te : Bool
  body : Bytes
  raw : Bool
  deriving Repr, DecidableEq

def httpOf : List Tok → Http → Http
  | [], h => h
  | .close :: _, h => h
  | .reset :: _, h => h
  | .stall :: _, h => h
  | .kill :: _, h => h
  | .status n :: ts, h => httpOf ts { h with st := n }
  | .clen s :: ts, h => httpOf ts { h with cl := some s }
  | .chunked :: ts, h => httpOf ts { h with te := true }
  | .body b :: ts, h => httpOf ts { h with body := h.body ++ b }
  | .raw _ :: ts, h => httpOf ts { h with raw := true }
  | _ :: ts, h => httpOf ts h

/-- Go's `strconv.ParseUint(s, 10, 63)`: a non-empty string of digits whose value is below 2^63. -/
def clValue (s : String) : Option Nat :=
  let cs := s.toList
  if cs.isEmpty ∨ !cs.all Char.isDigit then none
  else
    let n := cs.foldl (fun acc c => acc * 10 + (c.toNat - 48)) 0
    if n < 2 ^ 63 then some n else none

inductive View where
  | body (b : Bytes)     -- the body ends regularly after `b`
  | cut (b : Bytes)      -- `b` is delivered, then reading the body fails (EOF before the announced length, stall)
  | httpErr              -- no usable response
  | unknown
  deriving Repr, DecidableEq

/-- What the HTTP client (net/http for http and https/h2, quic-go for h3 — outside mosproxy) makes of the
    response: the body it yields, or an error. Observed behaviour of the pinned library versions:
    HTTP/1.1 rejects a Content-Length that is no number, cuts the body at it and reports a body that ends before it;
    h2 ignores a Content-Length that is no number and reports a body that differs from it in either direction;
    h3 ignores one that is no number or too large (a body longer than it never leaves the test server whole). -/
def clientView (tr : String) (h : Http) (t : Term) : View :=
  if h.te ∧ tr = "http" then (if t = .none then .body h.body else .cut h.body)
  else match h.cl with
    | some s =>
      match clValue s with
      | none => if tr = "http" then .httpErr else if t = .none then .body h.body else .cut h.body
      | some n =>
        if n > h.body.length then (if tr = "h3" ∧ t = .none then .body h.body else .cut h.body)
        else if n < h.body.length then
          (if tr = "https" then (if n < dohLimit then .httpErr else .unknown)
           else if tr = "h3" then .unknown     -- quic-go's server drops the writes that exceed the announced length
           else .body (h.body.take n))
        else if tr ≠ "http" ∧ t ≠ .none then .unknown
        else .body h.body
    | none =>
      if t = .none then .body h.body
      else if tr = "http" ∧ t = .close then .body h.body
      else .cut h.body

/-- h3: the test server (quic-go) resets the stream when the handler is aborted (`c`, `r`) or asks for a status
    code that is none (below 100, above 999). -/
def h3Reset (tr : String) (toks : List Tok) : Bool :=
  tr == "h3" && (termOf toks == .close || termOf toks == .reset ||
    (httpOf toks ⟨200, none, false, [], false⟩).st < 100 || (httpOf toks ⟨200, none, false, [], false⟩).st > 999)

def dohFirst (tr : String) (toks : List Tok) : First :=
  if (httpOf toks ⟨200, none, false, [], false⟩).raw ∨ termOf toks = .reset ∨ h3Reset tr toks = true then .any
  else if (httpOf toks ⟨200, none, false, [], false⟩).st ≠ 200 then .err
  else match clientView tr (httpOf toks ⟨200, none, false, [], false⟩) (termOf toks) with
    | .httpErr => .err
    | .unknown => .any
    | .body b =>
      (match dohExchange false 200 (-1) b false with
       | .ok _ => .resp
       | .err => .err
       | .panic => .panic)
    | .cut b =>
      (match dohExchange false 200 (-1) b true with
       | .ok _ => .resp
       | .err => .err
       | .panic => .panic)

/-! ### the case -/

structure Case where
  tr : String
  toks : List Tok      -- the script without the TCP leg
  tleg : List Tok      -- `T…` tokens (udp only)
  wstall : Bool
  deriving Repr

def splitScript (sc : String) : List String × List String :=
  let ts := if sc == "-" then [] else (sc.splitOn ",").filter (· ≠ "")
  (ts.filter (fun t => !t.startsWith "T"), (ts.filter (fun t => t.startsWith "T")).map (fun t => String.ofList (t.toList.drop 1)))

def parseCase (case : String) : Option Case :=
  let kv := words case
  match kvGet kv "tr", kvGet kv "sc" with
  | some tr, some sc =>
    let (m, t) := splitScript sc
    let toks := m.map parseTok
    let tleg := t.map parseTok
    if toks.contains .bad ∨ tleg.contains .bad then none
    else some ⟨tr, toks, tleg, kvGet kv "wstall" == some "1"⟩
  | _, _ => none

def isPipe (tr : String) : Bool := tr == "tcp+pipeline" || tr == "tls+pipeline"
def isReuse (tr : String) : Bool := tr == "tcp" || tr == "tls"
def isDoH (tr : String) : Bool := tr == "http" || tr == "https" || tr == "h3"

def predictFirst (c : Case) : First :=
  if c.wstall then wstallFirst (streamOf c.toks)
  else if isReuse c.tr then reuseFirst (streamOf c.toks) (termOf c.toks)
  else if isPipe c.tr then pipeFirst (streamOf c.toks) (termOf c.toks)
  else if c.tr == "quic" then quicFirst (streamOf c.toks) (termOf c.toks)
  else if c.tr == "udp" then udpFirst (dgramsOf c.toks) c.tleg
  else dohFirst c.tr c.toks

def dohMsg (tr : String) (toks : List Tok) : Option Msg :=
  match clientView tr (httpOf toks ⟨200, none, false, [], false⟩) (termOf toks) with
  | .body b => (match dohExchange false 200 (-1) b false with | .ok m => some m | _ => none)
  | .cut b => (match dohExchange false 200 (-1) b true with | .ok m => some m | _ => none)
  | _ => none

/-- Number of answer records of the reply the first exchange returns, where the model knows which reply that
    is ("returned as received"); the proper reply of the test server has one. -/
def firstAn (c : Case) : Option Nat :=
  if c.wstall then none
  else if isReuse c.tr then
    (match reuseExchange 0 (streamOf c.toks) with | .ok (m, _) => some m.answers.length | _ => none)
  else if isPipe c.tr then
    (delivered (runLoop false true [(0, ⟨[], 1⟩)] 0 ((frames (streamOf c.toks)).1.map .unit)).1 0).map (·.answers.length)
  else if c.tr == "quic" then
    (match readMsgFromTCP (streamOf c.toks) with | .msg m _ => some m.answers.length | _ => none)
  else if c.tr == "udp" then
    (match delivered (runLoop false false [(0, ⟨[], 1⟩)] 0 ((dgramsOf c.toks).map .unit)).1 0 with
     | some m =>
       if m.hdr.truncated then
         (if c.tleg.isEmpty then some 1
          else match reuseExchange 0 (streamOf c.tleg) with | .ok (m', _) => some m'.answers.length | _ => none)
       else some m.answers.length
     | none => none)
  else (dohMsg c.tr c.toks).map (·.answers.length)

/-- Is the number of follow-up exchanges that get no answer known to be 0?  Not on a one-at-a-time connection
    (tcp, tls, HTTP/1.1) that went back to the pool although the server left unread octets on it or went silent
    on it: the next query on it is lost with it (its own deadline comes before the transport's 6 s). -/
def lostKnown (c : Case) : Bool :=
  if c.wstall then true
  else if isReuse c.tr then
    (match reuseExchange 0 (streamOf c.toks) with
     | .ok (_, rest) => rest.isEmpty && termOf c.toks != .stall
     | _ => true)
  else if c.tr == "https" then
    -- a query written on an h2 connection the server is closing is lost with it (the DoH transport does not retry)
    !(httpOf c.toks ⟨200, none, false, [], false⟩).raw && termOf c.toks != .close
  else if c.tr == "http" then
    let h := httpOf c.toks ⟨200, none, false, [], false⟩
    !h.raw && termOf c.toks != .stall && termOf c.toks != .close &&
      (match h.cl.bind clValue with
       | some n => !(n < h.body.length)
       | none => true)
  else true

/-! ### specification (from the property text): the process does not die or hang, the upstream keeps serving,
    memory use does not follow a length field, and a reply is returned only if the server sent a unit that decodes
    (and, where replies are matched by id, carries the id of the query). -/

def decodesWithId (b : Bytes) (id : Option Nat) : Bool :=
  match unpackMsg b with
  | .ok m => (match id with | some i => m.hdr.id == i | none => true)
  | _ => false

/-- a datagram whose header carries TC and the given id: the udp upstream answers it with the TCP retry -/
def tcHeaderWithId (d : Bytes) (id : Nat) : Bool :=
  match headerOnly d with
  | some m => m.hdr.id == id
  | none => false

/-- Cases in which the first exchange must return a reply: the server sent exactly one datagram, it yields a
    message for the query's id (read whole, whatever buffer the code uses), and, if that message says TC, the TCP service of the server is the correct one. -/
def mustAnswer (c : Case) : Bool :=
  !c.wstall && c.tr == "udp" &&
    (match dgramsOf c.toks with
     | [d] =>
       (match readMsgFromUDPn maxDatagram d with
        | .msg m => m.hdr.id == 0 && (!m.hdr.truncated || c.tleg.isEmpty)
        | _ => false)
     | _ => false)

def justified (c : Case) : Bool :=
  if c.wstall then true      -- the server answers the query properly once it reads again
  else if isReuse c.tr ∨ isPipe c.tr then (frames (streamOf c.toks)).1.any (decodesWithId · (some 0))
  else if c.tr == "quic" then (frames (streamOf c.toks)).1.any (decodesWithId · none)
  else if c.tr == "udp" then (dgramsOf c.toks).any (fun d => decodesWithId (d.take udpBuf) (some 0) || tcHeaderWithId (d.take udpBuf) 0)
  else
    -- h3 (941027f, adb1d73): a stream reset is an http3 error; the DoH transport sends the (idempotent) request
    -- again, and the server answers the repeated request properly
    h3Reset c.tr c.toks ||
    let h := httpOf c.toks ⟨200, none, false, [], false⟩
    -- octets below HTTP can make the HTTP client repeat the request on a new connection (e.g. GOAWAY), where the
    -- server answers properly
    h.raw || h.st == 200 &&
      (decodesWithId (h.body.take dohLimit) none ||
       (match h.cl.bind clValue with
        | some n => decodesWithId ((h.body.take n).take dohLimit) none
        | none => false))

structure Out where
  next : String
  first : String
  mem : String
  deriving Repr, DecidableEq

def spec (c : Case) (o : Out) : Bool :=
  o.next == "ok" && o.mem == "ok" && (o.first == "resp" || o.first == "err") &&
    (o.first != "resp" || justified c) && (o.first != "err" || !mustAnswer c)

def verdict (c : Case) (impl : String) : String :=
  if impl == "panic" then "viol:panic"
  else if impl == "hang" then "viol:hang"
  else
    let it := words impl
    match kvGet it "next", kvGet it "first", kvGet it "mem" with
    | some n, some f, some m =>
      if n != "ok" then "viol:stopped-serving"
      else if f == "hang" then "viol:hang"
      else if f == "nil" then "viol:neither-reply-nor-error"
      else if m != "ok" then "viol:allocation-follows-a-length-field"
      else if f == "resp" && !justified c then "viol:returned-a-reply-nobody-sent"
      else if f == "err" && mustAnswer c then "viol:dropped-the-only-reply"
      else if spec c ⟨n, f, m⟩ then "ok" else "unparsed"
    | _, _, _ => "unparsed"

def run (case impl : String) : String × String :=
  match parseCase case with
  | none => ("bad-case", "na")
  | some c =>
    let it := words impl
    let first := match predictFirst c with
      | .any => (kvGet it "first").getD "any"
      | f => f.str
    let lost := if lostKnown c then "0" else (kvGet it "lost").getD "?"
    let echoAn := (kvGet it "an").getD "?"
    let an := match predictFirst c with
      | .err => "-"
      | .resp => (match firstAn c with | some n => toString n | none => echoAn)
      | _ => echoAn
    (s!"next=ok first={first} mem=ok lost={lost} an={an}", verdict c impl)

/-- `uprecords`: the same run on the `valid` scripts; here a probe that is not answered with the record the server
    sent (address and ttl) is the point of the case -/
def runRecords (case impl : String) : String × String :=
  let r := run case impl
  (r.1, if r.2 == "viol:stopped-serving" then "viol:C08:reply-records-not-delivered-as-sent" else r.2)

end MosVerif.UpReply
