/-
  C15 — a small interleaving model of `ClientLimiter` under concurrency
  (internal/limiter/client_limiter.go after repair 8757f14).

  Goroutines run `AllowN` and one goroutine runs `gc`.  The atomic regions are

    load      e, _ := cl.m.LoadOrCompute(key, …)                 (lock-free map operation)
    locked    e.m.Lock(); if e.dead { e.m.Unlock(); continue }   (the entry's mutex)
              if now.Before(e.lastSeen) { now = e.lastSeen }       (repair f8b61d0)
              e.lastSeen = now; ok := e.l.AllowN(now, n); e.m.Unlock(); return ok
    gcEntry   value.m.Lock(); full := …; if value.lastSeen.Before(ddl) && full
              { value.dead = true; cl.m.Delete(key) }; value.m.Unlock()

  A goroutine may be pre-empted between its `load` and its `locked` region for arbitrarily
  long, so the scheduler below may run `locked` on *any* entry that was ever allocated for the
  goroutine's key (a stale pointer).  A `locked` region that finds the entry dead emits nothing
  (the goroutine loops and loads again — that is just another `load` and `locked` step).
  Entries live in a heap of `*e` cells addressed by numbers; the map holds such numbers.
-/
import MosVerif.Model.Limiter
namespace MosVerif.Limiter

/-- a heap cell `*e` -/
structure CEntry where
  b : Bucket
  /-- `none` = the zero `time.Time` of an entry that was computed but never used -/
  lastSeen : Option Nat
  dead : Bool

structure CState where
  /-- after `setDefault` -/
  opts : Opts
  heap : Nat → CEntry
  /-- the key an entry was allocated for -/
  keyOf : Nat → Addr
  /-- number of allocated entries -/
  next : Nat
  map : Addr → Option Nat

def upd {α : Type} {β : Type} [DecidableEq α] (f : α → β) (a : α) (v : β) : α → β :=
  fun x => if x = a then v else f x

def CState.init (o : Opts) : CState :=
  ⟨o.setDefault, fun _ => ⟨Bucket.fresh, none, false⟩, fun _ => .zero, 0, fun _ => none⟩

def CState.limit (s : CState) : Nat := s.opts.limit.toNat
def CState.burst (s : CState) : Nat := s.opts.burst.toNat

inductive Step where
  /-- `LoadOrCompute(k, …)` by some goroutine -/
  | load (k : Addr)
  /-- the locked region of `AllowN(addr, now, n)` on entry `id`, which the goroutine obtained
      from a `LoadOrCompute(mask addr)` at some earlier time -/
  | locked (id : Nat) (addr : Addr) (now n : Nat)
  /-- the locked region of gc's callback for the entry currently mapped at `k`, at wall-clock `now` -/
  | gcEntry (k : Addr) (now : Nat)

/-- may this goroutine hold this pointer? -/
def CState.holds (s : CState) (id : Nat) (addr : Addr) : Prop := id < s.next ∧ s.keyOf id = mask s.opts addr

instance (s : CState) (id : Nat) (addr : Addr) : Decidable (s.holds id addr) := by
  unfold CState.holds; infer_instance

/-- `value.lastSeen.Before(now - entryTtl)`; the zero time is before everything -/
def CEntry.idle (e : CEntry) (now : Nat) : Prop :=
  match e.lastSeen with
  | none => True
  | some ls => ls + entryTtl < now

instance (e : CEntry) (now : Nat) : Decidable (e.idle now) := by
  unfold CEntry.idle; split <;> infer_instance

/-- `if now.Before(e.lastSeen) { now = e.lastSeen }`: the caller took `now` before it got the
    lock; the entry's clock never goes back -/
def CEntry.clock (e : CEntry) (now : Nat) : Nat :=
  match e.lastSeen with
  | some ls => max ls now
  | none => now

/-- one atomic step; the verdict returned to the caller, if the step returns one -/
def CState.step (s : CState) : Step → Option Bool × CState
  | .load k =>
    match s.map k with
    | some _ => (none, s)
    | none =>
      (none, { s with heap := upd s.heap s.next ⟨Bucket.fresh, none, false⟩
                      keyOf := upd s.keyOf s.next k
                      next := s.next + 1
                      map := upd s.map k (some s.next) })
  | .locked id addr now n =>
    if s.holds id addr then
      if (s.heap id).dead then (none, s)
      else
        let t := (s.heap id).clock now
        let r := (s.heap id).b.allowN s.limit s.burst t n
        (some r.1, { s with heap := upd s.heap id ⟨r.2, some t, false⟩ })
    else (none, s)
  | .gcEntry k now =>
    match s.map k with
    | none => (none, s)
    | some id =>
      if (s.heap id).idle now ∧ ((s.burst * nano : Nat) : Int) ≤ (s.heap id).b.avail s.limit s.burst now then
        (none, { s with heap := upd s.heap id { s.heap id with dead := true }
                        map := upd s.map k none })
      else (none, s)

/-- a schedule; the verdicts in the order in which they are returned -/
def CState.exec (s : CState) : List Step → List Bool
  | [] => []
  | st :: sts =>
    match (s.step st).1 with
    | some v => v :: CState.exec (s.step st).2 sts
    | none => CState.exec (s.step st).2 sts

/-- the sequential limiter a concurrent state stands for: the mapped entries that have been used -/
def CState.abs (s : CState) : ClientLimiter :=
  ⟨s.opts, fun k =>
    match s.map k with
    | some id =>
      match (s.heap id).lastSeen with
      | some ls => some ⟨(s.heap id).b, ls⟩
      | none => none
    | none => none⟩

/-- the sequential operation a step stands for (`none`: invisible) -/
def CState.absOp (s : CState) : Step → Option Op
  | .load _ => none
  | .locked id addr now n =>
    if s.holds id addr ∧ (s.heap id).dead = false then some (.allow ⟨addr, now, n⟩) else none
  | .gcEntry k now => some (.gc now (some k))

/-- the sequential history a schedule stands for: its visible steps, in schedule order -/
def CState.absOps (s : CState) : List Step → List Op
  | [] => []
  | st :: sts =>
    match s.absOp st with
    | some o => o :: CState.absOps (s.step st).2 sts
    | none => CState.absOps (s.step st).2 sts

end MosVerif.Limiter
