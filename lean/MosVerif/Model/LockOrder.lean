/-
  Lock protocol of `ReuseConnTransport` (reuse_transport.go): the transport's mutex `t.m` and the mutexes `c.m` of
  its connections, as taken by the goroutines that can meet on an idle connection (C18: "Close racing with dials,
  exchanges and idle timers at every point"; C06).

    picker    `getIdleConn`: `t.m.Lock()`, then for the idle connections X, Y in turn `c.exitIdle()` (`c.m.Lock()` …
              `c.m.Unlock()`, here X reports that it is dead and the loop goes on to Y), `t.m.Unlock()`
    timerX/Y  `closeIfIdle` (the idle timer): `c.m.Lock()` … `c.m.Unlock()`
    closer    `Close`: `t.m.Lock()` … `t.m.Unlock()` (it closes the net.Conns directly, no `c.m`)
    releaser  `releaseConn` of a third connection Z: `rc.enterIdle()` (`c.m`), then `t.m.Lock()` … `t.m.Unlock()`

  `nested = true` is the variant in which the idle timer calls back into the transport while it holds `c.m`
  (`c.m → t.m`, against `t.m → c.m` of the picker). A state is the vector of program counters; a schedule is a list
  of thread numbers; a thread that is not enabled does not move.
-/
import MosVerif.Util
-- @component idlepick MosVerif.LockOrder.runIdlePick
namespace MosVerif.LockOrder
open MosVerif

inductive Lock | T | X | Y | Z
  deriving DecidableEq, Repr

inductive Ins
  | acq (l : Lock)
  | rel (l : Lock)
  deriving DecidableEq, Repr

def picker : List Ins := [.acq .T, .acq .X, .rel .X, .acq .Y, .rel .Y, .rel .T]
def timerX : List Ins := [.acq .X, .rel .X]
def timerY (nested : Bool) : List Ins :=
  if nested then [.acq .Y, .acq .T, .rel .T, .rel .Y] else [.acq .Y, .rel .Y]
def closer : List Ins := [.acq .T, .rel .T]
def releaser : List Ins := [.acq .Z, .rel .Z, .acq .T, .rel .T]

def prog (nested : Bool) : Nat → List Ins
  | 0 => picker
  | 1 => timerX
  | 2 => timerY nested
  | 3 => closer
  | 4 => releaser
  | _ => []

def nThreads : Nat := 5

/-- program counters of the five threads -/
abbrev St := Nat × Nat × Nat × Nat × Nat

def init : St := (0, 0, 0, 0, 0)

def pcOf (s : St) : Nat → Nat
  | 0 => s.1
  | 1 => s.2.1
  | 2 => s.2.2.1
  | 3 => s.2.2.2.1
  | 4 => s.2.2.2.2
  | _ => 0

def bump (s : St) : Nat → St
  | 0 => (s.1 + 1, s.2)
  | 1 => (s.1, s.2.1 + 1, s.2.2)
  | 2 => (s.1, s.2.1, s.2.2.1 + 1, s.2.2.2)
  | 3 => (s.1, s.2.1, s.2.2.1, s.2.2.2.1 + 1, s.2.2.2.2)
  | 4 => (s.1, s.2.1, s.2.2.1, s.2.2.2.1, s.2.2.2.2 + 1)
  | _ => s

/-- does a thread that has executed `done` hold `l`? -/
def holdsIn (done : List Ins) (l : Lock) : Bool :=
  done.foldl (fun h i => match i with
    | .acq l' => if l' = l then true else h
    | .rel l' => if l' = l then false else h) false

def holds (nested : Bool) (s : St) (i : Nat) (l : Lock) : Bool :=
  holdsIn ((prog nested i).take (pcOf s i)) l

def holders (nested : Bool) (s : St) (l : Lock) : Nat :=
  ((List.range nThreads).filter fun i => holds nested s i l).length

def free (nested : Bool) (s : St) (l : Lock) : Bool := holders nested s l == 0

def enabled (nested : Bool) (s : St) (i : Nat) : Bool :=
  match (prog nested i)[pcOf s i]? with
  | none => false
  | some (.rel _) => true
  | some (.acq l) => free nested s l

def step (nested : Bool) (s : St) (i : Nat) : St :=
  if enabled nested s i then bump s i else s

def run (nested : Bool) (sched : List Nat) (s : St) : St := sched.foldl (step nested) s

def finished (nested : Bool) (s : St) : Bool :=
  (List.range nThreads).all fun i => decide ((prog nested i).length ≤ pcOf s i)

/-- nobody can move although somebody has not finished: a dead-lock -/
def stuck (nested : Bool) (s : St) : Bool :=
  !finished nested s && (List.range nThreads).all fun i => !enabled nested s i

/-- mutual exclusion, and the counters stay inside the programs -/
def Inv (nested : Bool) (s : St) : Bool :=
  ((List.range nThreads).all fun i => decide (pcOf s i ≤ (prog nested i).length)) &&
  [Lock.T, Lock.X, Lock.Y, Lock.Z].all fun l => decide (holders nested s l ≤ 1)

def allSt (nested : Bool) : List St :=
  (List.range ((prog nested 0).length + 1)).flatMap fun a =>
  (List.range ((prog nested 1).length + 1)).flatMap fun b =>
  (List.range ((prog nested 2).length + 1)).flatMap fun c =>
  (List.range ((prog nested 3).length + 1)).flatMap fun d =>
  (List.range ((prog nested 4).length + 1)).map fun e => (a, b, c, d, e)

/-! ## line protocol: component `idlepick`

  The real `ReuseConnTransport` with `conns` connections that go idle together, an idle time-out of 60 ms, and an
  exchange that picks one of them whose "still usable?" check (`SetReadDeadline(time.Time{})` in `exitIdle`, under
  `t.m`) takes four idle time-outs and then reports the connection dead (`dead=1`) or alive: the idle timers of the
  others fire inside `getIdleConn`. Then `Close`, then one more exchange.

  case : `conns=<n> dead=<0|1> seed=<s>`
  out  : `ex=<ok|err|hang> close=<ok|hang> after=<fail|ok|hang> open=<connections still open>`
-/
def runIdlePick (_case impl : String) : String × String :=
  let it := words ((impl.splitOn " ## ").headD "")
  let v :=
    if impl == "panic" then "viol:panic"
    else match kvGet it "ex", kvGet it "close", kvGet it "after", kvNat it "open" with
      | some ex, some cl, some af, some op =>
        if ex == "hang" then "viol:C18:exchange-hangs-beyond-its-context"
        else if cl != "ok" then "viol:C18:close-hangs"
        else if af == "hang" then "viol:C18:exchange-after-close-hangs"
        else if af == "ok" then "viol:C18:exchange-after-close-succeeds"
        else if op ≠ 0 then "viol:C18:connection-left-open"
        else if ex != "ok" then "viol:C06:exchange-fails-with-a-healthy-upstream"
        else "ok"
      | _, _, _, _ => "unparsed"
  ("ex=ok close=ok after=fail open=0", v)

end MosVerif.LockOrder
