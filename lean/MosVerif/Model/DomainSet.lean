/-
  C11 — driver components `domainset` and `readable`:
  * the executable SPECIFICATION written from the property text (entries,
    label-suffix matching, the text form), independent of the trie model;
  * a tiny regular-expression subset whose semantics is evaluated exactly
    (`^`? (letter | digit | `-` | `.` | `\.` | `\\`)* `$`?), used to instantiate the
    abstract engine `Trie.Re` in the driver;
  * the line protocol.

  Core Lean only.
-/
import MosVerif.Model.Trie
-- @component domainset MosVerif.DomainSet.run
-- @component readable MosVerif.DomainSet.runReadable
namespace MosVerif.DomainSet
open MosVerif.Text MosVerif.Trie

/-! ### a regular-expression subset with exact semantics -/

inductive ReItem where
  | lit (c : UInt8)
  | any
  deriving DecidableEq, Repr

structure MiniRe where
  bol : Bool
  items : List ReItem
  eol : Bool
  deriving DecidableEq, Repr

/-- items and whether the pattern ends in `$`; `none` = outside the subset. -/
def parseItems : Bytes → Option (List ReItem × Bool)
  | [] => some ([], false)
  | c :: rest =>
    if c = 36 then (if rest.isEmpty then some ([], true) else none)          -- `$` only at the end
    else if c = 92 then                                                       -- `\.` and `\\`
      match rest with
      | d :: rest' =>
        if d = 46 ∨ d = 92 then (parseItems rest').map (fun p => (.lit d :: p.1, p.2)) else none
      | [] => none
    else if c = 46 then (parseItems rest).map (fun p => (.any :: p.1, p.2))   -- `.`
    else if isPrintableLabelChar c then (parseItems rest).map (fun p => (.lit c :: p.1, p.2))
    else none

def parseMiniRe (p : Bytes) : Option MiniRe :=
  match p with
  | c :: rest =>
    if c = 94 then (parseItems rest).map (fun q => ⟨true, q.1, q.2⟩)          -- `^`
    else (parseItems p).map (fun q => ⟨false, q.1, q.2⟩)
  | [] => some ⟨false, [], false⟩

def matchHere : List ReItem → Bool → Bytes → Bool
  | [], eol, t => !eol || t.isEmpty
  | _ :: _, _, [] => false
  | .lit c :: is, eol, x :: t => x == c && matchHere is eol t
  | .any :: is, eol, x :: t => x != 10 && matchHere is eol t

def matchAnywhere (is : List ReItem) (eol : Bool) : Bytes → Bool
  | [] => matchHere is eol []
  | x :: t => matchHere is eol (x :: t) || matchAnywhere is eol t

def miniMatch (r : MiniRe) (t : Bytes) : Bool :=
  if r.bol then matchHere r.items r.eol t else matchAnywhere r.items r.eol t

/-- the engine used by the driver. -/
def miniRe : Re where
  compiles p := (parseMiniRe p).isSome
  isMatch p t := match parseMiniRe p with
    | some r => miniMatch r t
    | none => false

/-! ### the specification, from the property text -/

inductive Entry where
  | full (name : List Label)
  | domain (name : List Label)
  | regexp (pat : Bytes)
  deriving DecidableEq, Repr

/-- the pieces between the dots. -/
def splitDots : Bytes → List Bytes
  | [] => [[]]
  | c :: cs =>
    if c = 46 then [] :: splitDots cs
    else match splitDots cs with
      | h :: t => (c :: h) :: t
      | [] => [[c]]

/-- octets of the labels plus one length octet each. -/
def nameOctets (ls : List Label) : Nat := (ls.map (fun l => l.length + 1)).sum

/-- a label of 1..63 octets. -/
def goodLabel (l : Label) : Bool := 1 ≤ l.length && l.length ≤ 63

/-- a domain name written as text (no escapes; FQDN or not; empty or `.` is the root),
    lower-cased: entries are case-insensitive.  `none` = not a well-formed name
    (empty label, label over 63 octets, over 253 octets in all). -/
def specName (x : Bytes) : Option (List Label) :=
  let x := if x.getLast? = some 46 then x.dropLast else x
  if x = [] then some []
  else
    let ls := splitDots x
    if ls.all goodLabel && nameOctets ls ≤ 253 then some (ls.map lowerLabel) else none

def pfxFull : Bytes := [102, 117, 108, 108, 58]                  -- "full:"
def pfxDomain : Bytes := [100, 111, 109, 97, 105, 110, 58]       -- "domain:"
def pfxRegexp : Bytes := [114, 101, 103, 101, 120, 112, 58]      -- "regexp:"

/-- an entry: `full:<name>`, `domain:<name>`, `regexp:<pattern>` or a bare `<name>`
    (= `domain:`).  `none` = ill-formed; the property does not speak about it. -/
def specRule (re : Re) (rule : Bytes) : Option Entry :=
  if pfxFull.isPrefixOf rule then (specName (rule.drop pfxFull.length)).map .full
  else if pfxDomain.isPrefixOf rule then (specName (rule.drop pfxDomain.length)).map .domain
  else if pfxRegexp.isPrefixOf rule then
    let p := rule.drop pfxRegexp.length
    if re.compiles p then some (.regexp p) else none
  else if rule.contains 58 then none
  else (specName rule).map .domain

inductive LineKind where
  | ignored
  | bad
  | entry (e : Entry)
  deriving DecidableEq, Repr

/-- a line of a file: `#` starts a comment, surrounding white space and blank lines are ignored. -/
def specLine (re : Re) (line : Bytes) : LineKind :=
  let b := trimSpace (line.takeWhile (· ≠ 35))
  if b = [] then .ignored
  else match specRule re b with
    | some e => .entry e
    | none => .bad

/-- the escape of one octet in the text form. -/
def specEscape (b : UInt8) : Bytes :=
  let n := b.toNat
  if (97 ≤ n ∧ n ≤ 122) ∨ (65 ≤ n ∧ n ≤ 90) ∨ (48 ≤ n ∧ n ≤ 57) ∨ n = 45 then [b]
  else if n = 46 then [92, 46]
  else if n = 92 then [92, 92]
  else [92, UInt8.ofNat (48 + n / 100), UInt8.ofNat (48 + n / 10 % 10), UInt8.ofNat (48 + n % 10)]

/-- the pieces joined by single dots, no dot at the end. -/
def joinDots : List Bytes → Bytes
  | [] => []
  | [x] => x
  | x :: y :: rest => x ++ 46 :: joinDots (y :: rest)

/-- the dotted non-FQDN text form; the root is `.`. -/
def specText (q : List Label) : Bytes :=
  if q = [] then [46] else joinDots (q.map (fun l => l.flatMap specEscape))

def entryMatches (re : Re) (q : List Label) : Entry → Bool
  | .full n => n == q
  | .domain n => n.isSuffixOf q
  | .regexp p => re.isMatch p (specText q)

/-- THE property: the set matches `q` iff some entry does. -/
def specMatch (re : Re) (es : List Entry) (q : List Label) : Bool := es.any (entryMatches re q)

/-! ### cases -/

inductive Group where
  /-- one `LoadMixMatcherFromReader` call on these lines -/
  | load (lines : List Bytes)
  /-- one `MixMatcher.Add` call per rule, errors ignored -/
  | adds (rules : List Bytes)
  deriving DecidableEq, Repr

inductive Query where
  /-- a name given by its labels -/
  | labels (ls : List Label)
  /-- arbitrary octets handed to `Match` as they are -/
  | wire (n : Bytes)
  deriving DecidableEq, Repr

def Query.toWire : Query → Bytes
  | .labels ls => encode ls
  | .wire n => n

structure Case where
  groups : List Group
  queries : List Query
  deriving Repr

structure Out where
  /-- per group: `load` → `[returned nil]`, `adds` → per rule `returned nil` -/
  ld : List (List Bool)
  m : List Bool
  deriving DecidableEq, Repr

/-! ### the model of a case -/

def runAdds (re : Re) : Mix → List Bytes → Mix × List Bool
  | m, [] => (m, [])
  | m, r :: rest =>
    match m.add re r with
    | none => let p := runAdds re m rest; (p.1, false :: p.2)
    | some m' => let p := runAdds re m' rest; (p.1, true :: p.2)

def runGroups (re : Re) : Mix → List Group → Mix × List (List Bool)
  | m, [] => (m, [])
  | m, .load lines :: rest =>
    let r := loadLines re m lines
    let p := runGroups re r.1 rest
    (p.1, [r.2] :: p.2)
  | m, .adds rules :: rest =>
    let r := runAdds re m rules
    let p := runGroups re r.1 rest
    (p.1, r.2 :: p.2)

def model (re : Re) (c : Case) : Out :=
  let r := runGroups re {} c.groups
  ⟨r.2, c.queries.map (fun q => r.1.match re q.toWire)⟩

/-! ### the specification of a case -/

/-- the entries of the groups, `none` if some line is ill-formed. -/
def specGroupEntries (re : Re) : Group → Option (List Entry)
  | .load lines => lines.foldr (fun line acc =>
      match specLine re line, acc with
      | .ignored, some es => some es
      | .entry e, some es => some (e :: es)
      | _, _ => none) (some [])
  | .adds rules => rules.foldr (fun r acc =>
      match specRule re r, acc with
      | some e, some es => some (e :: es)
      | _, _ => none) (some [])

def specEntries (re : Re) : List Group → Option (List Entry)
  | [] => some []
  | g :: gs =>
    match specGroupEntries re g, specEntries re gs with
    | some a, some b => some (a ++ b)
    | _, _ => none

def allLoaded : Group → List Bool
  | .load _ => [true]
  | .adds rules => rules.map (fun _ => true)

/-- a well-formed query name: labels of 1..63 octets, at most 254 octets (255 with the root's). -/
def goodName (ls : List Label) : Bool := ls.all goodLabel && nameOctets ls ≤ 254

def isLowerCased (ls : List Label) : Bool := ls.all (fun l => l.all (fun b => !(65 ≤ b && b ≤ 90)))

def specQuery (re : Re) (es : List Entry) : Query → Bool → Bool
  | .labels ls, b => if goodName ls && isLowerCased ls then b == specMatch re es ls else true
  | .wire _, _ => true

def specQueries (re : Re) (es : List Entry) : List Query → List Bool → Bool
  | [], [] => true
  | q :: qs, b :: bs => specQuery re es q b && specQueries re es qs bs
  | _, _ => false

/-- every well-formed entry loads, and every well-formed lower-cased name matches iff the
    property text says so. -/
def spec (re : Re) (c : Case) (o : Out) : Bool :=
  match specEntries re c.groups with
  | none => true
  | some es => o.ld == c.groups.map allLoaded && specQueries re es c.queries o.m

/-- `readable`: a well-formed name has the text form of the property. -/
def specReadable (q : Query) (o : Option Bytes) : Bool :=
  match q with
  | .labels ls => if goodName ls then o == some (specText ls) else true
  | .wire _ => true

/-! ### line protocol

  case `g=<group>;<group>… q=<query>,<query>…`
  group `L:<hex line>,<hex line>…` | `A:<hex rule>,…`   (`-` = empty byte string; `L:` = no lines)
  query `r` (root) | `n:<hex label>.<hex label>…` | `w:<hex wire>`
  out  `ld=<L[k|e] | A[k|e]*>;… m=<0|1>*`
-/

def sequence {α : Type} : List (Option α) → Option (List α)
  | [] => some []
  | none :: _ => none
  | some a :: rest => (sequence rest).map (a :: ·)

def hexList (sep : String) (s : String) : Option (List Bytes) :=
  if s == "" then some [] else sequence ((s.splitOn sep).map bytesOfHex)

def groupOfStr (s : String) : Option Group :=
  if s.startsWith "L:" then (hexList "," (s.drop 2).toString).map .load
  else if s.startsWith "A:" then (hexList "," (s.drop 2).toString).map .adds
  else none

def queryOfStr (s : String) : Option Query :=
  if s == "r" then some (.labels [])
  else if s.startsWith "n:" then (hexList "." (s.drop 2).toString).map .labels
  else if s.startsWith "w:" then (bytesOfHex (s.drop 2).toString).map .wire
  else none

def caseOfStr (s : String) : Option Case := do
  let toks := words s
  let g ← kvGet toks "g"
  let q ← kvGet toks "q"
  let gs ← if g == "-" then some [] else sequence ((g.splitOn ";").map groupOfStr)
  let qs ← if q == "-" then some [] else sequence ((q.splitOn ",").map queryOfStr)
  pure ⟨gs, qs⟩

def strOfFlags (bs : List Bool) : String := String.ofList (bs.map (fun b => if b then 'k' else 'e'))

def strOfOut (c : Case) (o : Out) : String :=
  let gs := (c.groups.zip o.ld).map (fun p =>
    match p.1 with
    | .load _ => "L" ++ strOfFlags p.2
    | .adds _ => "A" ++ strOfFlags p.2)
  let ld := if gs.isEmpty then "-" else ";".intercalate gs
  let m := if o.m.isEmpty then "-" else String.ofList (o.m.map (fun b => if b then '1' else '0'))
  s!"ld={ld} m={m}"

def flagsOfStr (s : String) : Option (List Bool) :=
  sequence (s.toList.map (fun c => if c == 'k' then some true else if c == 'e' then some false else none))

def outOfStr (s : String) : Option Out := do
  let toks := words s
  let ld ← kvGet toks "ld"
  let m ← kvGet toks "m"
  let ld ← if ld == "-" then some [] else
    sequence ((ld.splitOn ";").map (fun g => flagsOfStr (g.drop 1).toString))
  let m ← if m == "-" then some [] else
    sequence (m.toList.map (fun c => if c == '1' then some true else if c == '0' then some false else none))
  pure ⟨ld, m⟩

/-- every `regexp:` pattern of the case is inside the evaluated subset. -/
def supportedRule (rule : Bytes) : Bool :=
  if pfxRegexp.isPrefixOf rule then miniRe.compiles (rule.drop pfxRegexp.length) else true

def supportedCase (c : Case) : Bool :=
  c.groups.all (fun g => match g with
    | .load lines => lines.all (fun l => match loaderLine l with | some b => supportedRule b | none => true)
    | .adds rules => rules.all supportedRule)

def run (case impl : String) : String × String :=
  match caseOfStr case with
  | none => ("bad-case", "na")
  | some c =>
    if !supportedCase c then ("unsupported-regexp", "na")
    else
      let m := strOfOut c (model miniRe c)
      let v := match outOfStr impl with
        | some o =>
          if spec miniRe c o then
            -- `na`: some entry is ill-formed, the property is silent (only model = code is compared)
            (if (specEntries miniRe c.groups).isSome then "ok" else "na")
          else "viol"
        | none => "unparsed"
      (m, v)

def runReadable (case impl : String) : String × String :=
  match queryOfStr case with
  | none => ("bad-case", "na")
  | some q =>
    let str := fun (o : Option Bytes) => match o with | some t => hexOfBytes t | none => "err"
    let m := str (toReadable q.toWire)
    let o := if impl == "err" then some none else (bytesOfHex impl).map some
    let v := match o with
      | some o => if specReadable q o then "ok" else "viol"
      | none => "unparsed"
    (m, v)

end MosVerif.DomainSet
