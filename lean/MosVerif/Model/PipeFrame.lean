/-
  C05 — framing of a pipelined TCP/DoT connection (readLoop + dnsutils.ReadMsgFromTCP).

      for { SetReadDeadline; r, _, err = ReadMsgFromTCP(br)        // 2 length octets, then the message
            if err != nil { …; c.closeWithErr(…); return }         // ANY read error ends the loop
            dispatch r by r.Header.ID }

  The server sends frames; the network delivers their bytes in arbitrary chunks; at any moment a
  read can fail (deadline = idle timeout, reset, …) — possibly after ReadMsgFromTCP has consumed a
  part of a frame. Bytes are numbers; a message is the list of its bytes.
-/
namespace MosVerif.PipeFrame

abbrev Bytes := List Nat

/-- a frame: two length octets, then the message -/
def enc (m : Bytes) : Bytes := (m.length / 256) :: (m.length % 256) :: m

/-- what the server writes -/
def stream : List Bytes → Bytes
  | [] => []
  | f :: fs => enc f ++ stream fs

/-- `ReadMsgFromTCP` on the bytes that are there: a whole message and the bytes after it, or "need more" -/
def readFrame : Bytes → Option (Bytes × Bytes)
  | hi :: lo :: rest => if hi * 256 + lo ≤ rest.length then some (rest.take (hi * 256 + lo), rest.drop (hi * 256 + lo)) else none
  | _ => none

structure Reader where
  /-- received, not yet consumed (bufio buffer and the partly filled message buffer) -/
  buf : Bytes := []
  /-- `closeWithErr` was called and the loop has returned -/
  closed : Bool := false
  /-- messages handed to the dispatcher, oldest first -/
  out : List Bytes := []
  deriving Repr, DecidableEq

inductive REv where
  /-- some more bytes arrive -/
  | recv (chunk : Bytes)
  /-- a read fails while the loop waits for bytes (deadline, reset, …) -/
  | readErr
  deriving Repr, DecidableEq

/-- dispatch every complete frame (`fuel`: a frame has at least two bytes) -/
def drainFrames : Nat → Bytes → List Bytes → Bytes × List Bytes
  | 0, buf, out => (buf, out)
  | fuel + 1, buf, out =>
    match readFrame buf with
    | some (m, rest) => drainFrames fuel rest (out ++ [m])
    | none => (buf, out)

def rstep (r : Reader) : REv → Reader
  | .recv chunk =>
    if r.closed then r
    else
      let res := drainFrames (r.buf.length + chunk.length) (r.buf ++ chunk) r.out
      { r with buf := res.1, out := res.2 }
  | .readErr => { r with closed := true, buf := [] }

def run (r : Reader) (evs : List REv) : Reader := evs.foldl rstep r

/-- all bytes delivered by the network -/
def received : List REv → Bytes
  | [] => []
  | .recv chunk :: t => chunk ++ received t
  | .readErr :: t => received t

/-- the defective loop: a deadline error is followed by `continue` (what was consumed is lost) -/
def rstepResume (r : Reader) : REv → Reader
  | .recv chunk =>
    let res := drainFrames (r.buf.length + chunk.length) (r.buf ++ chunk) r.out
    { r with buf := res.1, out := res.2 }
  | .readErr => { r with buf := [] }

end MosVerif.PipeFrame
