/-
  C07, converse direction — `MemoryCache` (internal/cache/mem.go, after fb0d3a6 / 3a97998 / f8fe887)
  on top of a backend with the observable quirks of otter v1.2.0, against the ideal TTL map.

  Backend (`QState.nodes`, `now`, `pend`), transcribed from otter's `internal/core/cache.go`:
  * `Get` on a node whose lifetime has ended reports a miss, queues a deletion task for it and
    **leaves the node in the hash map**; every later lookup queues another task;
  * `SetIfAbsent` is refused whenever the hash map holds a node for the key — **an expired leftover
    counts as present**;
  * `Set` replaces the node; the old node's entry goes to the deletion listener;
    a lookup that races with the replacement may be answered "miss" (the old node is dead for a
    moment), may be handed the old entry after its release, or may find the entry locked by its
    release: these are the `Glitch`es a lookup may meet;
  * the deletion listener (`releaseEntry`) is called once per queued task — **possibly several
    times for one entry**, and for entries whose node is still in the hash map (`fire`, `fireAgain`);
  * `cleanup` removes expired nodes (some of them, some time), `Delete` removes a node.
  Time is a natural number (the harness uses milliseconds); a node with expiry `exp` is live while
  `now < exp`. Capacity is ample: the backend never evicts for size and never refuses a `Set`.

  `MemoryCache` on top: `store` (fresh entry object; `Set`, or `SetIfAbsent` with removal of an
  expired leftover and release of a refused entry — the stripe lock makes the backend calls of one
  `Store` atomic with respect to other `Store`s of the key), `get` (at most 8 lookups, a plain miss
  retried twice), `release` (idempotent, no recycling).

  The ideal: a map key ↦ (value, expiry); `Set` overwrites, `SetIfAbsent` is dropped iff a live
  entry exists, a lookup hits iff the entry is live.
-/
import MosVerif.Util
-- @component cachehist MosVerif.QCache.runHist
-- @component cacheconv MosVerif.QCache.runConv
namespace MosVerif.QCache

def upd {α : Type} (f : Nat → α) (i : Nat) (x : α) : Nat → α := fun j => if j = i then x else f j
def updK {K α : Type} [DecidableEq K] (f : K → α) (k : K) (x : α) : K → α := fun j => if j = k then x else f j

/-- a node of the backend's hash map: the entry object it points to and its expiry -/
structure Node where
  e : Nat
  exp : Nat
  deriving Repr, DecidableEq

structure QState (K V : Type) where
  nodes : K → Option Node
  ents : Nat → K × Option V      -- cacheEntry objects: fields k, v (nil after release)
  next : Nat                     -- objects ≥ next have not been allocated (`new(cacheEntry)`)
  pend : List Nat                -- queued deletion-listener calls (entry objects, with multiplicity)
  now : Nat

variable {K V : Type}

def QState.empty [Inhabited K] : QState K V := ⟨fun _ => none, fun _ => (default, none), 0, [], 0⟩

/-! ### the backend -/

/-- `backend.Get`: a hit returns the entry; an expired node is a miss that queues a deletion task
    and stays in the map. -/
def bGet (s : QState K V) (k : K) : Option Nat × QState K V :=
  match s.nodes k with
  | none => (none, s)
  | some n => if s.now < n.exp then (some n.e, s) else (none, { s with pend := n.e :: s.pend })

/-- `backend.Set` (ample capacity: accepted). The replaced node's entry is queued for the listener. -/
def bSet [DecidableEq K] (s : QState K V) (k : K) (e ttl : Nat) : QState K V :=
  { s with nodes := updK s.nodes k (some ⟨e, s.now + ttl⟩),
           pend := (match s.nodes k with | some n => [n.e] | none => []) ++ s.pend }

/-- `backend.SetIfAbsent`: refused when the map holds *any* node for the key -/
def bSetIfAbsent [DecidableEq K] (s : QState K V) (k : K) (e ttl : Nat) : Bool × QState K V :=
  match s.nodes k with
  | some _ => (false, s)
  | none => (true, { s with nodes := updK s.nodes k (some ⟨e, s.now + ttl⟩) })

/-- `backend.Delete` -/
def bDelete [DecidableEq K] (s : QState K V) (k : K) : QState K V :=
  match s.nodes k with
  | none => s
  | some n => { s with nodes := updK s.nodes k none, pend := n.e :: s.pend }

/-! ### MemoryCache -/

/-- `releaseEntry(e)`: wipes the entry; safe to call again -/
def release [Inhabited K] (s : QState K V) (e : Nat) : QState K V :=
  { s with ents := upd s.ents e (default, none) }

/-- `e := new(cacheEntry)` filled with key and value (under the entry's lock) -/
def alloc (s : QState K V) (k : K) (v : V) : QState K V :=
  { s with next := s.next + 1, ents := upd s.ents s.next (k, some v) }

/-- `MemoryCache.Store(k, …, v, setNX)` with a lifetime of `ttl` -/
def store [Inhabited K] [DecidableEq K] (s : QState K V) (k : K) (v : V) (ttl : Nat) (nx : Bool) : QState K V :=
  let e := s.next
  let s := alloc s k v
  if nx then
    match bSetIfAbsent s k e ttl with
    | (true, s) => s
    | (false, s) =>
      match bGet s k with
      | (some _, s) => release s e                       -- a live entry exists: the new one is dropped
      | (none, s) =>                                      -- an expired leftover: remove it and try again
        let s := bDelete s k
        match bSetIfAbsent s k e ttl with
        | (true, s) => s
        | (false, s) => release s e
  else bSet s k e ttl

/-- what a lookup that races with a replacing `Store` may meet instead of the current entry -/
inductive Glitch where
  | deadMiss      -- the backend found the old node, already marked dead: "miss"
  | released      -- the backend returned the old entry, which has been released meanwhile (`e.v == nil`)
  | locked        -- the old entry is locked by its release (`TryRLock` fails)
  deriving Repr, DecidableEq

/-- `if misses++; misses < 3 { continue }` (on the incremented counter) -/
abbrev getMissesCond (misses : Nat) : Prop := misses < 3

/-- the loop of `MemoryCache.Get`; `left` = 8 − retry -/
def getLoop [DecidableEq K] : Nat → Nat → List Glitch → QState K V → K → Option V × QState K V
  | 0, _, _, s, _ => (none, s)
  | left + 1, misses, g :: gl, s, k =>
    match g with
    | .deadMiss => if getMissesCond (misses + 1) then getLoop left (misses + 1) gl s k else (none, s)
    | .released | .locked => getLoop left misses gl s k
  | left + 1, misses, [], s, k =>
    match bGet s k with
    | (none, s) => if getMissesCond (misses + 1) then getLoop left (misses + 1) [] s k else (none, s)
    | (some e, s) =>
      match s.ents e with
      | (k', some v) => if k' = k then (some v, s) else getLoop left misses [] s k
      | (_, none) => getLoop left misses [] s k

def get [DecidableEq K] (s : QState K V) (k : K) (gl : List Glitch) : Option V × QState K V :=
  getLoop 8 0 gl s k

/-- the lookup as it was before f8fe887: every stale answer is a miss -/
def getNoRetry [DecidableEq K] (s : QState K V) (k : K) (gl : List Glitch) : Option V × QState K V :=
  getLoop 1 2 gl s k

/-! ### steps of the environment -/

/-- the listener is called for the `i`-th queued task -/
def fire [Inhabited K] (s : QState K V) (i : Nat) : QState K V :=
  match s.pend[i]? with
  | none => s
  | some e => release { s with pend := s.pend.eraseIdx i } e

/-- … and the backend may call it again for the same entry later -/
def fireAgain [Inhabited K] (s : QState K V) (i : Nat) : QState K V :=
  match s.pend[i]? with
  | none => s
  | some e => release s e

def tick (s : QState K V) (d : Nat) : QState K V := { s with now := s.now + d }

/-- `cleanup`: an expired node is removed from the map and reported to the listener -/
def cleanup [DecidableEq K] (s : QState K V) (k : K) : QState K V :=
  match s.nodes k with
  | some n => if s.now < n.exp then s else { s with nodes := updK s.nodes k none, pend := n.e :: s.pend }
  | none => s

inductive Op (K V : Type) where
  | store (k : K) (v : V) (ttl : Nat) (nx : Bool)
  | get (k : K) (gl : List Glitch)
  | fire (i : Nat)
  | fireAgain (i : Nat)
  | tick (d : Nat)
  | cleanup (k : K)

def apply [Inhabited K] [DecidableEq K] (s : QState K V) : Op K V → QState K V
  | .store k v ttl nx => store s k v ttl nx
  | .get k gl => (get s k gl).2
  | .fire i => fire s i
  | .fireAgain i => fireAgain s i
  | .tick d => tick s d
  | .cleanup k => cleanup s k

def run [Inhabited K] [DecidableEq K] (s : QState K V) (ops : List (Op K V)) : QState K V :=
  ops.foldl apply s

/-- a lookup's glitch script is within what `Get`'s retries absorb:
    at most two "dead" misses and at most seven stale answers in all -/
def Glitch.ok (gl : List Glitch) : Bool := gl.length ≤ 7 && (gl.filter (· == .deadMiss)).length ≤ 2

/-! ### the ideal TTL map -/

structure Ideal (K V : Type) where
  m : K → Option (V × Nat)
  now : Nat

def Ideal.empty : Ideal K V := ⟨fun _ => none, 0⟩

def Ideal.get (i : Ideal K V) (k : K) : Option V :=
  match i.m k with
  | some (v, exp) => if i.now < exp then some v else none
  | none => none

def Ideal.store [DecidableEq K] (i : Ideal K V) (k : K) (v : V) (ttl : Nat) (nx : Bool) : Ideal K V :=
  if nx && (i.get k).isSome then i else { i with m := updK i.m k (some (v, i.now + ttl)) }

def Ideal.apply [DecidableEq K] (i : Ideal K V) : Op K V → Ideal K V
  | .store k v ttl nx => i.store k v ttl nx
  | .tick d => { i with now := i.now + d }
  | _ => i

def Ideal.run [DecidableEq K] (i : Ideal K V) (ops : List (Op K V)) : Ideal K V := ops.foldl Ideal.apply i

/-- an entry object is referenced by the hash map -/
def Referenced (s : QState K V) (e : Nat) : Prop := ∃ k n, s.nodes k = some n ∧ n.e = e

/-! ### the backend's 32-bit arithmetic (3baf9cd, 949de0e) -/

/-- otter keeps the capacity in a `uint32` -/
def backendCapacity (size : Nat) : Nat := size % 2 ^ 32
/-- `NewMemoryCache`: `if uint64(size) > math.MaxUint32 { size = math.MaxUint32 }` -/
def clampSize (size : Nat) : Nat := if size > 2 ^ 32 - 1 then 2 ^ 32 - 1 else size
/-- otter's expiry: `unixtime.Now() + uint32(ceil(ttl))` in `uint32` seconds since the process started -/
def backendExpiry (now ttl : Nat) : Nat := (now + ttl % 2 ^ 32) % 2 ^ 32
/-- `initCache`: the configured maximum is limited to ten years -/
def tenYears : Nat := 3600 * 24 * 365 * 10
def clampTtl (maximumTtl ttl : Nat) : Nat := min ttl (min maximumTtl tenYears)

/-! ## `cachehist`: histories on a real router, checked against the property text

  case : `f=<hex range file|none> ops=<op>;<op>;…` with (fields after those listed are for the harness only)
      `s,<key>,<r>,<nx>,…`   `CacheStore` of response number `r` under key tuple `key`
                             (`nx=1`: negative response → `SetIfAbsent`)
      `g,<key>,…`            `CacheGet`
      `h,<key>,<r>,…`        a client query through `handleServerReq`; `r` is the number of the answer the
                             scripted upstream gives *if* it is asked now
  `key` is the generator's canonical rendering of (lower-cased name, class, type, group label) — known by
  construction, not computed by the code under test; response numbers are unique per op. The harness
  recovers the number of a served message from its fingerprint (ID and TTLs masked), `?` if unknown.
  out  : one token per op: `s` | `hit:<r>` | `miss` | `c:<r>` (answered from cache, upstream not asked) |
         `u:<r>` (upstream asked exactly once) | `bad`
-/

inductive HOp where
  | store (key fp : String) (nx : Bool)
  | get (key : String)
  | handle (key fp : String)
  deriving Repr

inductive HOut where
  | stored
  | hit (fp : String)
  | miss
  | cached (fp : String)
  | upstream (fp : String)
  | bad
  deriving DecidableEq, Repr

/-- lifetimes in a history are far longer than the history (no clock step occurs) -/
def histTtl : Nat := 1000000

/-- the reference: `MemoryCache` on the quirky backend -/
def histModel (s : QState String String) : List HOp → List HOut
  | [] => []
  | .store key fp nx :: rest => .stored :: histModel (store s key fp histTtl nx) rest
  | .get key :: rest =>
    match get s key [] with
    | (some fp, s) => .hit fp :: histModel s rest
    | (none, s) => .miss :: histModel s rest
  | .handle key fp :: rest =>
    match get s key [] with
    | (some c, s) => .cached c :: histModel s rest
    | (none, s) => .upstream fp :: histModel (store s key fp histTtl false) rest   -- scripted answers are NOERROR

/-- the property, on an observed history. `past` = the (key, fp) pairs written so far, i.e. the
    responses the proxy produced when it relayed an upstream answer (or was told to store).
    * a response served from the cache was stored for the same key tuple, unchanged;
    * conversely a repeat of a key that was written before is answered from the cache. -/
def histSpec (past : List (String × String)) : List HOp → List HOut → Bool
  | [], [] => true
  | .store key fp _ :: ops, .stored :: outs => histSpec ((key, fp) :: past) ops outs
  | .get key :: ops, .hit fp :: outs => past.contains (key, fp) && histSpec past ops outs
  | .get key :: ops, .miss :: outs => !(past.any (·.1 == key)) && histSpec past ops outs
  | .handle key _ :: ops, .cached c :: outs => past.contains (key, c) && histSpec past ops outs
  | .handle key fp :: ops, .upstream u :: outs =>
    !(past.any (·.1 == key)) && u == fp && histSpec ((key, fp) :: past) ops outs
  | _, _ => false

def hopOfStr (s : String) : Option HOp :=
  match s.splitOn "," with
  | "s" :: key :: fp :: nx :: _ => (boolOfStr nx).map (.store key fp)
  | "g" :: key :: _ => some (.get key)
  | "h" :: key :: fp :: _ => some (.handle key fp)
  | _ => none

def houtOfStr (s : String) : Option HOut :=
  match s.splitOn ":" with
  | ["s"] => some .stored
  | ["hit", fp] => some (.hit fp)
  | ["miss"] => some .miss
  | ["c", fp] => some (.cached fp)
  | ["u", fp] => some (.upstream fp)
  | ["bad"] => some .bad
  | _ => none

def strOfHOut : HOut → String
  | .stored => "s"
  | .hit fp => "hit:" ++ fp
  | .miss => "miss"
  | .cached fp => "c:" ++ fp
  | .upstream fp => "u:" ++ fp
  | .bad => "bad"

def runHist (case impl : String) : String × String :=
  match (kvGet (words case) "ops").bind (fun o => (o.splitOn ";").mapM hopOfStr) with
  | none => ("bad-case", "na")
  | some ops =>
    let m := ";".intercalate ((histModel QState.empty ops).map strOfHOut)
    let v := match (impl.splitOn ";").mapM houtOfStr with
      | some outs => if histSpec [] ops outs then "ok" else "viol"
      | none => "unparsed"
    (m, v)

/-! ## `cacheconv`: the converse clause on the real router (see harness/cmd/mvharness/c07_cacheconv.go)

  case: `id=<n> cfg=<std|big|maxttl> p=<procs> ops=<op>;…`
    `x,<k>` (the key's entry is replaced by one whose lifetime has just ended), `h,<k>,<r>,<kind>` (client
    query; the upstream would answer response `r`), `s,<k>,<r>,<kind>` (`cacheCtl.Store`), `g,<k>` (`cacheCtl.Get`),
    `w,<n>` (n writes of fresh long-lived keys, then the backend drains its task buffer), `v` (all keys written by
    `w` are looked up), `z,<ms>` (time passes), `r,<k>,<stores>,<getters>` (lookups concurrent with replacing stores).
    kinds: `p` NOERROR ttl 3600 (Set) · `t` NOERROR ttl 1 (Set) · `q` NOERROR ttl 5 (Set) · `m` NOERROR ttl 2^32−1 (Set; lifetime = the
    configured maximum, ten years at most) · `n` NXDOMAIN, 30 s (SetIfAbsent) · `f` REFUSED, 5 s (SetIfAbsent)
  out : `x` | `s` | `c:<r>` | `u:<r>` | `hit:<r>` | `miss` | `w` | `v:<missed>` | `z` | `up:<n>` | `bad`
  Time is in milliseconds and advances only by `z`.
-/

inductive Kind where | p | t | m | n | f | q
  deriving DecidableEq, Repr

def Kind.ttl (cfgMax : Nat) : Kind → Nat
  | .p => 1000 * clampTtl cfgMax 3600
  | .t => 1000 * clampTtl cfgMax 1
  | .q => 1000 * clampTtl cfgMax 5
  | .m => 1000 * clampTtl cfgMax (2 ^ 32 - 1)
  | .n => 30000
  | .f => 5000

def Kind.nx : Kind → Bool
  | .n | .f => true
  | _ => false

inductive COp where
  | x (k : String)
  | h (k r : String) (kind : Kind)
  | s (k r : String) (kind : Kind)
  | g (k : String)
  | w (n : Nat)
  | v
  | z (ms : Nat)
  | r (k : String) (stores getters : Nat)
  deriving Repr

inductive COut where
  | x | s | w | z
  | c (r : String)
  | u (r : String)
  | hit (r : String)
  | miss
  | v (missed : Nat)
  | up (n : Nat)
  | bad
  deriving DecidableEq, Repr

/-- drain the backend's task buffer: the listener is called for everything queued -/
def drain [Inhabited K] : Nat → QState K V → QState K V
  | 0, s => s
  | fuel + 1, s => if s.pend.isEmpty then s else drain fuel (fire s 0)

structure CState where
  q : QState String String
  fillers : List String
  nfill : Nat

def fillerKey (i : Nat) : String := "w" ++ toString i

def writeFillers : Nat → CState → CState
  | 0, c => c
  | n + 1, c =>
    let key := fillerKey (c.nfill + 1)
    writeFillers n ⟨store c.q key "0" 3600000 false, key :: c.fillers, c.nfill + 1⟩

/-- look every filler up; returns the number of misses -/
def checkFillers : List String → QState String String → Nat × QState String String
  | [], q => (0, q)
  | key :: rest, q =>
    match get q key [] with
    | (some _, q) => checkFillers rest q
    | (none, q) => let (n, q) := checkFillers rest q; (n + 1, q)

/-- the reference run: `MemoryCache` on the quirky backend, listener calls drained after `w` -/
def convModel (cfgMax : Nat) (c : CState) : List COp → List COut
  | [] => []
  | .x k :: rest => .x :: convModel cfgMax { c with q := store c.q k "0" 0 false } rest
  | .h k r kind :: rest =>
    match get c.q k [] with
    | (some r', q) => .c r' :: convModel cfgMax { c with q := q } rest
    | (none, q) => .u r :: convModel cfgMax { c with q := store q k r (kind.ttl cfgMax) kind.nx } rest
  | .s k r kind :: rest => .s :: convModel cfgMax { c with q := store c.q k r (kind.ttl cfgMax) kind.nx } rest
  | .g k :: rest =>
    match get c.q k [] with
    | (some r', q) => .hit r' :: convModel cfgMax { c with q := q } rest
    | (none, q) => .miss :: convModel cfgMax { c with q := q } rest
  | .w n :: rest =>
    let c := writeFillers n c
    .w :: convModel cfgMax { c with q := drain (c.q.pend.length + 1) c.q } rest
  | .v :: rest =>
    let (missed, q) := checkFillers c.fillers c.q
    .v missed :: convModel cfgMax { c with q := q } rest
  | .z ms :: rest => .z :: convModel cfgMax { c with q := tick c.q ms } rest
  | .r k _ _ :: rest =>
    -- the replacing stores, and a lookup after them; request-path upstream exchanges = lookups that miss
    let q := store c.q k "0" 3600000 false
    match get q k [] with
    | (some _, q) => .up 0 :: convModel cfgMax { c with q := q } rest
    | (none, q) => .up 1 :: convModel cfgMax { c with q := q } rest

structure IState where
  i : Ideal String String
  fillers : List String
  nfill : Nat

def iwriteFillers : Nat → IState → IState
  | 0, c => c
  | n + 1, c =>
    let key := fillerKey (c.nfill + 1)
    iwriteFillers n ⟨c.i.store key "0" 3600000 false, key :: c.fillers, c.nfill + 1⟩

def icheckFillers (i : Ideal String String) : List String → Nat
  | [] => 0
  | key :: rest => (if (i.get key).isSome then 0 else 1) + icheckFillers i rest

/-- the specification: the same history on the ideal TTL map. A repeat inside the lifetime is a hit
    (and costs no upstream exchange); a negative answer is dropped only if a live entry exists; the
    keys written by `w` hit while their hour lasts; lookups concurrent with replacing stores of a
    key never go upstream. -/
def convIdeal (cfgMax : Nat) (c : IState) : List COp → List COut
  | [] => []
  | .x k :: rest => .x :: convIdeal cfgMax { c with i := c.i.store k "0" 0 false } rest
  | .h k r kind :: rest =>
    match c.i.get k with
    | some r' => .c r' :: convIdeal cfgMax c rest
    | none => .u r :: convIdeal cfgMax { c with i := c.i.store k r (kind.ttl cfgMax) kind.nx } rest
  | .s k r kind :: rest => .s :: convIdeal cfgMax { c with i := c.i.store k r (kind.ttl cfgMax) kind.nx } rest
  | .g k :: rest =>
    (match c.i.get k with | some r' => .hit r' | none => .miss) :: convIdeal cfgMax c rest
  | .w n :: rest => .w :: convIdeal cfgMax (iwriteFillers n c) rest
  | .v :: rest => .v (icheckFillers c.i c.fillers) :: convIdeal cfgMax c rest
  | .z ms :: rest => .z :: convIdeal cfgMax { c with i := { c.i with now := c.i.now + ms } } rest
  | .r k _ _ :: rest => .up 0 :: convIdeal cfgMax { c with i := c.i.store k "0" 3600000 false } rest

def convSpec (cfgMax : Nat) (ops : List COp) (outs : List COut) : Bool :=
  outs == convIdeal cfgMax ⟨Ideal.empty, [], 0⟩ ops

def kindOfStr : String → Option Kind
  | "p" => some .p | "t" => some .t | "m" => some .m | "n" => some .n | "f" => some .f | "q" => some .q | _ => none

def copOfStr (s : String) : Option COp :=
  match s.splitOn "," with
  | ["x", k] => some (.x k)
  | ["h", k, r, kind] => (kindOfStr kind).map (.h k r)
  | ["s", k, r, kind] => (kindOfStr kind).map (.s k r)
  | ["g", k] => some (.g k)
  | ["w", n] => (natOfStr n).map .w
  | ["v"] => some .v
  | ["z", ms] => (natOfStr ms).map .z
  | ["r", k, a, b] => do let a ← natOfStr a; let b ← natOfStr b; pure (.r k a b)
  | _ => none

def coutOfStr (s : String) : Option COut :=
  match s.splitOn ":" with
  | ["x"] => some .x | ["s"] => some .s | ["w"] => some .w | ["z"] => some .z
  | ["c", r] => some (.c r)
  | ["u", r] => some (.u r)
  | ["hit", r] => some (.hit r)
  | ["miss"] => some .miss
  | ["v", n] => (natOfStr n).map .v
  | ["up", n] => (natOfStr n).map .up
  | ["bad"] => some .bad
  | _ => none

def strOfCOut : COut → String
  | .x => "x" | .s => "s" | .w => "w" | .z => "z"
  | .c r => "c:" ++ r
  | .u r => "u:" ++ r
  | .hit r => "hit:" ++ r
  | .miss => "miss"
  | .v n => "v:" ++ toString n
  | .up n => "up:" ++ toString n
  | .bad => "bad"

/-- `maximum_ttl` in seconds: the default is six hours; `maxttl` configures 2^32−1 -/
def cfgMaxOf (cfg : String) : Nat := if cfg == "maxttl" then 2 ^ 32 - 1 else 21600

def runConv (case impl : String) : String × String :=
  let t := words case
  match (kvGet t "ops").bind (fun o => (o.splitOn ";").mapM copOfStr), kvGet t "cfg" with
  | some ops, some cfg =>
    let cfgMax := cfgMaxOf cfg
    let m := ";".intercalate ((convModel cfgMax ⟨QState.empty, [], 0⟩ ops).map strOfCOut)
    let v := match (impl.splitOn ";").mapM coutOfStr with
      | some outs => if convSpec cfgMax ops outs then "ok" else "viol"
      | none => "unparsed"
    (m, v)
  | _, _ => ("bad-case", "na")

end MosVerif.QCache
