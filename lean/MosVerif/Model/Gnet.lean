/-
  C13 — model of the event-driven (gnet) stream listener:
  `gnetServer.OnTraffic` and `connCtx` in app/router/server_tcp_gnet_linux.go,
  on top of gnet v2.3.6 `Conn.Next` / `Conn.InboundBuffered` (connection_unix.go).

      read:
        if cc.buffer != nil {
          if cc.readingHdr {
            hdrRemains := len(cc.buffer) - cc.readN
            b, _ := c.Next(hdrRemains)
            cc.readN += copy(cc.buffer[cc.readN:], b)
            if cc.readN < 2 { return gnet.None }
            msgLen := binary.BigEndian.Uint16(cc.buffer)
            cc.buffer = pool.GetBuf(int(msgLen)); cc.readN = 0; cc.readingHdr = false
          }
          bodyRemains := len(cc.buffer) - cc.readN
          b, _ := c.Next(bodyRemains)
          cc.readN += copy(cc.buffer[cc.readN:], b)
          if cc.readN < len(cc.buffer) { return gnet.None }
          m, err = dnsmsg.UnpackMsg(cc.buffer); cc.buffer = nil
        } else {
          hdr, _ := c.Next(2)
          if len(hdr) < 2 { cc.buffer = pool.GetBuf(2); cc.readN = copy(cc.buffer, hdr); cc.readingHdr = true; return gnet.None }
          l := int(binary.BigEndian.Uint16(hdr))
          body, _ := c.Next(l)
          if len(body) < l { cc.buffer = pool.GetBuf(l); cc.readN = copy(cc.buffer, body); cc.readingHdr = false; return gnet.None }
          m, err = dnsmsg.UnpackMsg(body)
        }
        if err != nil { return gnet.Close }
        ccr := cc.concurrentRequests.Add(1)
        if ccr > e.maxConcurrent || e.r.limiterAllowN(…) != nil { c.Write(REFUSED); cc.concurrentRequests.Add(-1) }
        else { go func() { handle; c.AsyncWrite(resp, func(){ cc.concurrentRequests.Add(-1) }) }() }
        if c.InboundBuffered() > 0 { goto read }
        return gnet.None

  The client limiter (C15's business) is taken to allow every query: a query it rejects goes through the
  very same REFUSED branch (one `c.Write`, counter restored), so it is answered exactly once as well.
  Message decoding (`dnsmsg.UnpackMsg`, C01's business) is abstracted as a predicate
  `dec` on the body bytes.  The bytes a `pool.GetBuf` buffer holds before it is written
  are modelled as zeros; the theorems in Props/C13 show they are never read.
-/
import MosVerif.Util
-- (the `gnetframes` component is dispatched by Model/GnetMulti.lean, which falls back to `run` below)
namespace MosVerif.Gnet

abbrev Bytes := List UInt8

/-- `binary.BigEndian.PutUint16(b, uint16(n))`: the two octets written (with Go's
    truncating conversion `uint16(n)`). -/
def be16 (n : Nat) : Bytes := [UInt8.ofNat (n / 256), UInt8.ofNat n]

/-- `binary.BigEndian.Uint16` of the octets `a b`. -/
def rd16 (a b : UInt8) : Nat := a.toNat * 256 + b.toNat

/-- a length-prefixed frame as it travels on the stream -/
def frame (body : Bytes) : Bytes := be16 body.length ++ body

/-! ### gnet `Conn` -/

/-- gnet v2.3.6 `(*conn).Next(n)` over the bytes currently buffered for the connection
    (`inboundBuffer` followed by the event loop's read buffer):
    `n > buffered` → nothing is returned and nothing is consumed (`io.ErrShortBuffer`);
    `n ≤ 0` → everything; otherwise exactly `n` octets.
    Returns (returned slice, what stays buffered). -/
def next (inb : Bytes) (n : Int) : Bytes × Bytes :=
  if n > (inb.length : Int) then ([], inb)
  else if n ≤ 0 then (inb, [])
  else (inb.take n.toNat, inb.drop n.toNat)

/-- `(*conn).InboundBuffered()` -/
def inboundBuffered (inb : Bytes) : Nat := inb.length

/-- `pool.GetBuf(n)`: `len = n`, contents unspecified (modelled as zeros). -/
def getBuf (n : Nat) : Bytes := List.replicate n 0

/-- `n := copy(dst[off:], src)` for `off ≤ len(dst)`: the new `dst` and `n`. -/
def goCopy (dst : Bytes) (off : Nat) (src : Bytes) : Bytes × Nat :=
  let n := min (dst.length - off) src.length
  (dst.take off ++ src.take n ++ dst.drop (off + n), n)

/-! ### `connCtx` and one pass through the `read:` label -/

/-- the reassembly part of `connCtx` -/
structure ConnCtx where
  /-- `cc.buffer` (`none` = nil) -/
  buffer : Option Bytes := none
  readN : Nat := 0
  readingHdr : Bool := false
  /-- `cc.concurrentRequests` -/
  concurrent : Nat := 0
  deriving DecidableEq, Repr

/-- How one pass from `read:` to the decode step ends. -/
inductive Read where
  /-- `return gnet.None` with a partial header / body pending -/
  | ret (cc : ConnCtx) (inb : Bytes)
  /-- `dnsmsg.UnpackMsg(body)` is reached with these bytes -/
  | msg (cc : ConnCtx) (inb : Bytes) (body : Bytes)
  /-- a slice expression out of range / `Uint16` of a short slice -/
  | panic
  deriving DecidableEq, Repr

/-- the body phase of the `cc.buffer != nil` branch (`buf` is `cc.buffer`) -/
def readBody (cc : ConnCtx) (buf : Bytes) (inb : Bytes) : Read :=
  -- bodyRemains := len(cc.buffer) - cc.readN ; b, _ := c.Next(bodyRemains)
  let nx := next inb ((buf.length : Int) - (cc.readN : Int))
  -- cc.readN += copy(cc.buffer[cc.readN:], b)
  if cc.readN > buf.length then .panic else
  let cp := goCopy buf cc.readN nx.1
  let cc := { cc with buffer := some cp.1, readN := cc.readN + cp.2 }
  if cc.readN < cp.1.length then .ret cc nx.2
  else .msg { cc with buffer := none } nx.2 cp.1

def readOne (cc : ConnCtx) (inb : Bytes) : Read :=
  match cc.buffer with
  | some buf =>
    if cc.readingHdr then
      -- hdrRemains := len(cc.buffer) - cc.readN ; b, _ := c.Next(hdrRemains)
      let nx := next inb ((buf.length : Int) - (cc.readN : Int))
      if cc.readN > buf.length then .panic else
      let cp := goCopy buf cc.readN nx.1
      let cc := { cc with buffer := some cp.1, readN := cc.readN + cp.2 }
      if cc.readN < 2 then .ret cc nx.2
      else
        match cp.1 with
        | a :: b :: _ =>
          let buf := getBuf (rd16 a b)
          readBody { cc with buffer := some buf, readN := 0, readingHdr := false } buf nx.2
        | _ => .panic
    else readBody cc buf inb
  | none =>
    let nx := next inb 2
    if nx.1.length < 2 then
      let cp := goCopy (getBuf 2) 0 nx.1
      .ret { cc with buffer := some cp.1, readN := cp.2, readingHdr := true } nx.2
    else
      match nx.1 with
      | a :: b :: _ =>
        let l := rd16 a b
        let nb := next nx.2 (l : Int)
        if nb.1.length < l then
          let cp := goCopy (getBuf l) 0 nb.1
          .ret { cc with buffer := some cp.1, readN := cp.2, readingHdr := false } nb.2
        else .msg cc nb.2 nb.1
      | _ => .panic

/-! ### `OnTraffic` -/

inductive Event where
  /-- handed to a handler goroutine (`go func() { … c.AsyncWrite(resp, …) }`) -/
  | query (body : Bytes)
  /-- answered REFUSED synchronously with `c.Write` -/
  | refused (body : Bytes)
  deriving DecidableEq, Repr

def Event.body : Event → Bytes
  | .query b => b
  | .refused b => b

def Event.isRefused : Event → Bool
  | .query _ => false
  | .refused _ => true

inductive Action where
  | none | close | panic
  /-- artefact of the model: the loop counter ran out (shown impossible) -/
  | fuel
  deriving DecidableEq, Repr

structure Out where
  cc : ConnCtx
  inb : Bytes
  evs : List Event
  act : Action
  deriving DecidableEq, Repr

/-- `OnTraffic`: the `read:` loop. `fuel` bounds the number of passes
    (`inb.length + 1` always suffices: `Sim.bad` in Lemmas/GnetRun, `gnet_refines_ref` in Props/C13). -/
def onTraffic (dec : Bytes → Bool) (max : Nat) : Nat → ConnCtx → Bytes → Out
  | 0, cc, inb => ⟨cc, inb, [], .fuel⟩
  | fuel + 1, cc, inb =>
    match readOne cc inb with
    | .panic => ⟨cc, inb, [], .panic⟩
    | .ret cc inb => ⟨cc, inb, [], .none⟩
    | .msg cc inb body =>
      if dec body = false then ⟨cc, inb, [], .close⟩
      else
        -- ccr := cc.concurrentRequests.Add(1); if ccr > e.maxConcurrent
        let ccr := cc.concurrent + 1
        let ev := if ccr > max then Event.refused body else Event.query body
        let cc := if ccr > max then cc else { cc with concurrent := ccr }
        if inboundBuffered inb > 0 then
          let r := onTraffic dec max fuel cc inb
          { r with evs := ev :: r.evs }
        else ⟨cc, inb, [ev], .none⟩

/-! ### a connection driven by segments and handler completions -/

inductive Op where
  /-- the event loop read `bs` from the socket and fires `OnTraffic` -/
  | seg (bs : Bytes)
  /-- the `j`-th pending handler finishes: its `AsyncWrite` and the callback run -/
  | rel (j : Nat)
  deriving DecidableEq, Repr

structure Conn where
  cc : ConnCtx := {}
  inb : Bytes := []
  /-- every decoded query in decoding order, with its admission decision -/
  log : List Event := []
  /-- bodies of the queries whose handlers are running, oldest first -/
  pending : List Bytes := []
  /-- responses in the order they were handed to `Write`/`AsyncWrite`: (query body, refused?) -/
  writes : List (Bytes × Bool) := []
  closed : Bool := false
  bad : Bool := false
  deriving DecidableEq, Repr

def accepted (evs : List Event) : List Bytes :=
  (evs.filter (fun e => !e.isRefused)).map Event.body

def refusedW (evs : List Event) : List (Bytes × Bool) :=
  (evs.filter Event.isRefused).map (fun e => (e.body, true))

def step (dec : Bytes → Bool) (max : Nat) (c : Conn) : Op → Conn
  | .seg bs =>
    if c.closed then c else
    let inb := c.inb ++ bs
    let r := onTraffic dec max (inb.length + 1) c.cc inb
    { c with cc := r.cc, inb := r.inb
             log := c.log ++ r.evs
             pending := c.pending ++ accepted r.evs
             writes := c.writes ++ refusedW r.evs
             closed := r.act != .none
             bad := c.bad || r.act == .panic || r.act == .fuel }
  | .rel j =>
    match c.pending[j]? with
    | none => c
    | some b =>
      { c with pending := c.pending.eraseIdx j
               writes := c.writes ++ [(b, false)]
               cc := { c.cc with concurrent := c.cc.concurrent - 1 } }

def runOps (dec : Bytes → Bool) (max : Nat) (ops : List Op) (c : Conn) : Conn :=
  ops.foldl (step dec max) c

/-- all handlers still running finish, oldest first -/
def drain (c : Conn) : Conn :=
  { c with pending := []
           writes := c.writes ++ c.pending.map (fun b => (b, false))
           cc := { c.cc with concurrent := c.cc.concurrent - c.pending.length } }

/-! ### reference semantics (written from the property text, no mode machine)

  The stream is a sequence of frames `be16 len ++ body`; `parse` cuts every complete
  frame off the front and returns what is left (an incomplete frame). -/

def parse : Bytes → List Bytes × Bytes
  | a :: b :: t =>
    if rd16 a b ≤ t.length then
      let r := parse (t.drop (rd16 a b))
      (t.take (rd16 a b) :: r.1, r.2)
    else ([], a :: b :: t)
  | s => ([], s)
termination_by s => s.length
decreasing_by simp; omega

/-- admission against the per-connection limit: with `c` handlers running, a query is
    REFUSED iff `c + 1 > max`, otherwise it is accepted and `c` grows. -/
def admission (max : Nat) : Nat → List Bytes → List Event × Nat
  | c, [] => ([], c)
  | c, f :: fs =>
    if c + 1 > max then
      let r := admission max c fs
      (.refused f :: r.1, r.2)
    else
      let r := admission max (c + 1) fs
      (.query f :: r.1, r.2)

structure Ref where
  /-- the bytes of the incomplete frame at the end of what was received -/
  rest : Bytes := []
  running : Nat := 0
  log : List Event := []
  pending : List Bytes := []
  writes : List (Bytes × Bool) := []
  closed : Bool := false
  deriving DecidableEq, Repr

def refStep (dec : Bytes → Bool) (max : Nat) (r : Ref) : Op → Ref
  | .seg bs =>
    if r.closed then r else
    let p := parse (r.rest ++ bs)
    let adm := admission max r.running (p.1.takeWhile dec)
    { r with rest := p.2, running := adm.2
             log := r.log ++ adm.1
             pending := r.pending ++ accepted adm.1
             writes := r.writes ++ refusedW adm.1
             closed := !p.1.all dec }
  | .rel j =>
    match r.pending[j]? with
    | none => r
    | some b =>
      { r with pending := r.pending.eraseIdx j
               writes := r.writes ++ [(b, false)]
               running := r.running - 1 }

def refRun (dec : Bytes → Bool) (max : Nat) (ops : List Op) (r : Ref) : Ref :=
  ops.foldl (refStep dec max) r

def refDrain (r : Ref) : Ref :=
  { r with pending := []
           writes := r.writes ++ r.pending.map (fun b => (b, false))
           running := r.running - r.pending.length }


/-! ### observables, executable spec, line protocol

  case : `max=<n> ord=<d|n> fr=<len>[x],… ops=<s<n>|r<j>>,…`
         frame i (1-based) carries DNS id i; `x` = does not decode; `s<n>` = the next n octets of the
         stream arrive as one segment; `r<j>` = the j-th running handler (0-based, oldest first) completes.
         `ord=d`: completions happen only at `r` ops (and all remaining ones at the end, oldest first);
         `ord=n`: handlers complete on their own (never over the limit), writes are compared as a multiset.
  out  : `w=<id><a|r>,… up=<ids sorted> closed=<0|1> st=<n|h|b>:<len(buffer)>:<readN>:<inbound>:<running> sh=<hash>` -/

/-- what a client / the upstream can observe of a connection -/
structure Obs where
  /-- (query id, kind) per `Write`/`AsyncWrite` in call order; kind 0 = answered, 1 = REFUSED,
      2 = another rcode, 3 = not a well-formed single frame -/
  w : List (Nat × Nat)
  /-- ids that reached the upstream, ascending -/
  up : List Nat
  closed : Bool
  deriving DecidableEq, Repr

def idOf : Bytes → Nat
  | a :: b :: _ => rd16 a b
  | _ => 0

def leW (a b : Nat × Nat) : Bool := a.1 < b.1 || (a.1 == b.1 && a.2 ≤ b.2)

def sortW (l : List (Nat × Nat)) : List (Nat × Nat) := l.mergeSort leW

def sortN (l : List Nat) : List Nat := l.mergeSort (fun a b => a ≤ b)

def obsOf (log : List Event) (writes : List (Bytes × Bool)) (closed : Bool) : Obs :=
  { w := writes.map (fun p => (idOf p.1, if p.2 then 1 else 0))
    up := sortN ((accepted log).map idOf)
    closed := closed }

structure Case where
  max : Nat
  det : Bool
  ops : List Op
  deriving Repr

/-- the abstraction of `dnsmsg.UnpackMsg` used by the driver: the harness builds frames whose third
    octet is 1 (flags of a well-formed RD query) iff they decode -/
def decB (b : Bytes) : Bool := b[2]? == some 1

/-- the expected observables: the reference semantics run to the end, every handler completed -/
def expected (c : Case) : Obs :=
  let r := refDrain (refRun decB c.max c.ops {})
  obsOf r.log r.writes r.closed

/-- The property as a decidable predicate on what was observed: every complete frame that decodes
    (up to the first one that does not) was decoded exactly once — it reached the upstream or was
    REFUSED because `max` handlers were running —, every one of them got exactly one well-formed response
    frame of the right kind, nothing else was written, and the connection was closed iff a frame failed
    to decode. -/
def spec (c : Case) (o : Obs) : Bool :=
  let e := expected c
  sortW o.w == sortW e.w && o.up == e.up && o.closed == e.closed

/-- zero-length frames are not queries (C01), `OnTraffic` fires only when octets arrived:
    the case must not contain a zero-length frame or an empty segment -/
def noEmptyRun (dec : Bytes → Bool) (max : Nat) : List Op → Ref → Bool
  | [], _ => true
  | op :: ops, r =>
    (match op with
     | .seg bs => !bs.isEmpty && (r.closed || (parse (r.rest ++ bs)).1.all (fun f => !f.isEmpty))
     | .rel _ => true) && noEmptyRun dec max ops (refStep dec max r op)

def caseOk (c : Case) : Bool := noEmptyRun decB c.max c.ops {}

/-- the model's observables -/
def modelObs (c : Case) : Obs :=
  let m := drain (runOps decB c.max c.ops {})
  obsOf m.log m.writes m.closed

/-! driver -/

def bodyOf (i len : Nat) (valid : Bool) : Bytes :=
  ([UInt8.ofNat (i / 256), UInt8.ofNat i, if valid then 1 else 0xFF] ++ List.replicate (len - 3) 0).take len

def parseFrames (s : String) : Option (List (Nat × Bool)) :=
  if s == "-" then some [] else
  (s.splitOn ",").mapM fun t =>
    if t.endsWith "x" then (natOfStr (t.dropEnd 1).toString).map (·, false)
    else (natOfStr t).map (·, true)

def streamOf (frs : List (Nat × Bool)) : Bytes :=
  (frs.zipIdx 1).flatMap fun (p, i) => frame (bodyOf i p.1 p.2)

def parseOps (s : String) (stream : Bytes) : Option (List Op) :=
  if s == "-" then some [] else
  let rec go (toks : List String) (stream : Bytes) (acc : List Op) : Option (List Op) :=
    match toks with
    | [] => some acc.reverse
    | t :: rest =>
      if t.startsWith "s" then
        match natOfStr (t.drop 1).toString with
        | some n => if n ≤ stream.length then go rest (stream.drop n) (.seg (stream.take n) :: acc) else none
        | none => none
      else if t.startsWith "r" then
        match natOfStr (t.drop 1).toString with
        | some j => go rest stream (.rel j :: acc)
        | none => none
      else none
  go (s.splitOn ",") stream []

def strOfW (det : Bool) (w : List (Nat × Nat)) : String :=
  let w := if det then w else sortW w
  if w.isEmpty then "-" else
  ",".intercalate (w.map fun (i, k) =>
    match k with
    | 0 => s!"{i}a"
    | 1 => s!"{i}r"
    | 2 => s!"{i}x"
    | _ => "bad")

def strOfNats (l : List Nat) : String :=
  if l.isEmpty then "-" else ",".intercalate (l.map toString)

def parseW (s : String) : Option (List (Nat × Nat)) :=
  if s == "-" then some [] else
  (s.splitOn ",").mapM fun t =>
    if t == "bad" then some (0, 3)
    else
      let k := if t.endsWith "a" then some 0 else if t.endsWith "r" then some 1 else if t.endsWith "x" then some 2 else none
      match k, natOfStr (t.dropEnd 1).toString with
      | some k, some i => some (i, k)
      | _, _ => none

def parseNats (s : String) : Option (List Nat) :=
  if s == "-" then some [] else (s.splitOn ",").mapM natOfStr

def mix (h x : Nat) : Nat := (h * 31 + x + 1) % 1000000007

/-- canonical view of the reassembly state: (mode, len(buffer), readN, inbound, running);
    `readN` is reported only while a buffer is held (it is stale otherwise) -/
def stView (c : Conn) : Nat × Nat × Nat × Nat × Nat :=
  match c.cc.buffer with
  | none => (0, 0, 0, c.inb.length, c.cc.concurrent)
  | some b => (if c.cc.readingHdr then 1 else 2, b.length, c.cc.readN, c.inb.length, c.cc.concurrent)

def stHash (det : Bool) (h : Nat) (c : Conn) : Nat :=
  let (m, bl, rn, il, cc) := stView c
  mix (mix (mix (mix (mix h m) bl) rn) il) (if det then cc else 0)

def runTrace (max : Nat) (det : Bool) : List Op → Conn → Nat → Conn × Nat
  | [], c, h => (c, h)
  | op :: ops, c, h =>
    let c' := step decB max c op
    let h' := match op with
      | .seg _ => if c.closed || c'.closed then h else stHash det h c'
      | .rel _ => h
    runTrace max det ops c' h'

def strOfSt (c : Conn) : String :=
  if c.closed then "closed" else
  let (m, bl, rn, il, cc) := stView c
  let ms := match m with | 0 => "n" | 1 => "h" | _ => "b"
  s!"{ms}:{bl}:{rn}:{il}:{cc}"

def run (case impl : String) : String × String :=
  let toks := words case
  match kvNat toks "max", kvGet toks "ord", (kvGet toks "fr").bind parseFrames, kvGet toks "ops" with
  | some max, some ord, some frs, some opsS =>
    if frs.any (fun p => p.1 == 0 || p.1 > 65535 || (p.2 && p.1 < 17)) || frs.length > 65535 then ("bad-case", "na") else
    match parseOps opsS (streamOf frs) with
    | none => ("bad-case", "na")
    | some ops =>
      let det := ord == "d"
      let c : Case := ⟨max, det, ops⟩
      if !caseOk c then ("bad-case", "na") else
      let (m, h) := runTrace max det ops {} 0
      let m := drain m
      let o := obsOf m.log m.writes m.closed
      let ms := s!"w={strOfW det o.w} up={strOfNats o.up} closed={strOfBool o.closed} st={strOfSt m} sh={h}"
      let itoks := words impl
      let v := match (kvGet itoks "w").bind parseW, (kvGet itoks "up").bind parseNats,
                     (kvGet itoks "closed").bind boolOfStr with
        | some w, some up, some cl => if spec c ⟨w, up, cl⟩ then "ok" else "viol"
        | _, _, _ => "unparsed"
      (ms, v)
  | _, _, _, _ => ("bad-case", "na")

end MosVerif.Gnet
