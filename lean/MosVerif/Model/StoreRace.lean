/-
  StoreRace — two concurrent `MemoryCache.Store` calls for ONE key, at the granularity of the backend calls.

  /repo/internal/cache/mem.go `Store` (after repairs 3a97998, f8fe887):

      if setNX {                                   } else {
        l.Lock(); defer l.Unlock()                   l.Lock(); defer l.Unlock()
        ok := backend.SetIfAbsent(ks, e, ttl)        backend.Set(ks, e, ttl)
        if !ok {                                   }
          if _, alive := backend.Get(ks); !alive {
            backend.Delete(ks)
            ok = backend.SetIfAbsent(ks, e, ttl) } }

  The other cache models (`Model/QCache`, `Model/MemCache`, `Model/Ttl`) treat the backend calls of one `Store`
  as ONE atomic step and name the stripe lock as the reason.  This model justifies that: every backend call is
  a step of its own, the two threads are interleaved by an arbitrary schedule, and the lock is a model
  variable.  `lockedPlain = false` is the code in which the plain branch does not take the lock (the shape of a
  realistic "optimisation"): the theorems in `Lemmas/StoreRace` show that with the lock every schedule ends
  like one of the two serial orders and a refused (set-if-absent) value never displaces the plain store's
  value, and that without it a schedule exists in which it does.

  The backend (otter) is a parameter: `Set`, `SetIfAbsent`, `Get`, `Delete` are atomic per key, an expired
  entry stays in the table until it is cleaned up and counts as present for `SetIfAbsent` (3a97998).
  Core Lean only.
-/
import MosVerif.Util
-- @component negrace MosVerif.StoreRace.runCase
namespace MosVerif.StoreRace

/-- whose value an entry carries: what was there before, the plain store's, the set-if-absent store's -/
inductive Tok where
  | init | p | n
  deriving DecidableEq, Repr

/-- the backend's slot of the key -/
inductive Slot where
  | absent
  | dead (t : Tok)      -- expired, not yet cleaned up: `Get` says not alive, `SetIfAbsent` says present
  | live (t : Tok)
  deriving DecidableEq, Repr

/-- program counter of the plain store (`setNX = false`) -/
inductive PcP where
  | lock      -- before `l.Lock()` (skipped when the branch does not lock)
  | set       -- before `backend.Set`
  | unlock    -- before the deferred `l.Unlock()`
  | done
  deriving DecidableEq, Repr

/-- program counter of the set-if-absent store (`setNX = true`) -/
inductive PcN where
  | lock
  | sia1      -- before the first `SetIfAbsent`
  | get       -- it failed: before `backend.Get`
  | del       -- not alive: before `backend.Delete`
  | sia2      -- before the second `SetIfAbsent`
  | unlock
  | done
  deriving DecidableEq, Repr

/-- lock holder -/
inductive Holder where
  | free | plain | nx
  deriving DecidableEq, Repr

structure St where
  slot : Slot
  lock : Holder
  pp : PcP
  pn : PcN
  deriving DecidableEq, Repr

def init (s0 : Slot) : St := ⟨s0, .free, .lock, .lock⟩

/-- one step of the plain store; a blocked or finished thread stutters -/
def stepP (lockedPlain : Bool) (s : St) : St :=
  match s.pp with
  | .lock =>
    if !lockedPlain then { s with pp := .set }
    else if s.lock = .free then { s with lock := .plain, pp := .set } else s
  | .set => { s with slot := .live .p, pp := .unlock }
  | .unlock => { s with lock := if lockedPlain then .free else s.lock, pp := .done }
  | .done => s

/-- one step of the set-if-absent store -/
def stepN (s : St) : St :=
  match s.pn with
  | .lock => if s.lock = .free then { s with lock := .nx, pn := .sia1 } else s
  | .sia1 =>
    match s.slot with
    | .absent => { s with slot := .live .n, pn := .unlock }
    | _ => { s with pn := .get }
  | .get =>
    match s.slot with
    | .live _ => { s with pn := .unlock }          -- alive: the value is refused
    | _ => { s with pn := .del }                   -- `!alive` (dead, or gone in the meantime)
  | .del => { s with slot := .absent, pn := .sia2 }
  | .sia2 =>
    match s.slot with
    | .absent => { s with slot := .live .n, pn := .unlock }
    | _ => { s with pn := .unlock }
  | .unlock => { s with lock := .free, pn := .done }
  | .done => s

/-- `false` = the plain store takes a step, `true` = the set-if-absent store -/
def step (lockedPlain : Bool) (s : St) (who : Bool) : St :=
  if who then stepN s else stepP lockedPlain s

def run (lockedPlain : Bool) (sched : List Bool) (s : St) : St := sched.foldl (step lockedPlain) s

def finished (s : St) : Bool := s.pp == .done && s.pn == .done

/-- the two serial orders -/
def serialPN (lockedPlain : Bool) (s0 : Slot) : St :=
  run lockedPlain ([false, false, false] ++ [true, true, true, true, true, true]) (init s0)
def serialNP (lockedPlain : Bool) (s0 : Slot) : St :=
  run lockedPlain ([true, true, true, true, true, true] ++ [false, false, false]) (init s0)

/-! ### finite enumeration (used by the proofs: every state is in the list) -/
def allTok : List Tok := [.init, .p, .n]
def allSlot : List Slot := .absent :: (allTok.map .dead ++ allTok.map .live)
def allPcP : List PcP := [.lock, .set, .unlock, .done]
def allPcN : List PcN := [.lock, .sia1, .get, .del, .sia2, .unlock, .done]
def allHolder : List Holder := [.free, .plain, .nx]
def allSt : List St :=
  allSlot.flatMap fun sl => allHolder.flatMap fun h => allPcP.flatMap fun p => allPcN.map fun n => ⟨sl, h, p, n⟩

/-! ### line protocol: component `negrace`
  case : `rounds=<n> workers=<w> seed=<s>`  — the harness replays, `rounds` times per worker with fresh names, the
  history "expired leftover in the backend; a positive (plain) and a negative (set-if-absent) store of the name
  complete at the same moment; look the name up", on the real `cacheCtl` over a real `MemoryCache`.
  out  : `displaced=<lookups that did not return the positive answer> setupbad=<rounds whose leftover was served>` -/
def runCase (_case impl : String) : String × String :=
  let it := words impl
  let v :=
    if impl == "panic" then "viol:panic"
    else match kvNat it "displaced", kvNat it "setupbad" with
      | some d, some sb =>
        if sb ≠ 0 then "viol:C08:expired-entry-served"
        else if d ≠ 0 then "viol:C08:error-response-displaced-live-positive"
        else "ok"
      | _, _ => "unparsed"
  ("displaced=0 setupbad=0", v)

end MosVerif.StoreRace
