/-
  C11 — model of `internal/domain_matcher`: the label trie (`sub_domain.go`),
  `FullMatcher` (`full.go`), `RegexpMatcher` (`regexp.go`, the regular
  expression engine itself is a parameter), `MixMatcher` (`mix.go`) and
  `LoadMixMatcherFromReader` (`loader_helper.go`).

  A `labelNode` owns two Go maps, `s map[[24]byte]*labelNode` for labels shorter
  than 24 octets and `l map[string]*labelNode` for the others.  They are
  modelled as ONE association list whose key type is the disjoint sum of the
  two key types (`Key.short` / `Key.long`).  A nil child pointer (terminal
  entry) is `T.leaf`, a non-nil child is `T.node children`.

  Core Lean only.
-/
import MosVerif.Model.Text
namespace MosVerif.Trie
open MosVerif.Text

/-! ### association lists standing for Go maps -/

/-- `v, ok := m[k]` -/
def lookup {κ α : Type} [DecidableEq κ] (k : κ) : List (κ × α) → Option α
  | [] => none
  | (k', v) :: rest => if k' = k then some v else lookup k rest

/-- `m[k] = v` -/
def store {κ α : Type} [DecidableEq κ] (k : κ) (v : α) : List (κ × α) → List (κ × α)
  | [] => [(k, v)]
  | (k', v') :: rest => if k' = k then (k, v) :: rest else (k', v') :: store k v rest

/-! ### keys -/

/-- number of octets of the array key (Facts.dm_keyWidth). -/
def keyWidth : Nat := 24

inductive Key where
  /-- key of the map `s`: the `[24]byte` array -/
  | short (k : List UInt8)
  /-- key of the map `l`: `string(label)` -/
  | long (s : List UInt8)
  deriving DecidableEq, Repr

/-- `shortLabelKey`: `copy(key[:23], label); key[23] = byte(len(label))`
    on a zero-initialised `[24]byte`. -/
def shortLabelKey (label : Label) : List UInt8 :=
  let head := label.take (keyWidth - 1)
  head ++ List.replicate (keyWidth - 1 - head.length) 0 ++ [UInt8.ofNat label.length]

/-- which map and which key a label uses: `if l < 24 { n.s[shortLabelKey(label)] } else { n.l[string(label)] }`
    (the same test is repeated in `AddLeaf`, `GetOrAddChild` and `GetChild`; Facts pins all three). -/
def keyOf (label : Label) : Key :=
  if label.length < keyWidth then .short (shortLabelKey label) else .long label

/-! ### the trie -/

inductive T where
  /-- a nil `*labelNode`: the entry ends here -/
  | leaf : T
  /-- a non-nil `*labelNode` with its (two) maps -/
  | node (children : List (Key × T)) : T

abbrev Children := List (Key × T)

/-- `labelNode.GetChild`: `none` = `(nil, false)`, `some .leaf` = `(nil, true)`,
    `some (.node c)` = `(child, true)`. -/
def getChild (n : Children) (label : Label) : Option T := lookup (keyOf label) n

/-- `labelNode.AddLeaf`: `n.s[key] = nil` / `n.l[string(label)] = nil`. -/
def addLeaf (n : Children) (label : Label) : Children := store (keyOf label) .leaf n

/-- `labelNode.GetOrAddChild`: returns the node after the call and the child's maps.
    An existing non-nil child is returned as is; otherwise (absent, or present as a
    nil leaf!) a fresh empty node is stored. -/
def getOrAddChild (n : Children) (label : Label) : Children × Children :=
  match lookup (keyOf label) n with
  | some (.node c) => (n, c)
  | _ => (store (keyOf label) (.node []) n, [])

/-- the `for i := len(labels) - 1; i >= 0; i--` loop of `DomainMatcher.Add` on
    `currentNode`; the list holds `labels[i], labels[i-1], …, labels[0]`, so
    `i == 0` is `rest = []`.  The child returned by `GetOrAddChild` is mutated
    through its pointer by the rest of the walk; here the updated child is stored back. -/
def addWalk : List Label → Children → Children
  | [], n => n
  | label :: rest, n =>
    if label.length == 0 then addWalk rest n                 -- `continue`
    else if rest.isEmpty then addLeaf n label                -- `i == 0`: is leaf
    else
      match getChild n label with
      | some .leaf => n                                      -- a parent domain is a leaf: `return`
      | _ =>
        let r := getOrAddChild n label
        store (keyOf label) (.node (addWalk rest r.2)) r.1

/-- `DomainMatcher` -/
structure DM where
  root : Children := []
  rootMatched : Bool := false

/-- `DomainMatcher.Add(labels)`.  `hasLabel` is true iff some label is non-empty
    (the early `return` inside the loop happens only after `hasLabel = true`). -/
def DM.add (m : DM) (labels : List Label) : DM :=
  if m.rootMatched then m
  else
    let hasLabel := labels.any (fun l => l.length != 0)
    if !hasLabel then { root := [], rootMatched := true }
    else { m with root := addWalk labels.reverse m.root }

/-- the second loop of `DomainMatcher.Match` (labels last to first). -/
def matchWalk : List Label → Children → Bool
  | [], _ => false
  | label :: rest, n =>
    match getChild n label with
    | none => false                                          -- child == nil, ok == false
    | some .leaf => true                                     -- child == nil, ok == true
    | some (.node c) => matchWalk rest c

/-- `Match` on an already scanned label list. -/
def DM.matchLabels (m : DM) (labels : List Label) : Bool :=
  m.rootMatched || matchWalk labels.reverse m.root

/-- `DomainMatcher.Match(n)` on the wire form. -/
def DM.match (m : DM) (n : Bytes) : Bool :=
  if m.rootMatched then true
  else match scan n with
    | none => false                                          -- scanner.Err() != nil
    | some labels => matchWalk labels.reverse m.root

/-! ### FullMatcher, RegexpMatcher -/

/-- the regular-expression engine: which patterns compile, and `r.Match(text)`. -/
structure Re where
  compiles : Bytes → Bool
  isMatch : Bytes → Bytes → Bool

/-- `MixMatcher`: `full.m` and `regexp.m` are Go maps used as sets (insertion
    order is not observable); they are kept as duplicate-free lists. -/
structure Mix where
  full : List Bytes := []
  domain : DM := {}
  regexp : List Bytes := []

/-- `FullMatcher.Add` -/
def fullAdd (m : List Bytes) (n : Bytes) : List Bytes := if m.contains n then m else n :: m

/-- `FullMatcher.Match` -/
def fullMatch (m : List Bytes) (n : Bytes) : Bool := m.contains n

/-- `RegexpMatcher.Add`; `none` = compile error. -/
def regexpAdd (re : Re) (m : List Bytes) (exp : Bytes) : Option (List Bytes) :=
  if m.contains exp then some m                              -- dup
  else if re.compiles exp then some (exp :: m) else none

/-- `RegexpMatcher.Match` -/
def regexpMatch (re : Re) (m : List Bytes) (n : Bytes) : Bool :=
  if m.length == 0 then false
  else match toReadable n with
    | none => false
    | some text => m.any (fun r => re.isMatch r text)

/-! ### MixMatcher -/

def typDomain : Bytes := [100, 111, 109, 97, 105, 110]       -- "domain"
def typFull : Bytes := [102, 117, 108, 108]                  -- "full"
def typRegexp : Bytes := [114, 101, 103, 101, 120, 112]      -- "regexp"

/-- `MixMatcher.Add(rule)`; `none` = an error is returned (the matcher is unchanged). -/
def Mix.add (re : Re) (m : Mix) (rule : Bytes) : Option Mix :=
  let (typ, exp) := match indexByte 58 rule with
    | some i => (rule.take i, rule.drop (i + 1))
    | none => ([], rule)
  if typ = [] ∨ typ = typDomain then
    match parseReadable exp with
    | none => none
    | some b =>
      let data := toLowerName b.data
      match scan data with
      | none => some m                                       -- not reached: the builder's data always scans
      | some labels => some { m with domain := m.domain.add labels }
  else if typ = typFull then
    match parseReadable exp with
    | none => none
    | some b => some { m with full := fullAdd m.full (toLowerName b.data) }
  else if typ = typRegexp then
    match regexpAdd re m.regexp exp with
    | none => none
    | some r => some { m with regexp := r }
  else none                                                  -- invalid rule type

/-- `MixMatcher.Match` -/
def Mix.match (re : Re) (m : Mix) (n : Bytes) : Bool :=
  fullMatch m.full n || m.domain.match n || regexpMatch re m.regexp n

/-- `LoadMixMatcherFromReader` on the lines delivered by `bufio.Scanner`:
    returns the matcher after the call and whether the call returned nil. -/
def loadLines (re : Re) : Mix → List Bytes → Mix × Bool
  | m, [] => (m, true)
  | m, line :: rest =>
    match loaderLine line with
    | none => loadLines re m rest                            -- `continue`
    | some b =>
      match m.add re b with
      | none => (m, false)                                   -- `return err`
      | some m' => loadLines re m' rest

end MosVerif.Trie
