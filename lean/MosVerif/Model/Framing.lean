/-
  C13 — model of the goroutine stream listener's reader and of the response framing:
  `dnsutils.ReadMsgFromTCP` (internal/dnsutils/net_io.go), the loop of
  `tcpServer.handleConn` (app/router/server_tcp.go; the DoT listener is the same function
  behind `tls.Server`), and `packRespTCP` (app/router/server_utils.go).

      // ReadMsgFromTCP
      hdrBuf := pool.GetBuf(2);  nr, err := io.ReadFull(c, hdrBuf); n += nr; if err != nil { return nil, n, err }
      length := binary.BigEndian.Uint16(hdrBuf)
      msgBuf := pool.GetBuf(int(length)); nr, err = io.ReadFull(c, msgBuf); n += nr; if err != nil { return nil, n, err }
      m, err := dnsmsg.UnpackMsg(msgBuf); return m, n, err

      // handleConn
      for {
        m, n, err := dnsutils.ReadMsgFromTCP(br)
        if err != nil { return }
        cc := concurrent.Add(1)
        if cc > s.maxConcurrent || s.r.limiterAllowN(...) != nil { c.Write(REFUSED); concurrent.Add(-1) }
        else { go func() { s.handleReq(c, m, rc) /* one c.Write */; concurrent.Add(-1) }() }
      }

      // packRespTCP
      b := pool.GetBuf(2 + m.Len()); n, err := m.Pack(b[2:], compression, 65535)
      binary.BigEndian.PutUint16(b, uint16(n)); b = b[:2+n]

  The connection's read side is a list of chunks: what successive `Read` calls return
  (TCP segments as re-chunked by the 1 KiB `bufio.Reader`), then EOF.
-/
import MosVerif.Model.Gnet
-- @component tcpframes MosVerif.Framing.run
namespace MosVerif.Framing
open MosVerif.Gnet

abbrev Chunks := List Bytes

/-- result of `io.ReadFull(c, buf)` -/
inductive RF where
  | ok (data : Bytes) (rest : Chunks)
  /-- `io.EOF`: nothing was read -/
  | eof
  /-- `io.ErrUnexpectedEOF` after `n` octets -/
  | unexpected (n : Nat)
  deriving DecidableEq, Repr

/-- `io.ReadFull` for `n` more octets, `acc` already read: `Read` returns what the first chunk
    holds (at most what is asked for); an empty chunk is a `Read` that returned `0, nil`.
    With nothing to read (`len(buf) = 0`) it returns at once without calling `Read`. -/
def readFull : Chunks → Nat → Bytes → RF
  | cs, 0, acc => .ok acc cs
  | [], _ + 1, acc => if acc.isEmpty then .eof else .unexpected acc.length
  | c :: cs, n + 1, acc =>
    if c.length ≤ n + 1 then readFull cs (n + 1 - c.length) (acc ++ c)
    else .ok (acc ++ c.take (n + 1)) (c.drop (n + 1) :: cs)

/-- result of `ReadMsgFromTCP`: a message, or an error after `n` octets
    (`invalid` = the octets were read but `UnpackMsg` failed) -/
inductive ReadMsg where
  | msg (body : Bytes) (rest : Chunks)
  | invalid (n : Nat)
  | err (n : Nat)
  | panic
  deriving DecidableEq, Repr

def readMsgFromTCP (dec : Bytes → Bool) (cs : Chunks) : ReadMsg :=
  match readFull cs 2 [] with
  | .eof => .err 0
  | .unexpected n => .err n
  | .ok hdr rest =>
    match hdr with
    | [a, b] =>
      match readFull rest (rd16 a b) [] with
      | .eof => .err 2
      | .unexpected n => .err (2 + n)
      | .ok body rest => if dec body then .msg body rest else .invalid (2 + body.length)
    | _ => .panic

inductive End where
  /-- the read loop ended with `ReadMsgFromTCP`'s error after `n` octets of the last message
      (`n = 0`: clean EOF on a frame boundary) -/
  | closed (n : Nat)
  | invalid
  | panic
  | fuel
  deriving DecidableEq, Repr

/-- the loop of `handleConn`. `running` = value of `concurrent` when the next message is read;
    `done i` = how many handlers finished while message `i` was being read (any schedule);
    `lim i` = the resource limiter rejects query `i`. -/
def handleConn (dec : Bytes → Bool) (max : Nat) (done : Nat → Nat) (lim : Nat → Bool) :
    Nat → Nat → Chunks → Nat → List Event × End
  | 0, _, _, _ => ([], .fuel)
  | fuel + 1, i, cs, running =>
    match readMsgFromTCP dec cs with
    | .panic => ([], .panic)
    | .err n => ([], .closed n)
    | .invalid _ => ([], .invalid)
    | .msg body rest =>
      let running := running - done i
      let cc := running + 1
      if cc > max || lim i then
        let r := handleConn dec max done lim fuel (i + 1) rest running
        (.refused body :: r.1, r.2)
      else
        let r := handleConn dec max done lim fuel (i + 1) rest cc
        (.query body :: r.1, r.2)

/-- `packRespTCP` given the octets `m.Pack` produced (`n = body.length`):
    prefix `uint16(n)` big-endian, then the body, in ONE buffer. -/
def packRespTCP (body : Bytes) : Bytes := be16 body.length ++ body


/-! ### observables, executable spec, line protocol (real listeners over loopback)

  case : `proto=<tcp|tls|gnet> max=<n> hold=<0|1> fr=<len>[x],… segs=<n>,…`
         the client writes the stream of frames in the given segments (TCP_NODELAY, paced);
         `hold=1`: the upstream answers nothing until the client has seen every REFUSED it is due
         (so exactly the first `max` queries are in flight), `hold=0`: it answers at once, out of order.
  out  : `w=<id><a|r|x>|bad,… (sorted) up=<ids> closed=<0|1>` re-framed from the octets read back. -/

/-- what the client and the upstream see when the handlers complete only after the whole stream was read -/
def obsOfEvents (evs : List Event) (closed : Bool) : Obs :=
  obsOf evs (refusedW evs ++ (accepted evs).map (fun b => (b, false))) closed

/-- the goroutine listener's observables: no handler completes while the stream is read, the limiter allows -/
def tcpObs (max : Nat) (chunks : Chunks) : Obs :=
  let r := handleConn decB max (fun _ => 0) (fun _ => false) (chunks.flatten.length + 1) 0 chunks 0
  obsOfEvents r.1 (r.2 == .invalid)

/-- the property on the observed outcome, from the reference semantics of the whole stream:
    the segmentation must not matter -/
def spec (max : Nat) (stream : Bytes) (o : Obs) : Bool :=
  Gnet.spec ⟨max, false, [.seg stream]⟩ o

def splitSegs : List Nat → Bytes → Option (List Bytes)
  | [], _ => some []
  | n :: ns, s => if n = 0 || n > s.length then none else (splitSegs ns (s.drop n)).map (s.take n :: ·)

def run (case impl : String) : String × String :=
  let toks := words case
  match kvGet toks "proto", kvNat toks "max", (kvGet toks "fr").bind parseFrames, (kvGet toks "segs").bind parseNats with
  | some proto, some max, some frs, some segN =>
    if frs.any (fun p => p.1 == 0 || p.1 > 65535 || (p.2 && p.1 < 17)) || frs.length > 65535 then ("bad-case", "na") else
    let stream := streamOf frs
    match splitSegs segN stream with
    | none => ("bad-case", "na")
    | some segs =>
      let sent := segs.flatten
      let o : Option Obs :=
        if proto == "gnet" then
          let c : Case := ⟨max, false, segs.map Op.seg⟩
          if caseOk c then some (modelObs c) else none
        else some (tcpObs max segs)
      match o with
      | none => ("bad-case", "na")
      | some o =>
        let ms := s!"w={strOfW false o.w} up={strOfNats o.up} closed={strOfBool o.closed}"
        let itoks := words impl
        let v := match (kvGet itoks "w").bind parseW, (kvGet itoks "up").bind parseNats,
                       (kvGet itoks "closed").bind boolOfStr with
          | some w, some up, some cl => if spec max sent ⟨w, up, cl⟩ then "ok" else "viol"
          | _, _, _ => "unparsed"
        (ms, v)
  | _, _, _, _ => ("bad-case", "na")

end MosVerif.Framing
