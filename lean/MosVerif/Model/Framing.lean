/-
  C13 — model of the goroutine stream listener's reader and of the response framing:
  `dnsutils.ReadMsgFromTCP` (internal/dnsutils/net_io.go), the loop of
  `tcpServer.handleConn` (app/router/server_tcp.go; the DoT listener is the same function
  behind `tls.Server`), and `packRespTCP` (app/router/server_utils.go).

      // ReadMsgFromTCP
      hdrBuf := pool.GetBuf(2);  nr, err := io.ReadFull(c, hdrBuf); n += nr; if err != nil { return nil, n, err }
      length := binary.BigEndian.Uint16(hdrBuf)
      msgBuf := pool.GetBuf(int(length)); nr, err = io.ReadFull(c, msgBuf); n += nr; if err != nil { return nil, n, err }
      m, err := dnsmsg.UnpackMsg(msgBuf); return m, n, err

      // handleConn
      for {
        m, n, err := dnsutils.ReadMsgFromTCP(br)
        if err != nil { return }
        cc := concurrent.Add(1)
        if cc > s.maxConcurrent || s.r.limiterAllowN(...) != nil { c.Write(REFUSED); concurrent.Add(-1) }
        else { go func() { s.handleReq(c, m, rc) /* one c.Write */; concurrent.Add(-1) }() }
      }

      // packRespTCP
      b := pool.GetBuf(2 + m.Len()); n, err := m.Pack(b[2:], compression, 65535)
      binary.BigEndian.PutUint16(b, uint16(n)); b = b[:2+n]

  The connection's read side is a list of chunks: what successive `Read` calls return
  (TCP segments as re-chunked by the 1 KiB `bufio.Reader`), then EOF.
-/
import MosVerif.Model.Gnet
-- @component tcpframes MosVerif.Framing.run
namespace MosVerif.Framing
open MosVerif.Gnet

abbrev Chunks := List Bytes

/-- result of `io.ReadFull(c, buf)` -/
inductive RF where
  | ok (data : Bytes) (rest : Chunks)
  /-- `io.EOF`: nothing was read -/
  | eof
  /-- `io.ErrUnexpectedEOF` after `n` octets -/
  | unexpected (n : Nat)
  deriving DecidableEq, Repr

/-- `io.ReadFull` for `n` more octets, `acc` already read: `Read` returns what the first chunk
    holds (at most what is asked for); an empty chunk is a `Read` that returned `0, nil`.
    With nothing to read (`len(buf) = 0`) it returns at once without calling `Read`. -/
def readFull : Chunks → Nat → Bytes → RF
  | cs, 0, acc => .ok acc cs
  | [], _ + 1, acc => if acc.isEmpty then .eof else .unexpected acc.length
  | c :: cs, n + 1, acc =>
    if c.length ≤ n + 1 then readFull cs (n + 1 - c.length) (acc ++ c)
    else .ok (acc ++ c.take (n + 1)) (c.drop (n + 1) :: cs)

/-- result of `ReadMsgFromTCP`: a message, or an error after `n` octets
    (`invalid` = the octets were read but `UnpackMsg` failed) -/
inductive ReadMsg where
  | msg (body : Bytes) (rest : Chunks)
  | invalid (n : Nat)
  | err (n : Nat)
  | panic
  deriving DecidableEq, Repr

def readMsgFromTCP (dec : Bytes → Bool) (cs : Chunks) : ReadMsg :=
  match readFull cs 2 [] with
  | .eof => .err 0
  | .unexpected n => .err n
  | .ok hdr rest =>
    match hdr with
    | [a, b] =>
      match readFull rest (rd16 a b) [] with
      | .eof => .err 2
      | .unexpected n => .err (2 + n)
      | .ok body rest => if dec body then .msg body rest else .invalid (2 + body.length)
    | _ => .panic

inductive End where
  /-- the read loop ended with `ReadMsgFromTCP`'s error after `n` octets of the last message
      (`n = 0`: clean EOF on a frame boundary) -/
  | closed (n : Nat)
  | invalid
  | panic
  | fuel
  deriving DecidableEq, Repr

/-- the loop of `handleConn`. `running` = value of `concurrent` when the next message is read;
    `done i` = how many handlers finished while message `i` was being read (any schedule);
    `lim i` = the resource limiter rejects query `i`. -/
def handleConn (dec : Bytes → Bool) (max : Nat) (done : Nat → Nat) (lim : Nat → Bool) :
    Nat → Nat → Chunks → Nat → List Event × End
  | 0, _, _, _ => ([], .fuel)
  | fuel + 1, i, cs, running =>
    match readMsgFromTCP dec cs with
    | .panic => ([], .panic)
    | .err n => ([], .closed n)
    | .invalid _ => ([], .invalid)
    | .msg body rest =>
      let running := running - done i
      let cc := running + 1
      if cc > max || lim i then
        let r := handleConn dec max done lim fuel (i + 1) rest running
        (.refused body :: r.1, r.2)
      else
        let r := handleConn dec max done lim fuel (i + 1) rest cc
        (.query body :: r.1, r.2)

/-! ### the idle deadline, seen in time

      for {
        c.SetReadDeadline(time.Now().Add(s.idleTimeout))   // absolute deadline, armed before EVERY message
        m, n, err := dnsutils.ReadMsgFromTCP(br)            // blocks (several socket reads) until the frame is whole
        if err != nil {
          if n == 0 && concurrent.Load() > 0 && errors.Is(err, os.ErrDeadlineExceeded) { continue } // busy: re-arm
          return                                              // i/o timeout: the connection is closed
        }
        …
      }

  Times are natural numbers (any unit). `arr` lists, for each successive frame, the time at which its last
  octet is available to the reader. (The `continue` on a timeout with queries in flight only makes the listener
  more patient; `idleLoop` models the stricter behaviour, and under `paced` no timeout happens at all.)
  The deadline is NOT re-armed between the socket reads of one message:
  what must stay below `idle` is the time from the top of the loop (the previous message was complete, or the
  connection was accepted) to the completion of the message — not merely every pause between two segments. -/

/-- the loop of `handleConn` in time: `now` = time at the top of the loop, `lag j` = whatever time passes
    between the completion of message `j` and the next pass through the top of the loop (dispatch, scheduling);
    returns how many messages are read before the deadline fires (all of them: `arr.length`). -/
def idleLoop (idle : Nat) (lag : Nat → Nat) : Nat → Nat → List Nat → Nat
  | _, _, [] => 0
  | j, now, a :: as =>
    -- deadline := now + idle; the message is complete at `a`
    if a > now + idle then 0 else 1 + idleLoop idle lag (j + 1) (Nat.max now a + lag j) as

/-- the loop with the `continue` branch: the reader of message `j` learns of its first octet at `p` and has
    the whole message at `a`; `busy d` = `concurrent.Load() > 0` at time `d` (any behaviour of the handlers).
    When the deadline `d = now + idle` passes before the message is whole: nothing of it was read (`n == 0`,
    i.e. `p > d`) and queries are in flight ⇒ `continue` (the loop comes round at `d`, the deadline is re-armed);
    otherwise the connection is closed — in particular a partial message (`p ≤ d`) still times out.
    `fuel` bounds the number of passes (the model's only artefact). -/
def idleLoopB (idle : Nat) (busy : Nat → Bool) (lag : Nat → Nat) : Nat → Nat → Nat → List (Nat × Nat) → Nat
  | 0, _, _, _ => 0
  | _ + 1, _, _, [] => 0
  | fuel + 1, j, now, (p, a) :: as =>
    if a ≤ now + idle then 1 + idleLoopB idle busy lag fuel (j + 1) (Nat.max now a + lag j) as
    else if p > now + idle && busy (now + idle) then idleLoopB idle busy lag fuel j (now + idle) ((p, a) :: as)
    else 0

/-- a client that either keeps the pace or — while it still waits for answers (`busy` at every instant since
    the previous message) — sends its next message in one piece, whenever it likes -/
def pacedB (idle : Nat) (busy : Nat → Bool) : Nat → List Nat → Prop
  | _, [] => True
  | prev, a :: as => (a ≤ prev + idle ∨ ∀ t, prev ≤ t → t < a → busy t = true) ∧ pacedB idle busy a as

/-- passes of the loop that suffice for `idleLoopB` on whole messages arriving at `arr` -/
def fuelFor : Nat → List Nat → Nat
  | _, [] => 1
  | now, a :: as => (a - now) + 1 + fuelFor 0 as

/-- the gnet idle timer with its new callback: when it fires (`idle` after the last reset) and queries are in
    flight it re-arms itself, otherwise it closes the connection; `OnTraffic` resets it. -/
def gnetIdleB (idle : Nat) (busy : Nat → Bool) : Nat → Nat → List Nat → Nat
  | 0, _, _ => 0
  | _ + 1, _, [] => 0
  | fuel + 1, last, t :: ts =>
    if t < last + idle then 1 + gnetIdleB idle busy fuel (Nat.max last t) ts
    else if busy (last + idle) then gnetIdleB idle busy fuel (last + idle) (t :: ts)
    else 0

/-- every pause is shorter than `idle`, or the connection has queries in flight during the whole pause -/
def gapsBelowB (idle : Nat) (busy : Nat → Bool) : Nat → List Nat → Prop
  | _, [] => True
  | prev, t :: ts => (t < prev + idle ∨ ∀ u, prev ≤ u → u ≤ t → busy u = true) ∧ gapsBelowB idle busy t ts

/-- what a client has to respect: every message is complete at most `idle` after the previous one was
    (`prev` = previous completion; initially the time the connection was accepted) -/
def paced (idle : Nat) : Nat → List Nat → Prop
  | _, [] => True
  | prev, a :: as => a ≤ prev + idle ∧ paced idle a as

/-- the variant a reviewer seeded (deadline re-armed only when the bufio buffer is empty at the top of the
    loop): `(a, buffered)` = completion time of the message and whether some of its octets were already
    buffered when the loop came round; `dl` = the deadline currently armed. -/
def idleLoopGuarded (idle : Nat) : Nat → Nat → List (Nat × Bool) → Nat
  | _, _, [] => 0
  | dl, now, (a, buffered) :: as =>
    let dl := if buffered then dl else now + idle
    if a > dl then 0 else 1 + idleLoopGuarded idle dl (Nat.max now a) as

/-- the gnet listener: `cc.idleTimer.Reset(e.idleTimeout)` at the top of every `OnTraffic`; the timer closes
    the connection `idle` after the last reset. `segs` = arrival times of the segments; returns how many
    segments are processed before the timer fires. -/
def gnetIdle (idle : Nat) : Nat → List Nat → Nat
  | _, [] => 0
  | last, t :: ts => if t ≥ last + idle then 0 else 1 + gnetIdle idle (Nat.max last t) ts

/-- every pause between consecutive segments (and before the first one) is shorter than `idle` -/
def gapsBelow (idle : Nat) : Nat → List Nat → Prop
  | _, [] => True
  | prev, t :: ts => t < prev + idle ∧ gapsBelow idle t ts

/-- `packRespTCP` given the octets `m.Pack` produced (`n = body.length`):
    prefix `uint16(n)` big-endian, then the body, in ONE buffer. -/
def packRespTCP (body : Bytes) : Bytes := be16 body.length ++ body


/-! ### observables, executable spec, line protocol (real listeners over loopback)

  case : `proto=<tcp|tls|gnet> max=<n> hold=<0|1|2|3|4> fr=<len>[x],… segs=<n>,…`
         the client writes the stream of frames in the given segments (TCP_NODELAY, paced);
         `hold=1`: the upstream answers nothing until the client has seen every REFUSED it is due
         (so exactly the first `max` queries are in flight), `hold=0`: it answers at once, out of order; `hold=4 gaps=<ms>,… base=<b>`: timed segmentation against listeners with idle_timeout 1 s — real pauses
         between the segments, every message complete within 0.65 × idle of the previous one (ids are reported
         relative to `base`); judged exactly like `hold=0`; `hold=3 wave=<k1>`: the first k1 queries in one burst, held, then all released and answered,
         then the rest ping-pong; `hold=2`: ping-pong, the client sends the next
         frame only after it has read the response to the previous one (segments do not span frames).
  out  : `w=<id><a|r|x>|bad,… (sorted) up=<ids> closed=<0|1>` re-framed from the octets read back. -/

/-- what the client and the upstream see when the handlers complete only after the whole stream was read -/
def obsOfEvents (evs : List Event) (closed : Bool) : Obs :=
  obsOf evs (refusedW evs ++ (accepted evs).map (fun b => (b, false))) closed

/-- the goroutine listener's observables: no handler completes while the stream is read, the limiter allows -/
def tcpObs (max : Nat) (chunks : Chunks) : Obs :=
  let r := handleConn decB max (fun _ => 0) (fun _ => false) (chunks.flatten.length + 1) 0 chunks 0
  obsOfEvents r.1 (r.2 == .invalid)

/-- the property on the observed outcome, from the reference semantics of the whole stream:
    the segmentation must not matter -/
def spec (max : Nat) (stream : Bytes) (o : Obs) : Bool :=
  Gnet.spec ⟨max, false, [.seg stream]⟩ o

/-- admission against the limit when `done i` handlers finish while message `i` is read and the limiter
    rejects query `i` iff `lim i` (reference semantics, from the property text: a query is REFUSED iff
    `max` handlers are running when it is decoded — or the limiter objects —, otherwise it is handled) -/
def admissionS (max : Nat) (done : Nat → Nat) (lim : Nat → Bool) : Nat → Nat → List Bytes → List Event
  | _, _, [] => []
  | i, running, f :: fs =>
    if running - done i + 1 > max || lim i then .refused f :: admissionS max done lim (i + 1) (running - done i) fs
    else .query f :: admissionS max done lim (i + 1) (running - done i + 1) fs

/-- what must be observed of the goroutine listener for the stream `sent` under the completion schedule `done` -/
def expectedS (max : Nat) (done : Nat → Nat) (sent : Bytes) : Obs :=
  let fs := (parse sent).1
  obsOfEvents (admissionS max done (fun _ => false) 0 0 (fs.takeWhile decB)) (!fs.all decB)

def specS (max : Nat) (done : Nat → Nat) (sent : Bytes) (o : Obs) : Bool :=
  let e := expectedS max done sent
  sortW o.w == sortW e.w && o.up == e.up && o.closed == e.closed

def tcpObsS (max : Nat) (done : Nat → Nat) (chunks : Chunks) : Obs :=
  let r := handleConn decB max done (fun _ => false) (chunks.flatten.length + 1) 0 chunks 0
  obsOfEvents r.1 (r.2 == .invalid)

/-- two waves: the first `k1` queries arrive in a burst and are held (nothing completes), all of them
    complete before query `k1` is read, later queries go ping-pong -/
def waveDone (k1 : Nat) (i : Nat) : Nat := if i < k1 then 0 else if i = k1 then k1 else 1

/-- ping-pong: the client sends the next frame only after it has read the previous response, so the
    previous handler has finished when the next message is read (`done = 1`) -/
def tcpObsPP (max : Nat) (chunks : Chunks) : Obs :=
  let r := handleConn decB max (fun _ => 1) (fun _ => false) (chunks.flatten.length + 1) 0 chunks 0
  obsOfEvents r.1 (r.2 == .invalid)

/-- ping-pong, from the property text: never more than one query in flight, so (for a limit ≥ 1) every
    frame that decodes is answered by the upstream, none is REFUSED -/
def ppExpected (sent : Bytes) : Obs :=
  let fs := (parse sent).1
  obsOfEvents ((fs.takeWhile decB).map Event.query) (!fs.all decB)

def ppSpec (sent : Bytes) (o : Obs) : Bool :=
  let e := ppExpected sent
  sortW o.w == sortW e.w && o.up == e.up && o.closed == e.closed

/-- the gnet listener in ping-pong: the handler of a frame completes right after the segment that
    completes the frame (segments do not span frame boundaries) -/
def ppOps : List Bytes → Nat → List Nat → List Op
  | [], _, _ => []
  | s :: segs, pos, bounds =>
    let pos := pos + s.length
    if bounds.contains pos then .seg s :: .rel 0 :: ppOps segs pos bounds else .seg s :: ppOps segs pos bounds

def frameBounds (frs : List (Nat × Bool)) : List Nat :=
  (frs.foldl (fun (acc : List Nat × Nat) p => ((acc.2 + 2 + p.1) :: acc.1, acc.2 + 2 + p.1)) ([], 0)).1

def splitSegs : List Nat → Bytes → Option (List Bytes)
  | [], _ => some []
  | n :: ns, s => if n = 0 || n > s.length then none else (splitSegs ns (s.drop n)).map (s.take n :: ·)

def run (case impl : String) : String × String :=
  -- timed scripts (hold=4) whose pauses came out longer than intended are not judged
  if impl == "notjudged" then ("notjudged", "na") else
  let toks := words case
  match kvGet toks "proto", kvNat toks "max", (kvGet toks "fr").bind parseFrames, (kvGet toks "segs").bind parseNats,
        kvNat toks "hold" with
  | some proto, some max, some frs, some segN, some hold =>
    if frs.any (fun p => p.1 == 0 || p.1 > 65535 || (p.2 && p.1 < 17)) || frs.length > 65535 then ("bad-case", "na") else
    let stream := streamOf frs
    match splitSegs segN stream with
    | none => ("bad-case", "na")
    | some segsAll =>
      -- `pclose=<n>`: after the first n segments (ending inside a frame, nothing in flight) the client pauses for
      -- longer than the idle timeout: the listener closes the connection (see `idleLoopB`: `p ≤ d < a`)
      let pclose := kvNat toks "pclose"
      let segs := match pclose with | some n => segsAll.take n | none => segsAll
      let sent := segs.flatten
      let pp := hold == 2
      let wave := hold == 3
      let k1 := (kvNat toks "wave").getD 0
      let gops : List Op :=
        if pp then ppOps segs 0 (frameBounds frs)
        else if wave then
          match segs with
          | [] => []
          | b :: rest => .seg b :: (List.replicate k1 (Op.rel 0) ++ rest.flatMap (fun s => [Op.seg s, Op.rel 0]))
        else segs.map Op.seg
      let gc : Case := ⟨max, false, gops⟩
      let o : Option Obs :=
        if pp && max == 0 then none
        else if proto == "gnet" then
          if caseOk gc then some (modelObs gc) else none
        else some (if pp then tcpObsPP max segs else if wave then tcpObsS max (waveDone k1) segs else tcpObs max segs)
      match o with
      | none => ("bad-case", "na")
      | some o =>
        -- `lost=<i>`: query i was still at the upstream when the listener closed the connection on the half-sent
        -- frame (n > 0): it was forwarded, its answer went down with the connection
        let lost := (kvNat toks "lost").getD 0
        let o := if pclose.isSome then { o with closed := true, w := o.w.filter (fun p => p.1 != lost) } else o
        let judge (o' : Obs) : Bool :=
          if pclose.isSome then
            o'.closed && sortW o'.w == sortW o.w && o'.up == o.up
          else if proto == "gnet" then Gnet.spec gc o'
          else if pp then ppSpec sent o'
          else if wave then specS max (waveDone k1) sent o'
          else spec max sent o'
        let ms := s!"w={strOfW false o.w} up={strOfNats o.up} closed={strOfBool o.closed}"
        let itoks := words impl
        let v := match (kvGet itoks "w").bind parseW, (kvGet itoks "up").bind parseNats,
                       (kvGet itoks "closed").bind boolOfStr with
          | some w, some up, some cl => if judge ⟨w, up, cl⟩ then "ok" else "viol"
          | _, _, _ => "unparsed"
        (ms, v)
  | _, _, _, _, _ => ("bad-case", "na")

end MosVerif.Framing
