/-
  C18 — model of the close protocol of the upstream transports (internal/upstream/transport, connpool,
  the `connTracker` of the https upstream in internal/upstream/upstream.go).

  Every transport keeps, under one lock, a `closed` flag and the set of connections it tracks; a dial
  runs outside the lock and registers its result under the lock:

    reuse  ReuseConnTransport: `conns`/`idleConns`; every exchange without an idle connection dials its own
           (asyncDial); the dial goroutine checks `t.closed` before `t.conns[rc] = ..` and otherwise closes the
           new connection and reports ErrClosedTransport; releaseConn checks `t.closed` and closes; Close marks
           closed, closes every tracked connection, cancels the dial context.  A caller whose context is done
           leaves the worker/dial goroutine running; it releases the connection later.
           The https upstream's `connTracker` (track / close) is the same protocol without an idle set;
           net/http's own pooling is abstracted as "one connection per concurrent exchange".
    pipe   PipelineTransport over connpool.Pool: one shared dialing call, connections shared by the exchanges;
           every query takes one of the 65536 wire ids of its connection (`nextQid`); a connection without ids left
           is not picked any more (`Status().Available`) but stays in the pool until it is closed — the pool forgets,
           without closing, only what reports `Status().Closed` — and closes itself when its last query is done;
           Pool.Close marks closed, cancels the dialing calls (their waiters fail at once), closes busy and idle
           connections; `dialingCall.dial` closes a connection that arrives after the pool was closed.
    quic   QuicTransport: one connection `t.c`, one shared `dialingCall`; Close marks closed, cancels, closes
           `t.c`; runDialingCall closes a late connection and fails the waiting calls.

  The model takes one step per operation of a harness script (an exchange starts, a dial returns, the server
  answers, a caller's context is cancelled, the idle time-out passes, Close).  A dial is `stubborn` if its
  DialContext ignores the cancellation of its context (this is how a dial that completes after Close is
  produced); an ordinary dial returns an error as soon as Close cancels the transport's context.
  Connection ids are the ids of the exchanges whose dial produced them.
-/
import MosVerif.Util
-- @component closeproto MosVerif.Close.runCase
namespace MosVerif.Close

inductive Kind where
  | reuse | pipe | quic
  deriving DecidableEq, Repr

inductive Res where
  | ok | err | ctx
  deriving DecidableEq, Repr

/-- where the goroutine working for an exchange currently is -/
inductive Loc where
  | none
  | dial (d : Nat)
  | conn (c : Nat)
  deriving DecidableEq, Repr

structure Conn where
  id : Nat
  /-- the socket is open -/
  isOpen : Bool
  /-- in the transport's connection set -/
  tracked : Bool
  /-- reuse: in `idleConns` -/
  idle : Bool
  /-- pipe: wire ids (`nextQid`) the connection has left; a pipelined connection that has none left is never
      picked again (`Status().Available`) and closes itself when its last query is done (`deleteQueueC`) -/
  left : Nat
  deriving DecidableEq, Repr

structure Dial where
  id : Nat
  stubborn : Bool
  deriving DecidableEq, Repr

structure Ex where
  id : Nat
  /-- what the caller got; `none`: the call has not returned yet -/
  res : Option Res
  loc : Loc
  deriving DecidableEq, Repr

structure St where
  kind : Kind
  closed : Bool := false
  conns : List Conn := []
  dials : List Dial := []
  exs : List Ex := []
  /-- number of DialContext calls so far -/
  ndials : Nat := 0
  /-- exchanges still blocked right after the first Close -/
  atClose : Option (List Nat) := none
  deriving DecidableEq, Repr

inductive Op where
  | start (e : Nat) (stubborn : Bool)
  | dialOk (e : Nat)
  | dialErr (e : Nat)
  | reply (e : Nat)
  | cancel (e : Nat)
  | timer
  | close
  /-- udp upstream only: the server answers with TC=1, the exchange goes on over the TCP leg
      (`udpWithFallback`); the caller still waits, so the close protocol's state is unchanged. -/
  | trunc (e : Nat)
  /-- pipe, manual scripts: answered exchanges use up the wire ids of the live connection until `k` are left -/
  | burn (k : Nat)
  deriving DecidableEq, Repr

def St.hasEx (s : St) (e : Nat) : Bool := s.exs.any (·.id == e)
def St.hasDial (s : St) (d : Nat) : Bool := s.dials.any (·.id == d)
def St.blocked (s : St) : List Nat := (s.exs.filter (·.res.isNone)).map (·.id)

/-- a connection an exchange may be put on: reuse needs an open idle one, pipe/quic any open tracked one -/
def usable (k : Kind) (c : Conn) : Bool :=
  c.isOpen && c.tracked && (k != .reuse || c.idle) && (k != .pipe || decide (0 < c.left))

/-- a pipelined connection carries 16-bit wire ids and never reuses one (`nextQid` 0..65535) -/
def idSpace : Nat := 65536

/-- fail the waiters of dial `d` (callers still blocked get an error; every goroutine leaves the dial) -/
def failWaiters (d : Nat) (exs : List Ex) : List Ex :=
  exs.map fun x => if x.loc = .dial d then { x with res := x.res.or (some .err), loc := .none } else x

def startOp (s : St) (e : Nat) (stub : Bool) : St :=
  if s.hasEx e then s
  else if s.closed then { s with exs := s.exs ++ [⟨e, some .err, .none⟩] }
  else
    match s.conns.find? (usable s.kind) with
    | some c =>
      { s with conns := s.conns.map (fun x => if x.id = c.id then { x with idle := false, left := x.left - 1 } else x)
               exs := s.exs ++ [⟨e, none, .conn c.id⟩] }
    | none =>
      match (if s.kind = .reuse then none else s.dials.head?) with
      | some d => { s with exs := s.exs ++ [⟨e, none, .dial d.id⟩] }
      | none => { s with dials := s.dials ++ [⟨e, stub⟩], ndials := s.ndials + 1
                         exs := s.exs ++ [⟨e, none, .dial e⟩] }

def dialOkOp (s : St) (d : Nat) : St :=
  if !s.hasDial d then s
  else
    let dials := s.dials.filter (·.id != d)
    if s.closed then
      -- late dial: the new connection is closed at once and never tracked; the waiters fail
      { s with dials := dials, conns := s.conns ++ [⟨d, false, false, false, 0⟩], exs := failWaiters d s.exs }
    else
      -- reuse: a caller that gave up leaves the connection to the pool (idle)
      let abandoned := s.kind = .reuse && s.exs.any (fun x => x.loc = .dial d && x.res.isSome)
      { s with dials := dials
               conns := s.conns ++ [⟨d, true, true, abandoned,
                          idSpace - (s.exs.filter (fun x => x.loc = .dial d && x.res.isNone)).length⟩]
               exs := s.exs.map fun x =>
                 if x.loc = .dial d then
                   (if x.res.isSome then { x with loc := .none } else { x with loc := .conn d })
                 else x }

def dialErrOp (s : St) (d : Nat) : St :=
  if !s.hasDial d then s
  else { s with dials := s.dials.filter (·.id != d), exs := failWaiters d s.exs }

def replyOp (s : St) (e : Nat) : St :=
  match s.exs.find? (·.id == e) with
  | some x =>
    match x.loc with
    | .conn c =>
      if s.conns.any (fun k => k.id == c && k.isOpen) then
        { s with exs := s.exs.map (fun y => if y.id = e then { y with res := y.res.or (some .ok), loc := .none } else y)
                 conns := if s.kind = .reuse
                          then s.conns.map (fun k => if k.id = c then { k with idle := true } else k)
                          else s.conns }
      else s
    | _ => s
  | none => s

def cancelOp (s : St) (e : Nat) : St :=
  { s with exs := s.exs.map fun x =>
      if x.id = e && x.res.isNone then
        { x with res := some .ctx, loc := if s.kind = .reuse then x.loc else .none }
      else x }

/-- the idle time-out passes while no caller is blocked -/
def timerOp (s : St) : St :=
  if !s.blocked.isEmpty then s
  else match s.kind with
    | .quic => s
    | .reuse => { s with conns := s.conns.map fun c => if c.idle && c.tracked then { c with isOpen := false } else c }
    | .pipe => { s with conns := s.conns.map fun c => if c.tracked then { c with isOpen := false } else c }

def closeOp (s : St) : St :=
  if s.closed then s
  else
    let gone (d : Nat) : Bool := s.dials.any (fun x => x.id == d && (!x.stubborn || s.kind == .pipe))
    let exs := s.exs.map fun x =>
      match x.loc with
      | .conn _ => { x with res := x.res.or (some .err), loc := .none }
      | .dial d => if gone d then { x with res := x.res.or (some .err), loc := .none } else x
      | .none => x
    { s with closed := true
             conns := s.conns.map fun c => if c.tracked then { c with isOpen := false } else c
             dials := s.dials.filter (·.stubborn)
             exs := exs
             atClose := some ((exs.filter (·.res.isNone)).map (·.id)) }

/-- pipe: the answered exchanges of a `burn` take wire ids of the usable connection until `k` are left
    (only while no caller is blocked and no dial is pending) -/
def burnOp (s : St) (k : Nat) : St :=
  if !s.blocked.isEmpty || !s.dials.isEmpty || s.kind != .pipe then s
  else match s.conns.find? (usable .pipe) with
    | some c =>
      if k ≤ c.left then
        { s with conns := s.conns.map (fun x => if x.id = c.id then { x with left := k } else x) }
      else s
    | none => s

/-- pipe: a connection without wire ids closes itself as soon as no query is in flight on it
    (`deleteQueueC`: `eol := c.nextQid > 65535 && len(c.queue) == 0`) -/
def sweep (s : St) : St :=
  if s.kind = .pipe then
    { s with conns := s.conns.map fun c =>
        if c.left = 0 && !(s.exs.any (fun x => x.res.isNone && x.loc == .conn c.id))
        then { c with isOpen := false } else c }
  else s

def step (s : St) : Op → St
  | .start e b => startOp s e b
  | .dialOk d => dialOkOp s d
  | .dialErr d => dialErrOp s d
  | .reply e => sweep (replyOp s e)
  | .cancel e => sweep (cancelOp s e)
  | .burn k => sweep (burnOp s k)
  | .timer => timerOp s
  | .close => closeOp s
  | .trunc _ => s

def run (s : St) (ops : List Op) : St := ops.foldl step s

def init (k : Kind) : St := { kind := k }

/-! ### scripts of the harness
  `auto`: real dialers — a dial that was just started completes at once, there are no stubborn dials, the idle
  time-out is not exercised, and the harness closes the upstream (once more) at the end of the script. -/

def expand (auto : Bool) : Op → List Op
  | .start e b => if auto then [.start e false, .dialOk e] else [.start e b]
  | .dialOk d => if auto then [] else [.dialOk d]
  | .dialErr d => if auto then [] else [.dialErr d]
  | .timer => if auto then [] else [.timer]
  | .burn k => if auto then [] else [.burn k]
  | op => [op]

/-- in auto mode the harness closes the upstream once more at the end of every script -/
def fullOps (auto : Bool) (ops : List Op) : List Op := if auto then ops ++ [.close] else ops

/-- epilogue of a manual script: once the transport is closed, every dial that is still pending returns a
    connection (a late dial). -/
def epilogue (s : St) : St :=
  if s.closed then run s (s.dials.map (fun d => Op.dialOk d.id)) else s

def runScript (k : Kind) (auto : Bool) (ops : List Op) : St :=
  epilogue (run (init k) ((fullOps auto ops).flatMap (expand auto)))

/-! ### observations and the property as a decidable predicate -/

structure Obs where
  /-- per exchange, in id order: "ok" | "err" | "ctx" | "pend" -/
  res : List (Nat × String)
  /-- number of Close calls that returned, or `none` if one did not (hang/panic) -/
  closes : Option Nat
  /-- connections still open at the end -/
  openConns : Nat
  /-- exchanges still blocked after the first Close had settled -/
  atClose : List Nat
  deriving DecidableEq, Repr

def startId : Op → Option Nat | .start e _ => some e | _ => none
/-- the script uses a dialer that ignores the cancellation of its context -/
def isStubStart : Op → Bool | .start _ true => true | _ => false

/-- written from the property text.  For a script that closes the transport:
    every Close returns (also the repeated ones); no exchange is left hanging at the end; an exchange that is
    started after the Close fails; an exchange that was started before the Close and was not answered before
    it does not succeed; no connection is left open — including those of dials that complete after the Close;
    and unless the script uses a dialer that ignores its context, nothing is blocked once Close has returned. -/
def spec (auto : Bool) (ops0 : List Op) (o : Obs) : Bool :=
  let ops := fullOps auto ops0
  let ncl := (ops.filter (· == .close)).length
  let before := ops.takeWhile (· != .close)
  let after := ops.dropWhile (· != .close)
  let hasClose := ops.contains .close
  let closesOk := o.closes == some ncl
  if !hasClose then closesOk
  else
    closesOk &&
    o.res.all (fun p => p.2 != "pend") &&
    (after.filterMap startId).all (fun e => (before.filterMap startId).contains e ||
        o.res.all (fun p => p.1 != e || p.2 == "err" || p.2 == "ctx")) &&
    (before.filterMap startId).all (fun e => before.contains (.reply e) ||
        o.res.all (fun p => p.1 != e || p.2 != "ok")) &&
    o.openConns == 0 &&
    (ops.any isStubStart || o.atClose.isEmpty)

def strOfRes : Option Res → String
  | none => "pend" | some .ok => "ok" | some .err => "err" | some .ctx => "ctx"

def insertSorted (p : Nat × String) : List (Nat × String) → List (Nat × String)
  | [] => [p]
  | q :: rest => if p.1 ≤ q.1 then p :: q :: rest else q :: insertSorted p rest

def sortRes (l : List (Nat × String)) : List (Nat × String) := l.foldr insertSorted []

def sortNat (l : List Nat) : List Nat := (sortRes (l.map (fun n => (n, "")))).map (·.1)

def obsOf (ncloses : Nat) (s : St) : Obs :=
  { res := sortRes (s.exs.map fun x => (x.id, strOfRes x.res))
    closes := some ncloses
    openConns := (s.conns.filter (·.isOpen)).length
    atClose := sortNat (s.atClose.getD []) }

/-! ### line protocol
  case: `k=<reuse|pipe|quic> auto=<0|1> ops=<op>,...` (further tokens are for the harness);
        op: s<e> S<e> (stubborn dialer) d<e> f<e> r<e> c<e> t C T<e> (truncated UDP reply, udp upstream)
            B<k> (pipe: answered exchanges until the connection has k wire ids left)
  out : `res=<e>:<r>,.. cl=<n|hang> open=<n> atc=<ids|-> dials=<n|->` -/

def kindOfStr : String → Option Kind
  | "reuse" => some .reuse | "pipe" => some .pipe | "quic" => some .quic | _ => none

def opOfStr (t : String) : Option Op :=
  match t.toList with
  | ['t'] => some .timer
  | ['C'] => some .close
  | c :: rest =>
    match natOfStr (String.ofList rest) with
    | some n =>
      match c with
      | 's' => some (.start n false) | 'S' => some (.start n true)
      | 'd' => some (.dialOk n) | 'f' => some (.dialErr n)
      | 'r' => some (.reply n) | 'c' => some (.cancel n) | 'T' => some (.trunc n) | 'B' => some (.burn n)
      | _ => none
    | none => none
  | [] => none

/-- `L` (quic: the peer's stream limit is reached) is not an event of the close protocol: an exchange that waits
    for stream credit is an exchange waiting on its connection — it ends with its context (`c<e>`) or with the
    connection (`C`), and the connection stays in the transport's hands meanwhile. -/
def opsOfStr (s : String) : Option (List Op) :=
  if s == "-" then some [] else ((s.splitOn ",").filter (· != "L")).mapM opOfStr

def strOfNats (l : List Nat) : String :=
  if l.isEmpty then "-" else ",".intercalate (l.map toString)

def strOfResList (l : List (Nat × String)) : String :=
  if l.isEmpty then "-" else ",".intercalate (l.map fun p => s!"{p.1}:{p.2}")

def strOfObs (o : Obs) (dials : Option Nat) : String :=
  let cl := match o.closes with | some n => toString n | none => "hang"
  let d := match dials with | some n => toString n | none => "-"
  s!"res={strOfResList o.res} cl={cl} open={o.openConns} atc={strOfNats o.atClose} dials={d}"

def resOfStr (s : String) : Option (List (Nat × String)) :=
  if s == "-" then some [] else
    (s.splitOn ",").mapM fun t =>
      match t.splitOn ":" with
      | [a, b] => (natOfStr a).map (fun n => (n, b))
      | _ => none

def natsOfStr (s : String) : Option (List Nat) :=
  if s == "-" then some [] else (s.splitOn ",").mapM natOfStr

def obsOfStr (s : String) : Option Obs := do
  let toks := words ((s.splitOn " ## ").headD "")
  let res ← (kvGet toks "res").bind resOfStr
  let cl ← kvGet toks "cl"
  let op ← kvNat toks "open"
  let atc ← (kvGet toks "atc").bind natsOfStr
  pure ⟨res, natOfStr cl, op, atc⟩

def runCase (case impl : String) : String × String :=
  let toks := words case
  match (kvGet toks "k").bind kindOfStr, (kvGet toks "auto").bind boolOfStr, (kvGet toks "ops").bind opsOfStr with
  | some k, some auto, some ops =>
    let s := runScript k auto ops
    let ncl := ((fullOps auto ops).filter (· == .close)).length
    let m := strOfObs (obsOf ncl s) (if auto || (kvGet toks "stall") == some "1" then none else some s.ndials)
    let v := match obsOfStr impl with
      | some o => if spec auto ops o then "ok" else "viol"
      | none => if impl == "panic" then "viol:panic" else "unparsed"
    (m, v)
  | _, _, _ => ("bad-case", "na")

end MosVerif.Close
