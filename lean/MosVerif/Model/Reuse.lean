/-
  C06 — model of `ReuseConnTransport` (internal/upstream/transport/reuse_transport.go):
  the one-query-at-a-time (no pipelining) TCP/DoT transport, its pool of reusable
  connections, the per-exchange worker goroutine, the dial goroutine, the idle timer.

  The model is a transition system.  A *step* is one mutex-protected region or one
  blocking operation of one goroutine; an arbitrary `List Act` is an arbitrary
  interleaving of all goroutines (callers, workers, dial goroutines, idle timers,
  `Close`, the upstream server).  A step that is not enabled in the current state
  leaves the state unchanged, so every list of actions is a legal schedule.

      goroutine                      steps
      ---------------------------    --------------------------------------------------
      caller of exchange e           start, getIdle (one iteration of the `for c := range
        (ExchangeContext)            t.idleConns` loop incl. `exitIdle`; when `retry > 5` the
                                     pool is not consulted and the attempt dials), recvRes
                                     (`case r := <-resChan`, retry decision), giveUp
                                     (`case <-ctx.Done()` in asyncDial / exchangeConnCtx)
      dial goroutine of e            dialDone (DialContext returns; newReusableConn),
        (asyncDial's go func)        dialExit (rc.exitIdle(); t.m{closed? conns[rc]}),
                                     dialDeliver (the final select: hand rc to the caller,
                                     or `releaseConn(rc, nil)` when the caller is gone),
                                     dialFail (same select with rc == nil)
      worker of one attempt          workerWrite (SetDeadline + Write), workerReadOk /
        (exchangeConnCtx's go func)  workerReadErr (ReadMsgFromTCP), workerPost
                                     (`resChan <- res`), workerReadPart (a partial Read),
                                     workerRelA (`rc.close()` or
                                     `rc.enterIdle()`), workerRelB (t.m{closed? delete /
                                     idleConns[rc] = ...})
      idle timer of connection c     idleTimer (`closeIfIdle`; may fire at any moment — a
                                     superset of the real timer's behaviour — except, and
                                     this is assumption A1, between `newReusableConn` and
                                     the dial goroutine's `rc.exitIdle()`, two adjacent
                                     calls; `stepCoreG true` drops A1, see
                                     `C06.early_timer_panics`)
      Close                          tClose
      ctx of exchange e              cancel
      upstream server                srvReply (one reply per query, in order; `good =
                                     false`: a complete frame that does not decode),
                                     srvAbort (closes the connection)

  Every query is written with a per-connection wire id (`nextQid`, `exchangeConn`); a frame
  whose id differs from the id of the query just written fails the exchange
  (`errUnexpectedRespID`), so the connection is closed instead of reused.

  The client side of a connection is `pending` (queries written for which no complete frame
  has been consumed yet, oldest first) and `halfRead` (the reader has consumed a proper part
  of a frame: `workerReadPart`, one `Read` inside `io.ReadFull`).  The server side is `owed`
  (queries received and not answered yet, with their wire ids), `inbuf` (complete frames
  sent and not consumed yet — the FIFO byte stream) and `sentLog` (every frame ever sent).
  The server answers the oldest owed query (`srvReply`, the frame carries the wire id of
  that query and is labelled with the exchange it answers), may send any earlier frame
  again (`srvDup`: duplicated / extra frames), and — only in the adversarial variant
  `stepCoreG _ true` — may send arbitrary frames with arbitrary ids and contents
  (`srvStray`: a lying server).  A read consumes the oldest frame of `inbuf`.

  Observable events are appended to `hist`; the specification (`spec`, below) is a
  monitor over that history only and is written from the text of the property.
-/
import MosVerif.Util
-- @component reuse MosVerif.Reuse.run
-- @component reusestress MosVerif.Reuse.runStress
namespace MosVerif.Reuse

/-- function update -/
def upd {α : Type} (f : Nat → α) (i : Nat) (a : α) : Nat → α := fun j => if j = i then a else f j

/-- What `exchangeConn` returned: a decoded message (identified by the nonce of the query
    it answers) or an error. -/
inductive Res where
  | ok (q : Nat)
  | err
  deriving DecidableEq, Repr

/-- The goroutine that currently owns a connection, and where it is. -/
inductive Worker where
  /-- dial goroutine of exchange `e` between `newReusableConn` and `rc.exitIdle()` -/
  | fresh (e : Nat)
  /-- dial goroutine of exchange `e` between `t.conns[rc] = …` and its final `select` -/
  | hold (e : Nat)
  /-- worker of attempt `att` of exchange `e` before / in `c.c.Write` -/
  | write (e att : Nat)
  /-- … in `ReadMsgFromTCP`; `qid` = the wire id the query was written with -/
  | read (e att qid : Nat)
  /-- … before `resChan <- res` -/
  | post (e att : Nat) (r : Res)
  /-- in `releaseConn` before `rc.close()` / `rc.enterIdle()` (`ok = (err == nil)`) -/
  | relA (ok : Bool)
  /-- in `releaseConn` before `t.m.Lock()` -/
  | relB (ok : Bool)
  deriving DecidableEq, Repr

/-- a complete frame on the wire: its DNS id, the exchange whose query it answers (what the
    scripted server's nonce identifies), and whether it decodes -/
structure Frame where
  id : Nat
  q : Nat
  good : Bool
  deriving DecidableEq, Repr

structure Conn where
  /-- `reusableConn.serving` -/
  serving : Bool
  /-- `reusableConn.closed` -/
  closed : Bool
  /-- `Close` was called on the underlying `net.Conn` (by `rc.close`, `closeIfIdle` or
      `ReuseConnTransport.Close`) -/
  netClosed : Bool
  /-- the server closed its end -/
  peerClosed : Bool
  /-- queries written to the connection for which no complete frame was consumed yet -/
  pending : List Nat
  /-- `reusableConn.nextQid` (a `uint16` in Go; wrap-around after 65536 queries on one
      connection is outside the model) -/
  nextQid : Nat
  /-- server: queries received and not answered yet, with their wire ids -/
  owed : List (Nat × Nat)
  /-- complete frames sent by the server and not consumed by the client yet -/
  inbuf : List Frame
  /-- every frame the server sent on this connection -/
  sentLog : List Frame
  /-- the reader has consumed a proper part of a frame -/
  halfRead : Bool
  worker : Option Worker
  deriving Repr

def Conn.fresh : Conn := ⟨false, false, false, false, [], 0, [], [], [], false, none⟩

inductive CPhase where
  | fresh
  /-- at the top of the `for` loop of `ExchangeContext`, about to call `getIdleConn` -/
  | get
  /-- in the `select` of `asyncDial` -/
  | dialing
  /-- in the `select` of `exchangeConnCtx` for connection `c` (`new = isNewConn`) -/
  | wait (c : Nat) (new : Bool)
  | done
  deriving DecidableEq, Repr

inductive DPhase where
  | none
  /-- in `t.opts.DialContext` -/
  | dialing
  /-- `rc == nil`, before the final `select` -/
  | failed
  | gone
  deriving DecidableEq, Repr

structure Caller where
  phase : CPhase
  /-- `retry`; it also names the attempt (one `resChan` per attempt) -/
  retry : Nat
  /-- `ctx` is done -/
  cancelled : Bool
  dial : DPhase
  deriving Repr

def Caller.fresh : Caller := ⟨.fresh, 0, false, .none⟩

/-- How an exchange ended. -/
inductive RetK where
  /-- returned a message; `q` = nonce carried by the message -/
  | ok (q : Nat)
  | err
  /-- returned `context.Cause(ctx)` -/
  | ctx
  deriving DecidableEq, Repr

/-- Observable events (what the scripted server, the fake `net.Conn` and the callers see). -/
inductive Event where
  /-- `DialContext` produced connection `c` -/
  | dial (c : Nat)
  /-- connection `c` was handed to (the worker of) exchange `q` -/
  | use (c q : Nat)
  /-- the server received query `q` on `c`, carrying wire id `i` -/
  | wr (c q i : Nat)
  /-- the client consumed from `c` a complete decodable frame with wire id `i` that answers
      query `q` -/
  | rd (c q i : Nat)
  /-- the client consumed a complete frame that does not decode -/
  | bad (c : Nat)
  /-- a `Write`/`Read` of the client on `c` failed -/
  | err (c : Nat)
  /-- the client closed `c` -/
  | cl (c : Nat)
  /-- `ReuseConnTransport.Close` -/
  | tclose
  /-- exchange `e` returned -/
  | ret (e : Nat) (r : RetK)
  deriving DecidableEq, Repr

inductive Fault where
  /-- `panic("call exitIdle on a busy connection")` -/
  | exitIdleBusy
  /-- `panic("call enterIdle on a idle connection")` -/
  | enterIdleIdle
  /-- a connection was handed to an exchange while another goroutine still owned it -/
  | twoOwners
  deriving DecidableEq, Repr

structure State where
  /-- `t.closed` -/
  tclosed : Bool
  /-- `t.idleConns` -/
  idle : List Nat
  /-- `t.conns` -/
  all : List Nat
  /-- number of connections dialled so far (they are named 0, 1, …) -/
  nconn : Nat
  conn : Nat → Conn
  caller : Nat → Caller
  /-- `resChan` of attempt `att` of exchange `e` (buffered, capacity 1) -/
  chan : Nat → Nat → Option Res
  fault : Option Fault
  hist : List Event

def State.init : State :=
  ⟨false, [], [], 0, fun _ => Conn.fresh, fun _ => Caller.fresh, fun _ _ => none, none, []⟩

inductive Act where
  | start (e : Nat)
  | cancel (e : Nat)
  | getIdle (e : Nat) (pick : Option Nat)
  | recvRes (e : Nat)
  | giveUp (e : Nat)
  | dialDone (e : Nat) (ok : Bool)
  | dialExit (c : Nat)
  | dialDeliver (c : Nat) (toCaller : Bool)
  | dialFail (e : Nat) (toCaller : Bool)
  | workerWrite (c : Nat) (fail : Bool)
  | workerReadPart (c : Nat)
  | workerReadOk (c : Nat)
  | workerReadErr (c : Nat)
  | workerPost (c : Nat)
  | workerRelA (c : Nat)
  | workerRelB (c : Nat)
  | idleTimer (c : Nat)
  | tClose
  | srvReply (c : Nat) (good : Bool)
  /-- the server sends the `k`-th frame it ever sent on `c` once more -/
  | srvDup (c k : Nat)
  /-- (adversarial variant only) the server sends an arbitrary frame -/
  | srvStray (c : Nat) (f : Frame)
  | srvAbort (c : Nat)
  deriving Repr

namespace State

def setConn (s : State) (c : Nat) (k : Conn) : State := { s with conn := upd s.conn c k }
def setCaller (s : State) (e : Nat) (k : Caller) : State := { s with caller := upd s.caller e k }
def emit (s : State) (ev : Event) : State := { s with hist := s.hist ++ [ev] }

/-- `c.c.Close()` -/
def netClose (s : State) (c : Nat) : State :=
  if (s.conn c).netClosed then s
  else (s.setConn c { s.conn c with netClosed := true }).emit (.cl c)

/-- `reusableConn.close` -/
def rcClose (s : State) (c : Nat) : State :=
  if (s.conn c).closed then s
  else (s.setConn c { s.conn c with closed := true }).netClose c

/-- the exchange returns to its caller -/
def finish (s : State) (e : Nat) (r : RetK) : State :=
  (s.setCaller e { s.caller e with phase := .done }).emit (.ret e r)

/-- `exchangeConnCtx`: start the worker goroutine of the current attempt on `c` and wait. -/
def spawn (s : State) (e c : Nat) (new : Bool) : State :=
  ((s.setCaller e { s.caller e with phase := .wait c new }).setConn c
    { s.conn c with worker := some (.write e (s.caller e).retry) }).emit (.use c e)

end State

/-- the dial goroutine has created the connection and not yet called `rc.exitIdle()` -/
def beforeExitIdle : Option Worker → Bool
  | some (.fresh _) => true
  | _ => false

/-- One atomic step (of a transport that has not panicked). `racy = true` drops assumption A1
    (the idle timer of a connection cannot fire before the dial goroutine's `exitIdle`);
    `adv = true` lets the server send arbitrary frames (`srvStray`). -/
def stepCoreG (racy adv : Bool) (s : State) (a : Act) : State :=
  match a with
  | .start e =>
    match (s.caller e).phase with
    | .fresh => s.setCaller e { s.caller e with phase := .get }
    | _ => s
  | .cancel e => s.setCaller e { s.caller e with cancelled := true }
  | .getIdle e pick =>
    match (s.caller e).phase with
    | .get =>
      if decide ((s.caller e).retry > 5) then
        -- `if retry <= 5 { c, err = t.getIdleConn() … }` is skipped: the last attempt always
        -- dials; neither the idle set nor t.closed is looked at here
        s.setCaller e { s.caller e with phase := .dialing, dial := .dialing }
      else if s.tclosed then s.finish e .err       -- ErrClosedTransport
      else
        match pick with
        | none =>
          -- the range loop found nothing: asyncDial
          if s.idle = [] then s.setCaller e { s.caller e with phase := .dialing, dial := .dialing } else s
        | some c =>
          if c ∈ s.idle then
            let s := { s with idle := s.idle.filter (· != c) }        -- delete(t.idleConns, c)
            let k := s.conn c
            -- c.exitIdle()
            if k.closed then { s with all := s.all.filter (· != c) }  -- delete(t.conns, c); continue
            else if k.serving then { s with fault := some .exitIdleBusy }
            else
              let s := s.setConn c { k with serving := true }
              if k.netClosed then { s with all := s.all.filter (· != c) }  -- SetReadDeadline failed
              else if k.worker.isSome then { s with fault := some .twoOwners }
              else s.spawn e c false
          else s
    | _ => s
  | .recvRes e =>
    let k := s.caller e
    match k.phase with
    | .wait _ new =>
      match s.chan e k.retry with
      | some (.ok q) => s.finish e (.ok q)
      | some .err =>
        if !new && decide (k.retry ≤ 5) && !k.cancelled then
          s.setCaller e { k with phase := .get, retry := k.retry + 1 }
        else s.finish e .err
      | none => s
    | _ => s
  | .giveUp e =>
    let k := s.caller e
    if k.cancelled then
      match k.phase with
      | .dialing => s.finish e .ctx
      | .wait _ _ => s.finish e .ctx
      | _ => s
    else s
  | .dialDone e ok =>
    let k := s.caller e
    match k.dial with
    | .dialing =>
      if ok then
        let c := s.nconn
        let s := ({ s with nconn := c + 1 }).emit (.dial c)
        -- newReusableConn: not serving, idle timer armed
        (s.setConn c { Conn.fresh with worker := some (.fresh e) }).setCaller e { k with dial := .gone }
      else s.setCaller e { k with dial := .failed }
    | _ => s
  | .dialExit c =>
    let k := s.conn c
    match k.worker with
    | some (.fresh e) =>
      -- rc.exitIdle(); its result is ignored
      if !k.closed && k.serving then { s with fault := some .exitIdleBusy }
      else
        let s := if k.closed then s else s.setConn c { k with serving := true }
        -- t.m.Lock(); if t.closed { rc.close(); rc = nil; err = ErrClosedTransport } else { t.conns[rc] = … }
        if s.tclosed then
          ((s.rcClose c).setConn c { (s.rcClose c).conn c with worker := none }).setCaller e
            { s.caller e with dial := .failed }
        else ({ s with all := s.all ++ [c] }).setConn c { s.conn c with worker := some (.hold e) }
    | _ => s
  | .dialDeliver c toCaller =>
    match (s.conn c).worker with
    | some (.hold e) =>
      let k := s.caller e
      if decide (k.phase = .dialing) && (toCaller || !k.cancelled) then s.spawn e c true
      else s.setConn c { s.conn c with worker := some (.relA true) }   -- releaseConn(rc, nil)
    | _ => s
  | .dialFail e toCaller =>
    let k := s.caller e
    match k.dial with
    | .failed =>
      let s := s.setCaller e { k with dial := .gone }
      if decide (k.phase = .dialing) && (toCaller || !k.cancelled) then s.finish e .err else s
    | _ => s
  | .workerWrite c fail =>
    let k := s.conn c
    match k.worker with
    | some (.write e a) =>
      -- qid := c.nextQid; c.nextQid++; the id goes into the worker's own copy of the payload
      let qid := k.nextQid
      if k.netClosed || k.peerClosed || fail then
        (s.setConn c { k with nextQid := qid + 1, worker := some (.post e a .err) }).emit (.err c)
      else
        (s.setConn c { k with nextQid := qid + 1, pending := k.pending ++ [e], owed := k.owed ++ [(e, qid)],
                              worker := some (.read e a qid) }).emit (.wr c e qid)
    | _ => s
  | .workerReadPart c =>
    -- a Read inside io.ReadFull returns a proper part of the reply
    let k := s.conn c
    match k.worker with
    | some (.read _ _ _) =>
      if k.netClosed || k.pending.isEmpty then s else s.setConn c { k with halfRead := true }
    | _ => s
  | .workerReadOk c =>
    -- ReadMsgFromTCP consumes the next complete frame; then the id check
    let k := s.conn c
    match k.worker with
    | some (.read e a qid) =>
      if k.netClosed then s else
      match k.inbuf with
      | f :: fs =>
        let k' := { k with pending := k.pending.tail, inbuf := fs, halfRead := false }
        if !f.good then
          (s.setConn c { k' with worker := some (.post e a .err) }).emit (.bad c)
        else if f.id = qid then
          -- r.Header.ID == qid; the caller's id is restored
          (s.setConn c { k' with worker := some (.post e a (.ok f.q)) }).emit (.rd c f.q f.id)
        else
          -- errUnexpectedRespID
          (s.setConn c { k' with worker := some (.post e a .err) }).emit (.rd c f.q f.id)
      | [] => s
    | _ => s
  | .workerReadErr c =>
    let k := s.conn c
    match k.worker with
    | some (.read e a _) => (s.setConn c { k with worker := some (.post e a .err) }).emit (.err c)
    | _ => s
  | .workerPost c =>
    let k := s.conn c
    match k.worker with
    | some (.post e a r) =>
      { s.setConn c { k with worker := some (.relA (decide (r ≠ .err))) } with
        chan := upd s.chan e (upd (s.chan e) a (some r)) }
    | _ => s
  | .workerRelA c =>
    let k := s.conn c
    match k.worker with
    | some (.relA ok) =>
      if ok then
        -- rc.enterIdle()
        if !k.serving then { s with fault := some .enterIdleIdle }
        else s.setConn c { k with serving := false, worker := some (.relB true) }
      else
        let s := s.rcClose c
        s.setConn c { s.conn c with worker := some (.relB false) }
    | _ => s
  | .workerRelB c =>
    let k := s.conn c
    match k.worker with
    | some (.relB ok) =>
      let s := s.setConn c { k with worker := none }
      if s.tclosed then (if ok then s.rcClose c else s)
      else if ok then { s with idle := if c ∈ s.idle then s.idle else s.idle ++ [c] }
      else { s with all := s.all.filter (· != c) }
    | _ => s
  | .idleTimer c =>
    -- closeIfIdle
    if c < s.nconn then
      let k := s.conn c
      if beforeExitIdle k.worker && !racy then s          -- assumption A1
      else if !k.serving then (s.setConn c { k with closed := true }).netClose c else s
    else s
  | .tClose =>
    if s.tclosed then s
    else
      { s with
        tclosed := true
        conn := fun c => if c ∈ s.all then { s.conn c with netClosed := true } else s.conn c
        hist := s.hist ++ .tclose :: (s.all.filter (fun c => !(s.conn c).netClosed)).map Event.cl }
  | .srvReply c good =>
    let k := s.conn c
    if c < s.nconn then
      match k.owed with
      | (q, i) :: rest =>
        s.setConn c { k with owed := rest, inbuf := k.inbuf ++ [⟨i, q, good⟩], sentLog := k.sentLog ++ [⟨i, q, good⟩] }
      | [] => s
    else s
  | .srvDup c n =>
    let k := s.conn c
    if c < s.nconn then
      match k.sentLog[n]? with
      | some f => s.setConn c { k with inbuf := k.inbuf ++ [f] }
      | none => s
    else s
  | .srvStray c f =>
    if adv && decide (c < s.nconn) then s.setConn c { s.conn c with inbuf := (s.conn c).inbuf ++ [f] } else s
  | .srvAbort c =>
    if c < s.nconn then s.setConn c { s.conn c with peerClosed := true } else s

def stepCore (s : State) (a : Act) : State := stepCoreG false false s a

/-- One atomic step; after a panic nothing moves any more. -/
def step (s : State) (a : Act) : State :=
  if s.fault.isSome then s else stepCore s a

def exec (s : State) (acts : List Act) : State := acts.foldl step s

/-- the same without assumption A1 -/
def stepRacy (s : State) (a : Act) : State :=
  if s.fault.isSome then s else stepCoreG true false s a

def execRacy (s : State) (acts : List Act) : State := acts.foldl stepRacy s

/-- the same against a server that may send arbitrary frames -/
def stepAdv (s : State) (a : Act) : State :=
  if s.fault.isSome then s else stepCoreG false true s a

def execAdv (s : State) (acts : List Act) : State := acts.foldl stepAdv s

/-! ### the specification: a monitor over the observable history

  Property text → clause
  * "a connection carries at most one outstanding query at any time" — `wr`: no other
    query may be outstanding on that connection (S1).
  * "is offered for reuse only after the complete reply to its previous query has been
    consumed without error" — `use`: nothing outstanding, no failed/undecodable I/O
    on the connection so far (S2); a connection the client already closed is not used
    unless the whole transport was closed meanwhile (S5).
  * "if the caller gives up early, the connection is drained of that reply or closed
    before anyone else can use it" — `ret e ctx` marks the connections owned by `e`;
    only consuming the reply to `e` clears the mark; `use` of a marked connection is a
    violation (S4).
  * "every exchange that returns a message gets the reply to its own query with its own
    ID" — `ret e (ok q)` needs `q = e` (S3); and the query a worker puts on a connection
    is the query of the exchange the connection was handed to (S6).
  * (since 31b269e, also against a server that sends extra frames) the message an exchange
    returns is a frame that one of its workers consumed with the wire id of its own query,
    and a connection on which a frame with another id was consumed is never used again (S7).
-/

structure Mon where
  /-- S1, S2, S4–S7: what the transport guarantees against ANY server -/
  ok : Bool
  /-- S3: every returned message answers the exchange's own query (needs a server that does
      not forge frames) -/
  own : Bool
  /-- queries outstanding on each connection -/
  out : Nat → List Nat
  /-- wire id of the last query the server received on the connection -/
  wid : Nat → Nat
  /-- an I/O error, an undecodable frame or a frame with a foreign id was seen on the connection -/
  dirty : Nat → Bool
  closed : Nat → Bool
  /-- the exchange the connection was last handed to and whose reply has not been consumed -/
  owner : Nat → Option Nat
  /-- the owner gave up and its reply has not been drained -/
  ab : Nat → Bool
  /-- contents of the frames that a worker of the exchange consumed with its own wire id -/
  acc : Nat → List Nat
  tclosed : Bool

def Mon.init : Mon :=
  ⟨true, true, fun _ => [], fun _ => 0, fun _ => false, fun _ => false, fun _ => none, fun _ => false,
   fun _ => [], false⟩

def monStep (m : Mon) (ev : Event) : Mon :=
  match ev with
  | .dial _ => m
  | .use c q =>
    { m with
      ok := m.ok && (m.out c).isEmpty && !m.dirty c && !m.ab c && (!m.closed c || m.tclosed)
      owner := upd m.owner c (some q) }
  | .wr c q i =>
    { m with
      ok := m.ok && (m.out c).isEmpty && !m.dirty c && (m.owner c == some q)
      out := upd m.out c (m.out c ++ [q])
      wid := upd m.wid c i }
  | .rd c q i =>
    if i = m.wid c then
      -- the reply to the outstanding query (by its wire id): the connection is drained
      match m.owner c with
      | some e =>
        let l := q :: m.acc e
        { m with
          out := upd m.out c (m.out c).tail, owner := upd m.owner c none, ab := upd m.ab c false
          acc := upd m.acc e l }
      | none =>
        { m with out := upd m.out c (m.out c).tail, owner := upd m.owner c none, ab := upd m.ab c false }
    else
      -- a frame with a foreign id: the stream is out of step, the connection must not be reused
      { m with out := upd m.out c (m.out c).tail, dirty := upd m.dirty c true }
  | .bad c =>
    { m with out := upd m.out c (m.out c).tail, dirty := upd m.dirty c true }
  | .err c => { m with dirty := upd m.dirty c true }
  | .cl c => { m with closed := upd m.closed c true }
  | .tclose => { m with tclosed := true }
  | .ret e (.ok q) => { m with ok := m.ok && (m.acc e).contains q, own := m.own && (q == e) }
  | .ret _ .err => m
  | .ret e .ctx => { m with ab := fun c => m.ab c || (m.owner c == some e) }

def mon (h : List Event) : Mon := h.foldl monStep Mon.init

/-- what holds against any server, even one that sends arbitrary frames -/
def safe (h : List Event) : Bool := (mon h).ok

/-- The property as a decidable predicate on an observed history. -/
def spec (h : List Event) : Bool := (mon h).ok && (mon h).own

/-! ### deterministic schedules for the harness scripts

  A script op of the harness is one *gated* action (the harness opens a gate of the fake
  connection / dialer, cancels a context, sleeps over the idle timeout …) followed by all
  the internal steps that the real goroutines then take until everything is blocked on a
  gate again.  `plan` computes that action list; the run of a script is `exec init (plan …)`,
  so every theorem about `exec` applies to it. -/

inductive Op where
  | start (e : Nat) | startCancelled (e : Nat) | cancel (e : Nat)
  | dialOk (e : Nat) | dialErr (e : Nat)
  | write (e : Nat)
  | reply (e : Nat) | replySplit (e : Nat) | replyBad (e : Nat) | replyPartialAbort (e : Nat)
  | replyTwice (e : Nat) | dupTo (e : Nat) | dupIdle
  | abort (e : Nat) | abortIdle
  | tick | close
  deriving Repr

def findConn (s : State) (p : Conn → Bool) : Nat → Nat → Option Nat
  | 0, _ => none
  | n + 1, c => if p (s.conn c) then some c else findConn s p n (c + 1)

def connsWhere (s : State) (p : Conn → Bool) : List Nat :=
  (List.range s.nconn).filter (fun c => p (s.conn c))

def isOpen (k : Conn) : Bool := !k.closed && !k.netClosed

/-- number of `use` events so far = index into the pick oracle -/
def useCount (h : List Event) : Nat :=
  (h.filter (fun ev => match ev with | .use _ _ => true | _ => false)).length

/-- the connection `getIdleConn` takes next: a closed one is purged first; among several open
    idle connections Go's map iteration is free to choose — follow the implementation's
    choice (`picks`) when it is a legal one. -/
def choosePick (s : State) (picks : List Nat) : Option Nat :=
  match s.idle.find? (fun c => !isOpen (s.conn c)) with
  | some c => some c
  | none =>
    match picks[useCount s.hist]? with
    | some p => if p ∈ s.idle then some p else s.idle.head?
    | none => s.idle.head?

/-- next internal step, in an order that yields the canonical event order of one harness op
    (…, err, use, close, ret). -/
def nextInternal (s : State) (nex : Nat) (picks : List Nat) : Option Act :=
  -- 0. a reader finds a complete frame in the stream
  match findConn s (fun k => match k.worker with
      | some (.read ..) => !k.netClosed && !k.inbuf.isEmpty | _ => false) s.nconn 0 with
  | some c => some (.workerReadOk c)
  | none =>
  -- 1. resChan <- res
  match findConn s (fun k => match k.worker with | some (.post ..) => true | _ => false) s.nconn 0 with
  | some c => some (.workerPost c)
  | none =>
  -- 2. callers that continue (retry, getIdleConn)
  let prog := (List.range nex).findSome? (fun e =>
    let k := s.caller e
    match k.phase with
    | .get =>
      if decide (k.retry > 5) then some (Act.getIdle e none)      -- straight to asyncDial
      else if s.tclosed then none else some (Act.getIdle e (choosePick s picks))
    | .wait _ new =>
      match s.chan e k.retry with
      | some .err => if !new && decide (k.retry ≤ 5) && !k.cancelled then some (Act.recvRes e) else none
      | _ => none
    | .dialing =>
      -- after Close the dial context is cancelled: DialContext fails at once
      if s.tclosed && k.dial == .dialing then some (Act.dialDone e false) else none
    | _ => none)
  match prog with
  | some a => some a
  | none =>
  -- 3. dial goroutines holding a connection
  match findConn s (fun k => match k.worker with | some (.fresh _) => true | _ => false) s.nconn 0 with
  | some c => some (.dialExit c)
  | none =>
  match findConn s (fun k => match k.worker with | some (.hold _) => true | _ => false) s.nconn 0 with
  | some c => some (.dialDeliver c true)
  | none =>
  -- 4. releaseConn
  match findConn s (fun k => match k.worker with | some (.relA _) => true | _ => false) s.nconn 0 with
  | some c => some (.workerRelA c)
  | none =>
  match findConn s (fun k => match k.worker with | some (.relB _) => true | _ => false) s.nconn 0 with
  | some c => some (.workerRelB c)
  | none =>
  -- 5. callers that return
  (List.range nex).findSome? (fun e =>
    let k := s.caller e
    match k.phase with
    | .get => if s.tclosed && decide (k.retry ≤ 5) then some (Act.getIdle e none) else none
    | .wait _ _ =>
      match s.chan e k.retry with
      | some _ => some (Act.recvRes e)
      | none => if k.cancelled then some (Act.giveUp e) else none
    | .dialing =>
      if k.cancelled then some (Act.giveUp e)
      else match k.dial with
        | .failed => some (Act.dialFail e true)
        | _ => none
    | _ =>
      match k.dial with
      | .failed => some (Act.dialFail e false)
      | _ => none)

def settle (nex : Nat) (picks : List Nat) : Nat → State → List Act → State × List Act
  | 0, s, acc => (s, acc)
  | n + 1, s, acc =>
    match nextInternal s nex picks with
    | none => (s, acc)
    | some a => settle nex picks n (step s a) (acc ++ [a])

def connOfWriter (s : State) (e : Nat) : Option Nat :=
  findConn s (fun k => match k.worker with | some (.write e' _) => e' == e | _ => false) s.nconn 0

def connOfReader (s : State) (e : Nat) : Option Nat :=
  findConn s (fun k => match k.worker with | some (.read e' _ _) => e' == e | _ => false) s.nconn 0

/-- the gated (and forced) actions of one op -/
def opActs (s : State) (nex : Nat) (op : Op) : List Act :=
  match op with
  | .start e => [.start e]
  | .startCancelled e =>
    match (s.caller e).phase with
    | .fresh => [.cancel e, .start e]
    | _ => []
  | .cancel e => [.cancel e]
  | .dialOk e => [.dialDone e true]
  | .dialErr e => [.dialDone e false]
  | .write e =>
    match connOfWriter s e with
    | some c => [.workerWrite c false]
    | none => []
  | .reply e =>
    match connOfReader s e with
    | some c => [.srvReply c true, .workerReadOk c]
    | none => []
  | .replySplit e =>
    match connOfReader s e with
    | some c => [.workerReadPart c, .srvReply c true, .workerReadOk c]
    | none => []
  | .replyBad e =>
    match connOfReader s e with
    | some c => [.srvReply c false, .workerReadOk c]
    | none => []
  | .replyTwice e =>
    -- the reply, and a second copy of it right behind
    match connOfReader s e with
    | some c => [.srvReply c true, .srvDup c (s.conn c).sentLog.length, .workerReadOk c]
    | none => []
  | .dupTo e =>
    -- before answering e's query the server repeats the last frame it sent on that connection
    match connOfReader s e with
    | some c => if (s.conn c).sentLog.isEmpty then [] else [.srvDup c ((s.conn c).sentLog.length - 1)]
    | none => []
  | .dupIdle =>
    (connsWhere s (fun k => k.worker.isNone && !k.netClosed && !k.peerClosed && !k.sentLog.isEmpty)).map
      (fun c => Act.srvDup c ((s.conn c).sentLog.length - 1))
  | .replyPartialAbort e =>
    match connOfReader s e with
    | some c => [.workerReadPart c, .srvAbort c, .workerReadErr c]
    | none => []
  | .abort e =>
    match connOfReader s e with
    | some c => [.srvAbort c, .workerReadErr c]
    | none =>
      match connOfWriter s e with
      | some c => [.srvAbort c]
      | none => []
  | .abortIdle =>
    (connsWhere s (fun k => k.worker.isNone && !k.netClosed && !k.peerClosed)).map Act.srvAbort
  | .tick => (List.range s.nconn).map Act.idleTimer
  | .close =>
    if s.tclosed then [] else
    -- Close() closes every registered connection: blocked Write/Read calls fail, and the
    -- dial context is cancelled: blocked DialContext calls fail
    let ws := (connsWhere s (fun k => match k.worker with | some (.write ..) => true | _ => false)).filter (· ∈ s.all)
    let rs := (connsWhere s (fun k => match k.worker with | some (.read ..) => true | _ => false)).filter (· ∈ s.all)
    let ds := (List.range nex).filter (fun e => (s.caller e).dial == .dialing)
    [Act.tClose]
      ++ ((ws ++ rs).mergeSort (· ≤ ·)).map (fun c => if c ∈ ws then Act.workerWrite c true else Act.workerReadErr c)
      ++ ds.map (fun e => Act.dialDone e false)

def planOp (nex : Nat) (picks : List Nat) (sa : State × List Act) (op : Op) : State × List Act :=
  let (s, acc) := sa
  let g := opActs s nex op
  settle nex picks 400 (exec s g) (acc ++ g)

def plan (nex : Nat) (picks : List Nat) (ops : List Op) : List Act :=
  (ops.foldl (planOp nex picks) (State.init, [])).2

/-! ### line protocol -/

def strOfEvent : Event → String
  | .dial c => s!"D{c}"
  | .use c q => s!"U{c}.{q}"
  | .wr c q i => s!"W{c}.{q}.{i}"
  | .rd c q i => s!"R{c}.{q}.{i}"
  | .bad c => s!"B{c}"
  | .err c => s!"E{c}"
  | .cl c => s!"X{c}"
  | .tclose => "T"
  | .ret e (.ok q) => s!"A{e}.{q}"
  | .ret e .err => s!"F{e}"
  | .ret e .ctx => s!"G{e}"

def strOfHist (h : List Event) : String :=
  if h.isEmpty then "h=-" else "h=" ++ ",".intercalate (h.map strOfEvent)

def nat2 (s : String) : Option (Nat × Nat) :=
  match s.splitOn "." with
  | [a, b] => do
    let a ← natOfStr a
    let b ← natOfStr b
    pure (a, b)
  | _ => none

def nat3 (s : String) : Option (Nat × Nat × Nat) :=
  match s.splitOn "." with
  | [a, b, c] => do
    let a ← natOfStr a
    let b ← natOfStr b
    let c ← natOfStr c
    pure (a, b, c)
  | _ => none

def eventOfStr (t : String) : Option Event :=
  let body := (t.drop 1).toString
  match t.front with
  | 'D' => (natOfStr body).map .dial
  | 'U' => (nat2 body).map (fun p => .use p.1 p.2)
  | 'W' => (nat3 body).map (fun p => .wr p.1 p.2.1 p.2.2)
  | 'R' => (nat3 body).map (fun p => .rd p.1 p.2.1 p.2.2)
  | 'B' => (natOfStr body).map .bad
  | 'E' => (natOfStr body).map .err
  | 'X' => (natOfStr body).map .cl
  | 'T' => if body == "" then some .tclose else none
  | 'A' => (nat2 body).map (fun p => .ret p.1 (.ok p.2))
  | 'F' => (natOfStr body).map (fun e => .ret e .err)
  | 'G' => (natOfStr body).map (fun e => .ret e .ctx)
  | _ => none

def histOfStr (s : String) : Option (List Event) :=
  match kvGet (words s) "h" with
  | none => none
  | some v => if v == "-" then some [] else (v.splitOn ",").mapM eventOfStr

def opOfStr (t : String) : Option Op :=
  if t == "t" then some .tick
  else if t == "C" then some .close
  else if t == "xi" then some .abortIdle
  else if t == "di" then some .dupIdle
  else
    let letters := (t.takeWhile Char.isAlpha).toString
    let num := (t.dropWhile Char.isAlpha).toString
    match natOfStr num with
    | none => none
    | some e =>
      match letters with
      | "s" => some (.start e)
      | "k" => some (.startCancelled e)
      | "c" => some (.cancel e)
      | "dp" => some (.dialOk e)
      | "df" => some (.dialErr e)
      | "w" => some (.write e)
      | "r" => some (.reply e)
      | "rs" => some (.replySplit e)     -- a reply delivered in several segments
      | "rb" => some (.replyBad e)
      | "rr" => some (.replyTwice e)
      | "du" => some (.dupTo e)
      | "rp" => some (.replyPartialAbort e)
      | "x" => some (.abort e)
      -- the response time-out of e's worker fires: for the transport the same as a read that fails (the
      -- connection is closed and never pooled); the server stays, which nothing can observe afterwards
      | "to" => some (.abort e)
      | _ => none

def opExch : Op → Nat
  | .start e | .startCancelled e | .cancel e | .dialOk e | .dialErr e | .write e
  | .reply e | .replySplit e | .replyBad e | .replyPartialAbort e | .abort e
  | .replyTwice e | .dupTo e => e + 1
  | _ => 0

/-- index of the first event at which the monitor turns false -/
def firstBad (m : Mon) (i : Nat) : List Event → Option (Nat × Event)
  | [] => none
  | ev :: rest =>
    let m' := monStep m ev
    if m'.ok && m'.own then firstBad m' (i + 1) rest else some (i, ev)

/-- case: space separated ops; impl output: `h=<events>` -/
def run (case impl : String) : String × String :=
  match (words case).mapM opOfStr with
  | none => ("bad-case", "na")
  | some ops =>
    let nex := ops.foldl (fun n op => max n (opExch op)) 0
    let ih := histOfStr impl
    let picks := match ih with
      | some h => h.filterMap (fun ev => match ev with | .use c _ => some c | _ => none)
      | none => []
    let acts := plan nex picks ops
    let s := exec State.init acts
    let m := strOfHist s.hist ++ (match s.fault with | none => "" | some _ => " fault")
    let v := match ih with
      | none => "unparsed"
      | some h =>
        if spec h then "ok"
        else match firstBad Mon.init 0 h with
          | some (i, ev) => s!"viol:{i}:{strOfEvent ev}"
          | none => "viol"
    (m, v)

/-- component `reusestress`: histories observed under real (nondeterministic) concurrency.
    There is no schedule to replay, so the model column only *accepts* (echoes) a history that
    satisfies `spec`; by `C06.model_meets_spec` every history of the model is accepted. -/
def runStress (_case impl : String) : String × String :=
  match histOfStr impl with
  | none => ("unparsed-history", "unparsed")
  | some h =>
    if spec h then (impl, "ok")
    else match firstBad Mon.init 0 h with
      | some (i, ev) => ("rejected", s!"viol:{i}:{strOfEvent ev}")
      | none => ("rejected", "viol")

end MosVerif.Reuse
