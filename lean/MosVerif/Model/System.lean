/-
  C04 — composed protocol model: many concurrent requests, one cache, one multiplexed upstream
  connection, an upstream that answers each question `k` with `f k` but may delay, reorder, duplicate
  and drop replies, and a cache whose entries may be evicted at any time.

  Steps are the lock-protected atomic actions of the code:
    start t   : cacheCtl.Get (hit ⇒ respond from cache) else pipelineConn.addQueueC + write
                (a fresh wire ID, never reused during the connection's life — C05 `ids_fresh`)
    reply id  : readLoop receives the upstream's reply to wire ID `id` (the server computed it from the
                query it saw under that ID) — delivered to the registered waiter if any, else dropped;
                the waiter stores it in the cache under ITS OWN key (cacheCtl.Store(q, …)) and responds
    giveUp t  : deadline / cancellation / connection failure ⇒ SERVFAIL, queue entry removed
    evict k   : cache eviction / expiry
  Keys stand for (lower-cased name, class, type, client group); values for the answer content.
-/
namespace MosVerif.System

abbrev Key := Nat
abbrev Val := Nat

inductive Stage where
  | fresh : Stage
  | waiting (id : Nat) : Stage
  | done (answer : Option Val) : Stage     -- none = SERVFAIL
  deriving Repr, DecidableEq

structure Thread where
  q : Key
  stage : Stage
  deriving Repr

structure State where
  threads : List Thread
  nextId : Nat
  /-- pipeline queue: wire ID ↦ index of the waiting thread -/
  inflight : List (Nat × Nat)
  /-- what the upstream server has seen: wire ID ↦ question -/
  seen : List (Nat × Key)
  cache : List (Key × Val)
  deriving Repr

inductive Step where
  | start (t : Nat)
  | reply (id : Nat)
  | giveUp (t : Nat)
  | evict (k : Key)
  deriving Repr

def lookup {β} (l : List (Nat × β)) (k : Nat) : Option β :=
  match l with
  | [] => none
  | (k', v) :: rest => if k' = k then some v else lookup rest k

def setStage (ts : List Thread) (t : Nat) (s : Stage) : List Thread :=
  match ts[t]? with
  | some th => ts.set t { th with stage := s }
  | none => ts

/-- One atomic step; `f` is the upstream's answer function. Steps that are not enabled leave the state unchanged. -/
def step (f : Key → Val) (s : State) : Step → State
  | .start t =>
    match s.threads[t]? with
    | some th =>
      if th.stage = .fresh then
        match lookup s.cache th.q with
        | some v => { s with threads := setStage s.threads t (.done (some v)) }              -- cache hit
        | none =>
          { s with threads := setStage s.threads t (.waiting s.nextId)
                   nextId := s.nextId + 1
                   inflight := (s.nextId, t) :: s.inflight
                   seen := (s.nextId, th.q) :: s.seen }
      else s
    | none => s
  | .reply id =>
    -- the server can only answer a query it has seen, and answers the question of THAT query
    match lookup s.seen id with
    | some k =>
      match lookup s.inflight id with
      | some t =>
        match s.threads[t]? with
        | some th =>
          { s with threads := setStage s.threads t (.done (some (f k)))
                   inflight := s.inflight.filter (fun p => p.1 ≠ id)
                   cache := (th.q, f k) :: s.cache }
        | none => s
      | none => s                                                 -- late / duplicate reply: dropped
    | none => s
  | .giveUp t =>
    match s.threads[t]? with
    | some th =>
      match th.stage with
      | .waiting id =>
        { s with threads := setStage s.threads t (.done none)
                 inflight := s.inflight.filter (fun p => p.1 ≠ id) }
      | _ => s
    | none => s
  | .evict k => { s with cache := s.cache.filter (fun p => p.1 ≠ k) }

def run (f : Key → Val) (s : State) (steps : List Step) : State := steps.foldl (step f) s

def init (qs : List Key) : State :=
  { threads := qs.map (fun q => ⟨q, .fresh⟩), nextId := 0, inflight := [], seen := [], cache := [] }

end MosVerif.System
