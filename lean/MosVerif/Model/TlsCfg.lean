/-
  C17 — model of `makeTlsConfig` (app/router/tls.go) and of who is accepted by a
  handshake made with the resulting `tls.Config`.

  Files are abstract: a path option is `unset` (""), `good i` (readable, valid,
  content number `i`) or `bad` (unreadable or not PEM). A certificate/key pair loads
  iff both are `good` with the same number. X.509 path validation, name matching and
  validity are crypto/* (trusted): a peer certificate is described by the three
  predicates `chains`, `nameOk`, `inValidity`.
-/
import MosVerif.Util
-- @component tlscfg MosVerif.TlsCfg.runCfg
-- @component handshake MosVerif.TlsCfg.runHandshake
-- @component tlshist MosVerif.TlsCfg.runHist
namespace MosVerif.TlsCfg

inductive FileRef where
  | unset
  | good (id : Nat)
  | bad
  deriving DecidableEq, Repr

def FileRef.isEmpty : FileRef → Bool
  | .unset => true
  | _ => false

/-- `router.TlsConfig` -/
structure TlsConfig where
  cert : FileRef
  key : FileRef
  ca : FileRef
  insecureSkipVerify : Bool
  verifyClientCert : Bool
  debugUseTempCert : Bool
  deriving DecidableEq, Repr

inductive ClientAuth where
  | noClientCert
  | requireAndVerifyClientCert
  deriving DecidableEq, Repr

inductive CertSrc where
  | none
  | temp
  | file (id : Nat)
  deriving DecidableEq, Repr

/-- a certificate pool: `none` = nil (the system roots are used) -/
abbrev Pool := Option Nat

/-- the fields of the resulting `tls.Config` that matter -/
structure GoTls where
  insecureSkipVerify : Bool
  rootCAs : Pool
  clientCAs : Pool
  clientAuth : ClientAuth
  certificates : CertSrc
  /-- `ClientSessionCache`: `none` = nil (the client never resumes a session); `some i` = the cache
      object number `i` (two configs with the same number share resumable sessions) -/
  sessionCache : Option Nat
  deriving DecidableEq, Repr

inductive MkRes where
  | ok (c : GoTls)
  | errMissingCert
  | errLoadCA
  | errLoadCert
  deriving DecidableEq, Repr

/-- `requireCert && (cfg.Cert == "" || cfg.Key == "") && !cfg.DebugUseTempCert` (tied to the source by translation,
    `Lemmas/TranslatedC17.lean`) -/
@[simp] def missingCert (requireCert certEmpty keyEmpty debugUseTempCert : Bool) : Bool :=
  requireCert && (certEmpty || keyEmpty) && !debugUseTempCert

/-- `len(cfg.Key) > 0 && len(cfg.Cert) > 0` -/
@[simp] def hasKeyPair (keySet certSet : Bool) : Bool := keySet && certSet

/-- `makeTlsConfig(cfg, requireCert)`, statement for statement -/
def makeTlsConfig (cfg : TlsConfig) (requireCert : Bool) : MkRes :=
  if missingCert requireCert cfg.cert.isEmpty cfg.key.isEmpty cfg.debugUseTempCert then .errMissingCert
  else
    -- c.InsecureSkipVerify = cfg.InsecureSkipVerify
    let insecure := cfg.insecureSkipVerify
    -- if len(cfg.CA) > 0 { pool := loadCA; c.RootCAs = pool; c.ClientCAs = pool }
    let pools : Except Unit (Pool × Pool) :=
      match cfg.ca with
      | .unset => .ok (none, none)
      | .good i => .ok (some i, some i)
      | .bad => .error ()
    match pools with
    | .error _ => .errLoadCA
    | .ok (root, client) =>
      -- if cfg.VerifyClientCert { c.ClientAuth = tls.RequireAndVerifyClientCert }
      let auth := if cfg.verifyClientCert then ClientAuth.requireAndVerifyClientCert else .noClientCert
      if cfg.debugUseTempCert then .ok ⟨insecure, root, client, auth, .temp, none⟩
      else if hasKeyPair (!cfg.key.isEmpty) (!cfg.cert.isEmpty) then
        match cfg.cert, cfg.key with
        | .good i, .good j => if i = j then .ok ⟨insecure, root, client, auth, .file i, none⟩ else .errLoadCert
        | _, _ => .errLoadCert
      else .ok ⟨insecure, root, client, auth, .none, none⟩

/-! ### who is accepted -/

/-- a peer certificate as seen by a verifier (crypto/x509, trusted) -/
structure Peer where
  /-- does it chain to the given pool (`none`: the system roots) -/
  chains : Pool → Bool
  nameOk : Bool
  inValidity : Bool

/-- DESIGN §5: a client built from `g` completes a handshake with a server presenting `cert` iff … -/
def verdict (g : GoTls) (cert : Peer) : Bool :=
  g.insecureSkipVerify || (cert.chains g.rootCAs && cert.nameOk && cert.inValidity)

/-- a listener built from `g` serves a client presenting `cert` (`none`: no certificate) iff … -/
def serves (g : GoTls) (cert : Option Peer) : Bool :=
  match g.clientAuth with
  | .noClientCert => true
  | .requireAndVerifyClientCert =>
    match cert with
    | none => false
    | some c => c.chains g.clientCAs && c.inValidity

/-! ### the handshake matrix: concrete certificate kinds of the harness

  CA 1 is "the configured CA" when `ca` is set, CA 2 is another CA; neither is in the
  system roots (assumption). -/

inductive CertKind where
  | valid        -- signed by CA 1, right name, in validity
  | wrongName    -- signed by CA 1, other name
  | unknownCA    -- signed by CA 2
  | expired      -- signed by CA 1, expired
  | selfSigned
  | absent       -- TLS without a client certificate
  | plain        -- no TLS at all (listener side: plaintext DNS / HTTP to the TLS port)
  deriving DecidableEq, Repr

def CertKind.peer : CertKind → Option Peer
  | .valid => some ⟨fun p => p == some 1, true, true⟩
  | .wrongName => some ⟨fun p => p == some 1, false, true⟩
  | .unknownCA => some ⟨fun p => p == some 2, true, true⟩
  | .expired => some ⟨fun p => p == some 1, true, false⟩
  | .selfSigned => some ⟨fun _ => false, true, true⟩
  | .absent => none
  | .plain => none

/-- which side of the product is exercised -/
inductive Side where
  | upstream   -- mosproxy is the TLS client (DoT/DoH/DoQ upstream); `peer` is the server's certificate
  | listener   -- mosproxy is the TLS server; `peer` is the client's certificate
  deriving DecidableEq, Repr

structure HsCase where
  side : Side
  cfg : TlsConfig
  peer : CertKind
  /-- upstream side: does the (harness) server demand a client certificate signed by CA 1 -/
  serverWantsClientCert : Bool
  deriving Repr

/-- outcome: upstream side — the exchange succeeds; listener side — the query is served.
    `none`: the configuration is refused (start-up error). -/
def modelHs (c : HsCase) : Option Bool :=
  match c.side with
  | .upstream =>
    match makeTlsConfig c.cfg false with
    | .ok g =>
      match c.peer.peer with
      | none => none
      | some p =>
        -- the harness' server accepts our certificate iff it does not ask for one or we present
        -- the pair number 1 (signed by CA 1)
        let clientOk := !c.serverWantsClientCert || g.certificates == .file 1
        some (verdict g p && clientOk)
    | _ => none
  | .listener =>
    match makeTlsConfig c.cfg true with
    | .ok g => some (c.peer != .plain && serves g c.peer.peer)   -- a TLS listener never talks plaintext
    | _ => none

/-- the property text, independently of `makeTlsConfig`:
    * upstream: success only if the server certificate chains to the configured CA (system roots by
      default — never for the harness' CAs), matches the name and is valid, unless verification is
      explicitly disabled;
    * listener with `verify_client_cert`: nothing is served to a client without a certificate
      chaining to the configured CA. -/
def specHs (c : HsCase) (o : Option Bool) : Bool :=
  match c.side with
  | .upstream =>
    if o == some true then
      c.cfg.insecureSkipVerify ||
        (c.peer == .valid && c.cfg.ca == .good 1) || (c.peer == .unknownCA && c.cfg.ca == .good 2)
    else true
  | .listener =>
    if c.cfg.verifyClientCert && o == some true then
      c.peer != .plain &&
      ((c.peer == .valid && c.cfg.ca == .good 1) || (c.peer == .unknownCA && c.cfg.ca == .good 2) ||
       (c.peer == .wrongName && c.cfg.ca == .good 1))   -- client certificates carry no name to match
    else true


/-! ### histories: several upstreams / several clients, one after the other

  crypto/tls resumes a session found in the config's `ClientSessionCache` under the server name
  WITHOUT verifying the server's chain against the resuming config again. Whether an exchange
  succeeds may therefore depend on what other configs sharing the cache did before — unless there
  is no cache (the `tls.Config` built by `makeTlsConfig` has none). On the server side a resumed
  session carries the client certificates of the handshake that created it. -/

/-- an upstream: its TLS options and whether its URL host is `srv.test` (the name the harness'
    certificates are issued for) or `other.test` (the name of the `wrongName` certificate) -/
structure UpCfg where
  cfg : TlsConfig
  hostSrv : Bool
  deriving DecidableEq, Repr

/-- the server certificate as seen by an upstream with that URL host -/
def peerFor (k : CertKind) (hostSrv : Bool) : Option Peer :=
  k.peer.map (fun p => { p with nameOk := (k == .wrongName) != hostSrv })

/-- full handshake of a client built from `g` for that URL host -/
def fullVerdict (peer : CertKind) (g : GoTls) (hostSrv : Bool) : Bool :=
  match peerFor peer hostSrv with
  | some p => verdict g p
  | none => false

/-- resumable sessions: (cache object, server name) -/
abbrev Sessions := List (Nat × Bool)

/-- one exchange over a fresh connection of an upstream whose config is `g` -/
def upStep (peer : CertKind) (ss : Sessions) (g : GoTls) (hostSrv : Bool) : Bool × Sessions :=
  let resumed := match g.sessionCache with
    | some c => ss.contains (c, hostSrv)
    | none => false
  let ok := resumed || fullVerdict peer g hostSrv
  (ok, match g.sessionCache with
       | some c => if ok then (c, hostSrv) :: ss else ss
       | none => ss)

def runUp (peer : CertKind) : Sessions → List (GoTls × Bool) → List Bool
  | _, [] => []
  | ss, (g, h) :: rest =>
    let r := upStep peer ss g h
    r.1 :: runUp peer r.2 rest

def getAll {α : Type} (l : List α) : List Nat → Option (List α)
  | [] => some []
  | i :: is => match l[i]?, getAll l is with
    | some a, some r => some (a :: r)
    | _, _ => none

def mkAll : List UpCfg → Option (List (GoTls × Bool))
  | [] => some []
  | u :: us => match makeTlsConfig u.cfg false, mkAll us with
    | .ok g, some r => some ((g, u.hostSrv) :: r)
    | _, _ => none

/-- the same over upstream configurations: each upstream's `tls.Config` comes from `makeTlsConfig` -/
def runUpCfg (peer : CertKind) : Sessions → List UpCfg → List Bool
  | _, [] => []
  | ss, u :: rest =>
    match makeTlsConfig u.cfg false with
    | .ok g =>
      let r := upStep peer ss g u.hostSrv
      r.1 :: runUpCfg peer r.2 rest
    | _ => false :: runUpCfg peer ss rest

/-- upstream side history: `none` = start-up refused (some upstream's options are rejected) -/
def modelUpHist (peer : CertKind) (ups : List UpCfg) (steps : List Nat) : Option (List Bool) :=
  match mkAll ups with
  | none => none
  | some _ => (getAll ups steps).map (runUpCfg peer [])

/-- property text: an exchange succeeds only if the certificate chains to THAT upstream's CA and
    matches THAT upstream's server name, unless THAT upstream disabled verification -/
def allowedUp (u : UpCfg) (peer : CertKind) : Bool :=
  u.cfg.insecureSkipVerify ||
  (u.hostSrv && ((peer == .valid && u.cfg.ca == .good 1) || (peer == .unknownCA && u.cfg.ca == .good 2))) ||
  (!u.hostSrv && peer == .wrongName && u.cfg.ca == .good 1)

def allOk : List UpCfg → List Bool → CertKind → Bool
  | [], [], _ => true
  | u :: us, o :: os, peer => (!o || allowedUp u peer) && allOk us os peer
  | _, _, _ => false

def specUpHist (peer : CertKind) (ups : List UpCfg) (steps : List Nat) (o : Option (List Bool)) : Bool :=
  match o, getAll ups steps with
  | some outs, some us => allOk us outs peer
  | some _, none => false
  | none, _ => true

/-- listener side: a client connection presents `cert` and uses the client session cache `cache` -/
structure CliStep where
  cert : CertKind
  cache : Option Nat
  deriving DecidableEq, Repr

/-- client caches: cache ↦ certificate kind of the full handshake that created the cached session -/
abbrev CliSessions := List (Nat × CertKind)

def liFull (g : GoTls) (ss : CliSessions) (s : CliStep) : Bool × CliSessions :=
  let ok := s.cert != .plain && serves g s.cert.peer
  (ok, match s.cache with
       | some c => if ok then (c, s.cert) :: ss else ss
       | none => ss)

/-- crypto/tls server, `checkForResumption`: with RequireAndVerifyClientCert a ticket is accepted only
    if it carries client certificates, which are verified again; the new ticket carries them on -/
def liStep (g : GoTls) (ss : CliSessions) (s : CliStep) : Bool × CliSessions :=
  match s.cache.bind (fun c => ss.lookup c) with
  | some orig =>
    if s.cert != .plain && g.clientAuth == .requireAndVerifyClientCert && serves g orig.peer then (true, ss)
    else liFull g ss s
  | none => liFull g ss s

def runLi (g : GoTls) : CliSessions → List CliStep → List Bool
  | _, [] => []
  | ss, s :: rest =>
    let r := liStep g ss s
    r.1 :: runLi g r.2 rest

def modelLiHist (cfg : TlsConfig) (steps : List CliStep) : Option (List Bool) :=
  match makeTlsConfig cfg true with
  | .ok g => some (runLi g [] steps)
  | _ => none

def allowedLi (cfg : TlsConfig) (cert : CertKind) : Bool :=
  (cert == .valid && cfg.ca == .good 1) || (cert == .unknownCA && cfg.ca == .good 2) ||
  (cert == .wrongName && cfg.ca == .good 1)

def viaCache (auth : List Nat) (cache : Option Nat) : Bool :=
  match cache with
  | some c => auth.contains c
  | none => false

def authNext (auth : List Nat) (cache : Option Nat) (good : Bool) : List Nat :=
  match cache with
  | some c => if good then c :: auth else auth
  | none => auth

/-- property text, with resumption: with `verify_client_cert`, a served connection either presented an
    acceptable certificate itself or resumed a session (same client cache) whose creating handshake did.
    `auth`: the caches that hold such a session. -/
def specLi (cfg : TlsConfig) : List Nat → List CliStep → List Bool → Bool
  | _, [], [] => true
  | auth, s :: ss, o :: os =>
    let own := allowedLi cfg s.cert
    let via := viaCache auth s.cache
    (!o || own || via) && specLi cfg (authNext auth s.cache (o && (own || via))) ss os
  | _, _, _ => false

def specLiHist (cfg : TlsConfig) (steps : List CliStep) (o : Option (List Bool)) : Bool :=
  match o with
  | some outs => if cfg.verifyClientCert then specLi cfg [] steps outs else outs.length == steps.length
  | none => true

/-! ### line protocol -/

def fileOfStr (s : String) : Option FileRef :=
  if s == "-" then some .unset
  else if s == "bad" then some .bad
  else (natOfStr s).map .good

def strOfPool : Pool → String
  | none => "nil"
  | some i => toString i

def strOfMk : MkRes → String
  | .errMissingCert => "err:missing"
  | .errLoadCA => "err:ca"
  | .errLoadCert => "err:cert"
  | .ok g =>
    let auth := match g.clientAuth with | .noClientCert => "0" | .requireAndVerifyClientCert => "4"
    let certs := match g.certificates with | .none => "none" | .temp => "temp" | .file i => toString i
    let cache := match g.sessionCache with | none => "nil" | some _ => "set"
    s!"insecure={strOfBool g.insecureSkipVerify} root={strOfPool g.rootCAs} client={strOfPool g.clientCAs} auth={auth} certs={certs} cache={cache}"

def cfgOfToks (toks : List String) : Option TlsConfig := do
  let cert ← (kvGet toks "cert").bind fileOfStr
  let key ← (kvGet toks "key").bind fileOfStr
  let ca ← (kvGet toks "ca").bind fileOfStr
  let ins ← (kvGet toks "insecure").bind boolOfStr
  let vcc ← (kvGet toks "vcc").bind boolOfStr
  let tmp ← (kvGet toks "temp").bind boolOfStr
  pure ⟨cert, key, ca, ins, vcc, tmp⟩

/-- the pool the property says peers are verified against: the configured CA, else the system roots -/
def caPool : FileRef → Pool
  | .good i => some i
  | _ => none

/-- the property on the produced `tls.Config` itself (from the property text) -/
def specCfg (cfg : TlsConfig) (r : MkRes) : Bool :=
  match r with
  | .ok g =>
    -- verification is on unless explicitly disabled
    g.insecureSkipVerify == cfg.insecureSkipVerify &&
    -- ... against the configured CA, the system roots by default
    g.rootCAs == caPool cfg.ca &&
    -- verify_client_cert ⇒ client certificates are required and verified against the configured CA
    (!cfg.verifyClientCert ||
      (g.clientAuth == .requireAndVerifyClientCert && g.clientCAs == caPool cfg.ca))
  | _ => true

/-- `other`: a pool that is neither nil nor exactly the certificates of one configured `ca` file (e.g. the `ca`
    on top of the system roots) — numbered outside the range of file ids, so that the specification sees it -/
def poolOfStr (s : String) : Option Pool :=
  if s == "nil" then some none else if s == "other" then some (some 1000000) else (natOfStr s).map some

def mkOfStr (s : String) : Option MkRes :=
  if s == "err:missing" then some .errMissingCert
  else if s == "err:ca" then some .errLoadCA
  else if s == "err:cert" then some .errLoadCert
  else do
    let toks := words s
    let ins ← (kvGet toks "insecure").bind boolOfStr
    let root ← (kvGet toks "root").bind poolOfStr
    let client ← (kvGet toks "client").bind poolOfStr
    let auth ← match kvGet toks "auth" with
      | some "0" => some ClientAuth.noClientCert
      | some "4" => some ClientAuth.requireAndVerifyClientCert
      | _ => none
    let certs ← match kvGet toks "certs" with
      | some "none" => some CertSrc.none
      | some "temp" => some CertSrc.temp
      | some n => (natOfStr n).map CertSrc.file
      | none => none
    let cache ← match kvGet toks "cache" with
      | some "nil" => some none
      | some "set" => some (some 0)
      | _ => none
    pure (.ok ⟨ins, root, client, auth, certs, cache⟩)

/-- component `tlscfg`: `req=<0|1> cert=<-|n|bad> key=… ca=… insecure=<0|1> vcc=<0|1> temp=<0|1>` -/
def runCfg (case impl : String) : String × String :=
  let toks := words case
  match cfgOfToks toks, (kvGet toks "req").bind boolOfStr with
  | some cfg, some req =>
    let v := match mkOfStr impl with
      | some r => if specCfg cfg r then "ok" else "viol"
      | none => "unparsed"
    (strOfMk (makeTlsConfig cfg req), v)
  | _, _ => ("bad-case", "na")

def kindOfStr (s : String) : Option CertKind :=
  match s with
  | "valid" => some .valid | "wrongname" => some .wrongName | "unknownca" => some .unknownCA
  | "expired" => some .expired | "selfsigned" => some .selfSigned | "absent" => some .absent
  | "plain" => some .plain
  | _ => none

def strOfOutcome : Option Bool → String
  | none => "refused"
  | some true => "ok"
  | some false => "fail"

def outcomeOfStr (s : String) : Option (Option Bool) :=
  match s with
  | "refused" => some none
  | "ok" => some (some true)
  | "fail" => some (some false)
  | _ => none

/-- component `handshake`:
    `side=<up|li> proto=<dot|doh|doq> peer=<kind> swc=<0|1> cert=… key=… ca=… insecure=… vcc=… temp=…` -/
def runHandshake (case impl : String) : String × String :=
  let toks := words case
  match cfgOfToks toks, (kvGet toks "peer").bind kindOfStr, kvGet toks "side", (kvGet toks "swc").bind boolOfStr with
  | some cfg, some peer, some side, some swc =>
    if side != "up" && side != "li" then ("bad-case", "na") else
    let c : HsCase := ⟨if side == "up" then .upstream else .listener, cfg, peer, swc⟩
    let v := match outcomeOfStr impl with
      | some o => if specHs c o then "ok" else "viol"
      | none => "unparsed"
    (strOfOutcome (modelHs c), v)
  | _, _, _, _ => ("bad-case", "na")

def strOfOuts : Option (List Bool) → String
  | none => "refused"
  | some l => ".".intercalate (l.map (fun b => if b then "ok" else "fail"))

def outsOfStr (s : String) : Option (Option (List Bool)) :=
  if s == "refused" then some none
  else if s == "" then some (some [])
  else
    let r := (s.splitOn ".").map (fun t => if t == "ok" then some true else if t == "fail" then some false else none)
    if r.all Option.isSome then some (some (r.filterMap id)) else none

def upOfStr (s : String) : Option UpCfg :=
  match s.splitOn ":" with
  | [ca, ins, h] => do
    let ca ← fileOfStr ca
    let ins ← boolOfStr ins
    let hs ← if h == "s" then some true else if h == "o" then some false else none
    pure ⟨⟨.unset, .unset, ca, ins, false, false⟩, hs⟩
  | _ => none

def cliOfStr (s : String) : Option CliStep :=
  match s.splitOn ":" with
  | [k, c] => do
    let k ← kindOfStr k
    let c ← if c == "-" then some none else (natOfStr c).map some
    pure ⟨k, c⟩
  | _ => none

def allSome {α : Type} (l : List (Option α)) : Option (List α) :=
  if l.all Option.isSome then some (l.filterMap id) else none

/-- component `tlshist`:
    `side=up proto=… peer=<kind> ups=<ca>:<insecure>:<s|o>,… steps=<i>.<i>.…`
    `side=li proto=… ca=<-|1|2> vcc=<0|1> steps=<kind>:<cache|->,…` → `ok.fail.…` | `refused` -/
def runHist (case impl : String) : String × String :=
  let toks := words case
  match kvGet toks "side" with
  | some "up" =>
    match (kvGet toks "peer").bind kindOfStr, (kvGet toks "ups").bind (fun s => allSome ((s.splitOn ",").map upOfStr)),
          (kvGet toks "steps").bind (fun s => allSome ((s.splitOn ".").map natOfStr)) with
    | some peer, some ups, some steps =>
      let v := match outsOfStr impl with
        | some o => if specUpHist peer ups steps o then "ok" else "viol"
        | none => "unparsed"
      (strOfOuts (modelUpHist peer ups steps), v)
    | _, _, _ => ("bad-case", "na")
  | some "li" =>
    match (kvGet toks "ca").bind fileOfStr, (kvGet toks "vcc").bind boolOfStr,
          (kvGet toks "steps").bind (fun s => allSome ((s.splitOn ",").map cliOfStr)) with
    | some ca, some vcc, some steps =>
      let cfg : TlsConfig := ⟨.good 1, .good 1, ca, false, vcc, false⟩
      let v := match outsOfStr impl with
        | some o => if specLiHist cfg steps o then "ok" else "viol"
        | none => "unparsed"
      (strOfOuts (modelLiHist cfg steps), v)
    | _, _, _ => ("bad-case", "na")
  | _ => ("bad-case", "na")

end MosVerif.TlsCfg
