/-
  C06 — the inductive invariant of the `Reuse` transition system and its preservation by
  every step (helper lemmas for MosVerif/Props/C06.lean).
-/
import MosVerif.Model.Reuse
namespace MosVerif.Reuse

@[simp] theorem upd_same {α : Type} (f : Nat → α) (i : Nat) (a : α) : upd f i a i = a := by simp [upd]
@[simp] theorem upd_other {α : Type} (f : Nat → α) (i j : Nat) (a : α) (h : j ≠ i) : upd f i a j = f j := by
  simp [upd, h]

theorem upd_apply {α : Type} (f : Nat → α) (i j : Nat) (a : α) : upd f i a j = if j = i then a else f j := rfl

@[simp] theorem mon_append1 (h : List Event) (ev : Event) : mon (h ++ [ev]) = monStep (mon h) ev := by
  simp [mon, List.foldl_append]

@[simp] theorem mon_append (h₁ h₂ : List Event) : mon (h₁ ++ h₂) = h₂.foldl monStep (mon h₁) := by
  simp [mon, List.foldl_append]

/-- what must hold of a connection depending on the goroutine that owns it; `clean` = nothing
    is owed on the connection, no I/O on it ever failed, no exchange owns it -/
def WOK (k : Conn) (dirty : Bool) (owner : Option Nat) (wid : Nat) (acc : Nat → List Nat) (clean : Prop)
    (inAll : Prop) (tclosed : Bool) : Option Worker → Prop
  | none => True
  | some (.fresh _) => clean ∧ k.serving = false ∧ k.closed = false ∧ k.netClosed = false ∧ ¬ inAll
  | some (.hold _) => clean ∧ k.serving = true ∧ (k.netClosed = true → tclosed = true) ∧ inAll
  | some (.write e _) => k.pending = [] ∧ k.serving = true ∧ dirty = false ∧ owner = some e
  | some (.read e _ qid) => k.pending = [e] ∧ k.serving = true ∧ dirty = false ∧ owner = some e ∧ wid = qid
  | some (.post e _ (.ok q)) => q ∈ acc e ∧ clean ∧ k.serving = true
  | some (.post _ _ .err) => True
  | some (.relA true) => clean ∧ k.serving = true
  | some (.relA false) => True
  | some (.relB true) => clean ∧ k.serving = false
  | some (.relB false) => True

/-- the invariant of one connection, as a predicate of exactly the parts of the state and of the
    monitor it depends on -/
def COK (k : Conn) (out : List Nat) (dirty mclosed : Bool) (owner : Option Nat) (ab : Bool) (wid : Nat)
    (acc : Nat → List Nat) (inIdle inAll : Prop) (tclosed : Bool) (alloc : Prop) : Prop :=
  out = k.pending ∧ mclosed = k.netClosed ∧
  k.pending.length ≤ 1 ∧ (k.pending ≠ [] → k.serving = true) ∧
  (inIdle → k.worker = none ∧ k.serving = false ∧ (k.pending = [] ∧ k.halfRead = false ∧ dirty = false ∧ owner = none ∧ ab = false)) ∧
  WOK k dirty owner wid acc (k.pending = [] ∧ k.halfRead = false ∧ dirty = false ∧ owner = none ∧ ab = false) inAll tclosed k.worker ∧
  (¬ alloc → k.worker = none ∧ out = [] ∧ ¬ inIdle ∧ ¬ inAll ∧ dirty = false ∧ owner = none ∧ ab = false ∧ mclosed = false) ∧
  (inAll → alloc)

def ConnOK (s : State) (m : Mon) (c : Nat) : Prop :=
  COK (s.conn c) (m.out c) (m.dirty c) (m.closed c) (m.owner c) (m.ab c) (m.wid c) m.acc (c ∈ s.idle) (c ∈ s.all)
    s.tclosed
    (c < s.nconn)

structure Inv (s : State) : Prop where
  fault : s.fault = none
  ok : (mon s.hist).ok = true
  tcl : (mon s.hist).tclosed = s.tclosed
  conn : ∀ c, ConnOK s (mon s.hist) c
  chan : ∀ e a q, s.chan e a = some (.ok q) → q ∈ (mon s.hist).acc e

theorem inv_init : Inv State.init := by
  refine ⟨rfl, rfl, rfl, fun c => ?_, ?_⟩
  · simp [ConnOK, COK, WOK, State.init, Conn.fresh, mon, Mon.init]
  · simp [State.init]

variable {adv : Bool}

attribute [local simp] State.setConn State.setCaller State.emit State.finish State.spawn monStep

/-- the result channels did not change and the monitor's `acc` did not shrink -/
macro "chan_same" h:ident : tactic =>
  `(tactic| first
      | exact Inv.chan $h
      | (intro e a q hq
         have hch := Inv.chan $h e a q hq
         simp at hch ⊢
         first | exact hch | grind))

theorem core_start (h : Inv s) (e : Nat) : Inv (stepCoreG false adv s (.start e)) := by
  simp only [stepCoreG]
  split
  · exact ⟨h.fault, h.ok, h.tcl, h.conn, by chan_same h⟩
  · exact h

/-- the common shape: only connection `c` (and its monitor entries) changed -/
macro "conn_cases" h:ident c:ident : tactic =>
  `(tactic| (intro c'; by_cases hc : c' = $c
             · subst hc; simp [ConnOK, COK, WOK] at *; grind
             · simpa [ConnOK, hc] using Inv.conn $h c'))

/-- a change of connection `c` that COK does not look at -/
theorem connOK_irrelevant (h : Inv s) (c : Nat) (k : Conn)
    (h1 : k.serving = (s.conn c).serving) (h2 : k.netClosed = (s.conn c).netClosed)
    (h3 : k.pending = (s.conn c).pending) (h4 : k.worker = (s.conn c).worker)
    (h5 : k.halfRead = (s.conn c).halfRead) (h6 : k.closed = (s.conn c).closed) :
    ∀ c', ConnOK (s.setConn c k) (mon s.hist) c' := by
  intro c'
  by_cases hc : c' = c
  · subst hc
    have := h.conn c'
    simp only [ConnOK, COK] at this
    simp only [ConnOK, COK, State.setConn, upd_same, h1, h2, h3, h4, h5, h6]
    refine ⟨this.1, this.2.1, this.2.2.1, this.2.2.2.1, this.2.2.2.2.1, ?_, this.2.2.2.2.2.2⟩
    have hw := this.2.2.2.2.2.1
    generalize (s.conn c').worker = w at *
    rcases w with _ | w
    · trivial
    · rcases w with _ | _ | _ | _ | ⟨_, _, r⟩ | b | b
      all_goals first | (cases r <;> simp only [WOK] at hw ⊢ <;> grind) | (cases b <;> simp only [WOK] at hw ⊢ <;> grind) | (simp only [WOK] at hw ⊢; grind)
  · simpa [ConnOK, hc] using h.conn c'

theorem COK_ab {k : Conn} {out dirty mcl owner ab wid acc inIdle inAll tcl alloc}
    (h : COK k out dirty mcl owner ab wid acc inIdle inAll tcl alloc) (e : Nat) :
    COK k out dirty mcl owner (ab || (owner == some e)) wid acc inIdle inAll tcl alloc := by
  simp only [COK] at *
  refine ⟨h.1, h.2.1, h.2.2.1, h.2.2.2.1, ?_, ?_, ?_, h.2.2.2.2.2.2.2⟩
  · intro hi; have := h.2.2.2.2.1 hi; simp_all
  · have hw := h.2.2.2.2.2.1
    generalize k.worker = w at *
    rcases w with _ | w
    · trivial
    · rcases w with _ | _ | _ | _ | ⟨_, _, r⟩ | b | b
      all_goals first | (cases r <;> simp only [WOK] at hw ⊢ <;> simp_all) | (cases b <;> simp only [WOK] at hw ⊢ <;> simp_all) | (simp only [WOK] at hw ⊢; simp_all)
  · intro hi; have := h.2.2.2.2.2.2.1 hi; simp_all

/-- the invariant of a connection survives when the monitor's `acc` grows -/
theorem COK_acc_mono {k : Conn} {out dirty mcl owner ab wid} {acc acc' : Nat → List Nat} {inIdle inAll tcl alloc}
    (h : COK k out dirty mcl owner ab wid acc inIdle inAll tcl alloc) (hm : ∀ e q, q ∈ acc e → q ∈ acc' e) :
    COK k out dirty mcl owner ab wid acc' inIdle inAll tcl alloc := by
  simp only [COK] at *
  refine ⟨h.1, h.2.1, h.2.2.1, h.2.2.2.1, h.2.2.2.2.1, ?_, h.2.2.2.2.2.2.1, h.2.2.2.2.2.2.2⟩
  have hw := h.2.2.2.2.2.1
  generalize k.worker = w at *
  rcases w with _ | w
  · trivial
  · rcases w with _ | _ | _ | _ | ⟨_, _, r⟩ | b | b
    all_goals first
      | (cases r <;> simp only [WOK] at hw ⊢ <;> first | exact hw | exact ⟨hm _ _ hw.1, hw.2⟩)
      | (cases b <;> simp only [WOK] at hw ⊢ <;> exact hw)
      | (simp only [WOK] at hw ⊢; exact hw)

theorem core_cancel (h : Inv s) (e : Nat) : Inv (stepCoreG false adv s (.cancel e)) := by
  simp only [stepCoreG]
  exact ⟨h.fault, h.ok, h.tcl, h.conn, by chan_same h⟩

theorem core_workerWrite (h : Inv s) (c : Nat) (fail : Bool) : Inv (stepCoreG false adv s (.workerWrite c fail)) := by
  simp only [stepCoreG]
  split
  · rename_i e a hw
    have hcc := h.conn c
    simp only [ConnOK, COK, hw, WOK] at hcc
    split
    · refine ⟨h.fault, ?_, ?_, ?_, by chan_same h⟩
      · simp [h.ok]
      · simp [h.tcl]
      · conn_cases h c
    · refine ⟨h.fault, ?_, ?_, ?_, by chan_same h⟩
      · simp [h.ok, hcc]
      · simp [h.tcl]
      · conn_cases h c
  · exact h

theorem core_workerReadErr (h : Inv s) (c : Nat) : Inv (stepCoreG false adv s (.workerReadErr c)) := by
  simp only [stepCoreG]
  split
  · rename_i e a hw
    have hcc := h.conn c
    simp only [ConnOK, COK, hw, WOK] at hcc
    refine ⟨h.fault, ?_, ?_, ?_, by chan_same h⟩
    · simp [h.ok]
    · simp [h.tcl]
    · conn_cases h c
  · exact h

theorem core_workerReadOk (h : Inv s) (c : Nat) : Inv (stepCoreG false adv s (.workerReadOk c)) := by
  simp only [stepCoreG]
  split
  · rename_i e a qid hw
    have hcc := h.conn c
    simp only [ConnOK, COK, hw, WOK] at hcc
    have hwid : (mon s.hist).wid c = qid := hcc.2.2.2.2.2.1.2.2.2.2
    have hown : (mon s.hist).owner c = some e := hcc.2.2.2.2.2.1.2.2.2.1
    split
    · exact h
    · split
      · rename_i f fs hin
        split
        · -- a frame that does not decode
          refine ⟨h.fault, ?_, ?_, ?_, by chan_same h⟩
          · simp [h.ok]
          · simp [h.tcl]
          · conn_cases h c
        · split
          · -- the reply with the id of the query: accepted
            rename_i hid
            have hacc : ∀ e' q, q ∈ (mon s.hist).acc e' →
                q ∈ upd (mon s.hist).acc e (f.q :: (mon s.hist).acc e) e' := by
              intro e' q hq
              by_cases he : e' = e
              · subst he; simp [hq]
              · simpa [he] using hq
            refine ⟨h.fault, ?_, ?_, ?_, ?_⟩
            · simp [h.ok, hwid, hid, hown]
            · simp [h.tcl, hwid, hid, hown]
            · intro c'
              by_cases hc : c' = c
              · subst hc; simp [ConnOK, COK, WOK, hwid, hid, hown] at *; grind
              · have := COK_acc_mono (h.conn c') hacc
                simpa [ConnOK, hc, hwid, hid, hown] using this
            · intro e' a' q hq
              have := hacc e' q (h.chan e' a' q hq)
              simpa [hwid, hid, hown] using this
          · -- a frame with another id: errUnexpectedRespID
            rename_i hid
            have hne : ¬ f.id = (mon s.hist).wid c := by rw [hwid]; exact hid
            refine ⟨h.fault, ?_, ?_, ?_, ?_⟩
            · simp [h.ok, hne]
            · simp [h.tcl, hne]
            · intro c'
              by_cases hc : c' = c
              · subst hc; simp [ConnOK, COK, WOK, hne] at *; grind
              · simpa [ConnOK, hc, hne] using h.conn c'
            · intro e' a' q hq
              simpa [hne] using h.chan e' a' q hq
      · exact h
  · exact h

theorem core_workerPost (h : Inv s) (c : Nat) : Inv (stepCoreG false adv s (.workerPost c)) := by
  simp only [stepCoreG]
  split
  · rename_i e a r hw
    have hcc := h.conn c
    simp only [ConnOK, COK, hw] at hcc
    refine ⟨h.fault, ?_, ?_, ?_, ?_⟩
    · simp [h.ok]
    · simp [h.tcl]
    · cases r <;> simp only [WOK] at hcc <;> conn_cases h c
    · intro e' a' q hq
      by_cases he : e' = e
      · by_cases ha : a' = a
        · subst he ha
          cases r
          · simp only [WOK] at hcc; simp at hq; subst hq; simpa using hcc.2.2.2.2.2.1.1
          · simp at hq
        · subst he
          simp [ha] at hq
          simpa using h.chan _ _ _ hq
      · simp [he] at hq
        simpa using h.chan _ _ _ hq
  · exact h

theorem core_srvReply (h : Inv s) (c : Nat) (g : Bool) : Inv (stepCoreG false adv s (.srvReply c g)) := by
  simp only [stepCoreG]
  split
  · split
    · exact ⟨h.fault, h.ok, h.tcl, connOK_irrelevant h c _ rfl rfl rfl rfl rfl rfl, h.chan⟩
    · exact h
  · exact h

theorem core_srvDup (h : Inv s) (c n : Nat) : Inv (stepCoreG false adv s (.srvDup c n)) := by
  simp only [stepCoreG]
  split
  · split
    · exact ⟨h.fault, h.ok, h.tcl, connOK_irrelevant h c _ rfl rfl rfl rfl rfl rfl, h.chan⟩
    · exact h
  · exact h

theorem core_srvStray (h : Inv s) (c : Nat) (f : Frame) : Inv (stepCoreG false adv s (.srvStray c f)) := by
  simp only [stepCoreG]
  split
  · exact ⟨h.fault, h.ok, h.tcl, connOK_irrelevant h c _ rfl rfl rfl rfl rfl rfl, h.chan⟩
  · exact h

theorem core_srvAbort (h : Inv s) (c : Nat) : Inv (stepCoreG false adv s (.srvAbort c)) := by
  simp only [stepCoreG]
  split
  · exact ⟨h.fault, h.ok, h.tcl, connOK_irrelevant h c _ rfl rfl rfl rfl rfl rfl, by chan_same h⟩
  · exact h

theorem core_workerRelA (h : Inv s) (c : Nat) : Inv (stepCoreG false adv s (.workerRelA c)) := by
  simp only [stepCoreG]
  split
  · rename_i ok hw
    have hcc := h.conn c
    simp only [ConnOK, COK, hw] at hcc
    cases ok
    · simp only [WOK] at hcc
      simp only [State.rcClose, State.netClose, Bool.false_eq_true, if_false]
      split
      · refine ⟨h.fault, h.ok, h.tcl, ?_, by chan_same h⟩
        conn_cases h c
      · split
        · refine ⟨h.fault, h.ok, h.tcl, ?_, by chan_same h⟩
          conn_cases h c
        · refine ⟨h.fault, ?_, ?_, ?_, by chan_same h⟩
          · simp [h.ok]
          · simp [h.tcl]
          · conn_cases h c
    · simp only [WOK] at hcc
      simp only [if_true]
      split
      · simp_all
      · refine ⟨h.fault, h.ok, h.tcl, ?_, by chan_same h⟩
        conn_cases h c
  · exact h

/-- returning an error to the caller changes nothing the invariant looks at -/
theorem finish_err (h : Inv s) (e : Nat) : Inv (s.finish e .err) := by
  refine ⟨h.fault, ?_, ?_, fun c' => ?_, by chan_same h⟩
  · simp [h.ok]
  · simp [h.tcl]
  · simpa [ConnOK] using h.conn c'

theorem finish_ctx (h : Inv s) (e : Nat) : Inv (s.finish e .ctx) := by
  refine ⟨h.fault, ?_, ?_, fun c' => ?_, by chan_same h⟩
  · simp [h.ok]
  · simp [h.tcl]
  · have := COK_ab (h.conn c') e
    simpa [ConnOK] using this

theorem finish_ok (h : Inv s) (e q : Nat) (hq : q ∈ (mon s.hist).acc e) : Inv (s.finish e (.ok q)) := by
  refine ⟨h.fault, ?_, ?_, fun c' => ?_, by chan_same h⟩
  · simp [h.ok, hq]
  · simp [h.tcl]
  · simpa [ConnOK] using h.conn c'

theorem inv_setCaller (h : Inv s) (e : Nat) (k : Caller) : Inv (s.setCaller e k) :=
  ⟨h.fault, h.ok, h.tcl, h.conn, by chan_same h⟩

theorem core_recvRes (h : Inv s) (e : Nat) : Inv (stepCoreG false adv s (.recvRes e)) := by
  simp only [stepCoreG]
  split
  · split
    · rename_i q hq
      exact finish_ok h _ _ (h.chan _ _ _ hq)
    · split
      · exact inv_setCaller h _ _
      · exact finish_err h _
    · exact h
  · exact h

theorem core_giveUp (h : Inv s) (e : Nat) : Inv (stepCoreG false adv s (.giveUp e)) := by
  simp only [stepCoreG]
  split
  · split
    · exact finish_ctx h _
    · exact finish_ctx h _
    · exact h
  · exact h

theorem core_dialFail (h : Inv s) (e : Nat) (b : Bool) : Inv (stepCoreG false adv s (.dialFail e b)) := by
  simp only [stepCoreG]
  split
  · split
    · exact finish_err (inv_setCaller h _ _) _
    · exact inv_setCaller h _ _
  · exact h

theorem core_idleTimer (h : Inv s) (c : Nat) : Inv (stepCoreG false adv s (.idleTimer c)) := by
  simp only [stepCoreG]
  split
  · by_cases hf : beforeExitIdle (s.conn c).worker = true
    · simp only [hf, Bool.not_false, Bool.and_self, if_true]
      exact h
    · have hnf : ∀ e, (s.conn c).worker ≠ some (.fresh e) := by
        intro e he; rw [he] at hf; exact hf rfl
      simp only [hf, Bool.false_and, Bool.false_eq_true, if_false]
      split
      · have hcc := h.conn c
        simp only [ConnOK, COK] at hcc
        simp only [State.netClose]
        split
        · refine ⟨h.fault, h.ok, h.tcl, ?_, by chan_same h⟩
          intro c'
          by_cases hc : c' = c
          · subst hc
            rcases hw : (s.conn c').worker with _ | w
            · simp [ConnOK, COK, WOK, hw] at * <;> grind
            · rcases w with _ | _ | _ | _ | ⟨_, _, r⟩ | b | b
              all_goals first | (cases r <;> simp [ConnOK, COK, WOK, hw] at * <;> grind) | (cases b <;> simp [ConnOK, COK, WOK, hw] at * <;> grind) | (simp [ConnOK, COK, WOK, hw] at * <;> grind)
          · simpa [ConnOK, hc] using h.conn c'
        · refine ⟨h.fault, ?_, ?_, ?_, by chan_same h⟩
          · simp [h.ok]
          · simp [h.tcl]
          · intro c'
            by_cases hc : c' = c
            · subst hc
              rcases hw : (s.conn c').worker with _ | w
              · simp [ConnOK, COK, WOK, hw] at * <;> grind
              · rcases w with _ | _ | _ | _ | ⟨_, _, r⟩ | b | b
                all_goals first | (cases r <;> simp [ConnOK, COK, WOK, hw] at * <;> grind) | (cases b <;> simp [ConnOK, COK, WOK, hw] at * <;> grind) | (simp [ConnOK, COK, WOK, hw] at * <;> grind)
            · simpa [ConnOK, hc] using h.conn c'
      · exact h
  · exact h

theorem core_workerRelB (h : Inv s) (c : Nat) : Inv (stepCoreG false adv s (.workerRelB c)) := by
  simp only [stepCoreG]
  split
  · rename_i ok hw
    have hcc := h.conn c
    simp only [ConnOK, COK, hw] at hcc
    cases ok
    · simp only [WOK] at hcc
      split
      · simp only [Bool.false_eq_true, if_false]
        refine ⟨h.fault, h.ok, h.tcl, ?_, by chan_same h⟩
        conn_cases h c
      · simp only [Bool.false_eq_true, if_false]
        refine ⟨h.fault, h.ok, h.tcl, ?_, by chan_same h⟩
        intro c'
        by_cases hc : c' = c
        · subst hc; simp [ConnOK, COK, WOK] at *; grind
        · simpa [ConnOK, hc] using h.conn c'
    · simp only [WOK] at hcc
      split
      · simp only [if_true, State.rcClose, State.netClose]
        split
        · refine ⟨h.fault, h.ok, h.tcl, ?_, by chan_same h⟩
          conn_cases h c
        · split
          · refine ⟨h.fault, h.ok, h.tcl, ?_, by chan_same h⟩
            conn_cases h c
          · refine ⟨h.fault, ?_, ?_, ?_, by chan_same h⟩
            · simp [h.ok]
            · simp [h.tcl]
            · conn_cases h c
      · simp only [if_true]
        refine ⟨h.fault, h.ok, h.tcl, ?_, by chan_same h⟩
        intro c'
        by_cases hc : c' = c
        · subst hc; simp [ConnOK, COK, WOK] at *; grind
        · have := h.conn c'
          by_cases hi : c ∈ s.idle
          · simpa [ConnOK, hc, hi] using this
          · simpa [ConnOK, hc, hi] using this
  · exact h

theorem core_dialDeliver (h : Inv s) (c : Nat) (b : Bool) : Inv (stepCoreG false adv s (.dialDeliver c b)) := by
  simp only [stepCoreG]
  split
  · rename_i e hw
    have hcc := h.conn c
    simp only [ConnOK, COK, hw, WOK] at hcc
    have htc := h.tcl
    split
    · refine ⟨h.fault, ?_, ?_, ?_, by chan_same h⟩
      · simp [h.ok]; grind
      · simp [h.tcl]
      · conn_cases h c
    · refine ⟨h.fault, h.ok, h.tcl, ?_, by chan_same h⟩
      conn_cases h c
  · exact h

theorem core_dialDone (h : Inv s) (e : Nat) (b : Bool) : Inv (stepCoreG false adv s (.dialDone e b)) := by
  simp only [stepCoreG]
  split
  · split
    · have hcc := h.conn s.nconn
      simp only [ConnOK, COK] at hcc
      have hp := hcc.2.2.2.2.2.2.1 (Nat.lt_irrefl _)
      refine ⟨h.fault, ?_, ?_, ?_, by chan_same h⟩
      · simp [h.ok]
      · simp [h.tcl]
      · intro c'
        by_cases hc : c' = s.nconn
        · subst hc; simp [ConnOK, COK, WOK, Conn.fresh] at *; grind
        · have := h.conn c'
          simp [ConnOK, hc] at this ⊢
          simp only [COK] at this ⊢
          grind
    · exact inv_setCaller h _ _
  · exact h

theorem core_dialExit (h : Inv s) (c : Nat) : Inv (stepCoreG false adv s (.dialExit c)) := by
  simp only [stepCoreG]
  split
  · rename_i e hw
    have hcc := h.conn c
    simp only [ConnOK, COK, hw, WOK] at hcc
    have hcl : (s.conn c).closed = false := hcc.2.2.2.2.2.1.2.2.1
    have hsv : (s.conn c).serving = false := hcc.2.2.2.2.2.1.2.1
    have hnc : (s.conn c).netClosed = false := hcc.2.2.2.2.2.1.2.2.2.1
    simp only [hcl, hsv, Bool.not_false, Bool.true_and, Bool.false_eq_true, if_false]
    split
    · simp only [State.rcClose, State.netClose, State.setConn, State.setCaller, State.emit, upd_same, hcl, hnc,
        Bool.false_eq_true, if_false]
      refine ⟨h.fault, ?_, ?_, ?_, by chan_same h⟩
      · simp [h.ok]
      · simp [h.tcl]
      · intro c'
        by_cases hc : c' = c
        · subst hc; simp [ConnOK, COK, WOK] at *; grind
        · simpa [ConnOK, hc] using h.conn c'
    · refine ⟨h.fault, h.ok, h.tcl, ?_, by chan_same h⟩
      intro c'
      by_cases hc : c' = c
      · subst hc; simp [ConnOK, COK, WOK] at *; grind
      · simpa [ConnOK, hc] using h.conn c'
  · exact h

theorem core_workerReadPart (h : Inv s) (c : Nat) : Inv (stepCoreG false adv s (.workerReadPart c)) := by
  simp only [stepCoreG]
  split
  · rename_i e a hw
    have hcc := h.conn c
    simp only [ConnOK, COK, hw, WOK] at hcc
    split
    · exact h
    · refine ⟨h.fault, h.ok, h.tcl, ?_, by chan_same h⟩
      conn_cases h c
  · exact h

theorem core_getIdle (h : Inv s) (e : Nat) (pick : Option Nat) : Inv (stepCoreG false adv s (.getIdle e pick)) := by
  simp only [stepCoreG]
  split
  · split
    · exact inv_setCaller h _ _
    · split
      · exact finish_err h _
      · split
        · split
          · exact inv_setCaller h _ _
          · exact h
        · rename_i c
          split
          · rename_i hin
            have hcc := h.conn c
            simp only [ConnOK, COK] at hcc
            have hi := hcc.2.2.2.2.1 hin
            have htc := h.tcl
            skip
            split
            · -- closed: forget
              refine ⟨h.fault, h.ok, h.tcl, ?_, by chan_same h⟩
              intro c'
              by_cases hc : c' = c
              · subst hc; simp [ConnOK, COK, WOK, hi] at *; grind
              · simpa [ConnOK, hc] using h.conn c'
            · split
              · simp_all
              · split
                · refine ⟨h.fault, h.ok, h.tcl, ?_, by chan_same h⟩
                  intro c'
                  by_cases hc : c' = c
                  · subst hc; simp [ConnOK, COK, WOK, hi] at *; grind
                  · simpa [ConnOK, hc] using h.conn c'
                · split
                  · simp_all
                  · refine ⟨h.fault, ?_, ?_, ?_, by chan_same h⟩
                    · simp [h.ok]; grind
                    · simp [h.tcl]
                    · intro c'
                      by_cases hc : c' = c
                      · subst hc; simp [ConnOK, COK, WOK, hi] at *; grind
                      · simpa [ConnOK, hc] using h.conn c'
          · exact h
  · exact h

theorem foldl_cl (l : List Nat) (m : Mon) :
    ((l.map Event.cl).foldl monStep m).ok = m.ok ∧
    ((l.map Event.cl).foldl monStep m).out = m.out ∧
    ((l.map Event.cl).foldl monStep m).dirty = m.dirty ∧
    ((l.map Event.cl).foldl monStep m).owner = m.owner ∧
    ((l.map Event.cl).foldl monStep m).ab = m.ab ∧
    ((l.map Event.cl).foldl monStep m).tclosed = m.tclosed ∧
    ((l.map Event.cl).foldl monStep m).wid = m.wid ∧
    ((l.map Event.cl).foldl monStep m).acc = m.acc ∧
    ((l.map Event.cl).foldl monStep m).own = m.own ∧
    ∀ c, ((l.map Event.cl).foldl monStep m).closed c = (m.closed c || decide (c ∈ l)) := by
  induction l generalizing m with
  | nil => simp
  | cons x xs ih =>
    have := ih (monStep m (.cl x))
    simp only [List.map_cons, List.foldl_cons]
    refine ⟨this.1, this.2.1, this.2.2.1, this.2.2.2.1, this.2.2.2.2.1, this.2.2.2.2.2.1, this.2.2.2.2.2.2.1,
      this.2.2.2.2.2.2.2.1, this.2.2.2.2.2.2.2.2.1, fun c => ?_⟩
    rw [this.2.2.2.2.2.2.2.2.2 c]
    by_cases hc : c = x
    · subst hc; simp
    · simp [hc]

theorem core_tClose (h : Inv s) : Inv (stepCoreG false adv s .tClose) := by
  simp only [stepCoreG]
  split
  · exact h
  · rename_i htc
    have F := foldl_cl (s.all.filter (fun c => !(s.conn c).netClosed)) (monStep (mon s.hist) .tclose)
    refine ⟨h.fault, ?_, ?_, ?_, ?_⟩
    · simp only [mon_append, List.foldl_cons]; rw [F.1]; simp [h.ok]
    · simp only [mon_append, List.foldl_cons]; rw [F.2.2.2.2.2.1]; simp
    · intro c'
      have := h.conn c'
      simp only [ConnOK, mon_append, List.foldl_cons]
      rw [F.2.1, F.2.2.1, F.2.2.2.1, F.2.2.2.2.1, F.2.2.2.2.2.2.1, F.2.2.2.2.2.2.2.1, F.2.2.2.2.2.2.2.2.2 c']
      simp only [ConnOK, COK] at this
      simp only [COK, monStep]
      by_cases hin : c' ∈ s.all
      · rcases hw : (s.conn c').worker with _ | w
        · simp [hin, hw, WOK] at * <;> grind
        · rcases w with _ | _ | _ | _ | ⟨_, _, r⟩ | b | b
          all_goals first | (cases r <;> simp [hin, hw, WOK] at * <;> grind) | (cases b <;> simp [hin, hw, WOK] at * <;> grind) | (simp [hin, hw, WOK] at * <;> grind)
      · rcases hw : (s.conn c').worker with _ | w
        · simp [hin, hw, WOK] at * <;> grind
        · rcases w with _ | _ | _ | _ | ⟨_, _, r⟩ | b | b
          all_goals first | (cases r <;> simp [hin, hw, WOK] at * <;> grind) | (cases b <;> simp [hin, hw, WOK] at * <;> grind) | (simp [hin, hw, WOK] at * <;> grind)
    · intro e a q hq
      simp only [mon_append, List.foldl_cons]
      rw [F.2.2.2.2.2.2.2.1]
      simpa [monStep] using h.chan e a q hq

/-- every step preserves the invariant -/
theorem step_inv (h : Inv s) (a : Act) : Inv (step s a) := by
  simp only [step, h.fault, Option.isSome_none, Bool.false_eq_true, if_false]
  cases a with
  | start e => exact core_start h e
  | cancel e => exact core_cancel h e
  | getIdle e p => exact core_getIdle h e p
  | recvRes e => exact core_recvRes h e
  | giveUp e => exact core_giveUp h e
  | dialDone e b => exact core_dialDone h e b
  | dialExit c => exact core_dialExit h c
  | dialDeliver c b => exact core_dialDeliver h c b
  | dialFail e b => exact core_dialFail h e b
  | workerWrite c b => exact core_workerWrite h c b
  | workerReadPart c => exact core_workerReadPart h c
  | workerReadOk c => exact core_workerReadOk h c
  | workerReadErr c => exact core_workerReadErr h c
  | workerPost c => exact core_workerPost h c
  | workerRelA c => exact core_workerRelA h c
  | workerRelB c => exact core_workerRelB h c
  | idleTimer c => exact core_idleTimer h c
  | tClose => exact core_tClose h
  | srvReply c g => exact core_srvReply h c g
  | srvDup c n => exact core_srvDup h c n
  | srvStray c f => exact core_srvStray h c f
  | srvAbort c => exact core_srvAbort h c

/-- … also against a server that sends arbitrary frames -/
theorem stepAdv_inv (h : Inv s) (a : Act) : Inv (stepAdv s a) := by
  simp only [stepAdv, h.fault, Option.isSome_none, Bool.false_eq_true, if_false]
  cases a with
  | start e => exact core_start h e
  | cancel e => exact core_cancel h e
  | getIdle e p => exact core_getIdle h e p
  | recvRes e => exact core_recvRes h e
  | giveUp e => exact core_giveUp h e
  | dialDone e b => exact core_dialDone h e b
  | dialExit c => exact core_dialExit h c
  | dialDeliver c b => exact core_dialDeliver h c b
  | dialFail e b => exact core_dialFail h e b
  | workerWrite c b => exact core_workerWrite h c b
  | workerReadPart c => exact core_workerReadPart h c
  | workerReadOk c => exact core_workerReadOk h c
  | workerReadErr c => exact core_workerReadErr h c
  | workerPost c => exact core_workerPost h c
  | workerRelA c => exact core_workerRelA h c
  | workerRelB c => exact core_workerRelB h c
  | idleTimer c => exact core_idleTimer h c
  | tClose => exact core_tClose h
  | srvReply c g => exact core_srvReply h c g
  | srvDup c n => exact core_srvDup h c n
  | srvStray c f => exact core_srvStray h c f
  | srvAbort c => exact core_srvAbort h c

theorem execAdv_inv (h : Inv s) (acts : List Act) : Inv (execAdv s acts) := by
  induction acts generalizing s with
  | nil => exact h
  | cons a as ih => exact ih (stepAdv_inv h a)

/-- the (safety) invariant holds in every state reachable against an arbitrary server -/
theorem reachAdv_inv (acts : List Act) : Inv (execAdv State.init acts) := execAdv_inv inv_init acts

theorem exec_inv (h : Inv s) (acts : List Act) : Inv (exec s acts) := by
  induction acts generalizing s with
  | nil => exact h
  | cons a as ih => exact ih (step_inv h a)

/-- the invariant holds in every reachable state -/
theorem reach_inv (acts : List Act) : Inv (exec State.init acts) := exec_inv inv_init acts

end MosVerif.Reuse
