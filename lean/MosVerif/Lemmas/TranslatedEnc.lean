/-
  Tie by translation (C02/C09): the DNS wire ENCODER, leaf writers of utils.go.
  `Translated.packByte/packUint16/packUint32/packBytes/packNamePtr` (regenerated from the current Go source; the
  pre-sized buffer is threaded through as a value) are EQUAL to `Wire.writeAt` of the model's encoders (`enc16`,
  `enc32`, the octets themselves), for all buffers, offsets and values.
-/
import MosVerif.Lemmas.TranslatedCodec
import MosVerif.Model.Pack
namespace MosVerif.Wire
open MosVerif

theorem u8_ofNat_mod (n : Nat) : UInt8.ofNat (n % 256) = UInt8.ofNat n := by
  apply UInt8.toNat_inj.1
  simp [UInt8.toNat_ofNat']

/-- a buffer with room for `n` octets at `off` is `prefix ++ window ++ rest` -/
theorem split3 (b : Bytes) (off n : Nat) (h : off + n ≤ b.length) :
    ∃ p m r, b = p ++ (m ++ r) ∧ p.length = off ∧ m.length = n := by
  refine ⟨b.take off, (b.drop off).take n, b.drop (off + n), ?_, by simp; omega, by simp; omega⟩
  rw [← List.drop_drop, List.take_append_drop, List.take_append_drop]

theorem take_len_add (p x r : Bytes) : List.take (p.length + x.length) (p ++ (x ++ r)) = p ++ x := by
  rw [← List.append_assoc, ← List.length_append]; exact List.take_left' rfl

/-- canonical form of a write that fits -/
theorem writeAt_split (p m r bs : Bytes) (h : bs.length = m.length) :
    writeAt (p ++ (m ++ r)) p.length bs = .ok (p ++ (bs ++ r), p.length + bs.length) := by
  unfold writeAt
  have : p.length + bs.length ≤ (p ++ (m ++ r)).length := by simp; omega
  simp [h]

theorem writeAt_err (b : Bytes) (off : Nat) (bs : Bytes) (h : ¬ off + bs.length ≤ b.length) :
    writeAt b off bs = .err := by
  unfold writeAt; simp [h]

theorem writeAt_ok_length (b : Bytes) (off : Nat) (bs b' : Bytes) (o : Nat) (h : writeAt b off bs = .ok (b', o)) :
    b'.length = b.length ∧ o = off + bs.length ∧ off + bs.length ≤ b.length := by
  unfold writeAt at h
  by_cases hf : off + bs.length ≤ b.length
  · simp only [hf, if_true, Res.ok.injEq, Prod.mk.injEq] at h
    obtain ⟨rfl, rfl⟩ := h
    refine ⟨?_, rfl, hf⟩
    simp; omega
  · simp [hf] at h

/-- sequential writes are ONE write of the concatenation -/
theorem writeAt_append (b : Bytes) (off : Nat) (x y : Bytes) :
    writeAt b off (x ++ y) = (writeAt b off x >>= fun r => writeAt r.1 r.2 y) := by
  by_cases h : off + (x ++ y).length ≤ b.length
  · obtain ⟨p, m, r, rfl, rfl, hm⟩ := split3 b off (x ++ y).length h
    have hm' : m.length = x.length + y.length := by simpa using hm
    obtain ⟨m1, m2, rfl, h1, h2⟩ : ∃ m1 m2, m = m1 ++ m2 ∧ m1.length = x.length ∧ m2.length = y.length :=
      ⟨m.take x.length, m.drop x.length, by simp, by simp; omega, by simp; omega⟩
    rw [writeAt_split p (m1 ++ m2) r (x ++ y) (by simp [h1, h2])]
    have e1 : p ++ (m1 ++ m2 ++ r) = p ++ (m1 ++ (m2 ++ r)) := by simp
    rw [e1, writeAt_split p m1 (m2 ++ r) x h1.symm]
    simp only [Res.bind_ok']
    have e2 : p ++ (x ++ (m2 ++ r)) = (p ++ x) ++ (m2 ++ r) := by simp
    have e3 : p.length + x.length = (p ++ x).length := by simp
    rw [e2, e3, writeAt_split (p ++ x) m2 r y h2.symm]
    simp [Nat.add_assoc]
  · rw [writeAt_err b off (x ++ y) h]
    by_cases hx : off + x.length ≤ b.length
    · obtain ⟨p, m, r, rfl, rfl, hm⟩ := split3 b off x.length hx
      rw [writeAt_split p m r x hm.symm]
      simp only [Res.bind_ok']
      rw [writeAt_err]
      simp at h ⊢; omega
    · rw [writeAt_err b off x hx]; rfl

theorem writeAt_nil (b : Bytes) (off : Nat) (h : off ≤ b.length) : writeAt b off [] = .ok (b, off) := by
  unfold writeAt; simp [h]

/-! ### the leaf writers -/

/-- `packByte` -/
theorem packByte_translated (b : Bytes) (off v : Nat) :
    writeAt b off [UInt8.ofNat v] = Translated.packByte b off v := by
  unfold Translated.packByte
  by_cases h : off + 1 ≤ b.length
  · obtain ⟨p, m, r, rfl, rfl, hm⟩ := split3 b off 1 h
    match m, hm with
    | [m0], _ =>
      rw [writeAt_split p [m0] r [UInt8.ofNat v] rfl]
      have : p.length < (p ++ ([m0] ++ r)).length := by simp
      simp [GoSem.setIndex, this]
  · rw [writeAt_err _ _ _ (by simpa using h)]
    simp [h]

/-- `packUint16` writes the model's `enc16` -/
theorem packUint16_translated (b : Bytes) (off v : Nat) :
    writeAt b off (enc16 v) = Translated.packUint16 b off v := by
  unfold Translated.packUint16
  by_cases h : off + 2 ≤ b.length
  · obtain ⟨p, m, r, rfl, rfl, hm⟩ := split3 b off 2 h
    match m, hm with
    | [m0, m1], _ =>
      rw [writeAt_split p [m0, m1] r (enc16 v) rfl]
      simp [GoSem.sliceFrom, GoSem.putUint16, GoSem.splice, enc16, u8_ofNat_mod]
  · rw [writeAt_err _ _ _ (by simpa [enc16] using h)]
    simp [h]

/-- `packUint32` writes the model's `enc32` -/
theorem packUint32_translated (b : Bytes) (off v : Nat) :
    writeAt b off (enc32 v) = Translated.packUint32 b off v := by
  unfold Translated.packUint32
  by_cases h : off + 4 ≤ b.length
  · obtain ⟨p, m, r, rfl, rfl, hm⟩ := split3 b off 4 h
    match m, hm with
    | [m0, m1, m2, m3], _ =>
      rw [writeAt_split p [m0, m1, m2, m3] r (enc32 v) rfl]
      simp [GoSem.sliceFrom, GoSem.putUint32, GoSem.splice, enc32, u8_ofNat_mod]
  · rw [writeAt_err _ _ _ (by simpa [enc32] using h)]
    simp [h]

/-- `packBytes` writes the octets -/
theorem packBytes_translated (b : Bytes) (off : Nat) (v : Bytes) :
    writeAt b off v = Translated.packBytes b off v := by
  unfold Translated.packBytes
  by_cases h : off + v.length ≤ b.length
  · obtain ⟨p, m, r, rfl, rfl, hm⟩ := split3 b off v.length h
    rw [writeAt_split p m r _ hm.symm]
    simp [GoSem.sliceFrom, GoSem.copy, GoSem.splice, hm, List.take_of_length_le]
  · rw [writeAt_err _ _ _ h]
    simp [h]

/-- `packNamePtr` writes the two octets of its `[2]byte` argument -/
theorem packNamePtr_translated (b : Bytes) (off : Nat) (v : Bytes) (hv : v.length = 2) :
    writeAt b off v = Translated.packNamePtr b off v := by
  unfold Translated.packNamePtr
  by_cases h : off + 2 ≤ b.length
  · obtain ⟨p, m, r, rfl, rfl, hm⟩ := split3 b off 2 h
    rw [writeAt_split p m r _ (by omega)]
    simp [GoSem.sliceFrom, GoSem.copy, GoSem.splice, hm, hv, List.take_of_length_le]
  · rw [writeAt_err _ _ _ (by omega)]
    simp [h]

end MosVerif.Wire
