/-
  C18 — invariants of the close-protocol model (Model/Close.lean), preserved by every step.
-/
import MosVerif.Model.Close
namespace MosVerif.Close

/-- What holds in every reachable state:
    * an open connection is tracked by the transport (so `Close` reaches it);
    * once closed: no connection is open, only stubborn dials are still pending, and a caller that has not
      returned waits for such a dial (never on a pipelined transport, whose Close fails all waiters);
    * a caller that has not returned sits on a connection or on a pending dial. -/
structure Inv (s : St) : Prop where
  openTracked : ∀ c ∈ s.conns, c.isOpen = true → c.tracked = true
  closedNoOpen : s.closed = true → ∀ c ∈ s.conns, c.isOpen = false
  closedDials : s.closed = true → ∀ d ∈ s.dials, d.stubborn = true
  waiting : ∀ x ∈ s.exs, x.res = none → (∃ c, x.loc = .conn c) ∨ (∃ d ∈ s.dials, x.loc = .dial d.id)
  closedBlocked : s.closed = true → ∀ x ∈ s.exs, x.res = none →
      (∃ d ∈ s.dials, x.loc = .dial d.id) ∧ s.kind ≠ .pipe

theorem inv_init (k : Kind) : Inv (init k) := by
  constructor <;> simp [init]

theorem or_some_ne_none (r : Option Res) (v : Res) : (r.or (some v) = none) = False := by
  cases r <;> simp

theorem inv_cancel (s : St) (e : Nat) (h : Inv s) : Inv (cancelOp s e) := by
  obtain ⟨hA, hB, hC, hW, hD⟩ := h
  constructor <;> simp only [cancelOp, List.mem_map] <;> grind

theorem inv_timer (s : St) (h : Inv s) : Inv (timerOp s) := by
  obtain ⟨hA, hB, hC, hW, hD⟩ := h
  unfold timerOp
  split
  · exact ⟨hA, hB, hC, hW, hD⟩
  · split
    · exact ⟨hA, hB, hC, hW, hD⟩
    · constructor <;> simp only [List.mem_map] <;> grind
    · constructor <;> simp only [List.mem_map] <;> grind

theorem inv_reply (s : St) (e : Nat) (h : Inv s) : Inv (replyOp s e) := by
  obtain ⟨hA, hB, hC, hW, hD⟩ := h
  unfold replyOp
  repeat' split
  all_goals
    first
    | exact ⟨hA, hB, hC, hW, hD⟩
    | (constructor <;> simp only [List.mem_map] <;> grind)

theorem inv_dialErr (s : St) (d : Nat) (h : Inv s) : Inv (dialErrOp s d) := by
  obtain ⟨hA, hB, hC, hW, hD⟩ := h
  unfold dialErrOp
  split
  · exact ⟨hA, hB, hC, hW, hD⟩
  · constructor <;> simp only [failWaiters, List.mem_map, List.mem_filter] <;> grind

theorem inv_dialOk (s : St) (d : Nat) (h : Inv s) : Inv (dialOkOp s d) := by
  obtain ⟨hA, hB, hC, hW, hD⟩ := h
  unfold dialOkOp
  split
  · exact ⟨hA, hB, hC, hW, hD⟩
  · split
    · constructor <;>
        simp only [failWaiters, List.mem_map, List.mem_filter, List.mem_append, List.mem_singleton] <;> grind
    · constructor <;>
        simp only [List.mem_map, List.mem_filter, List.mem_append, List.mem_singleton] <;> grind

theorem inv_start (s : St) (e : Nat) (b : Bool) (h : Inv s) : Inv (startOp s e b) := by
  obtain ⟨hA, hB, hC, hW, hD⟩ := h
  unfold startOp
  split
  · exact ⟨hA, hB, hC, hW, hD⟩
  · split
    · constructor <;> simp only [List.mem_append, List.mem_singleton] <;> grind
    · split
      · constructor <;> simp only [List.mem_map, List.mem_append, List.mem_singleton] <;> grind
      · split
        · rename_i d hd
          have hmem : d ∈ s.dials := by
            split at hd
            · simp at hd
            · exact List.mem_of_mem_head? hd
          constructor <;> simp only [List.mem_append, List.mem_singleton] <;> grind
        · constructor <;> simp only [List.mem_append, List.mem_singleton] <;> grind

/-- a caller that is still blocked after `closeOp` waits for a stubborn dial (not on a pipelined transport) -/
theorem close_blocked (s : St) (hW : ∀ x ∈ s.exs, x.res = none →
      (∃ c, x.loc = .conn c) ∨ (∃ d ∈ s.dials, x.loc = .dial d.id))
    (hc : s.closed = false) :
    ∀ x ∈ (closeOp s).exs, x.res = none →
      (∃ d ∈ (closeOp s).dials, x.loc = .dial d.id) ∧ s.kind ≠ .pipe := by
  intro x hx hn
  simp only [closeOp, hc, Bool.false_eq_true, if_false, List.mem_map] at hx
  obtain ⟨y, hy, rfl⟩ := hx
  split at hn
  · simp at hn
  · rename_i d hl
    split at hn
    · simp at hn
    · rename_i hg
      rcases hW y hy hn with ⟨c, hcn⟩ | ⟨d', hd', hl'⟩
      · simp [hl] at hcn
      · have hdd : d = d'.id := by simpa [hl] using hl'
        subst hdd
        simp only [List.any_eq_true, not_exists, not_and] at hg
        have hgd := hg d' hd'
        simp only [closeOp, hc, Bool.false_eq_true, if_false, List.mem_filter]
        refine ⟨⟨d', ⟨hd', ?_⟩, ?_⟩, ?_⟩
        · grind
        · have hno : ¬ ∃ x, x ∈ s.dials ∧ x.id = d'.id ∧ (x.stubborn = false ∨ s.kind = Kind.pipe) := by
            rintro ⟨x, hx, hid, hst⟩
            have := hg x hx
            grind
          simp [hno, hl]
        · grind
  · rename_i hl
    rcases hW y hy hn with ⟨c, hcn⟩ | ⟨d', hd', hl'⟩
    · exact absurd hcn (by simp [hl])
    · exact absurd hl' (by simp [hl])

theorem inv_close (s : St) (h : Inv s) : Inv (closeOp s) := by
  by_cases hc : s.closed = true
  · simpa [closeOp, hc] using h
  · have hc' : s.closed = false := by simpa using hc
    obtain ⟨hA, hB, hC, hW, hD⟩ := h
    have hb := close_blocked s hW hc'
    constructor
    · simp only [closeOp, hc', Bool.false_eq_true, if_false, List.mem_map]; grind
    · simp only [closeOp, hc', Bool.false_eq_true, if_false, List.mem_map]; grind
    · simp only [closeOp, hc', Bool.false_eq_true, if_false, List.mem_filter]; grind
    · intro x hx hn
      right
      exact (hb x hx hn).1
    · intro _ x hx hn
      have := hb x hx hn
      simpa [closeOp, hc'] using this

/-! ### `sweep` (self-close of a connection without wire ids) and `burn` only touch connections -/

@[simp] theorem sweep_exs (s : St) : (sweep s).exs = s.exs := by unfold sweep; split <;> rfl
@[simp] theorem sweep_dials (s : St) : (sweep s).dials = s.dials := by unfold sweep; split <;> rfl
@[simp] theorem sweep_closed (s : St) : (sweep s).closed = s.closed := by unfold sweep; split <;> rfl
@[simp] theorem sweep_kind (s : St) : (sweep s).kind = s.kind := by unfold sweep; split <;> rfl
@[simp] theorem sweep_atClose (s : St) : (sweep s).atClose = s.atClose := by unfold sweep; split <;> rfl
@[simp] theorem sweep_ndials (s : St) : (sweep s).ndials = s.ndials := by unfold sweep; split <;> rfl

theorem burn_eq (s : St) (k : Nat) :
    (burnOp s k).exs = s.exs ∧ (burnOp s k).dials = s.dials ∧ (burnOp s k).closed = s.closed ∧
    (burnOp s k).kind = s.kind ∧ (burnOp s k).atClose = s.atClose ∧ (burnOp s k).ndials = s.ndials := by
  unfold burnOp
  repeat' split
  all_goals exact ⟨rfl, rfl, rfl, rfl, rfl, rfl⟩

@[simp] theorem burn_exs (s : St) (k : Nat) : (burnOp s k).exs = s.exs := (burn_eq s k).1
@[simp] theorem burn_dials (s : St) (k : Nat) : (burnOp s k).dials = s.dials := (burn_eq s k).2.1
@[simp] theorem burn_closed (s : St) (k : Nat) : (burnOp s k).closed = s.closed := (burn_eq s k).2.2.1
@[simp] theorem burn_kind (s : St) (k : Nat) : (burnOp s k).kind = s.kind := (burn_eq s k).2.2.2.1
@[simp] theorem burn_atClose (s : St) (k : Nat) : (burnOp s k).atClose = s.atClose := (burn_eq s k).2.2.2.2.1

theorem inv_sweep (s : St) (h : Inv s) : Inv (sweep s) := by
  obtain ⟨hA, hB, hC, hW, hD⟩ := h
  unfold sweep
  split
  · constructor <;> simp only [List.mem_map] <;> grind
  · exact ⟨hA, hB, hC, hW, hD⟩

theorem inv_burn (s : St) (k : Nat) (h : Inv s) : Inv (burnOp s k) := by
  obtain ⟨hA, hB, hC, hW, hD⟩ := h
  unfold burnOp
  repeat' split
  all_goals
    first
    | exact ⟨hA, hB, hC, hW, hD⟩
    | (constructor <;> simp only [List.mem_map] <;> grind)

/-- `step` without the self-close sweep and without the id bookkeeping of `burn`: exchanges, dials, the closed
    flag and the blocked-at-close record evolve exactly as under `step` -/
def step0 (s : St) : Op → St
  | .start e b => startOp s e b
  | .dialOk d => dialOkOp s d
  | .dialErr d => dialErrOp s d
  | .reply e => replyOp s e
  | .cancel e => cancelOp s e
  | .timer => timerOp s
  | .close => closeOp s
  | .trunc _ => s
  | .burn _ => s

theorem step_exs (s : St) (op : Op) : (step s op).exs = (step0 s op).exs := by
  cases op <;> simp [step, step0]
theorem step_dials (s : St) (op : Op) : (step s op).dials = (step0 s op).dials := by
  cases op <;> simp [step, step0]
theorem step_closed (s : St) (op : Op) : (step s op).closed = (step0 s op).closed := by
  cases op <;> simp [step, step0]
theorem step_atClose (s : St) (op : Op) : (step s op).atClose = (step0 s op).atClose := by
  cases op <;> simp [step, step0]

theorem inv_step (s : St) (op : Op) (h : Inv s) : Inv (step s op) := by
  cases op with
  | start e b => exact inv_start s e b h
  | dialOk d => exact inv_dialOk s d h
  | dialErr d => exact inv_dialErr s d h
  | reply e => exact inv_sweep _ (inv_reply s e h)
  | cancel e => exact inv_sweep _ (inv_cancel s e h)
  | burn k => exact inv_sweep _ (inv_burn s k h)
  | timer => exact inv_timer s h
  | close => exact inv_close s h
  | trunc e => exact h

theorem inv_run (s : St) (ops : List Op) (h : Inv s) : Inv (run s ops) := by
  induction ops generalizing s with
  | nil => exact h
  | cons op rest ih => exact ih (step s op) (inv_step s op h)

theorem reach_inv (k : Kind) (ops : List Op) : Inv (run (init k) ops) :=
  inv_run _ _ (inv_init k)

theorem closeOp_of_closed (s : St) (h : s.closed = true) : closeOp s = s := by
  simp [closeOp, h]

theorem closeOp_closed (s : St) : (closeOp s).closed = true := by
  by_cases h : s.closed = true <;> simp [closeOp, h]

theorem close_idem (s : St) : closeOp (closeOp s) = closeOp s :=
  closeOp_of_closed _ (closeOp_closed s)

theorem closed_step (s : St) (op : Op) (h : s.closed = true) : (step s op).closed = true := by
  cases op <;>
    simp only [step, startOp, dialOkOp, dialErrOp, replyOp, cancelOp, timerOp, closeOp, sweep_closed,
      burn_closed] <;>
    repeat' split
  all_goals first | exact h | simp_all

theorem step_kind (s : St) (op : Op) : (step s op).kind = s.kind := by
  cases op <;>
    simp only [step, sweep_kind, burn_kind, startOp, dialOkOp, dialErrOp, replyOp, cancelOp, timerOp,
      closeOp] <;>
    repeat' split
  all_goals rfl

theorem run_kind (s : St) (l : List Op) : (run s l).kind = s.kind := by
  induction l generalizing s with
  | nil => rfl
  | cons op rest ih =>
    simp only [run, List.foldl_cons] at ih ⊢
    rw [ih, step_kind]

theorem closed_run (s : St) (ops : List Op) (h : s.closed = true) : (run s ops).closed = true := by
  induction ops generalizing s with
  | nil => exact h
  | cons op rest ih => exact ih _ (closed_step s op h)

theorem late_dial (s : St) (d : Nat) (hc : s.closed = true) (hd : s.hasDial d = true) :
    dialOkOp s d =
      { s with dials := s.dials.filter (·.id != d), conns := s.conns ++ [⟨d, false, false, false, 0⟩],
               exs := failWaiters d s.exs } := by
  simp [dialOkOp, hd, hc]

theorem start_after_close (s : St) (e : Nat) (b : Bool) (hc : s.closed = true) (he : s.hasEx e = false) :
    startOp s e b = { s with exs := s.exs ++ [⟨e, some .err, .none⟩] } := by
  simp [startOp, hc, he]

theorem failWaiters_ok (d : Nat) (exs : List Ex) :
    ∀ x ∈ failWaiters d exs, x.res = some .ok → ∃ y ∈ exs, y.id = x.id ∧ y.res = some .ok := by
  simp only [failWaiters, List.mem_map]
  rintro x ⟨y, hy, rfl⟩ hr
  refine ⟨y, hy, ?_, ?_⟩
  · split <;> rfl
  · split at hr
    · cases hyr : y.res <;> simp_all
    · exact hr

theorem no_ok_after_close (s : St) (op : Op) (hi : Inv s) (hc : s.closed = true) :
    ∀ x ∈ (step s op).exs, x.res = some .ok → ∃ y ∈ s.exs, y.id = x.id ∧ y.res = some .ok := by
  have hno := hi.closedNoOpen hc
  cases op with
  | start e b =>
    simp only [step, startOp, hc]
    split
    · intro x hx hr; exact ⟨x, hx, rfl, hr⟩
    · simp only [if_true, List.mem_append, List.mem_singleton]
      intro x hx hr
      rcases hx with hx | rfl
      · exact ⟨x, hx, rfl, hr⟩
      · simp at hr
  | dialOk d =>
    simp only [step, dialOkOp, hc]
    split
    · intro x hx hr; exact ⟨x, hx, rfl, hr⟩
    · simpa using failWaiters_ok d s.exs
  | dialErr d =>
    simp only [step, dialErrOp]
    split
    · intro x hx hr; exact ⟨x, hx, rfl, hr⟩
    · simpa using failWaiters_ok d s.exs
  | reply e =>
    have hany : ∀ c, s.conns.any (fun k => k.id == c && k.isOpen) = false := by
      intro c
      simp only [List.any_eq_false]
      intro k hk
      simp [hno k hk]
    simp only [step, sweep_exs, replyOp]
    intro x hx hr
    repeat' split at hx
    all_goals first
      | exact ⟨x, hx, rfl, hr⟩
      | (simp [hany] at *)
  | cancel e =>
    simp only [step, sweep_exs, cancelOp, List.mem_map]
    rintro x ⟨y, hy, rfl⟩ hr
    split at hr
    · simp at hr
    · exact ⟨y, hy, by simp_all, hr⟩
  | burn k =>
    simp only [step, sweep_exs, burn_exs]
    intro x hx hr; exact ⟨x, hx, rfl, hr⟩
  | timer =>
    simp only [step, timerOp]
    intro x hx hr
    repeat' split at hx
    all_goals exact ⟨x, hx, rfl, hr⟩
  | close =>
    simp only [step, closeOp, hc, if_true]
    intro x hx hr; exact ⟨x, hx, rfl, hr⟩
  | trunc e => intro x hx hr; exact ⟨x, hx, rfl, hr⟩

/-- once every pending dial has returned, no dial is pending (the epilogue of a manual script) -/
theorem drain_dials (l : List Dial) (s : St) (hs : ∀ d ∈ s.dials, d ∈ l) :
    (run s (l.map (fun d => Op.dialOk d.id))).dials = [] := by
  induction l generalizing s with
  | nil =>
    simp only [List.map_nil, run, List.foldl_nil]
    exact List.eq_nil_iff_forall_not_mem.mpr (fun d hd => by simpa using hs d hd)
  | cons a l ih =>
    simp only [List.map_cons, run, List.foldl_cons]
    apply ih
    intro d hd
    simp only [step, dialOkOp] at hd
    split at hd
    · rename_i hno
      have hda := hs d hd
      rcases List.mem_cons.mp hda with rfl | h
      · simp only [St.hasDial, Bool.not_eq_true', List.any_eq_false] at hno
        have := hno d hd
        simp at this
      · exact h
    · have hd' : d ∈ s.dials ∧ d.id ≠ a.id := by
        split at hd <;> simpa [List.mem_filter] using hd
      rcases List.mem_cons.mp (hs d hd'.1) with rfl | h
      · exact absurd rfl hd'.2
      · exact h

theorem epilogue_dials (s : St) (hc : s.closed = true) : (epilogue s).dials = [] := by
  simp only [epilogue, hc, if_true]
  exact drain_dials s.dials s (fun d hd => hd)

theorem epilogue_closed (s : St) (hc : s.closed = true) : (epilogue s).closed = true := by
  simp only [epilogue, hc, if_true]
  exact closed_run _ _ hc

theorem epilogue_inv (s : St) (h : Inv s) : Inv (epilogue s) := by
  unfold epilogue
  split
  · exact inv_run _ _ h
  · exact h

end MosVerif.Close

