/-
  C11 — lemmas about the trie model (`Model/Trie.lean`): association lists,
  injectivity of the map key, and the one-step refinement of `addWalk`/`matchWalk`.
-/
import MosVerif.Model.Trie
import MosVerif.Lemmas.TextLemmas
namespace MosVerif.Trie
open MosVerif.Text

/-! ### association lists -/

theorem lookup_store {κ α : Type} [DecidableEq κ] (k k' : κ) (v : α) (m : List (κ × α)) :
    lookup k' (store k v m) = if k = k' then some v else lookup k' m := by
  induction m with
  | nil => simp [store, lookup]
  | cons p rest ih =>
    obtain ⟨a, b⟩ := p
    simp only [store]
    by_cases h : a = k
    · subst h
      by_cases h' : a = k' <;> simp [lookup, h']
    · simp only [h, if_false, lookup, ih]
      by_cases h'' : a = k'
      · subst h''
        simp [Ne.symm h]
      · simp [h'']

/-! ### the key -/

theorem shortLabelKey_injective (a b : Label) (ha : a.length < keyWidth) (hb : b.length < keyWidth)
    (h : shortLabelKey a = shortLabelKey b) : a = b := by
  unfold keyWidth at ha hb
  have ta : a.take 23 = a := List.take_of_length_le (by omega)
  have tb : b.take 23 = b := List.take_of_length_le (by omega)
  simp only [shortLabelKey, keyWidth, ta, tb] at h
  have hl : (a ++ List.replicate (23 - a.length) (0 : UInt8)).length
      = (b ++ List.replicate (23 - b.length) (0 : UInt8)).length := by
    simp; omega
  have h1 := List.append_inj h hl
  have hlen : a.length = b.length := by
    have h2 := h1.2
    simp only [List.cons.injEq, and_true] at h2
    have h3 := congrArg UInt8.toNat h2
    simp only [UInt8.toNat_ofNat'] at h3
    omega
  exact (List.append_inj h1.1 hlen).1

/-- ★ the map key (which of the two maps, and the key inside it) determines the label. -/
theorem keyOf_injective (a b : Label) (h : keyOf a = keyOf b) : a = b := by
  unfold keyOf at h
  by_cases ha : a.length < keyWidth <;> by_cases hb : b.length < keyWidth <;> simp [ha, hb] at h
  · exact shortLabelKey_injective a b ha hb h
  · exact h

theorem keyOf_eq_iff (a b : Label) : keyOf a = keyOf b ↔ a = b :=
  ⟨keyOf_injective a b, fun h => h ▸ rfl⟩

theorem getChild_store (n : Children) (a b : Label) (v : T) :
    getChild (store (keyOf a) v n) b = if a = b then some v else getChild n b := by
  simp [getChild, lookup_store, keyOf_eq_iff]

/-! ### one insertion -/

/-- entries the `MixMatcher` can produce: no empty label. -/
def WF (e : List Label) : Prop := ∀ l ∈ e, l ≠ []

theorem matchWalk_cons (m : Label) (ms : List Label) (n : Children) :
    matchWalk (m :: ms) n = (match getChild n m with
      | none => false
      | some .leaf => true
      | some (.node c) => matchWalk ms c) := rfl

theorem matchWalk_empty (q : List Label) : matchWalk q [] = false := by
  cases q <;> simp [matchWalk, getChild, lookup]

theorem matchWalk_addLeaf (l : Label) (n : Children) (q : List Label) :
    matchWalk q (addLeaf n l) = true ↔ (matchWalk q n = true ∨ [l] <+: q) := by
  cases q with
  | nil => simp [matchWalk]
  | cons m ms =>
    rw [matchWalk_cons, matchWalk_cons, addLeaf, getChild_store]
    by_cases hm : l = m
    · subst hm; simp [List.cons_prefix_cons]
    · simp [hm, List.cons_prefix_cons]

theorem matchWalk_addWalk (e : List Label) (hwf : WF e) (hne : e ≠ []) (n : Children) (q : List Label) :
    matchWalk q (addWalk e n) = true ↔ (matchWalk q n = true ∨ e <+: q) := by
  induction e generalizing n q with
  | nil => exact absurd rfl hne
  | cons l rest ih =>
    have hl : l ≠ [] := hwf l (by simp)
    have hl0 : (l.length == 0) = false := by simp [hl]
    have hwf' : WF rest := fun x hx => hwf x (by simp [hx])
    by_cases hr : rest = []
    · subst hr
      simp only [addWalk, hl0, List.isEmpty_nil, Bool.false_eq_true, ↓reduceIte]
      exact matchWalk_addLeaf l n q
    · have hre : rest.isEmpty = false := by simp [hr]
      have ih' := ih hwf' hr
      simp only [addWalk, hl0, hre, Bool.false_eq_true, ↓reduceIte]
      cases hc : getChild n l with
      | none =>
        simp only [getOrAddChild, show lookup (keyOf l) n = none from hc]
        cases q with
        | nil => simp [matchWalk]
        | cons m ms =>
          rw [matchWalk_cons, matchWalk_cons, getChild_store, getChild_store]
          by_cases hm : l = m
          · subst hm
            simp [hc, ih', List.cons_prefix_cons, matchWalk_empty]
          · simp [hm, List.cons_prefix_cons]
      | some t =>
        cases t with
        | leaf =>
          simp only []
          constructor
          · intro h; exact Or.inl h
          · intro h
            rcases h with h | h
            · exact h
            · cases q with
              | nil => simp at h
              | cons m ms =>
                have := (List.cons_prefix_cons.mp h).1
                subst this
                simp [matchWalk_cons, hc]
        | node c =>
          simp only [getOrAddChild, show lookup (keyOf l) n = some (.node c) from hc]
          cases q with
          | nil => simp [matchWalk]
          | cons m ms =>
            rw [matchWalk_cons, matchWalk_cons, getChild_store]
            by_cases hm : l = m
            · subst hm
              simp [hc, ih', List.cons_prefix_cons]
            · simp [hm, List.cons_prefix_cons]

/-- one `DomainMatcher.Add`, on label lists. -/
theorem matchLabels_add (m : DM) (e : List Label) (hwf : WF e) (q : List Label) :
    (m.add e).matchLabels q = true ↔ (m.matchLabels q = true ∨ e <:+ q) := by
  unfold DM.add
  by_cases hrm : m.rootMatched = true
  · simp [hrm, DM.matchLabels]
  · have hrm' : m.rootMatched = false := by simpa using hrm
    cases e with
    | nil => simp [hrm', DM.matchLabels, List.nil_suffix]
    | cons l rest =>
      have hl : l ≠ [] := hwf l (by simp)
      have hany : (l :: rest).any (fun l => l.length != 0) = true := by
        simp [hl]
      have hwf' : WF (l :: rest).reverse := fun x hx => hwf x (List.mem_reverse.mp hx)
      have hne : (l :: rest).reverse ≠ [] := by simp
      simp only [hrm', hany, DM.matchLabels, Bool.false_eq_true, ↓reduceIte, Bool.not_true,
        Bool.false_or]
      rw [matchWalk_addWalk _ hwf' hne, List.reverse_prefix]

end MosVerif.Trie
