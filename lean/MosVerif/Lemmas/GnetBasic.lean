/-
  C13 — basic facts about the byte-level helpers of Model/Gnet
  (big-endian length, gnet `Next`, Go `copy`).
-/
import MosVerif.Model.Gnet
namespace MosVerif.Gnet

theorem rd16_lt (a b : UInt8) : rd16 a b < 65536 := by
  have ha := a.toNat_lt
  have hb := b.toNat_lt
  simp [rd16] at *; omega

theorem be16_rd16 (a b : UInt8) : be16 (rd16 a b) = [a, b] := by
  have ha := a.toNat_lt
  have hb := b.toNat_lt
  simp only [be16, rd16]
  congr 1
  · apply UInt8.toNat_inj.mp
    simp; omega
  · congr 1
    apply UInt8.toNat_inj.mp
    simp

theorem rd16_be16 (n : Nat) (h : n < 65536) :
    rd16 (UInt8.ofNat (n / 256)) (UInt8.ofNat n) = n := by
  simp [rd16]; omega

theorem be16_length (n : Nat) : (be16 n).length = 2 := rfl

theorem next_short (inb : Bytes) (n : Int) (h : n > (inb.length : Int)) :
    next inb n = ([], inb) := by
  simp [next, h]

theorem next_exact (inb : Bytes) (n : Nat) (h0 : 0 < n) (h : n ≤ inb.length) :
    next inb (n : Int) = (inb.take n, inb.drop n) := by
  have h1 : ¬ ((n : Int) > (inb.length : Int)) := by omega
  have h2 : ¬ ((n : Int) ≤ 0) := by omega
  unfold next
  rw [if_neg h1, if_neg h2]
  simp

theorem next_all (inb : Bytes) (n : Int) (h : n ≤ 0) : next inb n = (inb, []) := by
  have h1 : ¬ (n > (inb.length : Int)) := by omega
  simp [next, h1, h]

theorem getBuf_length (n : Nat) : (getBuf n).length = n := by simp [getBuf]

theorem goCopy_nil (buf : Bytes) : goCopy buf 0 [] = (buf, 0) := by
  simp [goCopy]

theorem goCopy_full (src : Bytes) : goCopy (getBuf src.length) 0 src = (src, src.length) := by
  simp [goCopy, getBuf]

end MosVerif.Gnet
