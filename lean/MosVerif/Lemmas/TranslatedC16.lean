/-
  Tie by translation (C16): the fallback condition `r.Header.Truncated` of `udpWithFallback.ExchangeContext`
  (internal/upstream/upstream.go) and the header-only TC test `err != nil && n >= 12 && b[2]&(1<<1) != 0` of
  `dnsutils.ReadMsgFromUDP` (internal/dnsutils/net_io.go, the third octet as a parameter) are translated
  mechanically from the current Go source (`Generated/Translated.lean`); the model's `exchange` branches on exactly
  the first, the model's `udpTcHeaderOnly` is the second, for all arguments.
-/
import MosVerif.Generated.Translated
import MosVerif.Model.Fallback
namespace MosVerif.Fallback
open MosVerif

theorem id_pure_c16 {α : Type} (x : α) : (pure x : Id α) = x := rfl

/-- normalise a translated fragment: unfold the `do` block, split its `if`s, Bool equality as `↔`, then
    simplification and linear arithmetic -/
local macro "tie_tac" : tactic => `(tactic| (
  (try simp only [Id.run, id_pure_c16])
  <;> (try (repeat' split))
  <;> (try (rw [Bool.eq_iff_iff]))
  <;> (try simp_all)
  <;> (try omega)))

theorem c16_fallbackCond_eq (tc : Bool) : Translated.c16_fallbackCond tc = tc := by
  unfold Translated.c16_fallbackCond
  cases tc <;> tie_tac

theorem c16_tcHeaderCond_eq (e : Bool) (n b2 : Nat) :
    Translated.c16_tcHeaderCond e n b2 = (e && decide (n ≥ 12) && (b2 &&& 2 != 0)) := by
  unfold Translated.c16_tcHeaderCond
  have hb : ∀ a b : Nat, (a == b) = decide (a = b) := fun a b => by by_cases h : a = b <;> simp [h]
  cases e <;> by_cases h : n ≥ 12 <;> by_cases h2 : b2 &&& 2 = 0 <;> simp only [bne, hb] <;> tie_tac

/-- `exchange` goes to the TCP leg iff the translated condition holds of the UDP reply's TC flag -/
theorem exchange_translated (q : Nat) (u t : Leg) :
    exchange q u t =
      match u with
      | .err => ⟨.err, 0, none⟩
      | .msg tag tc => if Translated.c16_fallbackCond tc then ⟨t, 1, some q⟩ else ⟨.msg tag tc, 0, none⟩ := by
  cases u with
  | err => rfl
  | msg tag tc => simp only [c16_fallbackCond_eq]; rfl

/-- the header-only TC test, for every datagram length and every third octet -/
theorem udpTcHeaderOnly_translated (unpackFailed : Bool) (n b2 : Nat) :
    udpTcHeaderOnly unpackFailed n b2 = Translated.c16_tcHeaderCond unpackFailed n b2 := by
  rw [c16_tcHeaderCond_eq]
  rfl

/-- the test looks at nothing but bit 1 (TC) of the third octet: a cut TC reply of at least a header is handed on
    as a TC message, a cut reply without TC or shorter than a header is not -/
theorem cutReply_eq (tag : Nat) (tc : Bool) (n : Nat) :
    cutReply tag tc n = if tc && decide (n ≥ 12) then .msg tag true else .err := by
  unfold cutReply udpTcHeaderOnly
  cases tc <;> by_cases h : n ≥ 12 <;> simp [h] <;> decide

end MosVerif.Fallback
