/-
  Helper lemmas for C08 (Model/Ttl.lean): GetMinimalTTL computes the smallest non-OPT TTL, SubtractTTL's
  per-record arithmetic, the int64 multiplication does not wrap, the lifetime switch.
-/
import MosVerif.Model.Ttl
namespace MosVerif.Ttl

/-! ### GetMinimalTTL -/

theorem isOPT_iff (rr : RR) : rr.isOPT = true ↔ rr.typ = typeOPT := by
  simp [RR.isOPT]

/-- the loop of GetMinimalTTL computes, from any accumulator, the minimum over the non-OPT records and whether
    there was one -/
theorem foldl_minStep (l : List RR) (acc : UInt32 × Bool) :
    (l.foldl minStep acc).1.toNat = ((realRRs l).map (·.ttl.toNat)).foldl Nat.min acc.1.toNat ∧
    (l.foldl minStep acc).2 = (acc.2 || !(realRRs l).isEmpty) := by
  induction l generalizing acc with
  | nil => simp [realRRs]
  | cons rr rest ih =>
    simp only [List.foldl_cons]
    by_cases h : rr.typ = typeOPT
    · have h' : rr.isOPT = true := (isOPT_iff rr).2 h
      have hs : minStep acc rr = acc := by simp [minStep, h]
      have hr : realRRs (rr :: rest) = realRRs rest := by simp [realRRs, h']
      rw [hs, hr]; exact ih acc
    · have h' : rr.isOPT = false := by
        cases hb : rr.isOPT with
        | false => rfl
        | true => exact absurd ((isOPT_iff rr).1 hb) h
      have hr : realRRs (rr :: rest) = rr :: realRRs rest := by simp [realRRs, h']
      have hs : minStep acc rr = (if rr.ttl < acc.1 then rr.ttl else acc.1, true) := by simp [minStep, h]
      rw [hs, hr]
      have := ih (if rr.ttl < acc.1 then rr.ttl else acc.1, true)
      refine ⟨?_, ?_⟩
      · rw [this.1]
        simp only [List.map_cons, List.foldl_cons]
        congr 1
        by_cases hlt : rr.ttl < acc.1
        · have := UInt32.lt_iff_toNat_lt.1 hlt
          simp only [hlt, if_true, Nat.min_def]; split <;> omega
        · have : ¬ rr.ttl.toNat < acc.1.toNat := fun c => hlt (UInt32.lt_iff_toNat_lt.2 c)
          simp only [hlt, if_false, Nat.min_def]; split <;> omega
      · rw [this.2]; simp

theorem foldl_min_le_init (l : List Nat) (a : Nat) : l.foldl Nat.min a ≤ a := by
  induction l generalizing a with
  | nil => simp
  | cons x xs ih => simp only [List.foldl_cons]; exact Nat.le_trans (ih _) (Nat.min_le_left _ _)

theorem foldl_min_le_mem (l : List Nat) (a x : Nat) (h : x ∈ l) : l.foldl Nat.min a ≤ x := by
  induction l generalizing a with
  | nil => cases h
  | cons y ys ih =>
    simp only [List.foldl_cons]
    cases h with
    | head => exact Nat.le_trans (foldl_min_le_init _ _) (Nat.min_le_right _ _)
    | tail _ h => exact ih _ h

theorem foldl_min_mono (l : List Nat) (a b : Nat) (h : a ≤ b) : l.foldl Nat.min a ≤ l.foldl Nat.min b := by
  induction l generalizing a b with
  | nil => simpa
  | cons x xs ih =>
    simp only [List.foldl_cons]
    apply ih
    simp only [Nat.min_def]; split <;> split <;> omega

/-- GetMinimalTTL meets its contract: (0,false) when there is no real record, else the smallest real TTL -/
theorem getMinimalTTL_spec (m : Msg) : specMin m (getMinimalTTL m) = true := by
  have h := foldl_minStep m.rrs (0xFFFFFFFF, false)
  unfold specMin specMinTtl getMinimalTTL
  have hreal : m.rrs.filter (fun rr => !rr.isOPT) = realRRs m.rrs := rfl
  rw [hreal]
  cases hl : realRRs m.rrs with
  | nil =>
    have h2 := h.2; rw [hl] at h2
    simp at h2
    simp [h2]
  | cons x xs =>
    have h1 := h.1; have h2 := h.2; rw [hl] at h1 h2
    simp at h2
    simp only [List.map_cons, List.foldl_cons] at h1
    have hx : Nat.min (4294967295 : UInt32).toNat x.ttl.toNat = x.ttl.toNat := by
      have := x.ttl.toNat_lt
      have h4 : (4294967295 : UInt32).toNat = 4294967295 := by decide
      rw [h4]; simp only [Nat.min_def]; split <;> omega
    rw [hx] at h1
    simp [h2, h1]

/-- the pair GetMinimalTTL returns, in terms of the specification's `specMinTtl` -/
theorem getMinimalTTL_eq (m : Msg) :
    (specMinTtl m = none ∧ getMinimalTTL m = (0, false)) ∨
    (∃ t, specMinTtl m = some t ∧ (getMinimalTTL m).2 = true ∧ (getMinimalTTL m).1.toNat = t) := by
  have h := getMinimalTTL_spec m
  unfold specMin at h
  cases hs : specMinTtl m with
  | none => rw [hs] at h; left; exact ⟨rfl, by simpa using h⟩
  | some t =>
    rw [hs] at h; right
    simp at h
    exact ⟨t, rfl, h.1, h.2⟩

/-! ### SubtractTTL -/

theorem subRR_opt (d : UInt32) (rr : RR) (h : rr.typ = typeOPT) : subRR d rr = rr := by
  simp [subRR, h]

/-- no wrap-around: the served TTL is exactly max 1 (orig − delta) on naturals -/
theorem subRR_real (d : UInt32) (rr : RR) (h : rr.typ ≠ typeOPT) :
    (subRR d rr).typ = rr.typ ∧ (subRR d rr).ttl.toNat = Nat.max 1 (rr.ttl.toNat - d.toNat) := by
  unfold subRR
  simp only [h, if_false]
  by_cases hgt : rr.ttl > d
  · have hlt : d.toNat < rr.ttl.toNat := UInt32.lt_iff_toNat_lt.1 hgt
    have hsub := UInt32.toNat_sub_of_le rr.ttl d (UInt32.le_of_lt hgt)
    simp only [hgt, if_true]
    refine ⟨trivial, ?_⟩
    rw [hsub]; simp only [Nat.max_def]; split <;> omega
  · have hle : ¬ d.toNat < rr.ttl.toNat := fun c => hgt (UInt32.lt_iff_toNat_lt.2 c)
    simp only [hgt, if_false]
    refine ⟨trivial, ?_⟩
    have h1 : (1 : UInt32).toNat = 1 := by decide
    rw [h1]; simp only [Nat.max_def]; split <;> omega

theorem subRR_isOPT (d : UInt32) (rr : RR) : (subRR d rr).isOPT = rr.isOPT := by
  by_cases h : rr.typ = typeOPT
  · rw [subRR_opt d rr h]
  · have := (subRR_real d rr h).1
    simp [RR.isOPT, this]

theorem realRRs_map_subRR (d : UInt32) (l : List RR) :
    realRRs (l.map (subRR d)) = (realRRs l).map (subRR d) := by
  induction l with
  | nil => rfl
  | cons rr rest ih =>
    simp only [realRRs, List.map_cons, List.filter_cons, subRR_isOPT] at *
    cases rr.isOPT <;> simp [ih]

theorem mem_realRRs (l : List RR) (rr : RR) (h : rr ∈ realRRs l) : rr.typ ≠ typeOPT := by
  simp [realRRs, RR.isOPT] at h
  exact h.2

/-- the aged list meets the specification for any claimed elapsed time not above the subtracted delta -/
theorem specServedRRs_sub (d : UInt32) (el : Nat) (hel : el ≤ d.toNat) (l : List RR)
    (hl : ∀ rr ∈ l, rr.typ ≠ typeOPT) :
    specServedRRs el l (l.map (subRR d)) = true := by
  induction l with
  | nil => rfl
  | cons rr rest ih =>
    have hr := subRR_real d rr (hl rr (by simp))
    simp only [List.map_cons, specServedRRs, Bool.and_eq_true, beq_iff_eq, decide_eq_true_eq]
    refine ⟨⟨hr.1.symm, ?_⟩, ih (fun x hx => hl x (by simp [hx]))⟩
    rw [hr.2]; simp only [Nat.max_def]; split <;> split <;> omega

theorem specServed_sub (m : Msg) (d : UInt32) (el : Nat) (hel : el ≤ d.toNat) :
    specServed el m (subtractTTL m d) = true := by
  unfold specServed subtractTTL
  simp only [realRRs_map_subRR, Bool.and_eq_true]
  exact ⟨⟨specServedRRs_sub d el hel _ (mem_realRRs _), specServedRRs_sub d el hel _ (mem_realRRs _)⟩,
    specServedRRs_sub d el hel _ (mem_realRRs _)⟩

/-! ### durations -/

theorem wrap64_id (x : Int) (h1 : -9223372036854775808 ≤ x) (h2 : x < 9223372036854775808) : wrap64 x = x := by
  unfold wrap64
  rw [Int.emod_eq_of_lt (by omega) (by omega)]; omega

/-- `time.Duration(u) * time.Second` cannot overflow int64: (2³²−1)·10⁹ < 2⁶³ -/
theorem durOfSeconds_eq (u : UInt32) : durOfSeconds u = (u.toNat : Int) * second := by
  have h := u.toNat_lt
  unfold durOfSeconds wrap64 second
  omega

/-- the configured maximum is what the operator wrote (6 h when it is ≤ 0), limited to ten years — as long as
    |seconds|·10⁹ fits int64 -/
theorem initMaxTtl_eq (c : Int) (h1 : -9223372037 < c) (h2 : c < 9223372037) :
    initMaxTtl c = if c ≤ 0 then defaultMaxCacheTtl else if c * second > maxCacheTtlLimit then maxCacheTtlLimit else c * second := by
  unfold initMaxTtl
  rw [wrap64_id _ (by unfold second; omega) (by unfold second; omega)]
  unfold defaultMaxCacheTtl maxCacheTtlLimit second
  simp only
  split <;> split <;> (try split) <;> omega

/-- bounds of the maximum: at least a second, at most ten years, at most what was configured -/
theorem initMaxTtl_bounds (c : Int) (h1 : -9223372037 < c) (h2 : c < 9223372037) :
    second ≤ initMaxTtl c ∧ initMaxTtl c ≤ 315360000 * second ∧ initMaxTtl c % second = 0 ∧
    (c ≤ 0 → initMaxTtl c = 21600 * second) ∧ (0 < c → initMaxTtl c ≤ c * second) ∧
    (0 < c → initMaxTtl c = c * second ∨ initMaxTtl c = 315360000 * second) := by
  rw [initMaxTtl_eq c h1 h2]
  unfold defaultMaxCacheTtl maxCacheTtlLimit second
  split
  · omega
  · split <;> omega

/-! ### the lifetime switch, the floor and the cap -/

/-- the lifetime switch alone (before floor and cap), on the seconds `u` returned by GetMinimalTTL -/
def baseTtl (rcode : Nat) (u : Nat) (hasRr : Bool) : Int :=
  match rcode with
  | 3 => if hasRr then min (second * 30) ((u : Int) * second) else second * 30
  | 2 => if hasRr then min (second * 1) ((u : Int) * second) else second * 1
  | 0 => if hasRr then (u : Int) * second else second * 30
  | _ => if hasRr then min (second * 5) ((u : Int) * second) else second * 5

/-- the floor and the cap -/
def clampTtl (ttl cap : Int) : Int :=
  let ttl := if ttl ≤ 0 then second else ttl
  if ttl > cap then cap else ttl

theorem storeTtl_eq (m : Msg) (cap : Int) :
    storeTtl m cap = clampTtl (baseTtl m.rcode (getMinimalTTL m).1.toNat (getMinimalTTL m).2) cap := by
  unfold storeTtl clampTtl baseTtl
  generalize getMinimalTTL m = r
  obtain ⟨u, has⟩ := r
  simp only [durOfSeconds_eq]
  generalize m.rcode = rc
  match rc with
  | 0 => rfl
  | 1 => rfl
  | 2 => rfl
  | 3 => rfl
  | n + 4 => rfl

theorem clampTtl_bounds (t cap : Int) (hc : second ≤ cap) (ht : t ≤ 0 ∨ second ≤ t) :
    second ≤ clampTtl t cap ∧ clampTtl t cap ≤ cap ∧ (0 < t → clampTtl t cap ≤ t) ∧
    (t ≤ second → clampTtl t cap = second) := by
  unfold clampTtl second at *
  simp only
  split <;> split <;> omega

theorem baseTtl_bounds (rcode u : Nat) (has : Bool) :
    (baseTtl rcode u has ≤ 0 ∨ second ≤ baseTtl rcode u has) ∧
    (rcode = 3 → baseTtl rcode u has ≤ 30 * second) ∧
    (rcode = 2 → baseTtl rcode u has ≤ second) ∧
    (rcode ≠ 0 → rcode ≠ 2 → rcode ≠ 3 → baseTtl rcode u has ≤ 5 * second) ∧
    (has = false → baseTtl rcode u has ≤ 30 * second) ∧
    (has = true → baseTtl rcode u has ≤ u * second) := by
  unfold baseTtl second
  match rcode with
  | 0 => cases has <;> simp <;> omega
  | 1 => cases has <;> simp <;> omega
  | 2 => cases has <;> simp <;> omega
  | 3 => cases has <;> simp <;> omega
  | n + 4 => cases has <;> simp <;> omega

end MosVerif.Ttl
