/-
  Invariant of the composed protocol model (C04) and its preservation by every atomic step.
-/
import MosVerif.Model.System
namespace MosVerif.System

theorem lookup_cons {β} (l : List (Nat × β)) (k k' : Nat) (v : β) :
    lookup ((k', v) :: l) k = if k' = k then some v else lookup l k := rfl

theorem lookup_filter_ne {β} (l : List (Nat × β)) (k id : Nat) (h : k ≠ id) :
    lookup (l.filter (fun p => p.1 ≠ id)) k = lookup l k := by
  induction l with
  | nil => rfl
  | cons p rest ih =>
    obtain ⟨k', v⟩ := p
    simp only [List.filter_cons]
    split
    · simp only [lookup]
      split
      · rfl
      · exact ih
    · rename_i hdrop
      have hk : k' = id := by simpa using hdrop
      have hkk : ¬ k' = k := by omega
      rw [ih]; simp [lookup, hkk]

theorem lookup_filter_self {β} (l : List (Nat × β)) (id : Nat) :
    lookup (l.filter (fun p => p.1 ≠ id)) id = none := by
  induction l with
  | nil => rfl
  | cons p rest ih =>
    obtain ⟨k', v⟩ := p
    simp only [List.filter_cons]
    split
    · rename_i hkeep
      have hk : ¬ k' = id := by simpa using hkeep
      simp only [lookup, hk, ↓reduceIte]
      exact ih
    · exact ih

theorem lookup_mem {β} (l : List (Nat × β)) (k : Nat) (v : β) (h : lookup l k = some v) : (k, v) ∈ l := by
  induction l with
  | nil => simp [lookup] at h
  | cons p rest ih =>
    obtain ⟨k', v'⟩ := p
    simp only [lookup] at h
    split at h
    · rename_i hk; cases h; subst hk; simp
    · exact List.mem_cons_of_mem _ (ih h)

theorem setStage_get (ts : List Thread) (t : Nat) (s : Stage) (u : Nat) :
    (setStage ts t s)[u]? =
      if u = t then (ts[t]?).map (fun th => { th with stage := s }) else ts[u]? := by
  unfold setStage
  cases h : ts[t]? with
  | none =>
    simp only [Option.map_none]
    split
    · rename_i hu; subst hu; exact h
    · rfl
  | some th =>
    simp only [Option.map_some]
    rw [List.getElem?_set]
    split
    · rename_i hu
      subst hu
      have : t < ts.length := by
        rcases Nat.lt_or_ge t ts.length with hlt | hge
        · exact hlt
        · rw [List.getElem?_eq_none hge] at h; cases h
      simp [this]
    · rename_i hu
      have : ¬ u = t := fun e => hu e.symm
      simp [this]

/-- The invariant. -/
structure Inv (f : Key → Val) (s : State) : Prop where
  /-- a registered waiter is the thread waiting for exactly that wire ID, and the server saw that
      thread's own question under that ID -/
  inflight_ok : ∀ id t, lookup s.inflight id = some t →
      ∃ th : Thread, s.threads[t]? = some th ∧ th.stage = Stage.waiting id ∧ lookup s.seen id = some th.q
  /-- wire IDs not yet handed out are unknown to everybody -/
  fresh_ids : ∀ id, s.nextId ≤ id → lookup s.inflight id = none ∧ lookup s.seen id = none
  /-- the cache pairs every key with the upstream's answer for that key -/
  cache_ok : ∀ k v, (k, v) ∈ s.cache → v = f k
  /-- a thread that answered, answered with the upstream's answer for its own question -/
  done_ok : ∀ (t : Nat) (th : Thread) (v : Val), s.threads[t]? = some th → th.stage = Stage.done (some v) → v = f th.q

theorem inv_init (f : Key → Val) (qs : List Key) : Inv f (init qs) := by
  constructor
  · intro id t h; simp [init, lookup] at h
  · intro id _; simp [init, lookup]
  · intro k v h; simp [init] at h
  · intro t th v h hs
    simp only [init, List.getElem?_map] at h
    cases hq : qs[t]? with
    | none => simp [hq] at h
    | some q => simp [hq] at h; subst h; simp at hs

theorem inv_step (f : Key → Val) (s : State) (st : Step) (h : Inv f s) : Inv f (step f s st) := by
  cases st with
  | evict k =>
    simp only [step]
    exact ⟨h.inflight_ok, h.fresh_ids, fun k' v hm => h.cache_ok k' v (List.mem_filter.mp hm).1, h.done_ok⟩
  | giveUp t =>
    simp only [step]
    cases ht : s.threads[t]? with
    | none => simpa [ht] using h
    | some th =>
      simp only
      cases hst : th.stage with
      | fresh => simpa [hst] using h
      | done a => simpa [hst] using h
      | waiting id =>
        simp only
        constructor
        · intro id' t' hl
          by_cases hid : id' = id
          · subst hid; rw [lookup_filter_self] at hl; cases hl
          · rw [lookup_filter_ne _ _ _ hid] at hl
            obtain ⟨th', hth', hs', hseen⟩ := h.inflight_ok id' t' hl
            have htt : t' ≠ t := by
              intro e; subst e
              rw [ht] at hth'; cases hth'
              rw [hst] at hs'; cases hs'; exact hid rfl
            exact ⟨th', by rw [setStage_get]; simp [htt, hth'], hs', hseen⟩
        · intro id' hge
          refine ⟨?_, (h.fresh_ids id' hge).2⟩
          by_cases hid : id' = id
          · subst hid; exact lookup_filter_self _ _
          · rw [lookup_filter_ne _ _ _ hid]; exact (h.fresh_ids id' hge).1
        · exact h.cache_ok
        · intro t' th' v hth' hs'
          rw [setStage_get] at hth'
          split at hth'
          · rename_i e; subst e
            simp only [ht, Option.map_some, Option.some.injEq] at hth'
            subst hth'; simp at hs'
          · exact h.done_ok t' th' v hth' hs'
  | start t =>
    simp only [step]
    cases ht : s.threads[t]? with
    | none => simpa [ht] using h
    | some th =>
      simp only
      by_cases hfresh : th.stage = .fresh
      · simp only [hfresh, ↓reduceIte]
        cases hc : lookup s.cache th.q with
        | some v =>
          -- cache hit
          simp only
          constructor
          · intro id' t' hl
            obtain ⟨th', hth', hs', hseen⟩ := h.inflight_ok id' t' hl
            have htt : t' ≠ t := by
              intro e; subst e
              rw [ht] at hth'; cases hth'
              rw [hfresh] at hs'; cases hs'
            exact ⟨th', by rw [setStage_get]; simp [htt, hth'], hs', hseen⟩
          · exact h.fresh_ids
          · exact h.cache_ok
          · intro t' th' v' hth' hs'
            rw [setStage_get] at hth'
            split at hth'
            · rename_i e; subst e
              simp only [ht, Option.map_some, Option.some.injEq] at hth'
              subst hth'
              simp only [Stage.done.injEq, Option.some.injEq] at hs'
              subst hs'
              exact h.cache_ok _ _ (lookup_mem _ _ _ hc)
            · exact h.done_ok t' th' v' hth' hs'
        | none =>
          -- miss: a fresh wire ID is reserved and the query goes on the wire
          simp only
          constructor
          · intro id' t' hl
            rw [lookup_cons] at hl
            split at hl
            · rename_i e
              cases hl; subst e
              refine ⟨{ th with stage := .waiting s.nextId }, ?_, rfl, ?_⟩
              · rw [setStage_get]; simp [ht]
              · simp [lookup_cons]
            · rename_i hne
              obtain ⟨th', hth', hs', hseen⟩ := h.inflight_ok id' t' hl
              have htt : t' ≠ t := by
                intro e; subst e
                rw [ht] at hth'; cases hth'
                rw [hfresh] at hs'; cases hs'
              refine ⟨th', by rw [setStage_get]; simp [htt, hth'], hs', ?_⟩
              rw [lookup_cons]; simp [hne, hseen]
          · intro id' hge
            simp only at hge
            have hne : s.nextId ≠ id' := by omega
            simp only [lookup_cons, hne, ↓reduceIte]
            exact h.fresh_ids id' (by omega)
          · exact h.cache_ok
          · intro t' th' v' hth' hs'
            rw [setStage_get] at hth'
            split at hth'
            · rename_i e; subst e
              simp only [ht, Option.map_some, Option.some.injEq] at hth'
              subst hth'; simp at hs'
            · exact h.done_ok t' th' v' hth' hs'
      · simpa [hfresh] using h
  | reply id =>
    simp only [step]
    cases hk : lookup s.seen id with
    | none => simpa [hk] using h
    | some k =>
      simp only
      cases hl : lookup s.inflight id with
      | none => simpa [hl] using h
      | some t =>
        simp only
        obtain ⟨th, hth, hst, hseen⟩ := h.inflight_ok id t hl
        rw [hk] at hseen
        have hkq : k = th.q := Option.some.inj hseen
        simp only [hth]
        constructor
        · intro id' t' hl'
          by_cases hid : id' = id
          · subst hid; rw [lookup_filter_self] at hl'; cases hl'
          · rw [lookup_filter_ne _ _ _ hid] at hl'
            obtain ⟨th', hth', hs', hseen'⟩ := h.inflight_ok id' t' hl'
            have htt : t' ≠ t := by
              intro e; subst e
              rw [hth] at hth'; cases hth'
              rw [hst] at hs'; cases hs'; exact hid rfl
            exact ⟨th', by rw [setStage_get]; simp [htt, hth'], hs', hseen'⟩
        · intro id' hge
          refine ⟨?_, (h.fresh_ids id' hge).2⟩
          by_cases hid : id' = id
          · subst hid; exact lookup_filter_self _ _
          · rw [lookup_filter_ne _ _ _ hid]; exact (h.fresh_ids id' hge).1
        · intro k' v hm
          simp only [List.mem_cons, Prod.mk.injEq] at hm
          rcases hm with ⟨rfl, rfl⟩ | hm
          · rw [hkq]
          · exact h.cache_ok k' v hm
        · intro t' th' v hth' hs'
          rw [setStage_get] at hth'
          split at hth'
          · rename_i e; subst e
            simp only [hth, Option.map_some, Option.some.injEq] at hth'
            subst hth'
            simp only [Stage.done.injEq, Option.some.injEq] at hs'
            rw [← hs', hkq]
          · exact h.done_ok t' th' v hth' hs'

theorem inv_run (f : Key → Val) (s : State) (steps : List Step) (h : Inv f s) : Inv f (run f s steps) := by
  induction steps generalizing s with
  | nil => exact h
  | cons st rest ih => exact ih (step f s st) (inv_step f s st h)

/-- the question of a thread never changes -/
theorem step_q (f : Key → Val) (s : State) (st : Step) (t : Nat) :
    ((step f s st).threads[t]?).map (·.q) = (s.threads[t]?).map (·.q) := by
  have hset : ∀ (ts : List Thread) (u : Nat) (sg : Stage), ((setStage ts u sg)[t]?).map (·.q) = (ts[t]?).map (·.q) := by
    intro ts u sg
    rw [setStage_get]
    split
    · rename_i e; subst e; cases ts[t]? <;> rfl
    · rfl
  cases st with
  | evict k => rfl
  | giveUp u =>
    simp only [step]
    cases s.threads[u]? with
    | none => rfl
    | some th =>
      simp only
      cases th.stage <;> simp only [hset]
  | start u =>
    simp only [step]
    cases s.threads[u]? with
    | none => rfl
    | some th =>
      simp only
      split
      · cases lookup s.cache th.q <;> simp only [hset]
      · rfl
  | reply id =>
    simp only [step]
    cases lookup s.seen id with
    | none => rfl
    | some k =>
      simp only
      cases lookup s.inflight id with
      | none => rfl
      | some u =>
        simp only
        cases s.threads[u]? with
        | none => rfl
        | some th => simp only [hset]

end MosVerif.System
