import MosVerif.Model.PoolView
namespace MosVerif.PoolView

/-- ★ the parsed view is exactly the decoded octets, whatever the buffer held before -/
theorem viewFixed_eq (dirty decoded : Bytes) (h : decoded.length ≤ dirty.length) :
    viewFixed dirty decoded = some decoded := by
  simp [viewFixed, decodeInto, h]

/-- ★ non-interference: two requests that decode to the same octets are parsed alike, whatever two previous
    owners left in the two buffers (of any sizes that fit) -/
theorem viewFixed_independent (d₁ d₂ decoded : Bytes) (h₁ : decoded.length ≤ d₁.length) (h₂ : decoded.length ≤ d₂.length) :
    viewFixed d₁ decoded = viewFixed d₂ decoded := by
  rw [viewFixed_eq d₁ decoded h₁, viewFixed_eq d₂ decoded h₂]

/-- the whole-buffer view is NOT independent of the previous owner as soon as the decoder skipped something
    (`decoded.length < dirty.length`): the tail is the previous owner's data (D60) -/
theorem viewWhole_leaks (decoded tail₁ tail₂ : Bytes) (_hlen : tail₁.length = tail₂.length) (hne : tail₁ ≠ tail₂) :
    viewWhole (decoded ++ tail₁) decoded ≠ viewWhole (decoded ++ tail₂) decoded := by
  simp [viewWhole, decodeInto, hne]

/-- and it shows the previous owner's octets verbatim -/
theorem viewWhole_shows_tail (junk decoded tail : Bytes) (h : junk.length = decoded.length) :
    viewWhole (junk ++ tail) decoded = some (decoded ++ tail) := by
  simp [viewWhole, decodeInto, h]

example : viewWhole [9, 9, 7, 7] [1, 2] = some [1, 2, 7, 7] ∧ viewFixed [9, 9, 7, 7] [1, 2] = some [1, 2] := by decide

end MosVerif.PoolView
