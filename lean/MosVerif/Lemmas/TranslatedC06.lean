/-
  Tie by translation (C06): the integer / boolean tests of `ReuseConnTransport` (internal/upstream/transport/
  reuse_transport.go) that the step model (Model/Reuse.lean, `stepCoreG`) branches on — the pool guard `retry <= 5`,
  the retry condition `!isNewConn && retry <= 5 && !ctxIsDone(ctx)` (both fragments are shared with C14), the
  per-connection id `qid := c.nextQid; c.nextQid++` and the id check `r.Header.ID != qid` of `exchangeConn` — are
  translated mechanically from the current Go source (`Generated/Translated.lean`). For every state (and both
  `racy` / `adv` variants of the step function) the model's step is the step that branches on, resp. computes with,
  exactly the translated fragments.
  (`nextQid` is a `uint16` in Go; its wrap-around after 65536 queries on one connection is outside the model and
  outside the translation, which is type-unaware for `++`.)
-/
import MosVerif.Generated.Translated
import MosVerif.Model.Reuse
namespace MosVerif.Reuse
open MosVerif

theorem id_pure_c06 {α : Type} (x : α) : (pure x : Id α) = x := rfl

/-- normalise a translated fragment: unfold the `do` block, split its `if`s, Bool equality as `↔`, then
    simplification and linear arithmetic -/
local macro "tie_tac" : tactic => `(tactic| (
  (try simp only [Id.run, id_pure_c06])
  <;> (try (repeat' split))
  <;> (try (rw [Bool.eq_iff_iff]))
  <;> (try simp_all)
  <;> (try omega)))

theorem reuse_poolCond_eq (retry : Nat) : Translated.reuse_poolCond retry = decide (retry ≤ 5) := by
  unfold Translated.reuse_poolCond
  tie_tac

theorem reuse_retryCond_eq (new : Bool) (retry : Nat) (done : Bool) :
    Translated.reuse_retryCond new retry done = (!new && decide (retry ≤ 5) && !done) := by
  unfold Translated.reuse_retryCond
  cases new <;> cases done <;> tie_tac

theorem c06_idTake_eq (n : Nat) : Translated.c06_idTake n = n := by
  unfold Translated.c06_idTake
  tie_tac

theorem c06_idNext_eq (n : Nat) : Translated.c06_idNext n = n + 1 := by
  unfold Translated.c06_idNext
  tie_tac

theorem c06_idMismatch_eq (a b : Nat) : Translated.c06_idMismatch a b = !decide (a = b) := by
  unfold Translated.c06_idMismatch
  by_cases h : a = b <;> tie_tac

/-- `getIdleConn` is consulted iff the translated pool guard `retry <= 5` holds -/
theorem getIdle_translated (racy adv : Bool) (s : State) (e : Nat) (pick : Option Nat)
    (hp : (s.caller e).phase = .get) :
    stepCoreG racy adv s (.getIdle e pick) =
      if !Translated.reuse_poolCond (s.caller e).retry then
        s.setCaller e { s.caller e with phase := .dialing, dial := .dialing }
      else if s.tclosed then s.finish e .err
      else
        match pick with
        | none =>
          if s.idle = [] then s.setCaller e { s.caller e with phase := .dialing, dial := .dialing } else s
        | some c =>
          if c ∈ s.idle then
            let s := { s with idle := s.idle.filter (· != c) }
            let k := s.conn c
            if k.closed then { s with all := s.all.filter (· != c) }
            else if k.serving then { s with fault := some .exitIdleBusy }
            else
              let s := s.setConn c { k with serving := true }
              if k.netClosed then { s with all := s.all.filter (· != c) }
              else if k.worker.isSome then { s with fault := some .twoOwners }
              else s.spawn e c false
          else s := by
  rw [reuse_poolCond_eq]
  unfold stepCoreG
  simp only [hp]
  by_cases h : (s.caller e).retry ≤ 5
  · have h' : ¬ (s.caller e).retry > 5 := by omega
    simp only [h, h', decide_true, decide_false, Bool.not_true, Bool.not_false, Bool.false_eq_true, if_false]
    rfl
  · have h' : (s.caller e).retry > 5 := by omega
    simp only [h, h', decide_true, decide_false, Bool.not_true, Bool.not_false, if_true]

/-- a failed attempt is retried iff the translated condition `!isNewConn && retry <= 5 && !ctxIsDone(ctx)` holds -/
theorem recvRes_translated (racy adv : Bool) (s : State) (e : Nat) (c : Nat) (new : Bool)
    (hp : (s.caller e).phase = .wait c new) (hc : s.chan e (s.caller e).retry = some .err) :
    stepCoreG racy adv s (.recvRes e) =
      if Translated.reuse_retryCond new (s.caller e).retry (s.caller e).cancelled then
        s.setCaller e { s.caller e with phase := .get, retry := (s.caller e).retry + 1 }
      else s.finish e .err := by
  rw [reuse_retryCond_eq]
  unfold stepCoreG
  simp only [hp, hc]

/-- the worker writes the query with the translated `qid := c.nextQid` and leaves the translated `c.nextQid++` -/
theorem workerWrite_translated (racy adv : Bool) (s : State) (c e a : Nat) (fail : Bool)
    (hw : (s.conn c).worker = some (.write e a)) :
    stepCoreG racy adv s (.workerWrite c fail) =
      let k := s.conn c
      let qid := Translated.c06_idTake k.nextQid
      let next := Translated.c06_idNext k.nextQid
      if k.netClosed || k.peerClosed || fail then
        (s.setConn c { k with nextQid := next, worker := some (.post e a .err) }).emit (.err c)
      else
        (s.setConn c { k with nextQid := next, pending := k.pending ++ [e], owed := k.owed ++ [(e, qid)],
                              worker := some (.read e a qid) }).emit (.wr c e qid) := by
  simp only [c06_idTake_eq, c06_idNext_eq]
  unfold stepCoreG
  simp only [hw]

/-- a good frame is accepted iff the translated `r.Header.ID != qid` is false -/
theorem workerReadOk_translated (racy adv : Bool) (s : State) (c e a qid : Nat) (f : Frame) (fs : List Frame)
    (hw : (s.conn c).worker = some (.read e a qid)) (hn : (s.conn c).netClosed = false)
    (hb : (s.conn c).inbuf = f :: fs) :
    stepCoreG racy adv s (.workerReadOk c) =
      let k := s.conn c
      let k' := { k with pending := k.pending.tail, inbuf := fs, halfRead := false }
      if !f.good then
        (s.setConn c { k' with worker := some (.post e a .err) }).emit (.bad c)
      else if Translated.c06_idMismatch f.id qid then
        (s.setConn c { k' with worker := some (.post e a .err) }).emit (.rd c f.q f.id)
      else
        (s.setConn c { k' with worker := some (.post e a (.ok f.q)) }).emit (.rd c f.q f.id) := by
  rw [c06_idMismatch_eq]
  unfold stepCoreG
  simp only [hw, hn, hb]
  by_cases hg : f.good <;> by_cases hi : f.id = qid <;> simp [hg, hi]

end MosVerif.Reuse
