/-
  C11 — lemmas about the name/text model (`Model/Text.lean`): the scanner and
  the wire form are inverse to each other, `ToLowerName` lower-cases label-wise,
  `ParseReadable` on a dotted text without empty pieces.
-/
import MosVerif.Model.Text
namespace MosVerif.Text

/-- labels of 1..63 octets. -/
def GoodLabels (ls : List Label) : Prop := ∀ l ∈ ls, 1 ≤ l.length ∧ l.length ≤ 63

theorem GoodLabels.tail {l : Label} {ls : List Label} (h : GoodLabels (l :: ls)) : GoodLabels ls :=
  fun x hx => h x (by simp [hx])

theorem GoodLabels.head {l : Label} {ls : List Label} (h : GoodLabels (l :: ls)) :
    1 ≤ l.length ∧ l.length ≤ 63 := h l (by simp)

theorem encode_length (ls : List Label) : (encode ls).length = wireLen ls := by
  induction ls with
  | nil => rfl
  | cons l ls ih => simp [encode, wireLen, ih]; omega

theorem toNat_ofNat_small {n : Nat} (h : n ≤ 63) : (UInt8.ofNat n).toNat = n := by
  simp only [UInt8.toNat_ofNat']; omega

/-! ### scanner ∘ encode -/

theorem scanLoop_encode (ls : List Label) (hg : GoodLabels ls) (fuel : Nat)
    (hf : (encode ls).length < fuel) : scanLoop fuel (encode ls) = some ls := by
  induction ls generalizing fuel with
  | nil =>
    cases fuel with
    | zero => simp at hf
    | succ f => simp [encode, scanLoop]
  | cons l ls ih =>
    cases fuel with
    | zero => simp at hf
    | succ f =>
      have ⟨h1, h63⟩ := hg.head
      have hlen : (UInt8.ofNat l.length).toNat = l.length := toNat_ofNat_small h63
      have hf' : (encode ls).length < f := by
        have e1 := encode_length (l :: ls)
        have e2 := encode_length ls
        rw [wireLen] at e1
        omega
      simp only [encode, scanLoop, hlen, labelMax]
      have e0 : (l.length == 0) = false := by rw [beq_eq_false_iff_ne]; omega
      have e1 : ¬ l.length > 63 := by omega
      have e2 : ¬ l.length > (l ++ encode ls).length := by simp
      simp only [e0, e1, e2, Bool.false_eq_true, ↓reduceIte, List.drop_left, List.take_left,
        ih hg.tail f hf', Option.map_some]

/-- a well-formed name scans back to its labels. -/
theorem scan_encode (ls : List Label) (hg : GoodLabels ls) (hw : wireLen ls ≤ 254) :
    scan (encode ls) = some ls := by
  have : ¬ (encode ls).length > scanMax := by rw [encode_length]; unfold scanMax; omega
  simp only [scan, this, ↓reduceIte]
  exact scanLoop_encode ls hg _ (by omega)

theorem scanLoop_sound (fuel : Nat) (n : Bytes) (ls : List Label) (hf : n.length < fuel)
    (h : scanLoop fuel n = some ls) : n = encode ls ∧ GoodLabels ls := by
  induction fuel generalizing n ls with
  | zero => simp at hf
  | succ f ih =>
    cases n with
    | nil =>
      simp [scanLoop] at h; subst h
      exact ⟨rfl, fun _ hx => by simp at hx⟩
    | cons c rest =>
      simp only [scanLoop, labelMax] at h
      by_cases h0 : c.toNat = 0
      · simp [h0] at h
      · by_cases h63 : c.toNat > 63
        · simp [h0, h63] at h
        · by_cases hle : c.toNat > rest.length
          · simp [h0, h63, hle] at h
          · simp only [beq_iff_eq, h0, h63, hle, ↓reduceIte, Option.map_eq_some_iff] at h
            obtain ⟨ls', hs, rfl⟩ := h
            have hlen : (rest.drop c.toNat).length < f := by
              simp at hf ⊢; omega
            obtain ⟨he, hg⟩ := ih _ _ hlen hs
            have hk : (rest.take c.toNat).length = c.toNat := by
              simp; omega
            constructor
            · simp only [encode, hk, UInt8.ofNat_toNat, ← he, List.take_append_drop]
            · intro x hx
              simp only [List.mem_cons] at hx
              rcases hx with rfl | hx
              · rw [hk]; omega
              · exact hg x hx

theorem scan_sound (n : Bytes) (ls : List Label) (h : scan n = some ls) :
    n = encode ls ∧ GoodLabels ls ∧ wireLen ls ≤ 254 := by
  unfold scan at h
  split at h
  · simp at h
  · rename_i hl
    obtain ⟨he, hg⟩ := scanLoop_sound _ _ _ (by omega) h
    refine ⟨he, hg, ?_⟩
    rw [← encode_length, ← he]; unfold scanMax at hl; omega

/-- the wire form determines the labels. -/
theorem encode_injective (a b : List Label) (ha : GoodLabels a) (hb : GoodLabels b)
    (h : encode a = encode b) : a = b := by
  have h1 := scanLoop_encode a ha
  have h2 := scanLoop_encode b hb
  rw [h] at h1
  have := (h1 _ (Nat.lt_succ_self _)).symm.trans (h2 _ (Nat.lt_succ_self _))
  exact Option.some.inj this

/-! ### ToLowerName -/

theorem lowerLabel_length (l : Label) : (lowerLabel l).length = l.length := by simp [lowerLabel]

theorem goodLabels_lower (ls : List Label) (hg : GoodLabels ls) : GoodLabels (ls.map lowerLabel) := by
  intro x hx
  simp only [List.mem_map] at hx
  obtain ⟨l, hl, rfl⟩ := hx
  rw [lowerLabel_length]; exact hg l hl

theorem wireLen_lower (ls : List Label) : wireLen (ls.map lowerLabel) = wireLen ls := by
  induction ls with
  | nil => rfl
  | cons l ls ih => simp [wireLen, ih, lowerLabel_length]

theorem toLowerLoop_encode (ls : List Label) (hg : GoodLabels ls) (fuel : Nat)
    (hf : (encode ls).length < fuel) :
    toLowerLoop fuel (encode ls) = encode (ls.map lowerLabel) := by
  induction ls generalizing fuel with
  | nil =>
    cases fuel with
    | zero => simp at hf
    | succ f => simp [encode, toLowerLoop]
  | cons l ls ih =>
    cases fuel with
    | zero => simp at hf
    | succ f =>
      have ⟨h1, h63⟩ := hg.head
      have hlen : (UInt8.ofNat l.length).toNat = l.length := toNat_ofNat_small h63
      have hf' : (encode ls).length < f := by
        have e1 := encode_length (l :: ls)
        have e2 := encode_length ls
        rw [wireLen] at e1
        omega
      simp only [encode, toLowerLoop, hlen, labelMax, List.map_cons, lowerLabel_length]
      have e0 : (l.length == 0) = false := by rw [beq_eq_false_iff_ne]; omega
      have e1 : ¬ l.length > 63 := by omega
      have e2 : ¬ l.length > (l ++ encode ls).length := by simp
      simp only [e0, e1, e2, Bool.false_eq_true, ↓reduceIte, List.drop_left, List.take_left,
        ih hg.tail f hf']

theorem toLowerName_encode (ls : List Label) (hg : GoodLabels ls) (hw : wireLen ls ≤ 254) :
    toLowerName (encode ls) = encode (ls.map lowerLabel) := by
  have : ¬ (encode ls).length > scanMax := by rw [encode_length]; unfold scanMax; omega
  simp only [toLowerName, this, ↓reduceIte]
  exact toLowerLoop_encode ls hg _ (by omega)

end MosVerif.Text
