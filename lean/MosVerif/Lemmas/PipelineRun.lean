/-
  C05 — the script-level model that `mvmodel` runs against the implementation's logs
  (`runOp`, `runOps` of Model/Pipeline.lean) only ever performs steps of the step semantics:
  every state it goes through is `exec` of some step list, so all the theorems about
  arbitrary step sequences apply to it.
-/
import MosVerif.Lemmas.PipelineEol
namespace MosVerif.Pipeline

theorem exec_append (cfg : Cfg) (s : State) (a b : List Step) :
    exec cfg s (a ++ b) = exec cfg (exec cfg s a) b := by
  induction a generalizing s with
  | nil => rfl
  | cons x t ih => exact ih (step cfg s x)

/-- `s'` is reached from `s` by steps of the model -/
def Reach (cfg : Cfg) (s s' : State) : Prop := ∃ steps, s' = exec cfg s steps

theorem Reach.refl (cfg : Cfg) (s : State) : Reach cfg s s := ⟨[], rfl⟩
theorem Reach.one (cfg : Cfg) (s : State) (st : Step) : Reach cfg s (step cfg s st) := ⟨[st], rfl⟩
theorem Reach.trans {cfg : Cfg} {a b c : State} (h1 : Reach cfg a b) (h2 : Reach cfg b c) : Reach cfg a c := by
  obtain ⟨l1, e1⟩ := h1
  obtain ⟨l2, e2⟩ := h2
  exact ⟨l1 ++ l2, by rw [exec_append, ← e1, e2]⟩
theorem Reach.then_step {cfg : Cfg} {a b : State} (h : Reach cfg a b) (st : Step) : Reach cfg a (step cfg b st) :=
  h.trans (Reach.one cfg b st)

theorem foldl_reach {cfg : Cfg} {α β : Type} (f : RunSt × β → α → RunSt × β)
    (hf : ∀ acc x, Reach cfg acc.1.s (f acc x).1.s) (l : List α) (init : RunSt × β) :
    Reach cfg init.1.s (l.foldl f init).1.s := by
  induction l generalizing init with
  | nil => exact Reach.refl _ _
  | cons x t ih => exact (hf init x).trans (ih (f init x))

theorem foldl_reachR {cfg : Cfg} {α : Type} (f : RunSt → α → RunSt)
    (hf : ∀ acc x, Reach cfg acc.s (f acc x).s) (l : List α) (init : RunSt) :
    Reach cfg init.s (l.foldl f init).s := by
  induction l generalizing init with
  | nil => exact Reach.refl _ _
  | cons x t ih => exact (hf init x).trans (ih (f init x))

theorem regStart_reach (cfg : Cfg) (r : RunSt) (known : List Nat) (e c : Nat) :
    Reach cfg r.s (regStart cfg r known e c).s := by
  unfold regStart
  dsimp only
  split
  · exact (Reach.one _ _ _).then_step _
  · exact Reach.one _ _ _

theorem stallStart_s (r : RunSt) (e : Nat) : (stallStart r e).1.s = r.s := by
  unfold stallStart
  split
  · split <;> rfl
  · rfl

theorem writeStart_reach (cfg : Cfg) (r : RunSt) (e : Nat) : Reach cfg r.s (writeStart cfg r e).1.s := by
  unfold writeStart
  dsimp only
  split <;> (dsimp only; exact Reach.one _ _ _)

theorem doStart_reach (cfg : Cfg) (r : RunSt) (known : List Nat) (e c : Nat) :
    Reach cfg r.s (doStart cfg r known e c).1.s := by
  unfold doStart
  dsimp only
  split
  · rw [stallStart_s]; exact regStart_reach cfg r known e c
  · exact (regStart_reach cfg r known e c).trans (writeStart_reach cfg _ e)

theorem drain_reach (cfg : Cfg) (r : RunSt) (known : List Nat) : Reach cfg r.s (drain cfg r known).1.s := by
  unfold drain
  apply foldl_reach
  intro acc e
  obtain ⟨r', toks⟩ := acc
  simp only []
  split
  · split
    · dsimp only; exact (Reach.one _ _ _).then_step _
    · exact Reach.refl _ _
  · exact Reach.refl _ _

theorem inject_reach (cfg : Cfg) (r : RunSt) (known : List Nat) (c id p : Nat) :
    Reach cfg r.s (inject cfg r known c id p).1.s := by
  unfold inject
  split
  · exact (Reach.one cfg r.s (.srvReply c id p)).trans (drain_reach cfg _ _)
  · exact Reach.refl _ _

theorem startGroup_reach (cfg : Cfg) (r : RunSt) (known es : List Nat) (g : List Tok) :
    Reach cfg r.s (startGroup cfg r known es g).1.s := by
  unfold startGroup
  simp only []
  refine Reach.trans ?_ (foldl_reach _ ?_ _ _)
  · exact foldl_reach _ (fun acc x => by obtain ⟨r', t⟩ := acc; exact doStart_reach cfg r' known _ _) _ _
  · intro acc e
    obtain ⟨r', t⟩ := acc
    exact doStart_reach cfg r' known _ _

theorem holdGroup_reach (cfg : Cfg) (r : RunSt) (known es : List Nat) (g : List Tok) :
    Reach cfg r.s (holdGroup cfg r known es g).1.s := by
  unfold holdGroup
  simp only []
  refine Reach.trans (startGroup_reach cfg r known _ g) (foldl_reach _ ?_ _ _)
  intro acc e
  obtain ⟨r', t⟩ := acc
  simp only []
  split
  · dsimp only; exact (Reach.one _ _ _).then_step _
  · split <;> (dsimp only; exact (Reach.one _ _ _).then_step _)

theorem killVictims_reach (cfg : Cfg) (r : RunSt) (vs : List Nat) : Reach cfg r.s (killVictims cfg r vs).s := by
  unfold killVictims
  exact foldl_reachR _ (fun acc e => by dsimp only; exact ((Reach.one _ _ _).then_step _).then_step _) _ _

theorem giveUpAll_reach (cfg : Cfg) (r : RunSt) (vs : List Nat) : Reach cfg r.s (giveUpAll cfg r vs).s := by
  unfold giveUpAll
  exact foldl_reachR _ (fun acc e => by dsimp only; exact Reach.one _ _ _) _ _

theorem settle_reach (cfg : Cfg) (r : RunSt) (known victims : List Nat) (g : List Tok) :
    Reach cfg r.s (settle cfg r known victims g).1.s := by
  unfold settle
  dsimp only
  refine Reach.trans ?_ (startGroup_reach cfg _ _ _ _)
  dsimp only
  exact giveUpAll_reach cfg _ _

theorem killConn_reach (cfg : Cfg) (r : RunSt) (known : List Nat) (c : Nat) (g : List Tok) :
    Reach cfg r.s (killConn cfg r known c g).1.s := by
  unfold killConn
  dsimp only
  refine Reach.trans ?_ (settle_reach cfg _ _ _ _)
  dsimp only
  refine Reach.trans ?_ (killVictims_reach cfg _ _)
  exact Reach.one cfg r.s (.close c)

theorem openGate_reach (cfg : Cfg) (r : RunSt) (known : List Nat) : Reach cfg r.s (openGate cfg r known).1.s := by
  unfold openGate
  dsimp only
  refine Reach.trans ?_ (drain_reach cfg _ known)
  refine Reach.trans ?_ (foldl_reach _ ?_ _ _)
  · exact Reach.refl _ _
  · intro acc e
    split <;> (dsimp only; exact Reach.one _ _ _)

theorem failGate_reach (cfg : Cfg) (r : RunSt) (known : List Nat) (k : Nat) (g : List Tok) :
    Reach cfg r.s (failGate cfg r known k g).1.s := by
  unfold failGate
  split
  · exact Reach.refl _ _
  · split
    · dsimp only
      refine Reach.trans ?_ (settle_reach cfg _ _ _ _)
      exact killVictims_reach cfg { r with gated := false, held := [] } _
    · refine Reach.trans ?_ (foldl_reach _ ?_ _ _)
      · exact Reach.refl _ _
      · intro acc c
        exact killConn_reach cfg acc.1 known c g

theorem runOp_reach (cfg : Cfg) (r : RunSt) (known : List Nat) (op : Op) (g : List Tok) :
    Reach cfg r.s (runOp cfg r known op g).1.s := by
  unfold runOp
  cases op with
  | start e cid => exact startGroup_reach _ _ _ _ _
  | burst es => exact startGroup_reach _ _ _ _ _
  | hold es => exact holdGroup_reach _ _ _ _ _
  | reply e p =>
    dsimp only
    split
    · exact Reach.refl _ _
    · split
      · exact inject_reach _ _ _ _ _ _
      · exact Reach.refl _ _
  | raw c id p => exact inject_reach _ _ _ _ _ _
  | cancel e =>
    dsimp only
    split
    · dsimp only; exact ((Reach.one _ _ _).then_step _).then_step _
    · split
      · exact Reach.refl _ _
      · dsimp only; exact ((Reach.one _ _ _).then_step _).then_step _
    · exact Reach.refl _ _
  | kill c =>
    dsimp only
    split
    · refine Reach.trans ?_ (openGate_reach cfg _ known)
      exact killConn_reach cfg { r with gated := false } known c g
    · exact Reach.refl _ _
  | idle c =>
    dsimp only
    split
    · refine Reach.trans ?_ (openGate_reach cfg _ known)
      exact killConn_reach cfg { r with gated := false } known c g
    · exact Reach.refl _ _
  | frame c id p inner => exact inject_reach _ _ _ _ _ _
  | fhead c id p inner =>
    dsimp only
    split <;> exact Reach.refl _ _
  | ftail c =>
    dsimp only
    split
    · exact inject_reach cfg _ known _ _ _
    · exact Reach.refl _ _
  | gate => exact Reach.refl _ _
  | ungate =>
    dsimp only
    split
    · exact openGate_reach _ _ _
    · exact Reach.refl _ _
  | fail k => exact failGate_reach _ _ _ _ _

/-- every state the script-level model goes through … -/
def runStates (cfg : Cfg) (known : List Nat) : RunSt → List Op → List (List Tok) → List State
  | r, [], _ => [r.s]
  | r, op :: ops, gs => r.s :: runStates cfg known (runOp cfg r known op (gs.headD [])).1 ops gs.tail

/-- … is reached from the initial one by steps of the model, whatever the log `gs` (the oracle) says. -/
theorem runStates_reach (cfg : Cfg) (known : List Nat) (r : RunSt) (ops : List Op) (gs : List (List Tok)) :
    ∀ s ∈ runStates cfg known r ops gs, Reach cfg r.s s := by
  induction ops generalizing r gs with
  | nil => intro s hs; simp [runStates] at hs; subst hs; exact Reach.refl _ _
  | cons op rest ih =>
    intro s hs
    simp only [runStates, List.mem_cons] at hs
    rcases hs with hs | hs
    · subst hs; exact Reach.refl _ _
    · exact (runOp_reach cfg r known op _).trans (ih _ _ s hs)

/-! ### the prefix -/

theorem preStep_ok (cs : List Conn) (cur : Conn) (h1 : ∀ c ∈ cs, c.nextQid ≤ 65536 ∧ c.queue = [])
    (h2 : cur.nextQid ≤ 65536 ∧ cur.queue = []) : ∀ c ∈ preStep cs cur, c.nextQid ≤ 65536 ∧ c.queue = [] := by
  unfold preStep
  cases hadd : cur.addQueueC 0 with
  | mk c' o =>
    cases o with
    | none =>
      obtain ⟨_, a2, a3, _⟩ := addQueueC_none hadd
      intro c hc
      rcases List.mem_append.mp hc with hc | hc
      · exact h1 c hc
      · simp at hc; subst hc; exact ⟨by omega, by rw [a3]; exact h2.2⟩
    | some q =>
      obtain ⟨a1, _, a3, a4, _⟩ := addQueueC_some hadd
      intro c hc
      rcases List.mem_append.mp hc with hc | hc
      · exact h1 c hc
      · simp at hc; subst hc
        refine ⟨by simp [deleteQueueC_nextQid]; omega, ?_⟩
        simp [deleteQueueC_queue, a4, h2.2, qput, qdel]

/-- the connections left by the prefix have no waiter and a counter within bounds -/
theorem preRun_ok (n : Nat) (cs : List Conn) (h : ∀ c ∈ cs, c.nextQid ≤ 65536 ∧ c.queue = []) :
    ∀ c ∈ preRun n cs, c.nextQid ≤ 65536 ∧ c.queue = [] := by
  have fresh : (({} : Conn).reserve).nextQid ≤ 65536 ∧ (({} : Conn).reserve).queue = [] := by
    simp [reserve_nextQid, reserve_queue]
  induction n generalizing cs with
  | zero => exact h
  | succ n ih =>
    unfold preRun
    split
    · rename_i c0 hl
      have hc0 : c0 ∈ cs := List.mem_of_getLast? hl
      split
      · exact ih _ (preStep_ok _ _ (fun c hc => h c (List.dropLast_subset cs hc)) (h c0 hc0))
      · exact ih _ (preStep_ok _ _ h fresh)
    · exact ih _ (preStep_ok _ _ h fresh)

/-- a state without history in which nothing is registered satisfies the invariants -/
theorem inv_clean (cfg : Cfg) (s : State) (h1 : s.hist = []) (h2 : ∀ e, s.pcs e = .idle)
    (h3 : ∀ ch, s.chans ch = .empty) (h4 : ∀ c, (s.conns c).queue = [])
    (h5 : ∀ c, (s.conns c).nextQid ≤ 65536) (h6 : ∀ c, cfg.base c ≤ (s.conns c).nextQid) : Inv cfg s := by
  refine ⟨h5, h6, ?_, ?_, ?_, ?_, ?_, ?_, ?_, ?_, ?_, ?_, ?_⟩ <;> simp [h1, h2, h3, h4, returned, spec]

theorem ginv_clean (cfg : Cfg) (s : State) (h1 : s.hist = []) (h2 : s.taken = []) (h3 : ∀ ch, s.chans ch = .empty)
    (h4 : ∀ e, s.pcs e = .idle) : GInv cfg s := by
  constructor <;> simp [h1, h2, h3, h4]

theorem scriptInit_inv (cids : List (Nat × Nat)) (pre : Nat) :
    Inv (scriptCfg cids (preRun pre [])) (scriptInit (preRun pre [])) ∧
    GInv (scriptCfg cids (preRun pre [])) (scriptInit (preRun pre [])) := by
  have hp := preRun_ok pre [] (by simp)
  have hc : ∀ c, ((preRun pre []).getD c {}).nextQid ≤ 65536 ∧ ((preRun pre []).getD c {}).queue = [] := by
    intro c
    by_cases hlt : c < (preRun pre []).length
    · have : (preRun pre []).getD c {} = (preRun pre [])[c] := by simp [List.getD, hlt]
      rw [this]; exact hp _ (List.getElem_mem hlt)
    · have : (preRun pre []).getD c {} = {} := by
        have hge : (preRun pre []).length ≤ c := Nat.le_of_not_lt hlt
        simp [List.getD, hge]
      rw [this]; exact ⟨by decide, rfl⟩
  constructor
  · exact inv_clean _ _ rfl (fun _ => rfl) (fun _ => rfl) (fun c => (hc c).2) (fun c => (hc c).1) (fun c => Nat.le_refl _)
  · exact ginv_clean _ _ rfl rfl (fun _ => rfl) (fun _ => rfl)

end MosVerif.Pipeline
