/-
  Tie by translation (C01/C02): `Msg.Unpack` as a whole.
  * `header.unpack` translated from msg.go is the 12-octet match that `Wire.unpackMsg` starts with
    (`header_unpack_translated`, `unpackMsg_header_translated`);
  * `unpackResource` (rr.go): the `switch hdr.Type` that picks the per-type decoder (`unpackResource_translated`);
  * the four `for i := 0; i < int(h.<count>); i++` loops of `Msg.Unpack`: each is translated to a step function
    (`Translated.Msg_Unpack_loop<k>_step`) run by `GoSem.loop`; `<section>Step_eq` is the canonical form of one
    iteration, `<section>Loop_translated` proves (induction on the remaining count, `GoSem.loop_unfold` at every
    step) that the loop IS `Wire.unpackQuestions` / `Wire.unpackResources`;
  * `unpackMsg_translated`: `Wire.unpackMsg msg` = the translation of `Msg.Unpack` on a fresh message.
  Records are carried as values of `Wire.Resource` / `Wire.Question` built by the templates of
  `extract/translate.d/codec.json` ("boxed", see extract/gotolean/bytes_boxed.go).
-/
import MosVerif.Lemmas.TranslatedCodecRecord
namespace MosVerif.Wire
open MosVerif

/-- `header.unpack` -/
theorem header_unpack_translated (msg : Bytes) (off : Nat) :
    Translated.header_unpack msg off =
      (sliceFrom msg off >>= fun hdr =>
        match hdr with
        | i0 :: i1 :: b0 :: b1 :: q0 :: q1 :: a0 :: a1 :: n0 :: n1 :: x0 :: x1 :: _ =>
          .ok (be16 i0 i1, be16 b0 b1, be16 q0 q1, be16 a0 a1, be16 n0 n1, be16 x0 x1, off + 12)
        | _ => .err) := by
  unfold Translated.header_unpack
  rw [goSem_sliceFrom]
  cases sliceFrom msg off with
  | err => rfl
  | panic => rfl
  | ok buf =>
    rcases buf with _|⟨i0,_|⟨i1,_|⟨b0,_|⟨b1,_|⟨q0,_|⟨q1,_|⟨a0,_|⟨a1,_|⟨n0,_|⟨n1,_|⟨x0,_|⟨x1,r⟩⟩⟩⟩⟩⟩⟩⟩⟩⟩⟩⟩
    all_goals simp [GoSem.slice, GoSem.beUint16, Translated.unpackUint16]

/-- `Msg.Unpack` starts with the translated `header.unpack` at offset 0 and feeds its six words on. -/
theorem unpackMsg_header_translated (msg : Bytes) :
    unpackMsg msg =
      (Translated.header_unpack msg 0 >>= fun r =>
        (unpackQuestions msg r.2.2.1 r.2.2.2.2.2.2 >>= fun (qs, off) =>
         unpackResources msg r.2.2.2.1 off >>= fun (an, off) =>
         unpackResources msg r.2.2.2.2.1 off >>= fun (ns, off) =>
         unpackResources msg r.2.2.2.2.2.1 off >>= fun (ar, _) =>
         (Res.ok ⟨headerOfBits r.1 r.2.1, qs, an, ns, ar⟩ : Res Msg))) := by
  rw [header_unpack_translated]
  unfold unpackMsg
  cases sliceFrom msg 0 with
  | err => rfl
  | panic => rfl
  | ok buf =>
    rcases buf with _|⟨i0,_|⟨i1,_|⟨b0,_|⟨b1,_|⟨q0,_|⟨q1,_|⟨a0,_|⟨a1,_|⟨n0,_|⟨n1,_|⟨x0,_|⟨x1,r⟩⟩⟩⟩⟩⟩⟩⟩⟩⟩⟩⟩
    all_goals rfl

/-! ### `unpackResource`: the type dispatch -/

/-- `unpackResource` (rr.go): `ResourceHdr.unpack`, then the `switch hdr.Type` that picks the per-type decoder
    (`r = NewA()` … `r.unpack(msg, off, hdr)`), the record carrying the header that was just decoded.
    The proof splits on the nine classes of the type code and evaluates BOTH if-chains in each, so the order in
    which the source lists the (disjoint) cases does not matter. -/
theorem unpackResource_translated (msg : Bytes) (off : Nat) :
    unpackResource msg off = Translated.unpackResource msg off := by
  unfold unpackResource
  rw [unpackRHdr_translated]
  unfold Translated.unpackResource
  cases Translated.ResourceHdr_unpack msg off with
  | err => rfl
  | panic => rfl
  | ok r =>
    obtain ⟨n, t, c, ttl, len, o⟩ := r
    simp only [Res.bind_ok', Res.pure_eq]
    by_cases h1 : t = 1
    · subst h1
      have e := unpackRData_A_translated msg o len (List.replicate 4 0) (by simp)
      simp only [typeA] at e
      rw [e]
      cases Translated.A_unpack msg o len (List.replicate 4 0) <;> simp
    by_cases h2 : t = 28
    · subst h2
      have e := unpackRData_AAAA_translated msg o len (List.replicate 16 0) (by simp)
      simp only [typeAAAA] at e
      rw [e]
      cases Translated.AAAA_unpack msg o len (List.replicate 16 0) <;> simp
    by_cases h3 : t = 15
    · subst h3
      have e := unpackRData_MX_translated msg o len
      simp only [typeMX] at e
      rw [e]
      cases Translated.MX_unpack msg o len <;> simp
    by_cases h4 : t = 5 ∨ t = 2 ∨ t = 12
    · have e := unpackRData_NAME_translated msg o len t (by simpa [typeCNAME, typeNS, typePTR] using h4)
      rw [e]
      rcases h4 with h | h | h <;> subst h <;> cases Translated.NAMEResource_unpack msg o len <;> simp
    by_cases h5 : t = 6
    · subst h5
      have e := unpackRData_SOA_translated msg o len
      simp only [typeSOA] at e
      rw [e]
      cases Translated.SOA_unpack msg o len <;> simp
    by_cases h6 : t = 33
    · subst h6
      have e := unpackRData_SRV_translated msg o len
      simp only [typeSRV] at e
      rw [e]
      cases Translated.SRV_unpack msg o len <;> simp
    · have h4' : ¬ t = 5 ∧ ¬ t = 2 ∧ ¬ t = 12 := by omega
      have e := unpackRData_Raw_translated msg o len t (by simpa [typeA] using h1) (by simpa [typeAAAA] using h2)
        (by simpa [typeMX] using h3) (by simpa [typeCNAME] using h4'.1) (by simpa [typeNS] using h4'.2.1)
        (by simpa [typePTR] using h4'.2.2) (by simpa [typeSOA] using h5) (by simpa [typeSRV] using h6)
      rw [e]
      cases Translated.RawResource_unpack msg o len <;> simp [h1, h2, h3, h4'.1, h4'.2.1, h4'.2.2, h5, h6]

/-! ### the four count-driven loops of `Msg.Unpack` -/

/-- canonical form of one iteration of the questions loop (`for i := 0; i < int(h.questions); i++`) -/
theorem questionsStep_eq (msg : Bytes) (cnt off i : Nat) (acc : List Question) :
    Translated.Msg_Unpack_loop1_step msg cnt (off, acc, i) =
      if i < cnt then
        unpackQuestion msg off >>= fun (q, o) => .ok (.inl (o, acc ++ [q], i + 1))
      else .ok (.inr (off, acc, i)) := by
  unfold Translated.Msg_Unpack_loop1_step
  rw [unpackQuestion_translated]
  by_cases h : i < cnt
  · simp only [h, decide_true, Bool.not_true, Bool.false_eq_true, if_false, if_true]
    cases Translated.unpackQuestion msg off <;> simp
  · simp [h]

/-- canonical form of one iteration of a records loop; the three loops (answers, authorities, additionals) are
    the same function of (msg, count, state) -/
theorem answersStep_eq (msg : Bytes) (cnt off i : Nat) (acc : List Resource) :
    Translated.Msg_Unpack_loop2_step msg cnt (off, acc, i) =
      if i < cnt then
        unpackResource msg off >>= fun (r, o) => .ok (.inl (o, acc ++ [r], i + 1))
      else .ok (.inr (off, acc, i)) := by
  unfold Translated.Msg_Unpack_loop2_step
  rw [unpackResource_translated]
  by_cases h : i < cnt
  · simp only [h, decide_true, Bool.not_true, Bool.false_eq_true, if_false, if_true]
    cases Translated.unpackResource msg off <;> simp
  · simp [h]

theorem authoritiesStep_eq (msg : Bytes) (cnt off i : Nat) (acc : List Resource) :
    Translated.Msg_Unpack_loop3_step msg cnt (off, acc, i) =
      if i < cnt then
        unpackResource msg off >>= fun (r, o) => .ok (.inl (o, acc ++ [r], i + 1))
      else .ok (.inr (off, acc, i)) := by
  unfold Translated.Msg_Unpack_loop3_step
  rw [unpackResource_translated]
  by_cases h : i < cnt
  · simp only [h, decide_true, Bool.not_true, Bool.false_eq_true, if_false, if_true]
    cases Translated.unpackResource msg off <;> simp
  · simp [h]

theorem additionalsStep_eq (msg : Bytes) (cnt off i : Nat) (acc : List Resource) :
    Translated.Msg_Unpack_loop4_step msg cnt (off, acc, i) =
      if i < cnt then
        unpackResource msg off >>= fun (r, o) => .ok (.inl (o, acc ++ [r], i + 1))
      else .ok (.inr (off, acc, i)) := by
  unfold Translated.Msg_Unpack_loop4_step
  rw [unpackResource_translated]
  by_cases h : i < cnt
  · simp only [h, decide_true, Bool.not_true, Bool.false_eq_true, if_false, if_true]
    cases Translated.unpackResource msg off <;> simp
  · simp [h]

/-- A count-driven loop whose iteration is `one`: `k` more iterations from counter `i` (`i + k = cnt`) are the
    recursive section decoder `sect k`, the decoded items appended to the accumulator. -/
theorem countLoop {α : Type} (step : Nat × List α × Nat → Res ((Nat × List α × Nat) ⊕ (Nat × List α × Nat)))
    (one : Nat → Res (α × Nat)) (sect : Nat → Nat → Res (List α × Nat)) (cnt : Nat)
    (hstep : ∀ off acc i, step (off, acc, i) =
      if i < cnt then one off >>= fun (x, o) => .ok (.inl (o, acc ++ [x], i + 1)) else .ok (.inr (off, acc, i)))
    (h0 : ∀ off, sect 0 off = .ok ([], off))
    (hs : ∀ k off, sect (k + 1) off = one off >>= fun (x, o) => sect k o >>= fun (xs, o') => .ok (x :: xs, o')) :
    ∀ (k i off : Nat) (acc : List α), i + k = cnt →
      GoSem.loop step (off, acc, i) = sect k off >>= fun (xs, o) => .ok (o, acc ++ xs, cnt) := by
  intro k
  induction k with
  | zero =>
    intro i off acc hi
    rw [GoSem.loop_unfold, hstep, h0]
    have : ¬ i < cnt := by omega
    simp [this]; omega
  | succ k ih =>
    intro i off acc hi
    rw [GoSem.loop_unfold, hstep, hs]
    have : i < cnt := by omega
    simp only [this, if_true]
    cases one off with
    | err => rfl
    | panic => rfl
    | ok r =>
      obtain ⟨x, o⟩ := r
      simp only [Res.bind_ok']
      rw [ih (i + 1) o (acc ++ [x]) (by omega)]
      cases sect k o with
      | err => rfl
      | panic => rfl
      | ok r2 => obtain ⟨xs, o'⟩ := r2; simp

/-- the questions loop of `Msg.Unpack` IS `Wire.unpackQuestions` -/
theorem questionsLoop_translated (msg : Bytes) (cnt off : Nat) (acc : List Question) :
    GoSem.loop (Translated.Msg_Unpack_loop1_step msg cnt) (off, acc, 0) =
      unpackQuestions msg cnt off >>= fun (qs, o) => .ok (o, acc ++ qs, cnt) :=
  countLoop _ (unpackQuestion msg) (unpackQuestions msg) cnt (fun off acc i => questionsStep_eq msg cnt off i acc)
    (fun _ => rfl) (fun _ _ => rfl) cnt 0 off acc (by omega)

/-- the answers / authorities / additionals loops of `Msg.Unpack` ARE `Wire.unpackResources` -/
theorem answersLoop_translated (msg : Bytes) (cnt off : Nat) (acc : List Resource) :
    GoSem.loop (Translated.Msg_Unpack_loop2_step msg cnt) (off, acc, 0) =
      unpackResources msg cnt off >>= fun (rs, o) => .ok (o, acc ++ rs, cnt) :=
  countLoop _ (unpackResource msg) (unpackResources msg) cnt (fun off acc i => answersStep_eq msg cnt off i acc)
    (fun _ => rfl) (fun _ _ => rfl) cnt 0 off acc (by omega)

theorem authoritiesLoop_translated (msg : Bytes) (cnt off : Nat) (acc : List Resource) :
    GoSem.loop (Translated.Msg_Unpack_loop3_step msg cnt) (off, acc, 0) =
      unpackResources msg cnt off >>= fun (rs, o) => .ok (o, acc ++ rs, cnt) :=
  countLoop _ (unpackResource msg) (unpackResources msg) cnt (fun off acc i => authoritiesStep_eq msg cnt off i acc)
    (fun _ => rfl) (fun _ _ => rfl) cnt 0 off acc (by omega)

theorem additionalsLoop_translated (msg : Bytes) (cnt off : Nat) (acc : List Resource) :
    GoSem.loop (Translated.Msg_Unpack_loop4_step msg cnt) (off, acc, 0) =
      unpackResources msg cnt off >>= fun (rs, o) => .ok (o, acc ++ rs, cnt) :=
  countLoop _ (unpackResource msg) (unpackResources msg) cnt (fun off acc i => additionalsStep_eq msg cnt off i acc)
    (fun _ => rfl) (fun _ _ => rfl) cnt 0 off acc (by omega)

/-! ### `Msg.Unpack` as a whole -/

/-- the message built from the fifteen components of the translated `Msg.Unpack` (the eleven `Header` fields in
    the order of the Go struct, then the four sections) -/
def msgOfTranslated
    (r : Nat × Bool × Nat × Bool × Bool × Bool × Bool × Bool × Bool × Bool × Nat × List Question × List Resource × List Resource × List Resource) : Msg :=
  match r with
  | (id, resp, op, aa, tc, rd, ra, z, ad, cd, rc, qs, an, ns, ar) =>
    ⟨{ id := id, response := resp, opcode := op, authoritative := aa, truncated := tc, rd := rd, ra := ra, ad := ad,
       cd := cd, rcode := rc, z := z }, qs, an, ns, ar⟩

/-- **`Wire.unpackMsg` IS the translation of `Msg.Unpack`** (msg.go) on a fresh message (`NewMsg()`: the four
    sections empty), for every byte string: header, the four count-driven loops, the type dispatch of
    `unpackResource`, every RDATA decoder, the name loop and the primitives below them. -/
theorem unpackMsg_translated (msg : Bytes) :
    unpackMsg msg = Translated.Msg_Unpack msg [] [] [] [] >>= fun r => .ok (msgOfTranslated r) := by
  rw [unpackMsg_header_translated]
  unfold Translated.Msg_Unpack
  simp only [Res.bind_assoc', Res.bind_ok', Res.pure_eq]
  refine Res.bind_congr' fun r _ => ?_
  obtain ⟨id, bits, q, a, n, x, off⟩ := r
  simp only [headerOfBits_translated, Res.bind_ok', questionsLoop_translated, answersLoop_translated,
    authoritiesLoop_translated, additionalsLoop_translated, Res.bind_assoc', List.nil_append]
  refine Res.bind_congr' fun r1 _ => ?_
  obtain ⟨qs, o1⟩ := r1
  simp only [Res.bind_ok']
  refine Res.bind_congr' fun r2 _ => ?_
  obtain ⟨an, o2⟩ := r2
  simp only [Res.bind_ok']
  refine Res.bind_congr' fun r3 _ => ?_
  obtain ⟨ns, o3⟩ := r3
  simp only [Res.bind_ok']
  refine Res.bind_congr' fun r4 _ => ?_
  obtain ⟨ar, o4⟩ := r4
  simp [msgOfTranslated, headerOfBits]

end MosVerif.Wire
