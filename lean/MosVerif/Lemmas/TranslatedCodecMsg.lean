/-
  Tie by translation (C01/C02): the fixed 12-octet header.  `header.unpack` translated from msg.go is the 12-octet
  match that `Wire.unpackMsg` starts with, and `Wire.unpackMsg` is: translated `header.unpack` at offset 0, then the
  four count-driven sections, then `header.header()` (`headerOfBits_translated`).
  (The four `for i := 0; i < int(h.<count>); i++` loops of `Msg.Unpack` append to slices of records; they are outside
  the translator's subset and stay tied by the differential runs.)
-/
import MosVerif.Lemmas.TranslatedCodecRecord
namespace MosVerif.Wire
open MosVerif

/-- `header.unpack` -/
theorem header_unpack_translated (msg : Bytes) (off : Nat) :
    Translated.header_unpack msg off =
      (sliceFrom msg off >>= fun hdr =>
        match hdr with
        | i0 :: i1 :: b0 :: b1 :: q0 :: q1 :: a0 :: a1 :: n0 :: n1 :: x0 :: x1 :: _ =>
          .ok (be16 i0 i1, be16 b0 b1, be16 q0 q1, be16 a0 a1, be16 n0 n1, be16 x0 x1, off + 12)
        | _ => .err) := by
  unfold Translated.header_unpack
  rw [goSem_sliceFrom]
  cases sliceFrom msg off with
  | err => rfl
  | panic => rfl
  | ok buf =>
    rcases buf with _|⟨i0,_|⟨i1,_|⟨b0,_|⟨b1,_|⟨q0,_|⟨q1,_|⟨a0,_|⟨a1,_|⟨n0,_|⟨n1,_|⟨x0,_|⟨x1,r⟩⟩⟩⟩⟩⟩⟩⟩⟩⟩⟩⟩
    all_goals simp [GoSem.slice, GoSem.beUint16, Translated.unpackUint16]

/-- `Msg.Unpack` starts with the translated `header.unpack` at offset 0 and feeds its six words on. -/
theorem unpackMsg_header_translated (msg : Bytes) :
    unpackMsg msg =
      (Translated.header_unpack msg 0 >>= fun r =>
        (unpackQuestions msg r.2.2.1 r.2.2.2.2.2.2 >>= fun (qs, off) =>
         unpackResources msg r.2.2.2.1 off >>= fun (an, off) =>
         unpackResources msg r.2.2.2.2.1 off >>= fun (ns, off) =>
         unpackResources msg r.2.2.2.2.2.1 off >>= fun (ar, _) =>
         (Res.ok ⟨headerOfBits r.1 r.2.1, qs, an, ns, ar⟩ : Res Msg))) := by
  rw [header_unpack_translated]
  unfold unpackMsg
  cases sliceFrom msg 0 with
  | err => rfl
  | panic => rfl
  | ok buf =>
    rcases buf with _|⟨i0,_|⟨i1,_|⟨b0,_|⟨b1,_|⟨q0,_|⟨q1,_|⟨a0,_|⟨a1,_|⟨n0,_|⟨n1,_|⟨x0,_|⟨x1,r⟩⟩⟩⟩⟩⟩⟩⟩⟩⟩⟩⟩
    all_goals rfl

end MosVerif.Wire
