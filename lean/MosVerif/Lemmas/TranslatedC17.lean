/-
  Tie by translation (C17): the integer / boolean tests of `tryTrimIpv6Brackets`, `getDialAddr`
  (internal/upstream/utils.go) and `makeTlsConfig` (app/router/tls.go), translated mechanically from the current Go
  source, equal the named tests `Addr.tryTrimIpv6Brackets?`, `Addr.getDialAddr` and `TlsCfg.makeTlsConfig` branch on.
-/
import MosVerif.Generated.Translated
import MosVerif.Model.Addr
import MosVerif.Model.TlsCfg
namespace MosVerif.Addr
open MosVerif

/-- equality of two Boolean tests built from `decide`s of linear (in)equalities, `&&`, `||`, `!`: robust against
    reordering and re-phrasing (`a < 5` / `a ≤ 4` / `5 > a`) of the translated side -/
macro "bool_arith" : tactic =>
  `(tactic| (rw [Bool.eq_iff_iff] <;>
      simp only [Bool.and_eq_true, Bool.or_eq_true, Bool.not_eq_true', Bool.not_eq_eq_eq_not, Bool.not_true,
        decide_eq_true_eq, decide_eq_false_iff_not] <;> omega))


/-- `len(s) < 2` -/
theorem trimLenCond_translated (n : Nat) : trimTooShort n = Translated.c17_trimLenCond n := by
  unfold trimTooShort Translated.c17_trimLenCond
  bool_arith

theorem char_toNat_eq (c d : Char) : c.toNat = d.toNat ↔ c = d := by
  constructor
  · intro h
    apply Char.ext
    exact UInt32.toNat_inj.mp h
  · intro h; rw [h]

/-- `s[0] == '[' && s[len(s)-1] == ']'`, on the octets Go reads, for every `s` that passed the length guard
    (`s[0]`, `s[len(s)-1]` are in range exactly then) -/
theorem trimBracketCond_translated (s : Str) (h : 2 ≤ s.length) :
    bracketed s = Translated.c17_trimBracketCond (s[0]'(by omega)).toNat (s[s.length - 1]'(by omega)).toNat := by
  unfold bracketed Translated.c17_trimBracketCond
  have h0 : s.head? = some (s[0]'(by omega)) := by
    cases s with
    | nil => simp at h
    | cons a t => rfl
  have h1 : s.getLast? = some (s[s.length - 1]'(by omega)) := by
    rw [List.getLast?_eq_getElem?]
    exact List.getElem?_eq_getElem (by omega)
  have e91 : (91 : Nat) = '['.toNat := rfl
  have e93 : (93 : Nat) = ']'.toNat := rfl
  rw [h0, h1, Bool.eq_iff_iff] <;>
    simp only [Option.some.injEq, Bool.and_eq_true, decide_eq_true_eq, e91, e93, char_toNat_eq] <;> grind

/-- `len(dialAddr) > 0` -/
theorem gdaDialCond_translated (n : Nat) : lenPositive n = Translated.c17_gdaDialCond n := by
  unfold lenPositive Translated.c17_gdaDialCond
  bool_arith

/-- `len(port) == 0`, both occurrences (`dial_addr` branch, URL branch) -/
theorem gdaPortCond1_translated (n : Nat) : lenZero n = Translated.c17_gdaPortCond1 n := by
  unfold lenZero Translated.c17_gdaPortCond1
  bool_arith

theorem gdaPortCond2_translated (n : Nat) : lenZero n = Translated.c17_gdaPortCond2 n := by
  unfold lenZero Translated.c17_gdaPortCond2
  bool_arith

/-! `makeTlsConfig` (the audit of `./check` resolves theorem names by the first namespace of a file: one namespace) -/
open TlsCfg

/-- `requireCert && (cfg.Cert == "" || cfg.Key == "") && !cfg.DebugUseTempCert` -/
theorem tlsRequireCond_translated (r c k t : Bool) : missingCert r c k t = Translated.c17_tlsRequireCond r c k t := by
  cases r <;> cases c <;> cases k <;> cases t <;> rfl

/-- `len(cfg.Key) > 0 && len(cfg.Cert) > 0` -/
theorem tlsKeyPairCond_translated (lk lc : Nat) :
    hasKeyPair (decide (lk > 0)) (decide (lc > 0)) = Translated.c17_tlsKeyPairCond lk lc := by
  unfold hasKeyPair Translated.c17_tlsKeyPairCond
  bool_arith

end MosVerif.Addr
