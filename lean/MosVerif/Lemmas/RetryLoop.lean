/-
  C14 — lemmas about the retry loops of `Model/Retry.lean`:
  the three loops as written are instances of the common shape `loop lim`, and the
  behaviour of `loop lim` is characterised for EVERY oracle:
    * all attempts but the last failed on a pooled connection, context live, within budget;
    * the outcome is decided by the last attempt;
    * at most `lim + 1` attempts.
-/
import MosVerif.Model.Retry
namespace MosVerif.Retry

theorem isStale_iff (a : Attempt) :
    isStale a = true ↔ a.get = .pooled ∧ a.res = none ∧ a.ctxDone = false := by
  cases a with
  | mk g r c => cases g <;> cases r <;> cases c <;> simp [isStale]

/-- the loop as written in `pipeline_transport.go` is `loop 5` -/
theorem pipelineLoop_eq (o : Oracle) (r : Nat) : pipelineLoop o r r = loop 5 o r := by
  fun_induction loop 5 o r <;> (rw [pipelineLoop]; simp_all) <;> omega

/-- the loop as written in `reuse_transport.go` (`retry <= 5`, the pool consulted only while
    `retry <= 5`) is `loop 6` over the attempts as they really happen -/
theorem reuseLoop_eq (o : Oracle) (r : Nat) : reuseLoop o r r = loop 6 (reuseEff o) r := by
  fun_induction loop 6 (reuseEff o) r <;> (rw [reuseLoop]; simp_all [reuseEff])
  case case4 r _ hlt _ _ _ ih =>
    have h5 : r ≤ 5 := by omega
    simp_all
  case case5 r _ hlt _ _ h =>
    have h5 : r ≤ 5 := by omega
    simp_all
  case case6 r _ hge _ _ => intro h; omega

/-- does the quic transport hold no connection when attempt `r` starts (the previous attempt
    ended with `forgetConn`)? -/
def quicForgot (o : Oracle) : Nat → Bool
  | 0 => false
  | r + 1 => (quicEff o r).connErr

theorem quicEff_eq (o : Oracle) (r : Nat) :
    quicEff o r = if quicForgot o r then forcedDial (o r) else o r := by
  cases r with
  | zero => simp [quicEff, quicForgot]
  | succ n => simp only [quicEff, quicForgot]; rfl

/-- the loop as written in `quic_transport.go` (with `forgetConn`) is `loop 5` over the attempts as
    they really happen -/
theorem quicLoop_eq (o : Oracle) (r : Nat) :
    quicLoop o r r (quicForgot o r) = loop 5 (quicEff o) r := by
  fun_induction loop 5 (quicEff o) r <;> (rw [quicLoop]; simp_all [← quicEff_eq])
  case case4 r _ _ _ _ _ ih => simpa [quicForgot] using ih
  case case6 r _ hge _ _ => intro h; omega

/-! ### DoH -/

/-- is the failed DoH attempt retried (budget permitting)? -/
def dohRetryable (a : Attempt) : Bool :=
  !a.ctxDone && !(!a.get.isErr && a.res.isSome) && !a.respErr && (a.get == .pooled || a.connErr)

def dohResult (a : Attempt) : Option Nat :=
  if !a.ctxDone && !a.get.isErr then a.res else none

theorem dohLoop_step (o : Oracle) (r i : Nat) :
    dohLoop o r i = if r < 3 ∧ dohRetryable (o i) = true then dohLoop o (r + 1) (i + 1) else ⟨dohResult (o i), i + 1⟩ := by
  rw [dohLoop]
  generalize o i = a
  cases a with
  | mk g x c f fd ce re =>
    by_cases h : r < 3 <;> cases g <;> cases x <;> cases c <;> cases ce <;> cases re <;>
      simp [dohRetryable, dohResult, Get.isErr, h]

theorem loop_dohView_step (o : Oracle) (r : Nat) :
    loop 3 (fun i => dohView (o i)) r =
      if r < 3 ∧ dohRetryable (o r) = true then loop 3 (fun i => dohView (o i)) (r + 1) else ⟨dohResult (o r), r + 1⟩ := by
  rw [loop]
  generalize o r = a
  cases a with
  | mk g x c f fd ce re =>
    by_cases h : r < 3 <;> cases g <;> cases x <;> cases c <;> cases ce <;> cases re <;>
      simp [dohRetryable, dohResult, dohView, Get.isErr, h]

theorem dohLoop_eq (o : Oracle) (r : Nat) : dohLoop o r r = loop 3 (fun i => dohView (o i)) r := by
  generalize hn : 3 - r = n
  induction n generalizing r with
  | zero =>
    rw [dohLoop_step, loop_dohView_step]
    have : ¬ r < 3 := by omega
    simp [this]
  | succ n ih =>
    rw [dohLoop_step, loop_dohView_step]
    split
    · exact ih (r + 1) (by omega)
    · rfl
/-- at least one attempt is made -/
theorem loop_n_gt (lim : Nat) (o : Oracle) (r : Nat) : r < (loop lim o r).n := by
  fun_induction loop lim o r <;> simp_all <;> omega

/-- at most `lim + 1` attempts -/
theorem loop_n_le (lim : Nat) (o : Oracle) (r : Nat) (h : r ≤ lim) : (loop lim o r).n ≤ lim + 1 := by
  fun_induction loop lim o r <;> simp_all <;> omega

/-- every attempt that is not the last one failed on a pooled connection while the context
    was live, and was within the retry budget -/
theorem loop_nonfinal (lim : Nat) (o : Oracle) (r i : Nat) (hr : r ≤ i)
    (hi : i + 1 < (loop lim o r).n) : isStale (o i) = true ∧ i < lim := by
  fun_induction loop lim o r
  all_goals first
    | (simp_all; omega)
    | skip
  rename_i r hres hlt hp hd hc ih
  by_cases h : i = r
  · subst h
    refine ⟨?_, hlt⟩
    rw [isStale_iff]
    generalize o i = a at *
    cases a with
    | mk g x c => cases g <;> simp_all
  · exact ih (by omega) hi

/-- the outcome is decided by the last attempt -/
theorem loop_final (lim : Nat) (o : Oracle) (r : Nat) :
    (loop lim o r).res =
      (if (o ((loop lim o r).n - 1)).get.isErr then none else (o ((loop lim o r).n - 1)).res) := by
  fun_induction loop lim o r <;> simp_all [Get.isErr]

/-- a stale attempt within the budget is followed by another attempt -/
theorem loop_stale_step (lim : Nat) (o : Oracle) (r : Nat) (hs : isStale (o r) = true) (hl : r < lim) :
    loop lim o r = loop lim o (r + 1) := by
  rw [isStale_iff] at hs
  obtain ⟨hg, hr, hc⟩ := hs
  rw [loop]
  simp [hg, hr, hc, hl]

/-- an attempt that is not stale, or is out of budget, is the last one -/
theorem loop_stop (lim : Nat) (o : Oracle) (r : Nat) (h : isStale (o r) = false ∨ lim ≤ r) :
    (loop lim o r).n = r + 1 := by
  rw [loop]
  generalize hq : o r = a at *
  cases a with
  | mk g x c =>
    cases g <;> cases x <;> cases c <;> simp_all [isStale]
    have hn : ¬ r < lim := by omega
    simp [hn]

/-- `k` stale attempts within the budget are all retried -/
theorem loop_skip_stale (lim : Nat) (o : Oracle) (r k : Nat) (hk : r + k ≤ lim)
    (hs : ∀ i, r ≤ i → i < r + k → isStale (o i) = true) : loop lim o r = loop lim o (r + k) := by
  induction k generalizing r with
  | zero => rfl
  | succ k ih =>
    rw [loop_stale_step lim o r (hs r (Nat.le_refl _) (by omega)) (by omega)]
    rw [ih (r + 1) (by omega) (fun i h1 h2 => hs i (by omega) (by omega))]
    congr 1
    omega

/-- the last attempt, if within the budget, is not a stale one -/
theorem loop_final_not_stale (lim : Nat) (o : Oracle) (r j : Nat) (hr : r ≤ j) (hj : j < lim)
    (hn : (loop lim o r).n = j + 1) : isStale (o j) = false := by
  cases hs : isStale (o j) with
  | false => rfl
  | true =>
    exfalso
    have h1 : loop lim o r = loop lim o (r + (j - r)) :=
      loop_skip_stale lim o r (j - r) (by omega)
        (fun i h1 h2 => (loop_nonfinal lim o r i h1 (by rw [hn]; omega)).1)
    have hj' : r + (j - r) = j := by omega
    rw [hj'] at h1
    have h2 := loop_stale_step lim o j hs hj
    have h3 := loop_n_gt lim o (j + 1)
    rw [h1, h2] at hn
    omega

/-- a healthy attempt ends the loop with its reply -/
theorem loop_healthy (lim : Nat) (o : Oracle) (r x : Nat) (hg : (o r).get.isErr = false)
    (hr : (o r).res = some x) : loop lim o r = ⟨some x, r + 1⟩ := by
  rw [loop]
  generalize o r = a at *
  cases a with
  | mk g y c => cases g <;> simp_all [Get.isErr]

/-! ### dials and exchanges -/

theorem dialsUpTo_stale (o : Oracle) (n : Nat) (h : ∀ i, i < n → isStale (o i) = true) :
    dialsUpTo o n = 0 := by
  induction n with
  | zero => rfl
  | succ n ih =>
    have h1 := (isStale_iff _).1 (h n (by omega))
    simp [dialsUpTo, ih (fun i hi => h i (by omega)), h1.1]

theorem dialsUpTo_succ_le (o : Oracle) (n : Nat) : dialsUpTo o (n + 1) ≤ dialsUpTo o n + 1 := by
  simp only [dialsUpTo]
  split <;> omega

theorem exchUpTo_le (o : Oracle) (n : Nat) : exchUpTo o n ≤ n := by
  induction n with
  | zero => simp [exchUpTo]
  | succ n ih => simp only [exchUpTo]; split <;> omega

/-- at most one dial in the attempts of `loop lim o 0` -/
theorem loop_dials_le_one (lim : Nat) (o : Oracle) : dialsUpTo o (loop lim o 0).n ≤ 1 := by
  have hgt := loop_n_gt lim o 0
  obtain ⟨m, hm⟩ : ∃ m, (loop lim o 0).n = m + 1 := ⟨(loop lim o 0).n - 1, by omega⟩
  rw [hm]
  have h0 : dialsUpTo o m = 0 :=
    dialsUpTo_stale o m (fun i hi => (loop_nonfinal lim o 0 i (Nat.zero_le _) (by omega)).1)
  have := dialsUpTo_succ_le o m
  omega

/-! ### the write lock -/

/-- only the holder of the lock is past the select, and the deadline in force while somebody is
    inside `Write` is that exchange's own -/
def WInv (ddl : Nat → Option Nat) (s : WState) : Prop :=
  (∀ x, (s.pc x = .locked ∨ s.pc x = .writing) → s.lock = some x) ∧
  (∀ x, s.pc x = .writing → s.sockDdl = ddl x)

theorem winit_inv (ddl : Nat → Option Nat) : WInv ddl winit := by
  constructor <;> intro x h <;> simp [winit] at h

theorem wstep_inv (ddl : Nat → Option Nat) (s : WState) (op : WOp) (h : WInv ddl s) :
    WInv ddl (wstep ddl s op) := by
  obtain ⟨h1, h2⟩ := h
  cases op with
  | giveUp x =>
    simp only [wstep]
    split
    · rename_i hx
      constructor
      · intro y hy
        by_cases hyx : y = x
        · subst hyx; simp [wupd] at hy
        · simp only [wupd, hyx, if_false] at hy; exact h1 y hy
      · intro y hy
        by_cases hyx : y = x
        · subst hyx; simp [wupd] at hy
        · simp only [wupd, hyx, if_false] at hy; exact h2 y hy
    · exact ⟨h1, h2⟩
  | step x =>
    simp only [wstep]
    split
    · -- idle → waiting
      constructor
      · intro y hy
        by_cases hyx : y = x
        · subst hyx; simp [wupd] at hy
        · simp only [wupd, hyx, if_false] at hy; exact h1 y hy
      · intro y hy
        by_cases hyx : y = x
        · subst hyx; simp [wupd] at hy
        · simp only [wupd, hyx, if_false] at hy; exact h2 y hy
    · -- waiting
      split
      · rename_i hl
        constructor
        · intro y hy
          by_cases hyx : y = x
          · subst hyx; rfl
          · simp only [wupd, hyx, if_false] at hy
            have := h1 y hy
            rw [hl] at this; cases this
        · intro y hy
          by_cases hyx : y = x
          · subst hyx; simp [wupd] at hy
          · simp only [wupd, hyx, if_false] at hy; exact h2 y hy
      · exact ⟨h1, h2⟩
    · -- locked → writing: SetWriteDeadline by the holder
      rename_i hx
      have hlx := h1 x (Or.inl hx)
      constructor
      · intro y hy
        by_cases hyx : y = x
        · subst hyx; exact hlx
        · simp only [wupd, hyx, if_false] at hy; exact h1 y hy
      · intro y hy
        by_cases hyx : y = x
        · subst hyx; rfl
        · simp only [wupd, hyx, if_false] at hy
          have := h1 y (Or.inr hy)
          rw [hlx] at this
          exact absurd (Option.some.inj this).symm hyx
    · -- writing → done: release
      rename_i hx
      have hlx := h1 x (Or.inr hx)
      constructor
      · intro y hy
        by_cases hyx : y = x
        · subst hyx; simp [wupd] at hy
        · simp only [wupd, hyx, if_false] at hy
          have := h1 y hy
          rw [hlx] at this
          exact absurd (Option.some.inj this).symm hyx
      · intro y hy
        by_cases hyx : y = x
        · subst hyx; simp [wupd] at hy
        · simp only [wupd, hyx, if_false] at hy; exact h2 y hy
    · exact ⟨h1, h2⟩

theorem wrun_inv (ddl : Nat → Option Nat) (s : WState) (ops : List WOp) (h : WInv ddl s) :
    WInv ddl (wrun ddl s ops) := by
  induction ops generalizing s with
  | nil => exact h
  | cons op t ih => exact ih _ (wstep_inv ddl s op h)

/-! ### the pipelined connection -/

/-- `closed`, the connection context and the socket change together -/
def PConn.inv (c : PConn) : Prop := c.ctxDone = c.closed ∧ c.sockClosed = c.closed

theorem closeWithErr_inv (c : PConn) (h : c.inv) : c.closeWithErr.inv := by
  unfold PConn.closeWithErr PConn.inv at *
  split <;> simp_all

theorem step_inv (c : PConn) (op : ConnOp) (h : c.inv) : (c.step op).inv := by
  cases op <;> first | exact closeWithErr_inv c h | exact h

theorem run_inv (c : PConn) (ops : List ConnOp) (h : c.inv) : (c.run ops).inv := by
  induction ops generalizing c with
  | nil => exact h
  | cons op t ih => exact ih _ (step_inv c op h)

theorem closeWithErr_closed (c : PConn) : c.closeWithErr.closed = true := by
  unfold PConn.closeWithErr
  split <;> simp_all

theorem closeWithErr_waiters (c : PConn) : c.closeWithErr.waiters = c.waiters := by
  unfold PConn.closeWithErr
  split <;> rfl

theorem step_closed_mono (c : PConn) (op : ConnOp) (h : c.closed = true) : (c.step op).closed = true := by
  cases op <;> first | exact closeWithErr_closed c | exact h

theorem run_closed_mono (c : PConn) (ops : List ConnOp) (h : c.closed = true) :
    (c.run ops).closed = true := by
  induction ops generalizing c with
  | nil => exact h
  | cons op t ih => exact ih _ (step_closed_mono c op h)

theorem run_append (c : PConn) (a b : List ConnOp) : c.run (a ++ b) = (c.run a).run b := by
  induction a generalizing c with
  | nil => rfl
  | cons op t ih => exact ih _

end MosVerif.Retry
