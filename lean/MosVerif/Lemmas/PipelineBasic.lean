/-
  C05 — basic facts about the waiter table, the history functions and the
  connection-level operations of Model/Pipeline.lean.
-/
import MosVerif.Model.Pipeline
namespace MosVerif.Pipeline

/-! ### the waiter table (a Go map) -/

@[simp] theorem qget_nil (q : Nat) : qget q [] = none := rfl

theorem qget_qdel_same (q : Nat) (l : Queue) : qget q (qdel q l) = none := by
  induction l with
  | nil => rfl
  | cons x t ih =>
    obtain ⟨a, ch⟩ := x
    by_cases h : a = q <;> simp [qdel, qget, h, ih]

theorem qget_qdel_other {a q : Nat} (h : a ≠ q) (l : Queue) : qget a (qdel q l) = qget a l := by
  induction l with
  | nil => rfl
  | cons x t ih =>
    obtain ⟨b, ch⟩ := x
    by_cases hb : b = q
    · have : b ≠ a := fun e => h (e ▸ hb)
      simp [qdel, qget, hb, ih]
      intro e; exact absurd e.symm h
    · by_cases hba : b = a
      · subst hba; simp [qdel, qget, hb]
      · simp [qdel, qget, hb, hba, ih]

theorem qget_qdel (a q : Nat) (l : Queue) : qget a (qdel q l) = if a = q then none else qget a l := by
  by_cases h : a = q
  · subst h; simp [qget_qdel_same]
  · simp [h, qget_qdel_other h]

theorem qget_qput (a q ch : Nat) (l : Queue) : qget a (qput q ch l) = if a = q then some ch else qget a l := by
  by_cases h : a = q
  · subst h; simp [qput, qget]
  · have h' : q ≠ a := fun e => h e.symm
    simp [qput, qget, h, h', qget_qdel_other h]

/-! ### history functions -/

theorem curAssign_cons (e : Nat) (ev : Ev) (h : List Ev) :
    curAssign e (ev :: h) = match ev with
      | .assign e' c id => if e' = e then some (c, id) else curAssign e h
      | _ => curAssign e h := by
  cases ev <;> rfl

theorem curAssign_cons_of_not_assign (e : Nat) (ev : Ev) (h : List Ev)
    (hne : ∀ c id, ev ≠ .assign e c id) : curAssign e (ev :: h) = curAssign e h := by
  cases ev with
  | assign e' c id =>
    have : e' ≠ e := fun he => hne c id (by rw [he])
    simp [curAssign, this]
  | _ => rfl

theorem replySince_cons_of_not_assign (e c q p : Nat) (ev : Ev) (h : List Ev)
    (hne : ∀ c id, ev ≠ .assign e c id) (hr : replySince e c q p h = true) :
    replySince e c q p (ev :: h) = true := by
  cases ev with
  | assign e' c' id' =>
    have : e' ≠ e := fun he => hne c' id' (by rw [he])
    simp [replySince, this, hr]
  | reply c' id' p' => simp [replySince, hr]
  | query _ _ _ => simpa [replySince] using hr
  | ret _ _ => simpa [replySince] using hr

theorem replySince_reply (e c q p : Nat) (h : List Ev) : replySince e c q p (.reply c q p :: h) = true := by
  simp [replySince]

theorem returned_cons (e : Nat) (ev : Ev) (h : List Ev) :
    returned e (ev :: h) = (isRetOf e ev || returned e h) := by
  simp [returned, List.any_cons]

theorem returned_cons_of_not_ret (e : Nat) (ev : Ev) (h : List Ev) (hne : ∀ r, ev ≠ .ret e r) :
    returned e (ev :: h) = returned e h := by
  rw [returned_cons]
  cases ev with
  | ret e' r =>
    have : e' ≠ e := fun he => hne r (by rw [he])
    simp [isRetOf, this]
  | _ => simp [isRetOf]

theorem returned_eq_true_iff (e : Nat) (h : List Ev) : returned e h = true ↔ ∃ r, .ret e r ∈ h := by
  induction h with
  | nil => simp [returned]
  | cons ev t ih =>
    rw [returned_cons, Bool.or_eq_true, ih]
    constructor
    · rintro (h1 | ⟨r, hr⟩)
      · cases ev with
        | ret e' r => simp [isRetOf] at h1; subst h1; exact ⟨r, List.mem_cons_self⟩
        | _ => simp [isRetOf] at h1
      · exact ⟨r, List.mem_cons_of_mem _ hr⟩
    · rintro ⟨r, hr⟩
      rcases List.mem_cons.mp hr with h1 | h1
      · left; subst h1; simp [isRetOf]
      · right; exact ⟨r, h1⟩

theorem idUsed_eq_true_iff (c id : Nat) (h : List Ev) : idUsed c id h = true ↔ ∃ e, .assign e c id ∈ h := by
  induction h with
  | nil => simp [idUsed]
  | cons ev t ih =>
    have hc : idUsed c id (ev :: t) = (isAssignOf c id ev || idUsed c id t) := by
      simp [idUsed, List.any_cons]
    rw [hc, Bool.or_eq_true, ih]
    constructor
    · rintro (h1 | ⟨e, he⟩)
      · cases ev with
        | assign e' c' id' =>
          simp [isAssignOf] at h1; obtain ⟨h1, h2⟩ := h1; subst h1; subst h2; exact ⟨e', List.mem_cons_self⟩
        | _ => simp [isAssignOf] at h1
      · exact ⟨e, List.mem_cons_of_mem _ he⟩
    · rintro ⟨e, he⟩
      rcases List.mem_cons.mp he with h1 | h1
      · left; subst h1; simp [isAssignOf]
      · right; exact ⟨e, h1⟩

/-! ### connection level -/

theorem reserve_nextQid (c : Conn) : c.reserve.nextQid = c.nextQid := by
  unfold Conn.reserve; split <;> rfl
theorem reserve_queue (c : Conn) : c.reserve.queue = c.queue := by
  unfold Conn.reserve; split <;> rfl
theorem reserve_closed (c : Conn) : c.reserve.closed = c.closed := by
  unfold Conn.reserve; split <;> rfl

theorem addQueueC_none {c c' : Conn} {ch : Nat} (h : c.addQueueC ch = (c', none)) :
    c.nextQid > 65535 ∧ c'.nextQid = c.nextQid ∧ c'.queue = c.queue ∧ c'.closed = c.closed := by
  unfold Conn.addQueueC at h
  by_cases hr : c.reserved > 0 <;> by_cases hq : c.nextQid > 65535 <;> simp [hr, hq] at h
  · subst h; exact ⟨hq, rfl, rfl, rfl⟩
  · subst h; exact ⟨hq, rfl, rfl, rfl⟩

theorem addQueueC_some {c c' : Conn} {ch q : Nat} (h : c.addQueueC ch = (c', some q)) :
    c.nextQid ≤ 65535 ∧ q = c.nextQid ∧ c'.nextQid = c.nextQid + 1 ∧
      c'.queue = qput q ch c.queue ∧ c'.closed = c.closed := by
  unfold Conn.addQueueC at h
  by_cases hr : c.reserved > 0 <;> by_cases hq : c.nextQid > 65535 <;> simp [hr, hq] at h
  · obtain ⟨h1, h2⟩ := h
    have hm : c.nextQid % 65536 = c.nextQid := Nat.mod_eq_of_lt (by omega)
    subst h1; subst h2
    exact ⟨by omega, hm, rfl, by simp [hm], rfl⟩
  · obtain ⟨h1, h2⟩ := h
    have hm : c.nextQid % 65536 = c.nextQid := Nat.mod_eq_of_lt (by omega)
    subst h1; subst h2
    exact ⟨by omega, hm, rfl, by simp [hm], rfl⟩

theorem deleteQueueC_nextQid (c : Conn) (q : Nat) : (c.deleteQueueC q).nextQid = c.nextQid := rfl
theorem deleteQueueC_queue (c : Conn) (q : Nat) : (c.deleteQueueC q).queue = qdel q c.queue := rfl

end MosVerif.Pipeline
