/-
  C17 — lemmas about the byte-string primitives and `net.SplitHostPort` on the
  supported address forms.
-/
import MosVerif.Model.Addr
namespace MosVerif.Addr

/-! ### indexOf / lastIndexOf -/

theorem indexOf_none {c : Char} {s : Str} (h : c ∉ s) : indexOf c s = none := by
  induction s with
  | nil => rfl
  | cons x xs ih =>
    simp only [List.mem_cons, not_or] at h
    have hx : ¬ x = c := fun e => h.1 e.symm
    simp [indexOf, hx, ih h.2]

theorem indexOf_append {c : Char} {a : Str} (b : Str) (h : c ∉ a) :
    indexOf c (a ++ c :: b) = some a.length := by
  induction a with
  | nil => simp [indexOf]
  | cons x xs ih =>
    simp only [List.mem_cons, not_or] at h
    have hx : ¬ x = c := fun e => h.1 e.symm
    simp [indexOf, hx, ih h.2]

theorem lastIndexOf_none {c : Char} {s : Str} (h : c ∉ s) : lastIndexOf c s = none := by
  induction s with
  | nil => rfl
  | cons x xs ih =>
    simp only [List.mem_cons, not_or] at h
    have hx : ¬ x = c := fun e => h.1 e.symm
    simp [lastIndexOf, hx, ih h.2]

theorem lastIndexOf_append {c : Char} (a : Str) {b : Str} (h : c ∉ b) :
    lastIndexOf c (a ++ c :: b) = some a.length := by
  induction a with
  | nil => simp [lastIndexOf, lastIndexOf_none h]
  | cons x xs ih => simp [lastIndexOf, ih]

/-- split at the last occurrence -/
theorem exists_last_split {c : Char} {s : Str} (h : c ∈ s) :
    ∃ a b, s = a ++ c :: b ∧ c ∉ b := by
  induction s with
  | nil => simp at h
  | cons x xs ih =>
    by_cases hm : c ∈ xs
    · obtain ⟨a, b, e, nb⟩ := ih hm
      exact ⟨x :: a, b, by simp [e], nb⟩
    · have hx : c = x := by
        rcases List.mem_cons.mp h with e | e
        · exact e
        · exact absurd e hm
      exact ⟨[], xs, by simp [hx], hm⟩

/-! ### the address forms -/

theorem plainChar_ne {c : Char} (h : plainChar c = true) :
    c ≠ ':' ∧ c ≠ '[' ∧ c ≠ ']' ∧ c ≠ '/' ∧ c ≠ '@' := by
  simpa [plainChar, and_assoc] using h

theorem v6Char_ne {c : Char} (h : v6Char c = true) :
    c ≠ '[' ∧ c ≠ ']' ∧ c ≠ '/' ∧ c ≠ '@' := by
  simpa [v6Char, and_assoc] using h

structure PlainFacts (h : Str) : Prop where
  ne : h ≠ []
  colon : ':' ∉ h
  lb : '[' ∉ h
  rb : ']' ∉ h
  slash : '/' ∉ h
  at_ : '@' ∉ h

theorem all_plain_facts {h : Str} (hp : h.all plainChar = true) :
    ':' ∉ h ∧ '[' ∉ h ∧ ']' ∉ h ∧ '/' ∉ h ∧ '@' ∉ h := by
  rw [List.all_eq_true] at hp
  refine ⟨?_, ?_, ?_, ?_, ?_⟩ <;> intro hm <;> have := plainChar_ne (hp _ hm) <;> simp at this

theorem plainHost_facts {h : Str} (hp : isPlainHost h = true) : PlainFacts h := by
  simp only [isPlainHost, Bool.and_eq_true, Bool.not_eq_true', List.isEmpty_eq_false_iff] at hp
  obtain ⟨a, b, c, d, e⟩ := all_plain_facts hp.2
  exact ⟨hp.1, a, b, c, d, e⟩

theorem port_facts {p : Str} (hp : isPort p = true) : PlainFacts p := by
  simp only [isPort, Bool.and_eq_true, Bool.not_eq_true', List.isEmpty_eq_false_iff] at hp
  obtain ⟨a, b, c, d, e⟩ := all_plain_facts hp.2
  exact ⟨hp.1, a, b, c, d, e⟩

structure V6Facts (x : Str) : Prop where
  two : 2 ≤ x.count ':'
  lb : '[' ∉ x
  rb : ']' ∉ x
  slash : '/' ∉ x
  at_ : '@' ∉ x

theorem v6_facts {x : Str} (hx : isV6Body x = true) : V6Facts x := by
  simp only [isV6Body, Bool.and_eq_true, decide_eq_true_eq] at hx
  have ha := hx.1
  rw [List.all_eq_true] at ha
  refine ⟨hx.2, ?_, ?_, ?_, ?_⟩ <;> intro hm <;> have := v6Char_ne (ha _ hm) <;> simp at this

theorem V6Facts.colon {x : Str} (h : V6Facts x) : ':' ∈ x := by
  have := h.two
  exact List.count_pos_iff.mp (by omega)

theorem V6Facts.ne {x : Str} (h : V6Facts x) : x ≠ [] := by
  intro e; have := h.colon; simp [e] at this

theorem head?_ne_of_not_mem {c : Char} {s : Str} (h : c ∉ s) : s.head? ≠ some c := by
  cases s with
  | nil => simp
  | cons x xs =>
    simp only [List.mem_cons, not_or] at h
    simp only [List.head?_cons, ne_eq, Option.some.injEq]
    exact fun e => h.1 e.symm

/-! ### net.SplitHostPort on the forms -/

/-- no colon at all: "missing port in address" -/
theorem splitHostPort_noColon {s : Str} (h : ':' ∉ s) : splitHostPort s = .error .missingPort := by
  simp [splitHostPort, lastIndexOf_none h]

/-- `host:port` with a bracket-free, colon-free host -/
theorem splitHostPort_plain {h p : Str} (hh : PlainFacts h) (hp : PlainFacts p) :
    splitHostPort (h ++ ':' :: p) = .ok (h, p) := by
  have hd : (h ++ ':' :: p).head? ≠ some '[' := by
    apply head?_ne_of_not_mem
    simp [hh.lb, hp.lb]
  have m1 : '[' ∉ h ++ ':' :: p := by simp [hh.lb, hp.lb]
  have m2 : ']' ∉ h ++ ':' :: p := by simp [hh.rb, hp.rb]
  simp only [splitHostPort, lastIndexOf_append h hp.colon, hd, if_false, List.take_left',
    hh.colon, m1, m2]
  simp

/-- a bare (unbracketed) IPv6 literal: "too many colons in address" -/
theorem splitHostPort_v6bare {x : Str} (hx : V6Facts x) :
    splitHostPort x = .error .tooManyColons := by
  obtain ⟨a, b, e, nb⟩ := exists_last_split hx.colon
  have hd : x.head? ≠ some '[' := head?_ne_of_not_mem hx.lb
  have ca : ':' ∈ a := by
    have h2 := hx.two
    rw [e, List.count_append, List.count_cons_self, List.count_eq_zero_of_not_mem nb] at h2
    exact List.count_pos_iff.mp (by omega)
  subst e
  simp only [splitHostPort, lastIndexOf_append a nb, hd, if_false, List.take_left', ca, if_true]

/-- `[x]:port` -/
theorem splitHostPort_v6port {x p : Str} (hx : V6Facts x) (hp : PlainFacts p) :
    splitHostPort ('[' :: x ++ ']' :: ':' :: p) = .ok (x, p) := by
  have e1 : '[' :: x ++ ']' :: ':' :: p = ('[' :: x ++ [']']) ++ ':' :: p := by simp
  have li : lastIndexOf ':' ('[' :: x ++ ']' :: ':' :: p) = some (x.length + 2) := by
    rw [e1, lastIndexOf_append _ hp.colon]; simp
  have e2 : '[' :: x ++ ']' :: ':' :: p = ('[' :: x) ++ ']' :: (':' :: p) := by simp
  have ii : indexOf ']' ('[' :: x ++ ']' :: ':' :: p) = some (x.length + 1) := by
    rw [e2, indexOf_append]
    · simp
    · simp [hx.rb]
  have m1 : '[' ∉ x ++ ']' :: ':' :: p := by simp [hx.lb, hp.lb]
  have m2 : ']' ∉ p := hp.rb
  simp only [splitHostPort, li, ii]
  simp [m1, m2]

end MosVerif.Addr
