/-
  Tie by translation (C02/C09): `Name.pack` (internal/dnsmsg/name.go) with its compression map.
  The Go function is translated into `Translated.Name_pack_step` (ONE iteration of the scanning loop over the state
  (scanner.off, scanner.err, scanner.label, scanner.labelOff, msg, off): table lookup of the remaining suffix, pointer
  on a hit, label octets on a miss) and `Translated.Name_pack_loop2_step` (ONE iteration of the insertion loop:
  the 14-bit bound, `compression[suffix] = uint16(newPtr)`), both over `Translated.NameScanner_Scan`.
  `Name_pack_translated`: the model's `packName`, written into the buffer (`packNameBuf`), IS that function — for all
  names (valid or not), buffers, offsets and tables.
-/
import MosVerif.Lemmas.TranslatedEncRR
namespace MosVerif.Wire
open MosVerif

/-! ### the scanner -/

theorem index_mid (pre : Bytes) (l : UInt8) (r : Bytes) : GoSem.index (pre ++ l :: r) pre.length = .ok l.toNat := by
  unfold GoSem.index
  simp

theorem slice_mid (pre : Bytes) (l : UInt8) (r : Bytes) (k : Nat) (hk : k ≤ r.length) :
    GoSem.slice (pre ++ l :: r) (pre.length + 1) (pre.length + 1 + k) = .ok (r.take k) := by
  unfold GoSem.slice
  have h1 : pre.length + 1 ≤ pre.length + 1 + k ∧ pre.length + 1 + k ≤ (pre ++ l :: r).length := by
    simp; omega
  have e : pre ++ l :: r = (pre ++ [l]) ++ r := by simp
  have e2 : pre.length + 1 = (pre ++ [l]).length := by simp
  rw [if_pos h1, e, e2, List.take_length_add_append, List.drop_left]

/-- `Scan` at the end of the name: no label, no error -/
theorem scan_end (n : Bytes) (err : Bool) (lo : Nat) (hn : n.length ≤ 254) :
    Translated.NameScanner_Scan n n.length err lo = .ok (n.length, err, [], lo, false) := by
  unfold Translated.NameScanner_Scan
  have h1 : ¬ n.length > 254 := by omega
  have h2 : ((n.length : Nat) : Int) > ((n.length : Nat) : Int) - ((1 : Nat) : Int) := by omega
  simp only [GoSem.len, h1, decide_false, Bool.false_eq_true, if_false, h2, decide_true, if_true, Res.pure_eq]

/-- `Scan` of a name longer than 254 octets: `errNameTooLong` -/
theorem scan_long (n : Bytes) (off : Nat) (err : Bool) (lo : Nat) (hn : n.length > 254) :
    Translated.NameScanner_Scan n off err lo = .ok (off, true, [], lo, false) := by
  unfold Translated.NameScanner_Scan
  simp only [GoSem.len, hn, decide_true, if_true, Res.pure_eq]

/-- `Scan` at a label whose length octet is 0, above 63 or runs past the end: error -/
theorem scan_bad (pre : Bytes) (l : UInt8) (r : Bytes) (err : Bool) (lo : Nat) (hn : (pre ++ l :: r).length ≤ 254)
    (hb : l.toNat = 0 ∨ l.toNat > 63 ∨ r.length < l.toNat) :
    Translated.NameScanner_Scan (pre ++ l :: r) pre.length err lo = .ok (pre.length, true, [], lo, false) := by
  unfold Translated.NameScanner_Scan
  have h1 : ¬ (pre ++ l :: r).length > 254 := by omega
  have h2 : ¬ ((pre.length : Nat) : Int) > (((pre ++ l :: r).length : Nat) : Int) - ((1 : Nat) : Int) := by
    simp; omega
  simp only [GoSem.len, h1, decide_false, Bool.false_eq_true, if_false, h2, index_mid, Res.bind_ok', Res.pure_eq]
  by_cases h0 : l.toNat = 0
  · simp [h0]
  · by_cases h63 : l.toNat > 63
    · simp [h0, h63]
    · have h3 : pre.length + 1 + l.toNat > (pre ++ l :: r).length := by simp; omega
      simp only [h0, h63, h3, decide_false, decide_true, Bool.false_eq_true, if_false, if_true]

/-- `Scan` at a good label: the label, its offset, the scanner behind it -/
theorem scan_ok (pre : Bytes) (l : UInt8) (r : Bytes) (err : Bool) (lo : Nat) (hn : (pre ++ l :: r).length ≤ 254)
    (hb : ¬ (l.toNat = 0 ∨ l.toNat > 63 ∨ r.length < l.toNat)) :
    Translated.NameScanner_Scan (pre ++ l :: r) pre.length err lo =
      .ok (pre.length + 1 + l.toNat, err, r.take l.toNat, pre.length + 1, true) := by
  unfold Translated.NameScanner_Scan
  have h1 : ¬ (pre ++ l :: r).length > 254 := by omega
  have h2 : ¬ ((pre.length : Nat) : Int) > (((pre ++ l :: r).length : Nat) : Int) - ((1 : Nat) : Int) := by
    simp; omega
  have h0 : ¬ l.toNat = 0 := by omega
  have h63 : ¬ l.toNat > 63 := by omega
  have h3 : ¬ pre.length + 1 + l.toNat > (pre ++ l :: r).length := by simp; omega
  have hk : l.toNat ≤ r.length := by omega
  simp only [GoSem.len, h1, decide_false, Bool.false_eq_true, if_false, h2, index_mid, Res.bind_ok', Res.pure_eq, h0,
    h63, h3, slice_mid pre l r l.toNat hk]

/-! ### the model's loops -/

theorem Table_find_eq (t : Table) (k : Bytes) : Table.find t k = GoSem.Map.find t k := by
  induction t with
  | nil => rfl
  | cons a t ih =>
    obtain ⟨k', v⟩ := a
    simp only [Table.find, GoSem.Map.find, ih]

/-- the accumulator of `packNameLoop` is a prefix of its result -/
theorem pnl_acc : ∀ (fuel : Nat) (tbl : Option Table) (rest acc : Bytes),
    packNameLoop fuel tbl rest acc =
      (match packNameLoop fuel tbl rest [] with
       | .ok (bs, h) => .ok (acc ++ bs, h)
       | .err => .err
       | .panic => .panic) := by
  intro fuel
  induction fuel with
  | zero => intro tbl rest acc; cases rest <;> simp [packNameLoop]
  | succ f ih =>
    intro tbl rest acc
    cases rest with
    | nil => simp [packNameLoop]
    | cons l r =>
      simp only [packNameLoop]
      by_cases hb : l.toNat = 0 ∨ l.toNat > 63 ∨ r.length < l.toNat
      · simp only [hb, if_true]
      · simp only [hb, if_false]
        cases hf : tbl.bind (·.find (l :: r)) with
        | some ptr => simp
        | none =>
          simp only
          rw [ih tbl _ (acc ++ [l] ++ r.take l.toNat), ih tbl _ ([] ++ [l] ++ r.take l.toNat)]
          cases packNameLoop f tbl (r.drop l.toNat) [] with
          | ok x => obtain ⟨bs, h⟩ := x; simp
          | err => rfl
          | panic => rfl

theorem pnl_ne_panic : ∀ (fuel : Nat) (tbl : Option Table) (rest acc : Bytes),
    packNameLoop fuel tbl rest acc ≠ .panic := by
  intro fuel
  induction fuel with
  | zero => intro tbl rest acc; cases rest <;> simp [packNameLoop]
  | succ f ih =>
    intro tbl rest acc
    cases rest with
    | nil => simp [packNameLoop]
    | cons l r =>
      simp only [packNameLoop]
      by_cases hb : l.toNat = 0 ∨ l.toNat > 63 ∨ r.length < l.toNat
      · simp [hb]
      · simp only [hb, if_false]
        cases hf : tbl.bind (·.find (l :: r)) with
        | some ptr => simp
        | none => exact ih _ _ _

/-- the labels are walked without a scanner error (what `packNameLoop` established when it ended without a hit) -/
def ValidL : Nat → Bytes → Prop
  | _, [] => True
  | 0, _ :: _ => False
  | f + 1, l :: r => ¬ (l.toNat = 0 ∨ l.toNat > 63 ∨ r.length < l.toNat) ∧ ValidL f (r.drop l.toNat)

/-- without a hit the loop wrote the name itself, and the name is walkable -/
theorem pnl_nohit : ∀ (fuel : Nat) (tbl : Option Table) (rest bs : Bytes),
    packNameLoop fuel tbl rest [] = .ok (bs, false) → bs = rest ∧ ValidL fuel rest := by
  intro fuel
  induction fuel with
  | zero =>
    intro tbl rest bs h
    cases rest with
    | nil => simp [packNameLoop] at h; exact ⟨h, trivial⟩
    | cons l r => simp [packNameLoop] at h
  | succ f ih =>
    intro tbl rest bs h
    cases rest with
    | nil => simp [packNameLoop] at h; exact ⟨h, trivial⟩
    | cons l r =>
      simp only [packNameLoop] at h
      by_cases hb : l.toNat = 0 ∨ l.toNat > 63 ∨ r.length < l.toNat
      · simp [hb] at h
      · simp only [hb, if_false] at h
        cases hf : tbl.bind (·.find (l :: r)) with
        | some ptr => rw [hf] at h; simp at h
        | none =>
          rw [hf] at h
          simp only at h
          rw [pnl_acc] at h
          cases hp : packNameLoop f tbl (r.drop l.toNat) [] with
          | ok x =>
            obtain ⟨bs', hit⟩ := x
            rw [hp] at h
            simp only [Res.ok.injEq, Prod.mk.injEq] at h
            obtain ⟨h1, h2⟩ := h
            subst h2
            obtain ⟨e, v⟩ := ih tbl _ _ hp
            subst e
            refine ⟨?_, hb, v⟩
            rw [← h1]
            simp
          | err => rw [hp] at h; simp at h
          | panic => rw [hp] at h; simp at h

/-! ### the insertion loop -/

theorem ptrBound_eq : ((((65535 - (0 % 65536)) >>> 2 : Nat)) : Int) = 16383 := by decide

/-- ONE iteration of the insertion loop at the end of the name: the loop is left -/
theorem loop2_step_end (n : Bytes) (ns : Int) (hn : n.length ≤ 254) (lbl : Bytes) (lo : Nat) (c : GoSem.Map) :
    Translated.Name_pack_loop2_step ns n n (n.length, false, lbl, lo, c) = .ok (.inr (n.length, false, [], lo, c)) := by
  unfold Translated.Name_pack_loop2_step
  simp only [scan_end n false lo hn, Res.bind_ok', Res.pure_eq, Bool.not_false, if_true]

/-- ONE iteration of the insertion loop at a good label: the suffix that starts there is registered iff its offset
    fits 14 bits -/
theorem loop2_step_ok (pre : Bytes) (l : UInt8) (r : Bytes) (off0 : Nat) (hn : (pre ++ l :: r).length ≤ 254)
    (hb : ¬ (l.toNat = 0 ∨ l.toNat > 63 ∨ r.length < l.toNat)) (lbl : Bytes) (lo : Nat) (t : Table) :
    Translated.Name_pack_loop2_step ((off0 : Nat) : Int) (pre ++ l :: r) (pre ++ l :: r) (pre.length, false, lbl, lo, some t) =
      .ok (.inl (pre.length + 1 + l.toNat, false, r.take l.toNat, pre.length + 1,
        some (if off0 + pre.length ≤ ptrLimit then (l :: r, off0 + pre.length) :: t else t))) := by
  unfold Translated.Name_pack_loop2_step
  simp only [scan_ok pre l r false lo hn hb, Res.bind_ok', Res.pure_eq, Bool.not_true, Bool.false_eq_true,
    if_false, Translated.NameScanner_LabelOff, ptrBound_eq]
  by_cases hp : off0 + pre.length ≤ ptrLimit
  · have hc : ((off0 : Nat) : Int) + ((((pre.length + 1 : Nat)) : Int) - ((1 : Nat) : Int)) ≤ 16383 := by
      unfold ptrLimit at hp; omega
    have hnat : GoSem.natOfInt ((((pre.length + 1 : Nat)) : Int) - ((1 : Nat) : Int)) = .ok pre.length := by
      unfold GoSem.natOfInt
      have : (0 : Int) ≤ (((pre.length + 1 : Nat)) : Int) - ((1 : Nat) : Int) := by omega
      simp only [this, if_true]
      congr 1; omega
    have hsl : GoSem.sliceFrom (pre ++ l :: r) pre.length = .ok (l :: r) := by
      unfold GoSem.sliceFrom; simp
    have hval : Int.toNat ((((off0 : Nat) : Int) + ((((pre.length + 1 : Nat)) : Int) - ((1 : Nat) : Int))) % 65536)
        = off0 + pre.length := by
      unfold ptrLimit at hp; omega
    simp only [hc, decide_true, if_true, hnat, Res.bind_ok', hsl, GoSem.Map.insert, hval, hp]
  · have hc : ¬ ((off0 : Nat) : Int) + ((((pre.length + 1 : Nat)) : Int) - ((1 : Nat) : Int)) ≤ 16383 := by
      unfold ptrLimit at hp; omega
    simp only [hc, decide_false, Bool.false_eq_true, if_false, hp]

/-- the insertion loop of `Name.pack`, started behind `pre` with the table `t`, registers exactly the suffixes the
    model registers (`registerSuffixes`), with the same 14-bit bound and the same offsets -/
theorem loop2_spec (n : Bytes) (off0 : Nat) (hn : n.length ≤ 254) :
    ∀ (fuel : Nat) (pre rest : Bytes) (t : Table) (lbl : Bytes) (lo : Nat), n = pre ++ rest → ValidL fuel rest →
      ∃ a b c d, GoSem.loop (Translated.Name_pack_loop2_step ((off0 : Nat) : Int) n n) (pre.length, false, lbl, lo, some t) =
        .ok (a, b, c, d, some (registerSuffixes fuel t (off0 + pre.length) rest)) := by
  intro fuel
  induction fuel with
  | zero =>
    intro pre rest t lbl lo hnr hv
    cases rest with
    | cons l r => exact absurd hv (by simp [ValidL])
    | nil =>
      simp only [List.append_nil] at hnr
      subst hnr
      rw [GoSem.loop_unfold, loop2_step_end n _ hn]
      exact ⟨_, _, _, _, rfl⟩
  | succ f ih =>
    intro pre rest t lbl lo hnr hv
    cases rest with
    | nil =>
      simp only [List.append_nil] at hnr
      subst hnr
      rw [GoSem.loop_unfold, loop2_step_end n _ hn]
      exact ⟨_, _, _, _, rfl⟩
    | cons l r =>
      obtain ⟨hb, hv'⟩ := hv
      subst hnr
      have hk : l.toNat ≤ r.length := by omega
      rw [GoSem.loop_unfold, loop2_step_ok pre l r off0 hn hb]
      have hpre' : (pre ++ l :: r.take l.toNat).length = pre.length + 1 + l.toNat := by
        simp [List.length_take, Nat.min_eq_left hk]; omega
      have hsplit : pre ++ l :: r = (pre ++ l :: r.take l.toNat) ++ r.drop l.toNat := by simp
      obtain ⟨a, b, c, d, h⟩ := ih (pre ++ l :: r.take l.toNat) (r.drop l.toNat)
        (if off0 + pre.length ≤ ptrLimit then (l :: r, off0 + pre.length) :: t else t)
        (r.take l.toNat) (pre.length + 1) hsplit hv'
      rw [hpre'] at h
      refine ⟨a, b, c, d, ?_⟩
      simp only
      rw [h]
      simp only [registerSuffixes]
      have e : off0 + (pre.length + 1 + l.toNat) = off0 + pre.length + 1 + l.toNat := by omega
      rw [e]

/-! ### the scanning loop -/

theorem ptr_hi (ptr : Nat) : ((ptr >>> 8) ||| 192) % 256 = Nat.lor (ptr / 256 % 256) 192 := by
  have h : (256 : Nat) = 2 ^ 8 := rfl
  rw [Nat.shiftRight_eq_div_pow, h, Nat.or_mod_two_pow]
  rfl

/-- what `Name.pack` does behind its scanning loop when the name was written in full: register the suffixes (if
    there is a map and the name is not the root), then the terminating zero octet -/
noncomputable def postG (n : Bytes) (tbl : GoSem.Map) (msg : Bytes) (off : Nat) : Res (Bytes × GoSem.Map × Nat) :=
  (if (!(GoSem.Map.isNil tbl) && decide (n.length > 0)) then
      GoSem.loop (Translated.Name_pack_loop2_step (((off : Nat) : Int) - ((n.length : Nat) : Int)) n n) (0, false, [], 0, tbl)
        >>= fun r => pure r.2.2.2.2
    else pure tbl) >>= fun tbl' =>
  Translated.packByte msg off 0 >>= fun w => pure (w.1, tbl', w.2)

/-- ONE iteration of the scanning loop at the end of the name -/
theorem step1_end (n msg0 : Bytes) (off0 : Nat) (tbl : GoSem.Map) (hn : n.length ≤ 254) (lbl : Bytes) (lo : Nat)
    (msg : Bytes) (off : Nat) :
    Translated.Name_pack_step n msg0 off0 tbl (n.length, false, lbl, lo, msg, off) =
      (postG n tbl msg off >>= fun r => .ok (.inr r)) := by
  unfold Translated.Name_pack_step postG
  simp only [Translated.NewNameScanner, scan_end n false lo hn, Res.bind_ok', Res.pure_eq, Bool.not_false, if_true,
    Translated.NameScanner_Err, Bool.false_eq_true, if_false, GoSem.len]
  split
  · simp only [Res.bind_assoc', Res.bind_ok']
  · simp only [Res.bind_assoc', Res.bind_ok']

/-- ONE iteration of the scanning loop at a bad label: the scanner's error -/
theorem step1_bad (pre : Bytes) (l : UInt8) (r msg0 : Bytes) (off0 : Nat) (tbl : GoSem.Map)
    (hn : (pre ++ l :: r).length ≤ 254) (hb : l.toNat = 0 ∨ l.toNat > 63 ∨ r.length < l.toNat) (lbl : Bytes) (lo : Nat)
    (msg : Bytes) (off : Nat) :
    Translated.Name_pack_step (pre ++ l :: r) msg0 off0 tbl (pre.length, false, lbl, lo, msg, off) = .err := by
  unfold Translated.Name_pack_step
  simp only [Translated.NewNameScanner, scan_bad pre l r false lo hn hb, Res.bind_ok', Res.pure_eq, Bool.not_false,
    if_true, Translated.NameScanner_Err, Res.bind_err']

/-- ONE iteration of the scanning loop on a name longer than 254 octets: `errNameTooLong` -/
theorem step1_long (n msg0 : Bytes) (off0 : Nat) (tbl : GoSem.Map) (hn : n.length > 254) (so : Nat) (lbl : Bytes)
    (lo : Nat) (msg : Bytes) (off : Nat) :
    Translated.Name_pack_step n msg0 off0 tbl (so, false, lbl, lo, msg, off) = .err := by
  unfold Translated.Name_pack_step
  simp only [Translated.NewNameScanner, scan_long n so false lo hn, Res.bind_ok', Res.pure_eq, Bool.not_false,
    if_true, Translated.NameScanner_Err, Res.bind_err']

/-- ONE iteration of the scanning loop at a good label: a pointer if the remaining suffix is in the table,
    otherwise the label -/
theorem step1_good (pre : Bytes) (l : UInt8) (r msg0 : Bytes) (off0 : Nat) (tbl : Option Table)
    (hn : (pre ++ l :: r).length ≤ 254) (hb : ¬ (l.toNat = 0 ∨ l.toNat > 63 ∨ r.length < l.toNat)) (lbl : Bytes)
    (lo : Nat) (msg : Bytes) (off : Nat) :
    Translated.Name_pack_step (pre ++ l :: r) msg0 off0 tbl (pre.length, false, lbl, lo, msg, off) =
      (match tbl.bind (·.find (l :: r)) with
       | some ptr =>
         writeAt msg off [UInt8.ofNat (Nat.lor (ptr / 256 % 256) 192), UInt8.ofNat (ptr % 256)] >>= fun w =>
           .ok (.inr (w.1, tbl, w.2))
       | none =>
         writeAt msg off ([l] ++ r.take l.toNat) >>= fun w =>
           .ok (.inl (pre.length + 1 + l.toNat, false, r.take l.toNat, pre.length + 1, w.1, w.2))) := by
  have hk : l.toNat ≤ r.length := by omega
  have hlen : (r.take l.toNat).length % 256 = l.toNat := by
    rw [List.length_take, Nat.min_eq_left hk]; exact Nat.mod_eq_of_lt (UInt8.toNat_lt l)
  have hl : UInt8.ofNat l.toNat = l := by simp
  have hmiss : (Translated.packByte msg off ((r.take l.toNat).length % 256) >>= fun x =>
        Translated.packBytes x.1 x.2 (r.take l.toNat) >>= fun y =>
          (.ok (.inl (pre.length + 1 + l.toNat, false, r.take l.toNat, pre.length + 1, y.1, y.2)) :
            Res ((Nat × Bool × Bytes × Nat × Bytes × Nat) ⊕ (Bytes × GoSem.Map × Nat)))) =
      (writeAt msg off ([l] ++ r.take l.toNat) >>= fun w =>
        .ok (.inl (pre.length + 1 + l.toNat, false, r.take l.toNat, pre.length + 1, w.1, w.2))) := by
    simp only [← packByte_translated, ← packBytes_translated, writeAt_append, hlen, hl, Res.bind_assoc']
  unfold Translated.Name_pack_step
  simp only [Translated.NewNameScanner, scan_ok pre l r false lo hn hb, Res.bind_ok', Res.pure_eq, Bool.not_true,
    Bool.false_eq_true, if_false, Translated.NameScanner_Label, Translated.NameScanner_LabelOff, GoSem.len]
  cases tbl with
  | none =>
    simp only [GoSem.Map.isNil, Option.isNone_none, Bool.not_true, Bool.false_eq_true, if_false, Option.bind_none]
    exact hmiss
  | some t =>
    have hnat : GoSem.natOfInt ((((pre.length + 1 : Nat)) : Int) - ((1 : Nat) : Int)) = .ok pre.length := by
      unfold GoSem.natOfInt
      have : (0 : Int) ≤ (((pre.length + 1 : Nat)) : Int) - ((1 : Nat) : Int) := by omega
      simp only [this, if_true]
      congr 1; omega
    have hsl : GoSem.sliceFrom (pre ++ l :: r) pre.length = .ok (l :: r) := by
      unfold GoSem.sliceFrom; simp
    simp only [GoSem.Map.isNil, Option.isNone_some, Bool.not_false, if_true, hnat, Res.bind_ok', hsl,
      GoSem.Map.lookup, Option.bind_some, Table_find_eq]
    obtain ⟨x, hx⟩ : ∃ x, GoSem.Map.find t (l :: r) = x := ⟨_, rfl⟩
    simp only [hx]
    cases x with
    | none =>
      simp only [Bool.false_eq_true, if_false]
      exact hmiss
    | some ptr =>
      simp only [if_true, ptr_hi]
      rw [← packNamePtr_translated _ _ _ rfl]

/-- the outcome of the scanning loop in terms of the model's `packNameLoop`: its octets are written; after a hit
    the function returns, otherwise the part behind the loop runs -/
noncomputable def fin1 (n : Bytes) (tbl : GoSem.Map) (msg : Bytes) (off : Nat) (r : Res (Bytes × Bool)) :
    Res (Bytes × GoSem.Map × Nat) :=
  match r with
  | .ok (bs, hit) => writeAt msg off bs >>= fun w => if hit then .ok (w.1, tbl, w.2) else postG n tbl w.1 w.2
  | .err => .err
  | .panic => .panic

theorem loop1_spec (n msg0 : Bytes) (off0 : Nat) (tbl : Option Table) (hn : n.length ≤ 254) :
    ∀ (fuel : Nat) (pre rest lbl : Bytes) (lo : Nat) (msg : Bytes) (off : Nat), n = pre ++ rest → rest.length ≤ fuel →
      off ≤ msg.length →
      GoSem.loop (Translated.Name_pack_step n msg0 off0 tbl) (pre.length, false, lbl, lo, msg, off) =
        fin1 n tbl msg off (packNameLoop fuel tbl rest []) := by
  have hend : ∀ (fuel : Nat) (lbl : Bytes) (lo : Nat) (msg : Bytes) (off : Nat), off ≤ msg.length →
      GoSem.loop (Translated.Name_pack_step n msg0 off0 tbl) (n.length, false, lbl, lo, msg, off) =
        fin1 n tbl msg off (packNameLoop fuel tbl [] []) := by
    intro fuel lbl lo msg off hoff
    have e : packNameLoop fuel tbl [] [] = .ok ([], false) := by cases fuel <;> rfl
    rw [GoSem.loop_unfold, step1_end n msg0 off0 tbl hn, e]
    simp only [fin1, writeAt_nil msg off hoff, Res.bind_ok', Bool.false_eq_true, if_false]
    cases postG n tbl msg off <;> rfl
  intro fuel
  induction fuel with
  | zero =>
    intro pre rest lbl lo msg off hnr hl hoff
    cases rest with
    | cons l r => simp at hl
    | nil =>
      simp only [List.append_nil] at hnr
      subst hnr
      exact hend 0 lbl lo msg off hoff
  | succ f ih =>
    intro pre rest lbl lo msg off hnr hl hoff
    cases rest with
    | nil =>
      simp only [List.append_nil] at hnr
      subst hnr
      exact hend (f + 1) lbl lo msg off hoff
    | cons l r =>
      subst hnr
      by_cases hb : l.toNat = 0 ∨ l.toNat > 63 ∨ r.length < l.toNat
      · rw [GoSem.loop_unfold, step1_bad pre l r msg0 off0 tbl hn hb]
        simp only [packNameLoop, hb, if_true, fin1]
      · have hk : l.toNat ≤ r.length := by omega
        rw [GoSem.loop_unfold, step1_good pre l r msg0 off0 tbl hn hb]
        simp only [packNameLoop, hb, if_false]
        cases hf : tbl.bind (·.find (l :: r)) with
        | some ptr =>
          simp only [fin1, List.nil_append, if_true]
          cases writeAt msg off [UInt8.ofNat (Nat.lor (ptr / 256 % 256) 192), UInt8.ofNat (ptr % 256)] <;> rfl
        | none =>
          simp only
          rw [pnl_acc]
          have hpre' : (pre ++ l :: r.take l.toNat).length = pre.length + 1 + l.toNat := by
            simp [List.length_take, Nat.min_eq_left hk]; omega
          have hsplit : pre ++ l :: r = (pre ++ l :: r.take l.toNat) ++ r.drop l.toNat := by simp
          have hl' : (r.drop l.toNat).length ≤ f := by simp at hl ⊢; omega
          cases hw : writeAt msg off ([l] ++ r.take l.toNat) with
          | panic => exact absurd hw (by unfold writeAt; split <;> simp)
          | err =>
            simp only [Res.bind_err']
            cases hp : packNameLoop f tbl (r.drop l.toNat) [] with
            | panic => exact absurd hp (pnl_ne_panic _ _ _ _)
            | err => rfl
            | ok x =>
              obtain ⟨bs', hit⟩ := x
              simp only [fin1, List.nil_append, writeAt_append, hw, Res.bind_err']
          | ok w =>
            obtain ⟨m', o'⟩ := w
            obtain ⟨hlen, ho, _⟩ := writeAt_ok_length _ _ _ _ _ hw
            simp only [Res.bind_ok']
            have hih := ih (pre ++ l :: r.take l.toNat) (r.drop l.toNat) (r.take l.toNat) (pre.length + 1) m' o' hsplit hl'
              (by omega)
            rw [hpre'] at hih
            rw [hih]
            cases hp : packNameLoop f tbl (r.drop l.toNat) [] with
            | panic => rfl
            | err => rfl
            | ok x =>
              obtain ⟨bs', hit⟩ := x
              simp only [fin1, List.nil_append, writeAt_append, hw, Res.bind_ok']

theorem writeAt_err_of_gt (b : Bytes) (off : Nat) (bs : Bytes) (h : off > b.length) : writeAt b off bs = .err := by
  unfold writeAt
  have : ¬ off + bs.length ≤ b.length := by omega
  simp only [this, if_false]

theorem Name_pack_init_eq (n msg : Bytes) (off : Nat) (tbl : GoSem.Map) :
    Translated.Name_pack_init n msg off tbl = .ok (0, false, [], 0, msg, off) := by
  unfold Translated.Name_pack_init
  simp only [Translated.NewNameScanner, Res.bind_ok', Res.pure_eq]

/-- the part of `Name.pack` behind the scanning loop, for a name that was written in full at `off`: the model's
    `registerSuffixes` and the terminator -/
theorem postG_spec (n : Bytes) (off : Nat) (tbl : Option Table) (hn : n.length ≤ 254) (hv : ValidL n.length n)
    (m : Bytes) :
    postG n tbl m (off + n.length) =
      (writeAt m (off + n.length) [0] >>= fun w =>
        .ok (w.1, (match tbl with | some t => some (registerSuffixes n.length t off n) | none => none), w.2)) := by
  unfold postG
  rw [← packByte_translated]
  cases tbl with
  | none =>
    simp only [GoSem.Map.isNil, Option.isNone_none, Bool.not_true, Bool.false_and, Bool.false_eq_true, if_false,
      Res.pure_eq, Res.bind_ok']
    rfl
  | some t =>
    by_cases h0 : n.length > 0
    · have e : (((off + n.length : Nat)) : Int) - ((n.length : Nat) : Int) = ((off : Nat) : Int) := by omega
      obtain ⟨a, b, c, d, h⟩ := loop2_spec n off hn n.length [] n t [] 0 rfl hv
      simp only [List.length_nil, Nat.add_zero] at h
      simp only [GoSem.Map.isNil, Option.isNone_some, Bool.not_false, Bool.true_and, h0, decide_true, if_true, e, h,
        Res.bind_ok', Res.pure_eq]
      rfl
    · have hz : n = [] := by
        cases n with
        | nil => rfl
        | cons a b => simp at h0
      subst hz
      simp only [GoSem.Map.isNil, Option.isNone_some, Bool.not_false, Bool.true_and, List.length_nil, Nat.lt_irrefl,
        decide_false, Bool.false_eq_true, if_false, Res.pure_eq, Res.bind_ok', registerSuffixes]
      rfl

theorem packName_ne_panic (off : Nat) (tbl : Option Table) (n : Name) : packName off tbl n ≠ .panic := by
  unfold packName
  split
  · simp
  · cases hp : packNameLoop n.length tbl n [] with
    | panic => exact absurd hp (pnl_ne_panic _ _ _ _)
    | err => simp
    | ok x => obtain ⟨bs, hit⟩ := x; cases hit <;> simp

/-- ★ `Name.pack`: the model's `packName` (scanner errors, table lookup of every remaining suffix, pointer on a hit,
    registration of the suffixes below the 14-bit bound, terminator), written into the buffer, IS the function
    regenerated from the Go source — for all names, buffers, offsets and compression maps (nil or not). -/
theorem Name_pack_translated : NamePackTied := by
  intro n msg off tbl
  unfold packNameBuf Translated.Name_pack
  rw [Name_pack_init_eq]
  simp only [Res.bind_ok']
  by_cases hlong : n.length > 254
  · rw [GoSem.loop_unfold, step1_long n msg off tbl hlong]
    simp only [packName, hlong, if_true, writeRes]
  · have hn : n.length ≤ 254 := by omega
    by_cases hoff : off ≤ msg.length
    · unfold packName
      simp only [hlong, if_false]
      have h1 := loop1_spec n msg off tbl hn n.length [] n [] 0 msg off rfl (Nat.le_refl _) hoff
      simp only [List.length_nil] at h1
      rw [h1]
      cases hp : packNameLoop n.length tbl n [] with
      | err => rfl
      | panic => rfl
      | ok x =>
        obtain ⟨bs, hit⟩ := x
        cases hit with
        | true =>
          simp only [fin1, if_true, writeRes_ok]
        | false =>
          obtain ⟨e, hv⟩ := pnl_nohit _ _ _ _ hp
          subst e
          simp only [fin1, Bool.false_eq_true, if_false, writeRes_ok, writeAt_append, Res.bind_assoc']
          cases hw : writeAt msg off bs with
          | err => rfl
          | panic => rfl
          | ok w =>
            obtain ⟨m', o'⟩ := w
            obtain ⟨_, ho, _⟩ := writeAt_ok_length _ _ _ _ _ hw
            subst ho
            simp only [Res.bind_ok']
            rw [postG_spec bs off tbl hn hv m']
            cases tbl <;> rfl
    · -- behind the end of the buffer nothing fits: ErrSmallBuffer (or the scanner's error) on both sides
      have hgt : off > msg.length := by omega
      have hmodel : writeRes msg off (packName off tbl n) = .err := by
        cases hx : packName off tbl n with
        | panic => exact absurd hx (packName_ne_panic _ _ _)
        | err => rfl
        | ok y => simp only [writeRes, writeAt_err_of_gt _ _ _ hgt]
      rw [hmodel, GoSem.loop_unfold]
      cases n with
      | nil =>
        rw [show (0 : Nat) = ([] : Bytes).length from rfl, step1_end [] msg off tbl hn]
        unfold postG
        rw [← packByte_translated, writeAt_err_of_gt _ _ _ hgt]
        simp only [List.length_nil, Nat.lt_irrefl, decide_false, Bool.and_false, Bool.false_eq_true, if_false,
          Res.pure_eq, Res.bind_ok', Res.bind_err']
      | cons l r =>
        by_cases hb : l.toNat = 0 ∨ l.toNat > 63 ∨ r.length < l.toNat
        · have := step1_bad [] l r msg off tbl hn hb [] 0 msg off
          simp only [List.nil_append, List.length_nil] at this
          rw [this]
        · have := step1_good [] l r msg off tbl hn hb [] 0 msg off
          simp only [List.nil_append, List.length_nil] at this
          rw [this]
          cases tbl.bind (·.find (l :: r)) <;> simp only [writeAt_err_of_gt _ _ _ hgt, Res.bind_err']

/-! ### the packers of question.go / rr.go, unconditionally -/

/-- `Question.pack` -/
theorem Question_pack_tied (msg : Bytes) (off : Nat) (tbl : Option Table) (q : Question) :
    packQuestionBuf msg off tbl q = Translated.Question_pack q.name q.qtype q.qclass msg off tbl :=
  Question_pack_translated Name_pack_translated msg off tbl q

/-- `ResourceHdr.pack` -/
theorem ResourceHdr_pack_tied (name : Name) (ty cls ttl : Nat) (msg : Bytes) (off : Nat) (tbl : Option Table) (dl : Nat) :
    Translated.ResourceHdr_pack name ty cls ttl msg off tbl dl =
      writeRes msg off ((packName off tbl name) >>= fun r =>
        .ok (r.1 ++ enc16 ty ++ enc16 cls ++ enc32 ttl ++ enc16 dl, r.2)) :=
  ResourceHdr_pack_eq Name_pack_translated name ty cls ttl msg off tbl dl

/-- `A.pack` -/
theorem A_pack_tied (msg : Bytes) (off : Nat) (tbl : Option Table) (name : Name) (ty cls ttl : Nat) (b : Bytes)
    (hb : b.length = 4) :
    packResourceBuf msg off tbl ⟨name, ty, cls, ttl, .a b⟩ = Translated.A_pack name ty cls ttl b msg off tbl :=
  A_pack_translated Name_pack_translated msg off tbl name ty cls ttl b hb

/-- `AAAA.pack` -/
theorem AAAA_pack_tied (msg : Bytes) (off : Nat) (tbl : Option Table) (name : Name) (ty cls ttl : Nat) (b : Bytes)
    (hb : b.length = 16) :
    packResourceBuf msg off tbl ⟨name, ty, cls, ttl, .aaaa b⟩ = Translated.AAAA_pack name ty cls ttl b msg off tbl :=
  AAAA_pack_translated Name_pack_translated msg off tbl name ty cls ttl b hb

/-- `RawResource.pack` -/
theorem Raw_pack_tied (msg : Bytes) (off : Nat) (tbl : Option Table) (name : Name) (ty cls ttl : Nat) (d : Bytes) :
    packResourceBuf msg off tbl ⟨name, ty, cls, ttl, .raw d⟩ = Translated.RawResource_pack name ty cls ttl d msg off tbl :=
  Raw_pack_translated Name_pack_translated msg off tbl name ty cls ttl d

end MosVerif.Wire
